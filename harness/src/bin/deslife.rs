//! C11 (last sentence: "the stateless checks that run on a decoded value before it touches chain state …
//! return errors instead of panicking"): decoded PIBD segments handed to a real `Desegmenter` in EVERY
//! state of its life cycle.
//!
//! A source chain is built with the chain kit, its `Segmenter` produces the genuine segments; a fresh
//! node syncs the headers and creates a `Desegmenter` (`Chain::desegmenter`), which is then walked through
//!
//!   fresh  →  some bitmap segments cached  →  some applied  →  ALL bitmap segments applied but the bitmap
//!   not yet finalised (between the `apply_next_segments` tick that applies the last bitmap segment and
//!   the tick that runs `finalize_bitmap` / builds `bitmap_cache`)  →  finalised  →  outputs / rangeproofs /
//!   kernels partly applied  →  complete
//!
//! and, separately, desegmenters for archive headers with ZERO outputs (a header claiming
//! `output_mmr_size = 0`) and for the genesis header (a chain shorter than the sync threshold).
//! In each state every `add_bitmap_segment` / `add_output_segment` / `add_rangeproof_segment` /
//! `add_kernel_segment` is called — on a CLONE of the desegmenter, so the state under test is not
//! disturbed — with genuine segments (asked for or not, already applied or far ahead), genuine segments
//! of another height, and garbage-but-decodable segments (genuine ones re-encoded, mutated and decoded
//! again; for the bitmap tree through `BitmapSegment::read` + `into_segment`).  The walk itself
//! (`apply_next_segments`, `next_desired_segments`, `check_update_leaf_set_state`) runs under
//! `catch_unwind` as well.
//!
//! Oracle (`#ORACLE-FAIL C11 desegmenter-…`): a call panics or does not return within 20 s (watchdog); a
//! segment of another height is answered with anything but `InvalidSegmentHeight`.  (A mutated segment can
//! legitimately be accepted when only redundant data changed — the final root check is C16's matter.)  No model lines (the
//! desegmenter model belongs to C16): every call's outcome class is counted in `#STAT` lines.
use grin_chain::pibd_params::verif_hooks::set_segment_heights;
use grin_chain::txhashset::{BitmapChunk, BitmapSegment, Desegmenter, Segmenter};
use grin_core::core::hash::{Hash, Hashed};
use grin_core::core::pmmr;
use grin_core::core::pmmr::segment::{Segment, SegmentIdentifier};
use grin_core::core::{BlockHeader, OutputIdentifier, TxKernel};
use grin_core::ser::{self, DeserializationMode, ProtocolVersion, Readable, Writeable};
use grin_util::secp::pedersen::RangeProof;
use gvharness::chainkit::{error_class, KSpec, Kit, Subject, TxSpec};
use gvharness::*;
use std::collections::BTreeMap;
use std::panic::AssertUnwindSafe;
use std::sync::Arc;
use std::time::Instant;

const TREE: [&str; 4] = ["bitmap", "output", "rangeproof", "kernel"];

static HEARTBEAT: std::sync::atomic::AtomicU64 = std::sync::atomic::AtomicU64::new(0);
static CURRENT: std::sync::Mutex<String> = std::sync::Mutex::new(String::new());

/// the call in flight, for the watchdog
fn note_call(desc: String) {
	*CURRENT.lock().unwrap() = desc;
	HEARTBEAT.fetch_add(1, std::sync::atomic::Ordering::SeqCst);
}

fn seg_hex(s: &Seg) -> String {
	match s {
		Seg::Bitmap(seg, r) => format!("BitmapSegment {} output_root {}", hex(&sv(&BitmapSegment::from(seg.clone()))), hex(r.as_bytes())),
		Seg::Output(seg, r) => format!("Segment<OutputIdentifier> {} bitmap_root {}", hex(&sv(seg)), hex(r.as_bytes())),
		Seg::Range(seg) => format!("Segment<RangeProof> {}", hex(&sv(seg))),
		Seg::Kernel(seg) => format!("Segment<TxKernel> {}", hex(&sv(seg))),
	}
}

struct Cx {
	out: Out,
	rng: Rng,
	thorough: bool,
	stats: BTreeMap<String, u64>,
	fails: u64,
	calls: u64,
}
impl Cx {
	fn inc(&mut self, k: &str) {
		*self.stats.entry(k.to_string()).or_insert(0) += 1;
	}
}

/// a chain of `n` blocks: "small" = 0-2 small transactions per block, "big" = one 1-3-input 9-output
/// transaction per block (more than 1024 outputs after ~120 blocks: two bitmap chunks)
fn build_trunk(kit: &mut Kit, rng: &mut Rng, n_trunk: u64, style: &str) -> Vec<usize> {
	let mut tip = 0usize;
	let mut trunk = vec![0usize];
	let mut spendable: Vec<(usize, u64)> = vec![(0, 0)];
	for h in 1..=n_trunk {
		note_call(format!("harness: building block {} of the source chain", h));
		let mut specs = vec![];
		let cands = |spendable: &Vec<(usize, u64)>, kit: &Kit| -> Vec<usize> {
			spendable
				.iter()
				.enumerate()
				.filter(|(_, (o, c))| (!kit.outs[*o].coinbase || h >= *c + 3) && kit.outs[*o].value > 5000)
				.map(|(i, _)| i)
				.collect()
		};
		if h >= 4 && style == "small" {
			for _ in 0..rng.range(0, 2) {
				let cs = cands(&spendable, kit);
				if cs.is_empty() {
					break;
				}
				let pick = *rng.pick(&cs);
				let (o, _) = spendable.remove(pick);
				let v = kit.outs[o].value;
				let a = rng.range(1, v / 2);
				specs.push(TxSpec { inputs: vec![o], outputs: vec![(a, None), (v - a - 200, None)], kernel: KSpec::Plain(200) });
			}
		}
		if h >= 4 && style == "big" {
			let n_out = 9u64;
			let n_in = rng.range(1, 3) as usize;
			let mut ins = vec![];
			let mut total = 0u64;
			for k in 0..n_in {
				let cs = cands(&spendable, kit);
				if cs.is_empty() {
					break;
				}
				let pick = if k > 0 && rng.chance(1, 2) { cs[0] } else { *rng.pick(&cs) };
				let (o, _) = spendable.remove(pick);
				total += kit.outs[o].value;
				ins.push(o);
			}
			if !ins.is_empty() {
				let fee = 300u64;
				let each = (total - fee) / n_out;
				let mut outs: Vec<(u64, Option<usize>)> = (0..n_out - 1).map(|_| (each, None)).collect();
				outs.push((total - fee - each * (n_out - 1), None));
				specs.push(TxSpec { inputs: ins, outputs: outs, kernel: KSpec::Plain(fee) });
			}
		}
		let before = kit.outs.len();
		if let Ok(id) = kit.new_block(tip, 2, &specs) {
			tip = id;
			trunk.push(id);
			for o in before..kit.outs.len() {
				spendable.push((o, h));
			}
		}
	}
	trunk
}

/// one segment to hand over, of any tree
#[derive(Clone)]
enum Seg {
	Bitmap(Segment<BitmapChunk>, Hash),
	Output(Segment<OutputIdentifier>, Hash),
	Range(Segment<RangeProof>),
	Kernel(Segment<TxKernel>),
}
impl Seg {
	fn tree(&self) -> usize {
		match self {
			Seg::Bitmap(..) => 0,
			Seg::Output(..) => 1,
			Seg::Range(..) => 2,
			Seg::Kernel(..) => 3,
		}
	}
	fn id(&self) -> SegmentIdentifier {
		match self {
			Seg::Bitmap(s, _) => s.identifier(),
			Seg::Output(s, _) => s.identifier(),
			Seg::Range(s) => s.identifier(),
			Seg::Kernel(s) => s.identifier(),
		}
	}
}

fn fetch(sg: &Segmenter, t: usize, id: SegmentIdentifier) -> Option<Seg> {
	match t {
		0 => sg.bitmap_segment(id).ok().map(|(s, r)| Seg::Bitmap(s, r)),
		1 => sg.output_segment(id).ok().map(|(s, r)| Seg::Output(s, r)),
		2 => sg.rangeproof_segment(id).ok().map(Seg::Range),
		_ => sg.kernel_segment(id).ok().map(Seg::Kernel),
	}
}

fn add(d: &mut Desegmenter, s: Seg) -> Result<(), grin_chain::Error> {
	match s {
		Seg::Bitmap(s, r) => d.add_bitmap_segment(s, r),
		Seg::Output(s, r) => d.add_output_segment(s, Some(r)),
		Seg::Range(s) => d.add_rangeproof_segment(s),
		Seg::Kernel(s) => d.add_kernel_segment(s),
	}
}

fn sv<T: Writeable>(v: &T) -> Vec<u8> {
	ser::ser_vec(v, ProtocolVersion(1)).unwrap()
}

fn de<T: Readable>(b: &[u8]) -> Option<T> {
	catch(AssertUnwindSafe(|| ser::deserialize::<T, _>(&mut &b[..], ProtocolVersion(1), DeserializationMode::default()).ok())).ok().flatten()
}

/// garbage-but-decodable variants of a genuine segment: its encoding with a few bytes changed (hashes,
/// positions, counts, leaf data, identifier), decoded again; only those that decode and differ are kept
fn garbage_of(rng: &mut Rng, s: &Seg, n: usize) -> Vec<Seg> {
	let mut out = vec![];
	let bytes: Vec<u8> = match s {
		Seg::Bitmap(seg, _) => sv(&BitmapSegment::from(seg.clone())),
		Seg::Output(seg, _) => sv(seg),
		Seg::Range(seg) => sv(seg),
		Seg::Kernel(seg) => sv(seg),
	};
	let mut tries = 0;
	while out.len() < n && tries < 40 * n {
		tries += 1;
		let mut b = bytes.clone();
		match rng.below(6) {
			0 => {
				// identifier: another index (same height)
				let i = 1 + rng.below(8) as usize;
				b[i] ^= 1 << rng.below(3);
			}
			1 => {
				// a byte somewhere in the second half (leaf data / proof hashes)
				let i = b.len() / 2 + rng.below((b.len() / 2) as u64) as usize;
				b[i] ^= 0x40;
			}
			2 => {
				// drop the last 32 bytes (one proof hash) and lower nothing else: count mismatch or shorter proof
				if b.len() > 40 {
					let l = b.len();
					b.truncate(l - 32);
				}
			}
			3 => {
				// one of the low bytes of the u64 fields near the start (counts / positions)
				let i = 9 + 7 + 8 * rng.below(4) as usize;
				if i < b.len() {
					b[i] = b[i].wrapping_add(1 + rng.below(3) as u8);
				}
			}
			4 => {
				// a random byte anywhere
				let i = rng.below(b.len() as u64) as usize;
				b[i] = rng.next() as u8;
			}
			_ => {
				// swap two 32-byte windows
				if b.len() > 120 {
					let i = 20 + rng.below((b.len() - 100) as u64) as usize;
					for k in 0..32 {
						b.swap(i + k, i + 32 + k);
					}
				}
			}
		}
		if b == bytes {
			continue;
		}
		let g: Option<Seg> = match s {
			Seg::Bitmap(_, r) => de::<BitmapSegment>(&b).and_then(|bs| catch(AssertUnwindSafe(|| bs.into_segment().ok())).ok().flatten()).map(|x| Seg::Bitmap(x, *r)),
			Seg::Output(_, r) => de::<Segment<OutputIdentifier>>(&b).map(|x| Seg::Output(x, *r)),
			Seg::Range(_) => de::<Segment<RangeProof>>(&b).map(Seg::Range),
			Seg::Kernel(_) => de::<Segment<TxKernel>>(&b).map(Seg::Kernel),
		};
		if let Some(g) = g {
			out.push(g);
		}
	}
	// plus the genuine segment with a wrong "other root" (bitmap / output trees)
	match s {
		Seg::Bitmap(seg, _) => out.push(Seg::Bitmap(seg.clone(), Hash::from_vec(&rng.bytes(32)))),
		Seg::Output(seg, _) => out.push(Seg::Output(seg.clone(), Hash::from_vec(&rng.bytes(32)))),
		_ => {}
	}
	out
}

struct Probe {
	kind: &'static str,
	seg: Seg,
}

/// everything that is handed over in each state
fn build_probes(cx: &mut Cx, sg: &Segmenter, heights: [u8; 4], totals: [u64; 4]) -> Vec<Probe> {
	let mut v = vec![];
	for t in 0..4 {
		// genuine, at the desegmenter's height: first, second, middle, last
		let mut idxs = vec![0u64, 1, totals[t] / 2, totals[t].saturating_sub(1)];
		idxs.sort_unstable();
		idxs.dedup();
		for idx in idxs {
			if idx >= totals[t] {
				continue;
			}
			if let Some(s) = fetch(sg, t, SegmentIdentifier { height: heights[t], idx }) {
				let n_garb = if cx.thorough { 6 } else { 3 };
				for g in garbage_of(&mut cx.rng, &s, n_garb) {
					v.push(Probe { kind: "garbage", seg: g });
				}
				v.push(Probe { kind: "genuine", seg: s });
			}
		}
		// genuine segments of another height
		for h in [heights[t].wrapping_sub(1), heights[t] + 1, heights[t] + 3, [9u8, 11, 11, 11][t]] {
			if h == heights[t] || h > 20 {
				continue;
			}
			if let Some(s) = fetch(sg, t, SegmentIdentifier { height: h, idx: 0 }) {
				v.push(Probe { kind: "other-height", seg: s });
			}
		}
	}
	v
}

fn class(r: &Result<(), grin_chain::Error>) -> String {
	match r {
		Ok(()) => "Ok".to_string(),
		Err(e) => format!("Err:{}", error_class(e)),
	}
}

/// hand every probe to a clone of the desegmenter in its present state
fn probe_state(cx: &mut Cx, d: &Desegmenter, state: &str, probes: &[Probe], scen: &str) {
	cx.out.flush();
	for p in probes {
		let mut c = d.clone();
		let s = p.seg.clone();
		let t = p.seg.tree();
		let id = p.seg.id();
		cx.calls += 1;
		note_call(format!("state=[{}] add_{}_segment with a {} segment (height {}, idx {}) (scenario {}): {}", state, TREE[t], p.kind, id.height, id.idx, scen, seg_hex(&p.seg).chars().take(3000).collect::<String>()));
		let r = catch(AssertUnwindSafe(move || add(&mut c, s)));
		match r {
			Err(msg) => {
				cx.fails += 1;
				cx.out.raw(&format!(
					"#ORACLE-FAIL C11 desegmenter-add-segment-panics state=[{}] add_{}_segment with a {} segment (height {}, idx {}) panicked: {} (scenario {})",
					state, TREE[t], p.kind, id.height, id.idx, msg.replace('\n', " "), scen
				));
				cx.inc(&format!("{} | add_{} {} -> PANIC", state, TREE[t], p.kind));
			}
			Ok(res) => {
				let cl = class(&res);
				cx.inc(&format!("{} | add_{} {} -> {}", state, TREE[t], p.kind, cl));
				if p.kind == "other-height" && cl != "Err:InvalidSegmentHeight" {
					cx.fails += 1;
					cx.out.raw(&format!(
						"#ORACLE-FAIL C11 desegmenter-foreign-height state=[{}] add_{}_segment answered {} to a segment of height {} (scenario {})",
						state, TREE[t], cl, id.height, scen
					));
				}
			}
		}
	}
}

/// one step of the walk itself, under catch_unwind
fn step<R, F: FnOnce() -> R>(cx: &mut Cx, what: &str, state: &str, scen: &str, f: F) -> Option<R> {
	cx.calls += 1;
	note_call(format!("state=[{}] {} (scenario {})", state, what, scen));
	match catch(AssertUnwindSafe(f)) {
		Ok(r) => Some(r),
		Err(msg) => {
			cx.fails += 1;
			cx.out.raw(&format!("#ORACLE-FAIL C11 desegmenter-walk-panics state=[{}] {} panicked: {} (scenario {})", state, what, msg.replace('\n', " "), scen));
			None
		}
	}
}

fn life_cycle(cx: &mut Cx, work: &str, name: &str, n_trunk: u64, style: &str, hs: (u8, u8, u8, u8)) -> Option<(Kit, Vec<BlockHeader>, Vec<Probe>, BlockHeader)> {
	let t0 = Instant::now();
	let mut kit = Kit::new(&format!("{}/src_{}", work, name));
	let mut rng2 = Rng::new(cx.rng.next());
	let trunk = build_trunk(&mut kit, &mut rng2, n_trunk, style);
	let src = kit.builder();
	let archive = match src.txhashset_archive_header() {
		Ok(a) if a.height > 0 => a,
		_ => {
			cx.out.raw(&format!("#STAT deslife {}: no archive header above genesis, scenario skipped", name));
			return None;
		}
	};
	let n_out = pmmr::n_leaves(archive.output_mmr_size);
	let n_ker = pmmr::n_leaves(archive.kernel_mmr_size);
	let n_chunks = (n_out + 1023) / 1024;
	let segmenter = src.segmenter().unwrap();
	let dest = Subject::new(&format!("{}/dst_{}", work, name), &kit.genesis);
	let headers: Vec<BlockHeader> = trunk[1..].iter().map(|i| kit.blks[*i].block.header.clone()).collect();
	note_call("harness: header sync of the receiving node".to_string());
	let r = dest.sync_headers(&headers);
	note_call("harness: building probes".to_string());
	if r != "ok" {
		cx.out.raw(&format!("#STAT deslife {}: header sync failed ({}), scenario skipped", name, r));
		return None;
	}
	let ah = dest.c().txhashset_archive_header_header_only().unwrap();
	let heights = [hs.0, hs.1, hs.2, hs.3];
	let leaves = [n_chunks, n_out, n_out, n_ker];
	let totals: [u64; 4] = [0, 1, 2, 3].map(|i| (leaves[i] + (1u64 << heights[i]) - 1) >> heights[i]);
	let scen = format!("{} blocks={} style={} archive height {} outputs {} kernels {} bitmap chunks {} heights {:?} segments per tree {:?}", name, n_trunk, style, archive.height, n_out, n_ker, n_chunks, heights, totals);
	set_segment_heights(Some(hs));
	let deseg = dest.c().desegmenter(&ah).unwrap();
	set_segment_heights(None);
	let mut d: Desegmenter = deseg.read().as_ref().unwrap().clone();
	let probes = build_probes(cx, &segmenter, heights, totals);
	cx.out.raw(&format!("#STAT deslife scenario {}: {} probes per state (built in {} ms)", scen, probes.len(), t0.elapsed().as_millis()));
	for p in &probes {
		cx.inc(&format!("probes: {} {}", TREE[p.seg.tree()], p.kind));
	}

	// ---- fresh
	probe_state(cx, &d, "fresh", &probes, &scen);
	let _ = step(cx, "next_desired_segments", "fresh", &scen, || d.clone().next_desired_segments(10));

	// ---- bitmap segments: cache one, probe; apply it, probe; cache the rest, apply all but keep the tick count
	let n_bm = totals[0];
	let mut applied_ticks = 0u64;
	for idx in 0..n_bm {
		if let Some(s) = fetch(&segmenter, 0, SegmentIdentifier { height: heights[0], idx }) {
			let r = step(cx, "add_bitmap_segment (genuine)", "walk", &scen, || add(&mut d, s));
			if let Some(Err(e)) = r {
				cx.fails += 1;
				cx.out.raw(&format!("#ORACLE-FAIL C11 desegmenter-walk genuine bitmap segment {} refused: {} (scenario {})", idx, error_class(&e), scen));
			}
		}
		if idx == 0 && n_bm > 1 {
			probe_state(cx, &d, "some bitmap segments cached, none applied", &probes, &scen);
		}
		if idx + 1 < n_bm && idx % 2 == 0 {
			// apply what is there: one segment per tick
			let _ = step(cx, "apply_next_segments", "bitmap segments partly applied", &scen, || d.apply_next_segments());
			applied_ticks += 1;
			if idx == 0 {
				probe_state(cx, &d, "some bitmap segments applied", &probes, &scen);
			}
		}
	}
	// ticks until every bitmap segment is applied: each tick applies ONE cached segment; the tick after the
	// last one finalises the bitmap.  Stop right before it.
	while applied_ticks < n_bm {
		let _ = step(cx, "apply_next_segments", "bitmap segments partly applied", &scen, || d.apply_next_segments());
		applied_ticks += 1;
	}
	// is the bitmap MMR complete and the cache not yet built?  (a further bitmap segment is no longer asked for)
	let wants_bitmap = step(cx, "next_desired_segments", "all bitmap applied", &scen, || {
		d.clone().next_desired_segments(50).iter().any(|s| s.segment_type == grin_core::core::pmmr::segment::SegmentType::Bitmap)
	})
	.unwrap_or(true);
	if wants_bitmap {
		cx.out.raw(&format!("#STAT deslife {}: after {} ticks the desegmenter still asks for bitmap segments: the not-yet-finalised state was NOT reached", name, applied_ticks));
		cx.inc("state ALL-APPLIED-NOT-FINALISED not reached");
	} else {
		cx.inc("state ALL-APPLIED-NOT-FINALISED reached");
	}
	probe_state(cx, &d, "ALL bitmap segments applied, bitmap NOT finalised", &probes, &scen);
	let _ = step(cx, "check_update_leaf_set_state", "ALL bitmap segments applied, bitmap NOT finalised", &scen, || d.check_update_leaf_set_state().is_ok());

	// ---- the finalising tick
	let _ = step(cx, "apply_next_segments (finalize_bitmap)", "finalising", &scen, || d.apply_next_segments());
	probe_state(cx, &d, "bitmap finalised", &probes, &scen);

	// ---- the other trees: deliver what is asked for, tick, probe at a few points
	let mut rounds = 0;
	let mut probed_mid = false;
	loop {
		rounds += 1;
		let wanted = step(cx, "next_desired_segments", "body", &scen, || d.next_desired_segments(8)).unwrap_or_default();
		if wanted.is_empty() || rounds > 400 {
			break;
		}
		for w in wanted {
			let t = match w.segment_type {
				grin_core::core::pmmr::segment::SegmentType::Bitmap => 0,
				grin_core::core::pmmr::segment::SegmentType::Output => 1,
				grin_core::core::pmmr::segment::SegmentType::RangeProof => 2,
				grin_core::core::pmmr::segment::SegmentType::Kernel => 3,
			};
			if let Some(s) = fetch(&segmenter, t, w.identifier) {
				let _ = step(cx, "add_*_segment (genuine, asked for)", "body", &scen, || add(&mut d, s));
			}
		}
		let _ = step(cx, "apply_next_segments", "body", &scen, || d.apply_next_segments());
		if rounds == 2 && !probed_mid {
			probed_mid = true;
			probe_state(cx, &d, "outputs / rangeproofs / kernels partly applied", &probes, &scen);
		}
	}
	let complete = step(cx, "next_desired_segments", "end", &scen, || d.next_desired_segments(8).is_empty()).unwrap_or(false);
	cx.inc(if complete { "walks that reached the complete state" } else { "walks that did NOT reach the complete state" });
	probe_state(cx, &d, "complete (nothing more desired)", &probes, &scen);
	let _ = step(cx, "check_update_leaf_set_state", "complete", &scen, || d.check_update_leaf_set_state().is_ok());

	// ---- reset, probe again (fresh caches over a filled txhashset)
	let _ = step(cx, "reset", "complete", &scen, || d.reset());
	probe_state(cx, &d, "after reset (txhashset already filled)", &probes, &scen);

	cx.out.raw(&format!("#STAT deslife scenario {} done in {} ms", name, t0.elapsed().as_millis()));
	let _ = Arc::strong_count(&deseg);
	drop(segmenter);
	Some((kit, headers, probes, ah))
}

/// the bitmap phase with SEVERAL bitmap segments without paying for a chain of more than 1024 outputs:
/// an archive header (of the synced header chain) whose `output_mmr_size` / `output_root` are those of a
/// bitmap accumulator built here over `n_out` outputs (3 chunks at segment height 0 = 3 bitmap segments).
/// The bitmap segments are genuine for that header; the other trees get the segments of the real chain.
fn fabricated_bitmap_life(cx: &mut Cx, work: &str, kit: &Kit, headers: &[BlockHeader], foreign: &[Probe], ah: &BlockHeader, n_out: u64, hs: (u8, u8, u8, u8)) {
	use grin_chain::txhashset::BitmapAccumulator;
	use grin_core::ser::PMMRIndexHashable;
	let t0 = Instant::now();
	let mut unspent: Vec<u64> = (0..n_out).filter(|_| cx.rng.chance(2, 5)).collect();
	if unspent.last() != Some(&(n_out - 1)) {
		unspent.push(n_out - 1);
	}
	let mut acc = BitmapAccumulator::new();
	acc.init(unspent.iter().cloned(), n_out).unwrap();
	let bitmap_root = acc.root();
	let output_pmmr_root = Hash::from_vec(&cx.rng.bytes(32));
	let out_size = pmmr::insertion_to_pmmr_index(n_out);
	let mut hdr = ah.clone();
	hdr.output_mmr_size = out_size;
	hdr.output_root = (output_pmmr_root, bitmap_root).hash_with_index(out_size);
	let n_chunks = (n_out + 1023) / 1024;
	let n_bm = (n_chunks + (1u64 << hs.0) - 1) >> hs.0;
	let scen = format!("fabricated bitmap: {} outputs, {} chunks, {} bitmap segments of height {}", n_out, n_chunks, n_bm, hs.0);
	let dest = Subject::new(&format!("{}/dst_fab_{}", work, n_out), &kit.genesis);
	let _ = dest.sync_headers(headers);
	set_segment_heights(Some(hs));
	let made = dest.c().desegmenter(&hdr).ok().and_then(|a| a.read().as_ref().cloned());
	set_segment_heights(None);
	let mut d = match made {
		Some(d) => d,
		None => return,
	};
	let mmr = acc.readonly_pmmr();
	let bm_seg = |h: u8, idx: u64| -> Option<Seg> { Segment::<BitmapChunk>::from_pmmr(SegmentIdentifier { height: h, idx }, &mmr, false).ok().map(|s| Seg::Bitmap(s, output_pmmr_root)) };
	// probes: bitmap segments genuine for THIS header (+ garbage of them, other heights), the real chain's segments for the other trees
	let mut probes: Vec<Probe> = vec![];
	for idx in 0..n_bm {
		if let Some(s) = bm_seg(hs.0, idx) {
			for g in garbage_of(&mut cx.rng, &s, 3) {
				probes.push(Probe { kind: "garbage", seg: g });
			}
			probes.push(Probe { kind: "genuine", seg: s });
		}
	}
	for h in [hs.0 + 1, hs.0 + 2, 9] {
		if let Some(s) = bm_seg(h, 0) {
			probes.push(Probe { kind: "other-height", seg: s });
		}
	}
	for p in foreign {
		if p.seg.tree() != 0 && p.kind != "other-height" {
			probes.push(Probe { kind: "foreign", seg: p.seg.clone() });
		} else if p.seg.tree() != 0 {
			probes.push(Probe { kind: "other-height", seg: p.seg.clone() });
		}
	}
	cx.out.raw(&format!("#STAT deslife scenario {}: {} probes per state", scen, probes.len()));
	probe_state(cx, &d, "fresh", &probes, &scen);
	for idx in 0..n_bm {
		if let Some(s) = bm_seg(hs.0, idx) {
			match step(cx, "add_bitmap_segment (genuine)", "walk", &scen, || add(&mut d, s)) {
				Some(Err(e)) => {
					cx.fails += 1;
					cx.out.raw(&format!("#ORACLE-FAIL C11 desegmenter-walk genuine bitmap segment {} of the fabricated header refused: {} ({})", idx, error_class(&e), scen));
				}
				_ => {}
			}
		}
		if idx + 1 < n_bm {
			probe_state(cx, &d, &format!("{} of {} bitmap segments cached", idx + 1, n_bm), &probes, &scen);
		}
		let _ = step(cx, "apply_next_segments", "bitmap phase", &scen, || d.apply_next_segments());
		if idx + 1 < n_bm {
			probe_state(cx, &d, &format!("{} of {} bitmap segments applied", idx + 1, n_bm), &probes, &scen);
		}
	}
	let wants_bitmap = step(cx, "next_desired_segments", "all bitmap applied", &scen, || {
		d.clone().next_desired_segments(50).iter().any(|s| s.segment_type == grin_core::core::pmmr::segment::SegmentType::Bitmap)
	})
	.unwrap_or(true);
	cx.inc(if wants_bitmap { "state ALL-APPLIED-NOT-FINALISED not reached" } else { "state ALL-APPLIED-NOT-FINALISED reached" });
	probe_state(cx, &d, "ALL bitmap segments applied, bitmap NOT finalised", &probes, &scen);
	let _ = step(cx, "apply_next_segments (finalize_bitmap)", "finalising", &scen, || d.apply_next_segments());
	probe_state(cx, &d, "bitmap finalised", &probes, &scen);
	let _ = step(cx, "apply_next_segments", "bitmap finalised", &scen, || d.apply_next_segments());
	let _ = step(cx, "next_desired_segments", "bitmap finalised", &scen, || d.next_desired_segments(10).len());
	cx.out.raw(&format!("#STAT deslife scenario {} done in {} ms", scen, t0.elapsed().as_millis()));
}

/// a call that may never return (it holds no lock): run it in a thread of its own and give up after `ms`
fn call_timeout<R: Send + 'static>(ms: u64, f: impl FnOnce() -> R + Send + 'static) -> Option<Result<R, String>> {
	let (tx, rx) = std::sync::mpsc::channel();
	std::thread::spawn(move || {
		let r = catch(AssertUnwindSafe(f));
		let _ = tx.send(r);
	});
	rx.recv_timeout(std::time::Duration::from_millis(ms)).ok()
}

/// desegmenters for archive headers with ZERO outputs (a header claiming `output_mmr_size = 0`: header
/// validation does not look at the MMR sizes; the plain `genesis_dev()` header has them 0), with zero
/// outputs and kernels, and for the genesis header (a chain shorter than the sync threshold).
/// Every call must come back with Ok or Err and, for a tree whose MMR size is claimed 0, with Err (repaired
/// in /repo 362e7d94e; before, `add_output_segment` / `add_rangeproof_segment` never returned once the empty
/// bitmap was finalised: finding C11-desegmenter-zero-size-archive-header-hangs, kept as a regression probe).
/// Runs last: should a call hang again it is abandoned in its thread, which spins until the process exits.
fn zero_phase(cx: &mut Cx, work: &str) {
	let hs = (0u8, 2u8, 2u8, 1u8);
	let mut kit = Kit::new(&format!("{}/src_zero", work));
	let mut rng2 = Rng::new(cx.rng.next());
	let trunk = build_trunk(&mut kit, &mut rng2, 46, "small");
	let src = kit.builder();
	let archive = match src.txhashset_archive_header() {
		Ok(a) if a.height > 0 => a,
		_ => return,
	};
	let n_out = pmmr::n_leaves(archive.output_mmr_size);
	let n_ker = pmmr::n_leaves(archive.kernel_mmr_size);
	let segmenter = src.segmenter().unwrap();
	let heights = [hs.0, hs.1, hs.2, hs.3];
	let leaves = [(n_out + 1023) / 1024, n_out, n_out, n_ker];
	let totals: [u64; 4] = [0, 1, 2, 3].map(|i| (leaves[i] + (1u64 << heights[i]) - 1) >> heights[i]);
	let probes = build_probes(cx, &segmenter, heights, totals);
	let headers: Vec<BlockHeader> = trunk[1..].iter().map(|i| kit.blks[*i].block.header.clone()).collect();
	let dest = Subject::new(&format!("{}/dst_zero", work), &kit.genesis);
	let _ = dest.sync_headers(&headers);
	let ah = dest.c().txhashset_archive_header_header_only().unwrap();
	let mut zero = ah.clone();
	zero.output_mmr_size = 0;
	let mut zero_all = ah.clone();
	zero_all.output_mmr_size = 0;
	zero_all.kernel_mmr_size = 0;
	let mut gen0 = kit.genesis.header.clone();
	gen0.output_mmr_size = 0;
	gen0.kernel_mmr_size = 0;
	let gen = kit.genesis.header.clone();
	let mut cases: Vec<(String, BlockHeader)> = vec![
		("archive header claiming output_mmr_size = 0".to_string(), zero),
		("archive header claiming output and kernel MMR sizes 0".to_string(), zero_all),
		("genesis header with MMR sizes 0 (as genesis_dev() has them) as archive header".to_string(), gen0),
		("the genesis header (MMR sizes 1) as archive header".to_string(), gen),
	];
	// sizes that are NO valid MMR size (`pmmr::peaks` answers an empty vector for them): header validation
	// does not check the MMR sizes, whoever mines the header chooses them
	let bad_sizes: Vec<u64> = if cx.thorough { vec![2, 5, 6, 9, 12, 13, 14, 17, 20, 21] } else { vec![2, 5, 6, 9] };
	for (i, sz) in bad_sizes.iter().enumerate() {
		let mut h = ah.clone();
		h.output_mmr_size = *sz;
		cases.push((format!("archive header claiming the invalid output_mmr_size {}", sz), h));
		if i % 2 == 0 {
			let mut h = ah.clone();
			h.kernel_mmr_size = *sz;
			cases.push((format!("archive header claiming the invalid kernel_mmr_size {}", sz), h));
			let mut h = ah.clone();
			h.output_mmr_size = *sz;
			h.kernel_mmr_size = bad_sizes[(i + 1) % bad_sizes.len()];
			cases.push((format!("archive header claiming the invalid sizes output {} / kernel {}", sz, bad_sizes[(i + 1) % bad_sizes.len()]), h));
		}
	}
	for (label, hdr) in cases {
		let label: &str = &label;
		set_segment_heights(Some(hs));
		let made = step(cx, "Chain::desegmenter", label, "zero", || dest.c().desegmenter(&hdr).ok().and_then(|a| a.read().as_ref().cloned()));
		set_segment_heights(None);
		let mut dz = match made {
			Some(Some(d)) => d,
			_ => continue,
		};
		cx.inc(&format!("desegmenter constructed for: {}", label));
		// per tree: stop probing it after the first call that does not come back
		let mut hung: [bool; 4] = [false; 4];
		for phase in ["fresh", "after two ticks"] {
			if phase == "after two ticks" {
				// the ticks are applied to the desegmenter under test itself (the first one finalises the empty bitmap)
				let mut alive = true;
				for _ in 0..2 {
					let mut c = dz.clone();
					match call_timeout(3000, move || {
						let ok = c.apply_next_segments().is_ok();
						(c, ok)
					}) {
						Some(Ok((c, _))) => dz = c,
						Some(Err(msg)) => {
							cx.fails += 1;
							cx.out.raw(&format!("#ORACLE-FAIL C11 desegmenter-walk-panics state=[{}] apply_next_segments panicked: {}", label, msg.replace('\n', " ")));
							alive = false;
						}
						None => {
							cx.fails += 1;
							cx.out.raw(&format!("#KNOWN-PROBE C11 desegmenter-zero-size-archive-header-hangs apply_next_segments does not return for a desegmenter created for [{}]", label));
							cx.out.raw(&format!("#ORACLE-FAIL C11 regression of repaired defect desegmenter-zero-size-archive-header-hangs: apply_next_segments does not return for a desegmenter created for [{}]", label));
							alive = false;
						}
					}
					if !alive {
						break;
					}
				}
				if !alive {
					continue;
				}
			}
			for p in &probes {
				let t = p.seg.tree();
				if hung[t] {
					cx.inc(&format!("{} ({}) | add_{} {} -> skipped after a hang", label, phase, TREE[t], p.kind));
					continue;
				}
				let id = p.seg.id();
				let mut c = dz.clone();
				let s = p.seg.clone();
				cx.calls += 1;
				note_call(format!("zero phase [{}] add_{}_segment", label, TREE[t]));
				match call_timeout(1500, move || add(&mut c, s)) {
					Some(Ok(res)) => {
						let cl = class(&res);
						cx.inc(&format!("{} ({}) | add_{} {} -> {}", label, phase, TREE[t], p.kind, cl));
						// no segment exists in an MMR of size 0: whatever is handed over must be refused
						let empty_tree = if t == 3 { hdr.kernel_mmr_size == 0 } else { hdr.output_mmr_size == 0 };
						if empty_tree && res.is_ok() {
							cx.fails += 1;
							cx.out.raw(&format!(
								"#ORACLE-FAIL C11 desegmenter-accepts-segment-of-empty-mmr state=[{} ({})] add_{}_segment accepted a {} segment (height {}, idx {}) although the archive header claims an MMR of size 0: {}",
								label, phase, TREE[t], p.kind, id.height, id.idx, seg_hex(&p.seg).chars().take(800).collect::<String>()
							));
						}
						if p.kind == "other-height" && cl != "Err:InvalidSegmentHeight" {
							cx.fails += 1;
							cx.out.raw(&format!("#ORACLE-FAIL C11 desegmenter-foreign-height state=[{} ({})] add_{}_segment answered {} to a segment of height {}", label, phase, TREE[t], cl, id.height));
						}
					}
					Some(Err(msg)) => {
						cx.fails += 1;
						cx.out.raw(&format!(
							"#ORACLE-FAIL C11 desegmenter-add-segment-panics state=[{} ({})] add_{}_segment with a {} segment (height {}, idx {}) panicked: {}: {}",
							label, phase, TREE[t], p.kind, id.height, id.idx, msg.replace('\n', " "), seg_hex(&p.seg).chars().take(1500).collect::<String>()
						));
					}
					None => {
						hung[t] = true;
						cx.fails += 1;
						cx.inc(&format!("{} ({}) | add_{} {} -> HANG (> 1.5 s, abandoned)", label, phase, TREE[t], p.kind));
						// repaired in /repo 362e7d94e (Segment::root refuses a segment that does not exist in an MMR of the
						// given size); finding C11-desegmenter-zero-size-archive-header-hangs: a reappearance is a regression
						let txt = format!(
							"add_{}_segment does not return (> 1.5 s) for a desegmenter created for [{}] (archive header height {} output_mmr_size {} kernel_mmr_size {}); state {}; handed over: a {} segment (height {}, idx {}) {}",
							TREE[t], label, hdr.height, hdr.output_mmr_size, hdr.kernel_mmr_size, phase, p.kind, id.height, id.idx, seg_hex(&p.seg).chars().take(1200).collect::<String>()
						);
						cx.out.raw(&format!("#KNOWN-PROBE C11 desegmenter-zero-size-archive-header-hangs {}", txt));
						cx.out.raw(&format!("#ORACLE-FAIL C11 regression of repaired defect desegmenter-zero-size-archive-header-hangs: {}", txt));
					}
				}
			}
		}
	}
}

fn main() {
	quiet_panics();
	// watchdog: a call into the desegmenter that does not return within 20 s is a hang
	std::thread::spawn(|| {
		let mut last = HEARTBEAT.load(std::sync::atomic::Ordering::SeqCst);
		let mut idle = 0;
		loop {
			std::thread::sleep(std::time::Duration::from_secs(2));
			let now = HEARTBEAT.load(std::sync::atomic::Ordering::SeqCst);
			if now == last {
				idle += 1;
			} else {
				idle = 0;
				last = now;
			}
			if idle >= 10 {
				let cur = CURRENT.lock().map(|c| c.clone()).unwrap_or_default();
				println!("\n#ORACLE-FAIL C11 desegmenter-call-hangs no return for 20 s: {}", cur);
				std::process::exit(3);
			}
		}
	});
	let work = std::env::var("VERIF_WORK").expect("VERIF_WORK not set");
	let mut cx = Cx { out: Out::stdout(), rng: Rng::new(seed_from_env()), thorough: tier_thorough(), stats: BTreeMap::new(), fails: 0, calls: 0 };
	// (name, blocks, style, (bitmap, output, rangeproof, kernel) segment heights)
	let mut scenarios: Vec<(&str, u64, &str, (u8, u8, u8, u8))> = vec![("small", 46, "small", (0, 2, 2, 1))];
	if cx.thorough {
		scenarios.push(("big-two-chunks", 142, "big", (0, 4, 4, 3)));
		scenarios.push(("small-default-heights", 60, "small", (9, 11, 11, 11)));
		scenarios.push(("big-one-bitmap-segment", 142, "big", (1, 5, 3, 4)));
	}
	for (name, n, style, hs) in scenarios {
		if let Some((kit, headers, probes, ah)) = life_cycle(&mut cx, &work, name, n, style, hs) {
			if name == "small" {
				// several bitmap segments: fabricated archive headers over the same header chain
				fabricated_bitmap_life(&mut cx, &work, &kit, &headers, &probes, &ah, 2500, (0, 2, 2, 1));
				fabricated_bitmap_life(&mut cx, &work, &kit, &headers, &probes, &ah, 1025, (0, 2, 2, 1));
				if cx.thorough {
					fabricated_bitmap_life(&mut cx, &work, &kit, &headers, &probes, &ah, 9000, (1, 2, 2, 1));
					fabricated_bitmap_life(&mut cx, &work, &kit, &headers, &probes, &ah, 1024 * 5, (0, 2, 2, 1));
				}
			}
		}
	}
	zero_phase(&mut cx, &work);
	let stats = std::mem::take(&mut cx.stats);
	for (k, v) in stats {
		cx.out.raw(&format!("#STAT {}: {}", k, v));
	}
	cx.out.raw(&format!("#STAT deslife: {} calls into the desegmenter under catch_unwind", cx.calls));
	cx.out.raw(&format!("#STAT oracle failures: {}", cx.fails));
	cx.out.flush();
	let _ = Hashed::hash(&0u8);
	// threads abandoned in a hanging call must not keep the process alive
	std::process::exit(0);
}
