//! Chain-level correspondence (C01, C02, C03, C06, C13): real fork trees of real blocks built
//! on a builder `Chain`, delivered to subject chains in generated orders together with invalid
//! variants; every delivery and the observable state after it are printed for the Lean model.
use grin_core::core::hash::{Hash, Hashed};
use grin_core::core::Block;
use gvharness::chainkit::*;
use gvharness::*;
use std::collections::{BTreeMap, BTreeSet};

#[path = "../chainrep.rs"]
mod chainrep;
use chainrep::*;

const MATURITY: u64 = 3;
const N_INVALID_KINDS: u64 = 38;

#[derive(Clone, Default)]
struct AState {
	/// unspent: oid -> (created height, coinbase)
	utxo: BTreeMap<usize, (u64, bool)>,
	/// plain outputs spent on this path
	spent: Vec<usize>,
	/// last height an NRD kernel of each excess slot occurred on this path
	nrd_last: BTreeMap<usize, u64>,
}

struct Gen {
	kit: Kit,
	states: BTreeMap<usize, AState>,
	valid: Vec<usize>,
	invalid: Vec<usize>,
	stats: BTreeMap<String, u64>,
	outs_described: usize,
	blks_described: usize,
}

impl Gen {
	fn stat(&mut self, k: &str) {
		*self.stats.entry(k.to_string()).or_insert(0) += 1;
	}

	fn state_after(&self, parent: usize, b: &Block) -> AState {
		let mut s = self.states[&parent].clone();
		let ins: Vec<grin_core::core::CommitWrapper> = b.inputs().into();
		for i in ins {
			if let Some(id) = self.kit.by_commit.get(&i.commitment()) {
				if let Some((_, cb)) = s.utxo.remove(id) {
					if !cb {
						s.spent.push(*id);
					}
				}
			}
		}
		for o in b.outputs() {
			if let Some(id) = self.kit.by_commit.get(&o.commitment()) {
				s.utxo.insert(*id, (b.header.height, o.is_coinbase()));
			}
		}
		for k in b.kernels() {
			if let grin_core::core::KernelFeatures::NoRecentDuplicate { .. } = k.features {
				let tag = hex(&k.excess.0[..8]);
				for slot in 0..3 {
					if nrd_excess_tag(&self.kit.kc, slot) == tag {
						s.nrd_last.insert(slot, b.header.height);
					}
				}
			}
		}
		s
	}

	fn spendable(&self, parent: usize, h: u64) -> Vec<usize> {
		self.states[&parent]
			.utxo
			.iter()
			.filter(|(_, (c, cb))| !*cb || h >= *c + MATURITY)
			.map(|(o, _)| *o)
			.collect()
	}

	/// tx specs for a valid block at height h on parent
	fn valid_specs(&mut self, rng: &mut Rng, parent: usize, h: u64) -> Vec<TxSpec> {
		let mut avail = self.spendable(parent, h);
		let mut specs = vec![];
		let ntx = rng.below(4);
		let mut weight = 24u64;
		for _ in 0..ntx {
			if avail.is_empty() {
				break;
			}
			let t = rng.below(10);
			let pick = |rng: &mut Rng, avail: &mut Vec<usize>| -> usize {
				let i = rng.below(avail.len() as u64) as usize;
				avail.swap_remove(i)
			};
			let fee = rng.range(1, 3);
			if t < 4 {
				// spend one output into two
				if weight + 46 > 240 {
					break;
				}
				let o = pick(rng, &mut avail);
				let v = self.kit.outs[o].value;
				if v < 10 {
					continue;
				}
				let a = rng.range(1, v - fee - 1);
				let kernel = if rng.chance(1, 4) {
					self.stat("tx:heightlocked-valid");
					KSpec::HeightLocked(fee, if rng.chance(1, 2) { h } else { h.saturating_sub(1) })
				} else {
					KSpec::Plain(fee)
				};
				specs.push(TxSpec {
					inputs: vec![o],
					outputs: vec![(a, None), (v - fee - a, None)],
					kernel,
				});
				weight += 46;
				self.stat("tx:split");
			} else if t < 6 && avail.len() >= 2 {
				if weight + 26 > 240 {
					break;
				}
				let o1 = pick(rng, &mut avail);
				let o2 = pick(rng, &mut avail);
				let v = self.kit.outs[o1].value + self.kit.outs[o2].value;
				specs.push(TxSpec {
					inputs: vec![o1, o2],
					outputs: vec![(v - fee, None)],
					kernel: KSpec::Plain(fee),
				});
				weight += 26;
				self.stat("tx:merge");
			} else if t < 8 {
				// re-create a previously spent commitment (same key, same value)
				let cands: Vec<usize> = self.states[&parent]
					.spent
					.iter()
					.cloned()
					.filter(|o| !self.states[&parent].utxo.contains_key(o))
					.collect();
				if cands.is_empty() || weight + 46 > 240 {
					continue;
				}
				let target = *rng.pick(&cands);
				let tv = self.kit.outs[target].value;
				let pos = avail.iter().position(|o| self.kit.outs[*o].value > tv + fee + 1);
				if let Some(p) = pos {
					let o = avail.swap_remove(p);
					let v = self.kit.outs[o].value;
					specs.push(TxSpec {
						inputs: vec![o],
						outputs: vec![(tv, Some(target)), (v - tv - fee, None)],
						kernel: KSpec::Plain(fee),
					});
					weight += 46;
					self.stat("tx:recreate-spent-commitment");
				}
			} else {
				if weight + 46 > 240 {
					break;
				}
				let o = pick(rng, &mut avail);
				let v = self.kit.outs[o].value;
				if v < 10 {
					continue;
				}
				let mut kernel = KSpec::Plain(fee);
				if h >= 9 && rng.chance(1, 2) {
					// a no-recent-duplicate kernel whose excess last occurred far enough back (or never)
					let slot = rng.below(3) as usize;
					let rel = rng.range(1, 3);
					let last = self.states[&parent].nrd_last.get(&slot).cloned();
					let used = specs.iter().any(|s: &TxSpec| matches!(s.kernel, KSpec::Nrd(_, _, sl) if sl == slot));
					if !used && last.map(|l| h >= l + rel).unwrap_or(true) {
						kernel = KSpec::Nrd(fee, rel, slot);
						self.stat(if last.is_some() { "tx:nrd-valid-repeat-at-or-after-threshold" } else { "tx:nrd-valid-first" });
					}
				}
				specs.push(TxSpec {
					inputs: vec![o],
					outputs: vec![(v - fee, None)],
					kernel,
				});
				weight += 25;
				self.stat("tx:move");
			}
		}
		specs
	}

	fn add_valid(&mut self, rng: &mut Rng, parent: usize, diff: u64) -> Option<usize> {
		let h = self.kit.blks[parent].height + 1;
		let specs = self.valid_specs(rng, parent, h);
		// optionally a chained pair inside the block (cut-through applies when aggregated)
		let mut txs = vec![];
		for s in &specs {
			match self.kit.build_tx(s) {
				Ok(t) => txs.push(t),
				Err(_) => {}
			}
		}
		if rng.chance(1, 4) && txs.len() <= 1 {
			let avail: Vec<usize> = self
				.spendable(parent, h)
				.into_iter()
				.filter(|o| !specs.iter().any(|s| s.inputs.contains(o)))
				.collect();
			if let Some(o) = avail.first().cloned() {
				let v = self.kit.outs[o].value;
				if v > 20 {
					let s1 = TxSpec {
						inputs: vec![o],
						outputs: vec![(v / 2, None), (v - v / 2 - 1, None)],
						kernel: KSpec::Plain(1),
					};
					let before = self.kit.outs.len();
					if let Ok(t1) = self.kit.build_tx(&s1) {
						let mid = before; // first new output
						let mv = self.kit.outs[mid].value;
						let s2 = TxSpec {
							inputs: vec![mid],
							outputs: vec![(mv - 2, None)],
							kernel: KSpec::Plain(2),
						};
						if let Ok(t2) = self.kit.build_tx(&s2) {
							txs.push(t1);
							txs.push(t2);
							self.stat("tx:chained-pair-cut-through");
						}
					}
				}
			}
		}
		let b = match self.kit.assemble(parent, diff, &txs, 0) {
			Ok(b) => b,
			Err(_) => return None,
		};
		match self
			.kit
			.builder()
			.process_block(b.clone(), grin_chain::Options::SKIP_POW)
		{
			Ok(_) => {
				let st = self.state_after(parent, &b);
				let id = self.kit.record(b, parent, vec![], true);
				self.states.insert(id, st);
				self.valid.push(id);
				Some(id)
			}
			Err(e) => {
				self.stat(&format!("generator:builder-rejected:{}", error_class(&e)));
				complain(format!("on b{} (height {}): {}", parent, self.kit.blks[parent].height + 1, error_class(&e)));
				None
			}
		}
	}

	/// A block that creates exactly as many outputs as it spends: the coinbase plus ONE transaction
	/// with k inputs and k-1 outputs (k = 2 or 3). A rewind over it restores as many old leaf
	/// positions as it drops new ones (the cardinality of the leaf set does not change).
	fn add_balanced(&mut self, rng: &mut Rng, parent: usize, diff: u64) -> Option<usize> {
		let h = self.kit.blks[parent].height + 1;
		let mut avail = self.spendable(parent, h);
		if avail.len() < 2 {
			return None;
		}
		let k = if avail.len() >= 3 && rng.chance(1, 2) { 3 } else { 2 };
		let mut ins = vec![];
		for _ in 0..k {
			let i = rng.below(avail.len() as u64) as usize;
			ins.push(avail.swap_remove(i));
		}
		let total: u64 = ins.iter().map(|o| self.kit.outs[*o].value).sum();
		let fee = rng.range(1, 3);
		if total < 20 {
			return None;
		}
		let outputs = if k == 2 {
			vec![(total - fee, None)]
		} else {
			let a = rng.range(1, total - fee - 1);
			vec![(a, None), (total - fee - a, None)]
		};
		let tx = self.kit.build_tx(&TxSpec { inputs: ins, outputs, kernel: KSpec::Plain(fee) }).ok()?;
		let b = self.kit.assemble(parent, diff, &[tx], 0).ok()?;
		match self.kit.builder().process_block(b.clone(), grin_chain::Options::SKIP_POW) {
			Ok(_) => {
				let st = self.state_after(parent, &b);
				let id = self.kit.record(b, parent, vec![], true);
				self.states.insert(id, st);
				self.valid.push(id);
				self.stat(&format!("tx:balanced-block-{}-in-{}-out-plus-coinbase", k, k - 1));
				Some(id)
			}
			Err(e) => {
				self.stat(&format!("generator:builder-rejected:{}", error_class(&e)));
				complain(format!("balanced block on b{} (height {}): {}", parent, h, error_class(&e)));
				None
			}
		}
	}

	/// Build an invalid variant on `parent`; returns id.
	fn add_invalid(&mut self, rng: &mut Rng, parent: usize) -> Option<usize> {
		let kind = rng.below(N_INVALID_KINDS);
		self.add_invalid_kind(rng, parent, kind)
	}

	fn add_invalid_kind(&mut self, rng: &mut Rng, parent: usize, kind: u64) -> Option<usize> {
		let h = self.kit.blks[parent].height + 1;
		let diff = rng.range(1, 6);
		let st = self.states[&parent].clone();
		let spendable = self.spendable(parent, h);
		let mut tags: Vec<String> = vec![];
		let mut txs = vec![];
		let mut delta = 0i64;
		let mut label = "";
		match kind {
			0 => {
				// double spend: an output already spent on this path
				let c: Vec<usize> = st.spent.iter().cloned().filter(|o| !st.utxo.contains_key(o)).collect();
				if c.is_empty() {
					return None;
				}
				let o = *rng.pick(&c);
				let v = self.kit.outs[o].value;
				if v < 5 {
					return None;
				}
				txs.push(self.kit.build_tx(&TxSpec { inputs: vec![o], outputs: vec![(v - 1, None)], kernel: KSpec::Plain(1) }).ok()?);
				label = "double-spend";
			}
			1 => {
				// fork-foreign: an output that exists only on another fork
				let mut c = vec![];
				for (bid, s) in &self.states {
					if *bid == parent {
						continue;
					}
					for (o, (_, cb)) in &s.utxo {
						if !cb && !st.utxo.contains_key(o) && !st.spent.contains(o) {
							c.push(*o);
						}
					}
				}
				if c.is_empty() {
					return None;
				}
				let o = *rng.pick(&c);
				let v = self.kit.outs[o].value;
				if v < 5 {
					return None;
				}
				txs.push(self.kit.build_tx(&TxSpec { inputs: vec![o], outputs: vec![(v - 1, None)], kernel: KSpec::Plain(1) }).ok()?);
				label = "fork-foreign-spend";
			}
			2 => {
				// immature coinbase
				let c: Vec<usize> = st.utxo.iter().filter(|(_, (c, cb))| *cb && h < *c + MATURITY).map(|(o, _)| *o).collect();
				if c.is_empty() {
					return None;
				}
				let o = *rng.pick(&c);
				let v = self.kit.outs[o].value;
				txs.push(self.kit.build_tx(&TxSpec { inputs: vec![o], outputs: vec![(v - 1, None)], kernel: KSpec::Plain(1) }).ok()?);
				label = "immature-coinbase";
			}
			3 => {
				// duplicate of a currently unspent commitment
				let c: Vec<usize> = st.utxo.iter().filter(|(_, (_, cb))| !*cb).map(|(o, _)| *o).collect();
				if c.is_empty() || spendable.is_empty() {
					return None;
				}
				let target = *rng.pick(&c);
				let tv = self.kit.outs[target].value;
				let src = spendable.iter().cloned().find(|o| *o != target && self.kit.outs[*o].value > tv + 2)?;
				let v = self.kit.outs[src].value;
				txs.push(self.kit.build_tx(&TxSpec { inputs: vec![src], outputs: vec![(tv, Some(target)), (v - tv - 1, None)], kernel: KSpec::Plain(1) }).ok()?);
				label = "duplicate-unspent-commitment";
			}
			4 => {
				if spendable.is_empty() {
					return None;
				}
				let o = spendable[0];
				let v = self.kit.outs[o].value;
				txs.push(self.kit.build_tx(&TxSpec { inputs: vec![o], outputs: vec![(v - 1, None)], kernel: KSpec::HeightLocked(1, h + 1) }).ok()?);
				label = "lock-height-above";
			}
			16 => {
				// NRD kernel repeating an excess fewer than its relative height blocks back
				if h < 9 || spendable.is_empty() {
					return None;
				}
				let cands: Vec<(usize, u64)> = st.nrd_last.iter().map(|(s, l)| (*s, *l)).collect();
				if cands.is_empty() {
					return None;
				}
				let (slot, last) = *rng.pick(&cands);
				let rel = h - last + 1 + rng.below(2);
				let o = spendable[0];
				let v = self.kit.outs[o].value;
				txs.push(self.kit.build_tx(&TxSpec { inputs: vec![o], outputs: vec![(v - 1, None)], kernel: KSpec::Nrd(1, rel, slot) }).ok()?);
				label = "nrd-duplicate-too-recent";
			}
			17 => {
				// NRD kernel before the hard fork that allows it
				if h >= 9 || spendable.is_empty() {
					return None;
				}
				let o = spendable[0];
				let v = self.kit.outs[o].value;
				txs.push(self.kit.build_tx(&TxSpec { inputs: vec![o], outputs: vec![(v - 1, None)], kernel: KSpec::Nrd(1, 1, 0) }).ok()?);
				label = "nrd-before-hf3";
			}
			23 | 24 | 25 => {
				// a spend that is fine in itself, whose input will CLAIM the wrong features for the
				// output it names: a matured coinbase claimed plain (23), a plain output claimed
				// coinbase (24), an immature coinbase claimed plain (25: maturity must not be dodged)
				let c: Vec<usize> = match kind {
					23 => spendable.iter().cloned().filter(|o| self.kit.outs[*o].coinbase).collect(),
					24 => spendable.iter().cloned().filter(|o| !self.kit.outs[*o].coinbase).collect(),
					_ => st.utxo.iter().filter(|(_, (c, cb))| *cb && h < *c + MATURITY).map(|(o, _)| *o).collect(),
				};
				if c.is_empty() {
					return None;
				}
				let o = *rng.pick(&c);
				let v = self.kit.outs[o].value;
				if v < 5 {
					return None;
				}
				txs.push(self.kit.build_tx(&TxSpec { inputs: vec![o], outputs: vec![(v - 1, None)], kernel: KSpec::Plain(1) }).ok()?);
				label = match kind {
					23 => "input-features-wrong:matured-coinbase-claimed-plain",
					24 => "input-features-wrong:plain-output-claimed-coinbase",
					_ => "input-features-wrong:immature-coinbase-claimed-plain",
				};
			}
			5 => {
				delta = if rng.chance(1, 2) { 1 } else { -1 };
				if spendable.is_empty() && delta < 0 {
					delta = 1;
				}
				if let Some(o) = spendable.first() {
					let v = self.kit.outs[*o].value;
					txs.push(self.kit.build_tx(&TxSpec { inputs: vec![*o], outputs: vec![(v - 2, None)], kernel: KSpec::Plain(2) }).ok()?);
				}
				label = "coinbase-claim-off-by-one";
			}
			_ => {
				if let Some(o) = spendable.first() {
					let v = self.kit.outs[*o].value;
					if v > 10 {
						txs.push(self.kit.build_tx(&TxSpec { inputs: vec![*o], outputs: vec![(v / 2, None), (v - v / 2 - 1, None)], kernel: KSpec::Plain(1) }).ok()?);
					}
				}
			}
		}
		if kind == 20 || kind == 21 {
			// the header's total kernel offset zeroed / replaced by a value that is not a scalar on
			// a coinbase-only block: the block on its own balances with a zero offset, only the
			// running sums over the whole chain expose it
			// (a zeroed offset is only wrong where the chain's real total is not zero; a value that
			// is not a scalar is wrong everywhere, the zero-total chain included)
			if kind == 20 && prev_total_offset_is_zero(&self.kit.blks[parent].block.header) {
				return None;
			}
			txs.clear();
			label = if kind == 20 { "total-kernel-offset-zeroed" } else { "total-kernel-offset-not-a-scalar" };
		}
		let mut cb_key = None;
		if kind == 19 {
			// the reward paid to the key (and for the fees) of a coinbase that is still unspent:
			// the same commitment a second time
			let c: Vec<usize> = st
				.utxo
				.iter()
				.filter(|(o, (_, cb))| *cb && self.kit.outs[**o].value == grin_core::consensus::reward(0))
				.map(|(o, _)| *o)
				.collect();
			if c.is_empty() {
				return None;
			}
			txs.clear();
			cb_key = Some(self.kit.outs[*rng.pick(&c)].key_id.clone());
			label = "duplicate-unspent-coinbase";
		}
		if kind == 22 {
			// the subsidy (and the fees) taken by a plain output and a plain kernel of fee 0: the
			// block balances, every proof and signature is good, but it has no coinbase item at all
			if rng.chance(1, 2) {
				txs.clear();
			}
			label = "reward-claimed-without-coinbase";
		}
		if kind == 29 {
			txs.clear();
		}
		if kind == 32 {
			delta = 1;
		}
		let mut b = self.kit.assemble_full(parent, diff, &txs, delta, cb_key, kind == 22).ok()?;
		let prev = self.kit.blks[parent].block.header.clone();
		match kind {
			6 => {
				if b.body.kernels.len() < 2 {
					return None;
				}
				let idx = b.body.kernels.iter().position(|k| !k.is_coinbase())?;
				b.body.kernels.remove(idx);
				tags.push("ksum:Block:KernelSumMismatch".into());
				label = "kernel-dropped";
			}
			7 => {
				if b.body.outputs.len() < 2 {
					return None;
				}
				let p0 = b.body.outputs[0].proof;
				b.body.outputs[0].proof = b.body.outputs[1].proof;
				b.body.outputs[1].proof = p0;
				tags.push("body:Block:Transaction:Secp".into());
				label = "rangeproofs-swapped";
			}
			8 => {
				let k = rng.below(b.body.kernels.len() as u64) as usize;
				// a well-formed signature made for another kernel (the parent block's coinbase)
				b.body.kernels[k].excess_sig = self.kit.blks[parent].block.kernels()[0].excess_sig.clone();
				// the kernel hash covers the signature: keep the body sorted so the fault is the
				// signature and not the ordering
				b.body.kernels.sort_unstable();
				tags.push("body:Block:Transaction:IncorrectSignature".into());
				label = "signature-of-another-kernel";
			}
			9 => {
				if b.body.outputs.len() < 2 {
					return None;
				}
				b.body.outputs.swap(0, 1);
				tags.push("body:Block:Transaction:Serialization".into());
				label = "outputs-unsorted";
			}
			10 => {
				let which = rng.below(3);
				let flip = |h: &Hash| {
					let mut v = h.to_vec();
					v[3] ^= 1;
					Hash::from_vec(&v)
				};
				match which {
					0 => b.header.output_root = flip(&b.header.output_root),
					1 => b.header.kernel_root = flip(&b.header.kernel_root),
					_ => b.header.range_proof_root = flip(&b.header.range_proof_root),
				}
				tags.push("late:InvalidRoot".into());
				label = "state-root-wrong(late)";
			}
			11 => {
				// a valid MMR size but not the right one: claims one more kernel
				b.header.kernel_mmr_size = grin_core::core::pmmr::insertion_to_pmmr_index(
					grin_core::core::pmmr::n_leaves(b.header.kernel_mmr_size) + 1,
				);
				tags.push("late:InvalidMMRSize".into());
				label = "kernel-mmr-size-wrong(late)";
			}
			12 => {
				let mut v = b.header.prev_root.to_vec();
				v[0] ^= 1;
				b.header.prev_root = Hash::from_vec(&v);
				tags.push("hdr:InvalidRoot".into());
				label = "prev-root-wrong";
			}
			37 => {
				// the output root commits to ANOTHER unspent-output bitmap: right output PMMR root, wrong
				// bitmap root, hashed with the right size (header version >= 3 only)
				use grin_core::ser::PMMRIndexHashable;
				if b.header.version < grin_core::core::HeaderVersion(3) {
					return None;
				}
				let (pr, bm) = self.kit.output_roots_after(&b)?;
				let mut v = bm.to_vec();
				v[11] ^= 1;
				b.header.output_root = (pr, Hash::from_vec(&v)).hash_with_index(b.header.output_mmr_size);
				tags.push("late:InvalidRoot".into());
				label = "output-root-for-a-wrong-bitmap";
			}
			30..=36 => {
				// TWO faults in one block: the verdict must be the FIRST failing stage of the code's
				// order (`want:` = the expected error class, checked on the implementation at delivery;
				// the model ranks the faults: Model/ChainBodyOrder.lean)
				let bad_sig = |b: &mut Block, tags: &mut Vec<String>, sig: grin_util::secp::Signature| {
					let k = b.body.kernels.len() - 1;
					b.body.kernels[k].excess_sig = sig;
					b.body.kernels.sort_unstable();
					tags.push("body:Block:Transaction:IncorrectSignature".into());
				};
				let donor = self.kit.blks[parent].block.kernels()[0].excess_sig.clone();
				if b.body.outputs.len() < 2 {
					return None;
				}
				match kind {
					30 => {
						bad_sig(&mut b, &mut tags, donor);
						b.body.outputs.swap(0, 1);
						tags.push("body:Block:Transaction:Serialization".into());
						tags.push("want:Block:Transaction:Serialization".into());
						label = "two-faults:signature+unsorted-outputs";
					}
					31 => {
						bad_sig(&mut b, &mut tags, donor);
						let p0 = b.body.outputs[0].proof;
						b.body.outputs[0].proof = b.body.outputs[1].proof;
						b.body.outputs[1].proof = p0;
						tags.push("body:Block:Transaction:Secp".into());
						tags.push("want:Block:Transaction:Secp".into());
						label = "two-faults:signature+rangeproofs-swapped";
					}
					32 => {
						bad_sig(&mut b, &mut tags, donor);
						tags.push("want:Block:Transaction:IncorrectSignature".into());
						label = "two-faults:coinbase-claim+signature";
					}
					33 => {
						use grin_core::core::pmmr::{insertion_to_pmmr_index, n_leaves};
						b.header.kernel_mmr_size = insertion_to_pmmr_index(n_leaves(b.header.kernel_mmr_size) + 1);
						let mut v = b.header.kernel_root.to_vec();
						v[7] ^= 1;
						b.header.kernel_root = Hash::from_vec(&v);
						tags.push("late:InvalidRoot".into());
						tags.push("want:InvalidRoot".into());
						label = "two-faults:kernel-size-field+kernel-root";
					}
					34 => {
						b.header.timestamp = prev.timestamp;
						b.body.outputs.swap(0, 1);
						tags.push("body:Block:Transaction:Serialization".into());
						tags.push("want:InvalidBlockTime".into());
						label = "two-faults:timestamp+unsorted-outputs";
					}
					35 => {
						// the block spends an output it creates (cut-through) AND two proofs are swapped
						let own = b.body.outputs.iter().find(|o| !o.is_coinbase())?.commitment();
						let mut v: Vec<grin_core::core::CommitWrapper> = b.inputs().into();
						v.push(grin_core::core::CommitWrapper::from(own));
						v.sort_unstable();
						b.body.inputs = grin_core::core::transaction::Inputs::CommitOnly(v);
						let p0 = b.body.outputs[0].proof;
						b.body.outputs[0].proof = b.body.outputs[1].proof;
						b.body.outputs[1].proof = p0;
						tags.push("body:Block:Transaction:Secp".into());
						tags.push("want:Block:Transaction:CutThrough".into());
						label = "two-faults:cut-through+rangeproofs-swapped";
					}
					_ => {
						// the same input twice AND a bad signature
						let mut v: Vec<grin_core::core::CommitWrapper> = b.inputs().into();
						if v.is_empty() {
							return None;
						}
						let first = v[0].clone();
						v.push(first);
						v.sort_unstable();
						b.body.inputs = grin_core::core::transaction::Inputs::CommitOnly(v);
						bad_sig(&mut b, &mut tags, donor);
						tags.push("want:Block:Transaction:Serialization".into());
						label = "two-faults:input-twice+signature";
					}
				}
			}
			26 | 27 | 28 | 29 => {
				// header size fields off by ONE LEAF, everything else honest (roots computed for the
				// real body): no tag - the model compares the claimed leaf counts (`osz=` / `ksz=` of
				// the block line) with the block's own path (Model/ChainSizes.lean)
				use grin_core::core::pmmr::{insertion_to_pmmr_index, n_leaves};
				let ol = n_leaves(b.header.output_mmr_size);
				let kl = n_leaves(b.header.kernel_mmr_size);
				match kind {
					26 => {
						// understated output size on a block creating >= 2 outputs (passes the header stage)
						if b.body.outputs.len() < 2 {
							return None;
						}
						b.header.output_mmr_size = insertion_to_pmmr_index(ol - 1);
						label = "output-mmr-size-minus-one-leaf(>=2-outputs)";
					}
					27 => {
						b.header.output_mmr_size = insertion_to_pmmr_index(ol + 1);
						label = "output-mmr-size-plus-one-leaf";
					}
					28 => {
						if b.body.kernels.len() < 2 {
							return None;
						}
						b.header.kernel_mmr_size = insertion_to_pmmr_index(kl - 1);
						label = "kernel-mmr-size-minus-one-leaf(>=2-kernels)";
					}
					_ => {
						// a coinbase-only block claiming NO new output: refused at the header stage
						if b.body.outputs.len() != 1 {
							return None;
						}
						b.header.output_mmr_size = insertion_to_pmmr_index(ol - 1);
						label = "output-mmr-size-claims-no-new-output";
					}
				}
				if kind != 28 {
					// from header version 3 on the output root commits to the CLAIMED size: a producer of
					// such a header writes the root for its own claim (then only `validate_sizes` stands in
					// the way); half of the cases keep the honest header's root, which `validate_roots`
					// then refuses first
					if b.header.version >= grin_core::core::HeaderVersion(3) {
						if rng.chance(1, 2) && self.kit.set_output_root_for_claimed_size(&mut b) {
							self.stat("invalid:size-field:output-root-written-for-the-claimed-size");
						} else if kind != 29 {
							tags.push("late:InvalidRoot".into());
							self.stat("invalid:size-field:output-root-of-the-honest-header");
						}
					} else {
						self.stat("invalid:size-field:header-version<3");
					}
				}
			}
			13 => {
				b.header.timestamp = prev.timestamp;
				label = "timestamp-not-later";
			}
			14 => {
				b.header.version = grin_core::core::HeaderVersion(b.header.version.0 + 1);
				label = "version-wrong";
			}
			15 => {
				b.header.height += 1;
				label = "height-wrong";
			}
			20 => {
				b.header.total_kernel_offset = grin_keychain::BlindingFactor::zero();
				tags.push("sums:Committed".into());
			}
			21 => {
				b.header.total_kernel_offset = grin_keychain::BlindingFactor::from_slice(&[0xffu8; 32]);
				tags.push("sums:Committed".into());
			}
			23 | 24 | 25 => {
				// the model derives the fault from the `inf=` claims of the block line, no tag needed
				b = self.kit.features_form(&b, Some(None))?;
			}
			18 => {
				// a plain output carrying a forged coinbase flag (the body stays sorted)
				let idx = b.body.outputs.iter().position(|o| !o.is_coinbase())?;
				b.body.outputs[idx].identifier.features = grin_core::core::OutputFeatures::Coinbase;
				b.body.outputs.sort_unstable();
				label = "forged-coinbase-flag-on-plain-output";
			}
			_ => {}
		}
		if label.is_empty() {
			return None;
		}
		self.stat(&format!("invalid:{}", label));
		tags.push(format!("kind:{}", label));
		let id = self.kit.record(b, parent, tags, false);
		self.invalid.push(id);
		Some(id)
	}

	fn describe_new(&mut self, out: &mut Out) {
		for l in self.kit.out_lines(self.outs_described) {
			out.raw(&l);
		}
		self.outs_described = self.kit.outs.len();
		for id in self.blks_described..self.kit.blks.len() {
			out.raw(&self.kit.blk_line(id));
		}
		self.blks_described = self.kit.blks.len();
	}
}

/// blocks the generators intend as valid (by their own bookkeeping of the abstract state) but
/// that the node building the tree refuses: printed as oracle failures at the end of the run
static COMPLAINTS: std::sync::Mutex<Vec<String>> = std::sync::Mutex::new(Vec::new());

fn complain(msg: String) {
	COMPLAINTS.lock().unwrap().push(msg);
}

/// a verdict of the node that builds the tree which contradicts what the property fixes
static VERDICTS: std::sync::Mutex<Vec<(String, String)>> = std::sync::Mutex::new(Vec::new());

fn complain_as(prop: &str, msg: String) {
	VERDICTS.lock().unwrap().push((prop.to_string(), msg));
}

fn flush_complaints(out: &mut Out) {
	for m in COMPLAINTS.lock().unwrap().drain(..) {
		out.raw(&format!("#ORACLE-FAIL C03 a block that is valid by construction was refused by the node that builds the tree: {}", m));
	}
	for (p, m) in VERDICTS.lock().unwrap().drain(..) {
		out.raw(&format!("#ORACLE-FAIL {} {}", p, m));
	}
}

fn prev_total_offset_is_zero(h: &grin_core::core::BlockHeader) -> bool {
	h.total_kernel_offset == grin_keychain::BlindingFactor::zero()
}

#[derive(Clone, Debug)]
enum Ev {
	Hdr(usize),
	Blk(usize),
	Reopen,
	Compact,
}

fn topo_random(rng: &mut Rng, kit: &Kit, ids: &[usize]) -> Vec<usize> {
	// random linear extension of the parent relation
	let set: BTreeSet<usize> = ids.iter().cloned().collect();
	let mut done: BTreeSet<usize> = BTreeSet::new();
	done.insert(0);
	let mut remaining: Vec<usize> = ids.to_vec();
	let mut res = vec![];
	while !remaining.is_empty() {
		let ready: Vec<usize> = remaining
			.iter()
			.cloned()
			.filter(|i| {
				let p = kit.blks[*i].parent.unwrap();
				done.contains(&p) || !set.contains(&p)
			})
			.collect();
		let pick = *rng.pick(&ready);
		remaining.retain(|x| *x != pick);
		done.insert(pick);
		res.push(pick);
	}
	res
}

fn shuffle<T>(rng: &mut Rng, v: &mut Vec<T>) {
	for i in (1..v.len()).rev() {
		let j = rng.below(i as u64 + 1) as usize;
		v.swap(i, j);
	}
}

fn run_history(out: &mut Out, rng: &mut Rng, work: &str, hist: usize, big: bool) -> BTreeMap<String, u64> {
	out.raw("chain reset");
	let kit = Kit::new(&format!("{}/builder{}", work, hist));
	let mut g = Gen {
		kit,
		states: BTreeMap::new(),
		valid: vec![],
		invalid: vec![],
		stats: BTreeMap::new(),
		outs_described: 0,
		blks_described: 0,
	};
	let mut s0 = AState::default();
	s0.utxo.insert(0, (0, true));
	g.states.insert(0, s0);

	// --- tree ---
	let trunk_len = if big { rng.range(10, 15) } else { rng.range(8, 12) };
	let mut tip = 0usize;
	let mut trunk = vec![0usize];
	for _ in 0..trunk_len {
		let d = rng.range(1, 5);
		if let Some(id) = g.add_valid(rng, tip, d) {
			tip = id;
			trunk.push(id);
		}
	}
	// C15: the last blocks of the trunk create exactly as many outputs as they spend (balanced), so
	// that rewinds over the head and over 1..3 blocks below it leave the leaf set's cardinality alone
	for _ in 0..3 {
		let d = rng.range(2, 5);
		if let Some(id) = g.add_balanced(rng, tip, d) {
			tip = id;
			trunk.push(id);
		}
	}
	let nbranches = rng.range(1, if big { 4 } else { 3 });
	for _ in 0..nbranches {
		let start = *rng.pick(&trunk[..trunk.len() - 1]);
		let depth = rng.range(1, if big { 6 } else { 4 });
		let mut t = start;
		for _ in 0..depth {
			let d = if rng.chance(1, 4) {
				// force ties in total work with the trunk sibling when possible
				rng.range(1, 3)
			} else {
				rng.range(1, 7)
			};
			match g.add_valid(rng, t, d) {
				Some(id) => t = id,
				None => break,
			}
		}
	}
	// invalid variants on random valid parents
	let ninv = if big { 16 } else { 6 };
	let parents = g.valid.clone();
	// one attempt per kind first (on up to 3 candidate parents), then random extras
	let mut kinds: Vec<u64> = (0..N_INVALID_KINDS).collect();
	shuffle(rng, &mut kinds);
	for k in kinds {
		for _ in 0..3 {
			let p = *rng.pick(&parents);
			if g.add_invalid_kind(rng, p, k).is_some() {
				break;
			}
		}
	}
	for _ in 0..ninv {
		let p = if rng.chance(1, 5) { 0 } else { *rng.pick(&parents) };
		g.add_invalid(rng, p);
	}
	// C15: side-fork blocks whose parent sits 1..3 blocks below the trunk tip and which are refused
	// BEFORE apply_block (immature coinbase, double spend, bad sums): the extension that handles them
	// only rewinds
	let mut near_tip_invalid: Vec<usize> = vec![];
	for below in 1..=3usize {
		if trunk.len() > below + 1 {
			let p = trunk[trunk.len() - 1 - below];
			for k in [2u64, 0, 20] {
				if let Some(id) = g.add_invalid_kind(rng, p, k) {
					near_tip_invalid.push(id);
				}
			}
		}
	}
	g.describe_new(out);

	let valid = g.valid.clone();
	let invalid = g.invalid.clone();
	let kit = &g.kit;
	let mut g_stats: BTreeMap<String, u64> = BTreeMap::new();

	// the unique max-work tip among valid blocks (first-seen wins ties: only claimed when unique)
	let maxw = valid.iter().map(|i| kit.blks[*i].work).max().unwrap_or(0);
	let winners: Vec<usize> = valid.iter().cloned().filter(|i| kit.blks[*i].work == maxw).collect();
	let unique_max = winners.len() == 1;

	// --- subjects ---
	let nsub = if big { 6 } else { 4 };
	let mut finals: Vec<(String, String, String, bool)> = vec![]; // (name, obs, roots, complete)
	// the last subject is the C15 one: creation order; whenever the head is on the trunk, the refused
	// side-fork blocks rooted 1..3 blocks below it are offered (and discarded extensions run after
	// every event, as on every subject)
	for si in 0..nsub + 1 {
		let name = format!("s{}", si);
		let twin_name = format!("t{}", si);
		let mut evs: Vec<Ev> = vec![];
		let with_invalid = si >= 1;
		let c15_subject = si == nsub;
		match si {
			_ if c15_subject => {
				for i in &valid {
					evs.push(Ev::Blk(*i));
					if trunk.contains(i) {
						let hgt = kit.blks[*i].height;
						for x in &near_tip_invalid {
							let ph = kit.blks[kit.blks[*x].parent.unwrap()].height;
							if ph < hgt && ph + 3 >= hgt {
								evs.push(Ev::Blk(*x));
							}
						}
					}
				}
				evs.push(Ev::Reopen);
			}
			0 => {
				// canonical: creation order, valid only
				for i in &valid {
					evs.push(Ev::Blk(*i));
				}
			}
			1 => {
				// random topological order of bodies, no headers first, invalid interleaved
				for i in topo_random(rng, kit, &valid) {
					evs.push(Ev::Blk(i));
				}
			}
			_ => {
				// headers first (topological), then bodies in any order (children may come first)
				for i in topo_random(rng, kit, &valid) {
					evs.push(Ev::Hdr(i));
				}
				let mut bodies = valid.clone();
				shuffle(rng, &mut bodies);
				for i in bodies {
					evs.push(Ev::Blk(i));
					if rng.chance(1, 6) {
						evs.push(Ev::Blk(i)); // duplicate
					}
				}
			}
		}
		if with_invalid && !c15_subject {
			for i in &invalid {
				let pos = rng.below(evs.len() as u64 + 1) as usize;
				evs.insert(pos, Ev::Blk(*i));
				if rng.chance(1, 5) {
					let pos = rng.below(evs.len() as u64 + 1) as usize;
					evs.insert(pos, Ev::Hdr(*i));
				}
			}
			// a block whose header is wrong only in what it commits to (its prev_root): the header
			// is offered first and refused, then the block (odd subjects offer headers as a sync chunk)
			for i in &invalid {
				if kit.blks[*i].tags.iter().any(|t| t == "kind:prev-root-wrong") {
					evs.push(Ev::Hdr(*i));
					evs.push(Ev::Blk(*i));
				}
			}
			for _ in 0..rng.below(3) {
				let pos = rng.below(evs.len() as u64 + 1) as usize;
				evs.insert(pos, if rng.chance(1, 2) { Ev::Reopen } else { Ev::Compact });
			}
			// re-deliver a few random valid blocks late
			for _ in 0..3 {
				evs.push(Ev::Blk(*rng.pick(&valid)));
			}
		}
		let mut subj = new_rec_subject(&format!("{}/{}_{}", work, name, hist), &kit.genesis);
		let mut twin = if with_invalid {
			Some(new_rec_subject(&format!("{}/{}_{}", work, twin_name, hist), &kit.genesis))
		} else {
			None
		};
		// parameters of the reporting-path observations come from their own stream, so that the
		// histories themselves do not depend on them
		let mut rrng = Rng::new(seed_from_env() ^ 0x5eed_c0de ^ ((hist as u64) << 8) ^ si as u64);
		discard_status();
		out.raw(&format!("chain new {}", name));
		if twin.is_some() {
			out.raw(&format!("chain new {}", twin_name));
		}
		out.line(&format!("chain obs {}", name), &subj.obs(kit));
		for ev in &evs {
			let is_invalid_ev = match ev {
				Ev::Blk(i) | Ev::Hdr(i) => !kit.blks[*i].valid,
				_ => false,
			};
			let before = if is_invalid_ev { Some((subj.obs(kit), subj.roots())) } else { None };
			match ev {
				Ev::Blk(i) => {
					// every other subject receives its blocks the way the wire carries them
					// (inputs as bare commitments); its twin gets the in-memory form
					// (a block whose fault IS what its inputs claim is delivered in the form that carries the claim)
					let claims = kit.blks[*i].tags.iter().any(|t| t.starts_with("kind:input-features-wrong"));
					let head_before = subj.c().head().unwrap().last_block_h;
					// even subjects: the features-and-commit form with the right claims (v2 / JSON)
					let r = if claims {
						subj.deliver_block(&kit.blks[*i].block)
					} else if si % 2 == 1 {
						subj.deliver_block_wire(&kit.blks[*i].block)
					} else {
						subj.deliver_block_features(kit, &kit.blks[*i].block)
					};
					out.line(&format!("chain deliver {} b{}", name, i), &r);
					// C03: what the adapter was told during this call (the block, then every orphan it connected)
					let (sl, evs_told) = drain_status(kit);
					out.line(&format!("chain status {}", name), &sl);
					status_oracle(out, kit, &name, head_before, &evs_told, &mut g_stats);
					if r.starts_with("err") && !evs_told.is_empty() {
						out.raw(&format!(
							"#ORACLE-FAIL C03 a refused delivery notified the adapter: hist={} subject={} b{} result={} notifications={}",
							hist, name, i, r, sl
						));
					}
					if let Some(w) = kit.blks[*i].tags.iter().find(|t| t.starts_with("want:")) {
						let want = format!("err:{}", &w[5..]);
						*g_stats.entry(format!("two-faults:{}:{}", kit.blks[*i].tags.iter().find(|t| t.starts_with("kind:")).cloned().unwrap_or_default(), r)).or_insert(0) += 1;
						if r != want && !["err:Orphan", "err:StoreErr", "err:Unfit"].contains(&r.as_str()) {
							out.raw(&format!(
								"#ORACLE-FAIL C06 a block with two faults must be refused by the FIRST failing stage of the code's order: hist={} subject={} b{} tags={:?} expected {} got {}",
								hist, name, i, kit.blks[*i].tags, want, r
							));
						}
					}
					if !kit.blks[*i].valid && r.starts_with("ok") {
						out.raw(&format!(
							"#ORACLE-FAIL C06 invalid block accepted: hist={} subject={} b{} tags={:?} result={}",
							hist, name, i, kit.blks[*i].tags, r
						));
					}
				}
				Ev::Hdr(i) => {
					// odd subjects take headers the way header sync delivers them (a chunk of one)
					let r = if si % 2 == 1 {
						subj.sync_headers(&[kit.blks[*i].block.header.clone()])
					} else {
						subj.deliver_header(&kit.blks[*i].block.header)
					};
					out.line(&format!("chain hdr {} b{}", name, i), &r);
				}
				Ev::Reopen => {
					let roots_before = subj.roots();
					// start-up (`Chain::init`: setup_head, init_output_pos_index, init_recent_kernel_pos_index)
					// in whatever relation header head and body head are; half of the time two index entries
					// of unspent outputs are deleted behind the node's back first, so that
					// `init_output_pos_index` really has to re-derive position AND height (it reads the
					// heights through the header MMR) - the `upos` line after this event compares both
					{
						let h = subj.c().head().unwrap();
						let hh = subj.c().header_head().unwrap();
						let rel = if h.last_block_h == hh.last_block_h { "header-head=body-head" } else if hh.height > h.height { "header-head-ahead-or-other-fork" } else { "header-head-behind-or-other-fork" };
						let mut dropped = 0;
						// only while the header chain CONTAINS the body head: with the header head on another
						// fork the repair reads other blocks' sizes at the body's heights and leaves entries
						// missing (observation reported to the lead; not a registered probe)
						let body_on_header_chain = subj.c().get_header_by_height(h.height).map(|x| x.hash() == h.last_block_h).unwrap_or(false);
						if body_on_header_chain && h.height > 0 && rrng.chance(1, 2) {
							// (outputs of the genesis block are left alone: the repair walks the headers from
							// height 1 up, so it files them under height 1 and restores nothing while the head
							// is the genesis - observation reported, precondition again a lost index entry)
							let u: Vec<usize> = subj.utxo(kit).into_iter().filter(|o| *o != 0).collect();
							if let Ok(mut b) = subj.c().store().batch() {
								for _ in 0..2 {
									if !u.is_empty() {
										let o = *rrng.pick(&u);
										if b.delete_output_pos_height(&kit.outs[o].commit).is_ok() {
											dropped += 1;
										}
									}
								}
								let _ = b.commit();
							}
						}
						*g_stats.entry(format!("startup:{}:index-entries-deleted-first={}", rel, dropped)).or_insert(0) += 1;
					}
					let r = match reopen_rec(&mut subj) {
						Ok(_) => "ok".to_string(),
						Err(e) => format!("err:{}", e),
					};
					out.line(&format!("chain reopen {}", name), &r);
					if r == "ok" {
						if let Err(e) = subj.c().validate(true) {
							out.raw(&format!("#ORACLE-FAIL C01 validate(fast) fails right after a restart: hist={} subject={}: {}", hist, name, error_class(&e)));
						}
					}
					if r == "ok" && subj.roots() != roots_before {
						out.raw(&format!(
							"#ORACLE-FAIL C15 state roots (incl. the bitmap root) differ after a restart: hist={} subject={} before={} after={}",
							hist, name, roots_before, subj.roots()
						));
					}
				}
				Ev::Compact => {
					let r = match subj.c().compact() {
						Ok(_) => "ok".to_string(),
						Err(e) => format!("err:{}", error_class(&e)),
					};
					out.line(&format!("chain compact {}", name), &r);
				}
			}
			let obs = subj.obs(kit);
			out.line(&format!("chain obs {}", name), &obs);
			// C02: every other way the node reports its unspent outputs
			report_lines(out, &mut rrng, kit, &subj, &name, &mut g_stats);
			// C15: the committed bitmap root against the root computed from scratch, and discarded
			// extensions that rewind (merkle proof at an older header, txhashset_read, segmenter):
			// no-ops for every observation
			bitmap_oracle(out, kit, &subj, &name, "after-event", &mut g_stats);
			if c15_subject || rrng.chance(1, 3) {
				discarded_ops(out, &mut rrng, kit, &subj, &name, &mut g_stats);
			}
			if let Some((o0, r0)) = before {
				// C06: a rejected input leaves best-chain state untouched (header head may move
				// only for a valid header: compare head + utxo + roots)
				let strip = |s: &str| -> String {
					s.split(' ').filter(|t| !t.starts_with("hhead=")).collect::<Vec<_>>().join(" ")
				};
				if strip(&o0) != strip(&obs) || r0 != subj.roots() {
					out.raw(&format!(
						"#ORACLE-FAIL C06 rejected input changed best-chain state: hist={} subject={} ev={:?} before=[{} {}] after=[{} {}]",
						hist, name, ev, o0, r0, obs, subj.roots()
					));
				}
			}
			// twin: same sequence without the invalid inputs must be observably identical
			if let Some(tw) = twin.as_mut() {
				if !is_invalid_ev {
					match ev {
						Ev::Blk(i) => {
							let r = tw.deliver_block(&kit.blks[*i].block);
							out.line(&format!("chain deliver {} b{}", twin_name, i), &r);
							let (sl, _) = drain_status(kit);
							out.line(&format!("chain status {}", twin_name), &sl);
						}
						Ev::Hdr(i) => {
							let r = tw.deliver_header(&kit.blks[*i].block.header);
							out.line(&format!("chain hdr {} b{}", twin_name, i), &r);
						}
						Ev::Reopen => {
							// a restart forgets the in-memory orphan pool: the twin restarts too
							let r = match reopen_rec(tw) {
								Ok(_) => "ok".to_string(),
								Err(e) => format!("err:{}", e),
							};
							out.line(&format!("chain reopen {}", twin_name), &r);
						}
						Ev::Compact => {
							let r = match tw.c().compact() {
								Ok(_) => "ok".to_string(),
								Err(e) => format!("err:{}", error_class(&e)),
							};
							out.line(&format!("chain compact {}", twin_name), &r);
						}
					}
				}
				let strip = |s: &str| -> String {
					s.split(' ').filter(|t| !t.starts_with("hhead=")).collect::<Vec<_>>().join(" ")
				};
				let to = tw.obs(kit);
				if strip(&to) != strip(&obs) || tw.roots() != subj.roots() {
					out.raw(&format!(
						"#ORACLE-FAIL C06 node that saw rejected inputs diverged from its twin: hist={} subject={} after ev={:?} subj=[{} {}] twin=[{} {}]",
						hist, name, ev, obs, subj.roots(), to, tw.roots()
					));
				}
			}
			// C01: the accepted state passes (fast) validation incl. kernel sums
			if let Ev::Blk(_) = ev {
				if rng.chance(1, 4) {
					if let Err(e) = subj.c().validate(true) {
						out.raw(&format!("#ORACLE-FAIL C01 validate(fast) failed: hist={} subject={} after {:?}: {}", hist, name, ev, error_class(&e)));
					}
					// the sums stored for the head = the sums recomputed from the full state
					if let Err(e) = subj.sums_check() {
						out.raw(&format!("#ORACLE-FAIL C01 hist={} subject={} after {:?}: {}", hist, name, ev, e));
					}
				}
			}
		}
		// a restart forgets pending orphans (they live in memory): such a subject is brought
		// up to date by re-delivering every valid block parents-first; then it must agree too
		if evs.iter().any(|e| matches!(e, Ev::Reopen)) {
			for i in &valid {
				let r = subj.deliver_block(&kit.blks[*i].block);
				out.line(&format!("chain deliver {} b{}", name, i), &r);
				let (sl, _) = drain_status(kit);
				out.line(&format!("chain status {}", name), &sl);
			}
			out.line(&format!("chain obs {}", name), &subj.obs(kit));
			report_lines(out, &mut rrng, kit, &subj, &name, &mut g_stats);
		}
		// quiescence: full validation
		let v = match subj.c().validate(false) {
			Ok(_) => "ok".to_string(),
			Err(e) => format!("err:{}", error_class(&e)),
		};
		out.line(&format!("chain validate {}", name), &v);
		if let Err(e) = subj.sums_check() {
			out.raw(&format!("#ORACLE-FAIL C01 hist={} subject={} at the end of its history: {}", hist, name, e));
		}
		finals.push((name.clone(), subj.obs(kit), subj.roots(), true));
		drop(subj);
		drop(twin);
	}
	// EVERY invalid variant (one per validation stage, and the two-fault ones) on a node that HAS the
	// block's parent, so that it reaches the stage it is about, under EVERY word of processing
	// options: SKIP_POW alone and with SYNC / MINE / both (compared with the model line by line; the
	// verdict must be the same for all four, and for a two-fault block the first failing stage of
	// the code's order), and without SKIP_POW - NONE, SYNC, MINE - where it must be refused too
	// (the blocks carry no real proof of work; which PoW stage answers is C04's business)
	{
		let sw = new_rec_subject(&format!("{}/sw_{}", work, hist), &kit.genesis);
		out.raw("chain new sw");
		let mut have: BTreeSet<usize> = BTreeSet::new();
		have.insert(0);
		let strip = |s: &str| -> String { s.split(' ').filter(|t| !t.starts_with("hhead=")).collect::<Vec<_>>().join(" ") };
		for x in invalid.iter() {
			let mut need = vec![];
			let mut p = kit.blks[*x].parent.unwrap();
			while !have.contains(&p) {
				need.push(p);
				p = kit.blks[p].parent.unwrap();
			}
			need.reverse();
			for i in need {
				let r = sw.deliver_block(&kit.blks[i].block);
				out.line(&format!("chain deliver sw b{}", i), &r);
				have.insert(i);
			}
			let before = (sw.obs(kit), sw.roots());
			let kind = kit.blks[*x].tags.iter().find(|t| t.starts_with("kind:")).cloned().unwrap_or_default();
			let want = kit.blks[*x].tags.iter().find(|t| t.starts_with("want:")).map(|w| format!("err:{}", &w[5..]));
			let mut verdicts: Vec<(u32, String)> = vec![];
			for opts in [1u32, 3, 5, 7, 0, 2, 4] {
				discard_status();
				let o = grin_chain::Options::from_bits_truncate(opts);
				let r = match sw.c().process_block(kit.blks[*x].block.clone(), o) {
					Ok(Some(_)) => "ok:head".to_string(),
					Ok(None) => "ok:fork".to_string(),
					Err(e) => format!("err:{}", error_class(&e)),
				};
				if opts & 1 == 1 {
					out.line(&format!("chain deliver sw b{} opts={}", x, opts), &r);
					out.line("chain obs sw", &sw.obs(kit));
				}
				verdicts.push((opts, r.clone()));
				if r.starts_with("ok") {
					out.raw(&format!(
						"#ORACLE-FAIL C06 invalid block accepted under processing options {}: hist={} b{} tags={:?} result={}",
						opts, hist, x, kit.blks[*x].tags, r
					));
				}
			}
			let first = verdicts[0].1.clone();
			*g_stats.entry(format!("invalid-with-parent:{}:{}", kind, first)).or_insert(0) += 1;
			*g_stats.entry(format!("invalid-with-parent:without-SKIP_POW:{}", verdicts[4].1)).or_insert(0) += 1;
			if verdicts[..4].iter().any(|v| v.1 != first) {
				out.raw(&format!(
					"#ORACLE-FAIL C06 the verdict on an invalid block depends on SYNC / MINE: hist={} b{} tags={:?} verdicts (options, result)={:?}",
					hist, x, kit.blks[*x].tags, verdicts
				));
			}
			if let Some(w) = want {
				if first != w {
					out.raw(&format!(
						"#ORACLE-FAIL C06 a block with two faults, offered to a node that has its parent, must be refused by the FIRST failing stage of the code's order: hist={} b{} tags={:?} expected {} got {}",
						hist, x, kit.blks[*x].tags, w, first
					));
				}
			}
			// (the header of a refused block may be remembered and move the header head: not compared)
			if (strip(&sw.obs(kit)), sw.roots()) != (strip(&before.0), before.1.clone()) {
				out.raw(&format!("#ORACLE-FAIL C06 a refused invalid block changed the node: hist={} b{} tags={:?}", hist, x, kit.blks[*x].tags));
			}
		}
		discard_status();
	}
	// C02 / C06: Chain::reset_chain_head (owner API reset; Model/ChainReset.lean) and the header
	// denylist (Chain::invalidate_header): a node that has the whole trunk is reset to a block k
	// blocks below its head, with and without its header chain; it must then report exactly what a
	// node reports that only ever saw the trunk up to there; never-seen fork blocks follow; at the
	// end the head is put on the denylist, the node reset to its parent, and the denied block offered
	// again (refused, nothing changes)
	{
		let sr = new_rec_subject(&format!("{}/sr_{}", work, hist), &kit.genesis);
		let tr = new_rec_subject(&format!("{}/tr_{}", work, hist), &kit.genesis);
		out.raw("chain new sr");
		let mut rrng = Rng::new(seed_from_env() ^ 0x5e5e7 ^ ((hist as u64) << 8));
		for i in &trunk[1..] {
			let r = sr.deliver_block(&kit.blks[*i].block);
			out.line(&format!("chain deliver sr b{}", i), &r);
		}
		out.line("chain obs sr", &sr.obs(kit));
		if trunk.len() > 4 {
			let k = 1 + rrng.below((trunk.len() - 3) as u64) as usize;
			let target = trunk[k];
			let rewind_headers = rrng.chance(1, 2);
			let hdr = kit.blks[target].block.header.clone();
			let r = match sr.c().reset_chain_head(grin_chain::Tip::from_header(&hdr), rewind_headers) {
				Ok(_) => "ok".to_string(),
				Err(e) => format!("err:{}", error_class(&e)),
			};
			out.line(&format!("chain resethead sr b{} hdrs={}", target, if rewind_headers { 1 } else { 0 }), &r);
			let obs = sr.obs(kit);
			out.line("chain obs sr", &obs);
			report_lines(out, &mut rrng, kit, &sr, "sr", &mut g_stats);
			bitmap_oracle(out, kit, &sr, "sr", "after-reset_chain_head", &mut g_stats);
			for i in &trunk[1..=k] {
				let _ = tr.deliver_block(&kit.blks[*i].block);
			}
			let strip = |s: &str| -> String { s.split(' ').filter(|t| !t.starts_with("hhead=")).collect::<Vec<_>>().join(" ") };
			if r != "ok" || strip(&obs) != strip(&tr.obs(kit)) || sr.roots() != tr.roots() {
				out.raw(&format!(
					"#ORACLE-FAIL C02 after reset_chain_head(b{}, rewind_headers={}) = {} the node reports [{} {}] but a node that only saw the chain up to b{} reports [{} {}]",
					target, rewind_headers, r, obs, sr.roots(), target, tr.obs(kit), tr.roots()
				));
			}
			if let Err(e) = sr.c().validate(true) {
				out.raw(&format!("#ORACLE-FAIL C01 validate(fast) fails after reset_chain_head(b{}): {}", target, error_class(&e)));
			}
			if let Err(e) = sr.sums_check() {
				out.raw(&format!("#ORACLE-FAIL C01 after reset_chain_head(b{}): {}", target, e));
			}
			*g_stats.entry(format!("reset:depth={}:rewind_headers={}", trunk.len() - 1 - k, rewind_headers)).or_insert(0) += 1;
			// never-seen blocks follow: the fork branches, in creation order
			for i in &valid {
				if !trunk.contains(i) {
					discard_status();
					let r = sr.deliver_block(&kit.blks[*i].block);
					out.line(&format!("chain deliver sr b{}", i), &r);
					let (sl, _) = drain_status(kit);
					out.line("chain status sr", &sl);
					out.line("chain obs sr", &sr.obs(kit));
					bitmap_oracle(out, kit, &sr, "sr", "fork-block-after-reset", &mut g_stats);
				}
			}
			// the denylist: the head is denied, the node reset to its parent, the denied block offered again
			let head_h = sr.c().head().unwrap().last_block_h;
			if let Some(hd) = kit.by_hash.get(&head_h).cloned() {
				if let Some(par) = kit.blks[hd].parent {
					let _ = sr.c().invalidate_header(head_h);
					let ph = kit.blks[par].block.header.clone();
					let r = match sr.c().reset_chain_head(grin_chain::Tip::from_header(&ph), true) {
						Ok(_) => "ok".to_string(),
						Err(e) => format!("err:{}", error_class(&e)),
					};
					out.line(&format!("chain resethead sr b{} hdrs=1", par), &r);
					let before = (sr.obs(kit), sr.roots());
					out.line("chain obs sr", &before.0);
					let r2 = sr.deliver_block(&kit.blks[hd].block);
					let r3 = sr.deliver_header(&kit.blks[hd].block.header);
					let after = (sr.obs(kit), sr.roots());
					*g_stats.entry(format!("denylist:denied-block-offered-again:{}:{}", r2, r3)).or_insert(0) += 1;
					if r2.starts_with("ok") || r3.starts_with("ok") || before != after {
						out.raw(&format!(
							"#ORACLE-FAIL C06 a block whose header is on the denylist (b{}) offered after reset_chain_head(b{}): block={} header={}; before=[{} {}] after=[{} {}]",
							hd, par, r2, r3, before.0, before.1, after.0, after.1
						));
					}
				}
			}
		}
		discard_status();
	}
	// C03: every subject received every valid block: same head, utxo and roots when the max is unique
	if unique_max {
		let strip = |s: &str| -> String {
			s.split(' ').filter(|t| !t.starts_with("hhead=")).collect::<Vec<_>>().join(" ")
		};
		let (n0, o0, r0, _) = finals[0].clone();
		for (n, o, r, _) in &finals[1..] {
			if strip(o) != strip(&o0) || *r != r0 {
				out.raw(&format!(
					"#ORACLE-FAIL C03 delivery order changed the final state: hist={} {}=[{} {}] {}=[{} {}]",
					hist, n0, o0, r0, n, o, r
				));
			}
		}
		let want = format!("head=b{}", winners[0]);
		if !o0.starts_with(&want) {
			out.raw(&format!("#ORACLE-FAIL C03 head is not the unique max-work block: hist={} want {} got {}", hist, want, o0));
		}
		*g.stats.entry("history:unique-max".into()).or_insert(0) += 1;
	} else {
		*g.stats.entry("history:tied-max".into()).or_insert(0) += 1;
	}
	*g.stats.entry("blocks:valid".into()).or_insert(0) += valid.len() as u64;
	*g.stats.entry("blocks:invalid".into()).or_insert(0) += invalid.len() as u64;
	let mut st = g.stats.clone();
	for (k, v) in g_stats {
		*st.entry(k).or_insert(0) += v;
	}
	drop(g);
	st
}

/// C08 / C15 / C02 at chain level: a chain long enough for `Chain::compact` to really run
/// (head >= tail + horizon + 60), with spends all along; observations and roots before and
/// after compaction, after a restart, and through a reorganisation that stays inside the horizon,
/// against a twin node that never compacts.
fn run_long(out: &mut Out, rng: &mut Rng, work: &str, user: bool, hdr_ahead: bool) -> BTreeMap<String, u64> {
	out.raw("chain reset");
	let mut stats: BTreeMap<String, u64> = BTreeMap::new();
	let mut kit = Kit::new(&format!("{}/builder_long", work));
	// `user`: the UserTesting parameters, where the cut-through horizon (70) is larger than the state
	// sync threshold (20): compaction needs 131+ blocks and the archive header lies inside the horizon
	let n_trunk = if user { 140u64 } else { 86u64 };
	// `hdr_ahead`: five more headers (bodies withheld) are known when the node compacts, the late
	// spend patterns start 20 blocks below the tip and the fork leaves the trunk 20 blocks below it
	let fork_depth = if user { 40usize } else if hdr_ahead { 20usize } else { 11usize };
	let aim = if hdr_ahead { 20u64 } else { 12u64 };
	let mut tip = 0usize;
	let mut trunk = vec![0usize];
	// the outputs of heights 0..3 (the coinbases: output leaves 0..3, two pairs of sibling leaves far
	// below any horizon) are kept unspent until the LAST trunk block - the head at compaction time -
	// spends leaves 0 and 1 (both siblings) and leaf 2 (one sibling); a heavier sibling of that block
	// then replaces it (a reorganisation of one block) and spends leaf 3 instead
	let mut spendable: Vec<(usize, u64)> = vec![];
	let mut reserved: Vec<usize> = vec![0];
	let mut spent_plain: Vec<usize> = vec![];
	// output leaf index of every output and the height at which a leaf was spent, so that the
	// late blocks can aim at the spend patterns of the property (a leaf whose sibling was spent
	// long before, both siblings, whole small subtrees)
	let mut leaf_of: BTreeMap<usize, u64> = BTreeMap::new();
	leaf_of.insert(0, 0);
	let mut spent_at: BTreeMap<u64, u64> = BTreeMap::new();
	let mut sibling_pattern = 0u64;
	for h in 1..=n_trunk {
		let mut specs = vec![];
		// C15: every ninth block and the two blocks below the compaction head are BALANCED - coinbase
		// plus one 2-input / 1-output transaction: they create exactly as many outputs as they spend
		let balanced = h >= 10 && (h % 9 == 0 || (h + 3 > n_trunk && h < n_trunk));
		if balanced {
			let mut cands: Vec<usize> = spendable
				.iter()
				.enumerate()
				.filter(|(_, (o, c))| (!kit.outs[*o].coinbase || h >= *c + MATURITY) && kit.outs[*o].value >= 10)
				.map(|(i, _)| i)
				.collect();
			if cands.len() >= 2 {
				let i1 = cands.swap_remove(rng.below(cands.len() as u64) as usize);
				let i2 = cands.swap_remove(rng.below(cands.len() as u64) as usize);
				let (hi, lo) = if i1 > i2 { (i1, i2) } else { (i2, i1) };
				let (o1, _) = spendable.remove(hi);
				let (o2, _) = spendable.remove(lo);
				for o in [o1, o2] {
					if !kit.outs[o].coinbase {
						spent_plain.push(o);
					}
					if let Some(idx) = leaf_of.get(&o) {
						spent_at.insert(*idx, h);
					}
				}
				specs.push(TxSpec {
					inputs: vec![o1, o2],
					outputs: vec![(kit.outs[o1].value + kit.outs[o2].value - 2, None)],
					kernel: KSpec::Plain(2),
				});
				*stats.entry("long:balanced-blocks".into()).or_insert(0) += 1;
			}
		}
		// the block that will be the compaction horizon spends at least one output (one end of the
		// `current.height > horizon.height` walk; the head block, the other end, spends three)
		let is_horizon_block = h + grin_core::global::cut_through_horizon() as u64 == n_trunk;
		let nsp = if balanced {
			0
		} else if h >= 4 {
			(rng.range(0, 2) + if h + aim > n_trunk { 1 } else { 0 }).max(if is_horizon_block { 1 } else { 0 })
		} else {
			0
		};
		for _ in 0..nsp {
			let cands: Vec<usize> = spendable
				.iter()
				.enumerate()
				.filter(|(_, (o, c))| !kit.outs[*o].coinbase || h >= *c + MATURITY)
				.map(|(i, _)| i)
				.collect();
			if cands.is_empty() {
				break;
			}
			// late blocks: prefer a leaf whose sibling leaf was spent at least 25 blocks ago
			let mut pick = *rng.pick(&cands);
			if h + aim > n_trunk {
				let aimed: Vec<usize> = cands
					.iter()
					.cloned()
					.filter(|i| {
						let o = spendable[*i].0;
						match leaf_of.get(&o) {
							Some(idx) => spent_at.get(&(idx ^ 1)).map(|sh| *sh + 25 <= h).unwrap_or(false),
							None => false,
						}
					})
					.collect();
				if !aimed.is_empty() {
					pick = *rng.pick(&aimed);
					sibling_pattern += 1;
				}
			}
			let (o, _) = spendable.remove(pick);
			let v = kit.outs[o].value;
			if v < 10 {
				continue;
			}
			if !kit.outs[o].coinbase {
				spent_plain.push(o);
			}
			if let Some(idx) = leaf_of.get(&o) {
				spent_at.insert(*idx, h);
			}
			if rng.chance(1, 3) {
				specs.push(TxSpec { inputs: vec![o], outputs: vec![(v - 1, None)], kernel: KSpec::Plain(1) });
			} else {
				let a = rng.range(1, v / 2);
				specs.push(TxSpec { inputs: vec![o], outputs: vec![(a, None), (v - a - 2, None)], kernel: KSpec::Plain(2) });
			}
		}
		if h == n_trunk && reserved.len() == 4 {
			let (a, b, c) = (reserved[0], reserved[1], reserved[2]);
			specs.push(TxSpec { inputs: vec![a, b], outputs: vec![(kit.outs[a].value + kit.outs[b].value - 3, None)], kernel: KSpec::Plain(3) });
			specs.push(TxSpec { inputs: vec![c], outputs: vec![(kit.outs[c].value - 2, None)], kernel: KSpec::Plain(2) });
		}
		let before = kit.outs.len();
		match kit.new_block(tip, 2, &specs) {
			Ok(id) => {
				tip = id;
				trunk.push(id);
				for o in before..kit.outs.len() {
					if h <= 3 {
						reserved.push(o);
						if let Ok(Some((_, cp))) = kit.builder().get_unspent(kit.outs[o].commit) {
							leaf_of.insert(o, grin_core::core::pmmr::n_leaves(cp.pos) - 1);
						}
						continue;
					}
					spendable.push((o, h));
					if let Ok(Some((_, cp))) = kit.builder().get_unspent(kit.outs[o].commit) {
						leaf_of.insert(o, grin_core::core::pmmr::n_leaves(cp.pos) - 1);
					}
				}
			}
			Err(e) => {
				*stats.entry(format!("generator:{}", e)).or_insert(0) += 1;
				complain(format!("scripted chain: {}", e));
			}
		}
	}
	*stats.entry("long:late-spends-whose-sibling-was-spent-25+-blocks-earlier".into()).or_insert(0) += sibling_pattern;
	// the heavier sibling of the last trunk block
	let n = trunk.len() - 1;
	let mut alt: Option<usize> = None;
	let head_spent: Vec<usize> = if reserved.len() == 4 && n as u64 == n_trunk { reserved[..3].to_vec() } else { vec![] };
	if !head_spent.is_empty() {
		let d = reserved[3];
		let spec = TxSpec { inputs: vec![d], outputs: vec![(kit.outs[d].value - 2, None)], kernel: KSpec::Plain(2) };
		match kit.new_block(trunk[n - 1], 3, &[spec]) {
			Ok(id) => alt = Some(id),
			Err(e) => complain(format!("sibling of the compaction head: {}", e)),
		}
		let leaves: Vec<String> = reserved.iter().map(|o| format!("o{}@leaf{:?}", o, leaf_of.get(o))).collect();
		out.raw(&format!("#STAT long:head-at-compaction spends [{}] (first three), its sibling the fourth", leaves.join(",")));
	} else {
		complain("scripted chain: the block that is head at compaction time does not spend the reserved old outputs".to_string());
	}
	// a competing branch of depth 3 forking 11 blocks below the tip (inside the horizon), heavier:
	// it un-spends everything the last 11 trunk blocks spent
	let mut fork = vec![];
	let mut t = trunk[n - fork_depth];
	for d in 0..3 {
		match kit.new_block(t, if d == 2 { 60 } else { 2 }, &[]) {
			Ok(id) => {
				fork.push(id);
				t = id;
			}
			Err(_) => break,
		}
	}
	// candidate branches rooted at every height the body tail can have after the compaction (the
	// horizon below the head, pulled back to the archive header): two blocks, the second far
	// heavier than everything else; the one rooted exactly AT the tail block is delivered last
	let horizon = if user { 70usize } else { 20usize };
	let mut tail_forks: BTreeMap<u64, Vec<usize>> = BTreeMap::new();
	for root_h in n.saturating_sub(horizon + 12)..=n.saturating_sub(horizon) {
		if root_h == 0 {
			continue;
		}
		let mut t = trunk[root_h];
		let mut ids = vec![];
		for d in 0..2 {
			match kit.new_block(t, if d == 1 { 5000 + root_h as u64 } else { 2 }, &[]) {
				Ok(id) => {
					ids.push(id);
					t = id;
				}
				Err(e) => {
					complain(format!("tail fork at {}: {}", root_h, e));
					break;
				}
			}
		}
		if ids.len() == 2 {
			tail_forks.insert(root_h as u64, ids);
		}
	}
	// five more blocks on the trunk (used by the `hdr` variant only)
	let mut ahead: Vec<usize> = vec![];
	if hdr_ahead {
		let mut t = *trunk.last().unwrap();
		for _ in 0..5 {
			match kit.new_block(t, 2, &[]) {
				Ok(id) => {
					ahead.push(id);
					t = id;
				}
				Err(e) => {
					complain(format!("headers ahead: {}", e));
					break;
				}
			}
		}
	}
	for l in kit.out_lines(0) {
		out.raw(&l);
	}
	for id in 0..kit.blks.len() {
		out.raw(&kit.blk_line(id));
	}
	let mut subj = Subject::new(&format!("{}/long_s", work), &kit.genesis);
	let twin = Subject::new(&format!("{}/long_t", work), &kit.genesis);
	out.raw("chain new s0");
	out.raw("chain new t0");
	let rstats: std::cell::RefCell<BTreeMap<String, u64>> = std::cell::RefCell::new(BTreeMap::new());
	let rrng = std::cell::RefCell::new(Rng::new(seed_from_env() ^ 0x5eed_c0de));
	for (k, i) in trunk[1..].iter().enumerate() {
		let r = subj.deliver_block(&kit.blks[*i].block);
		out.line(&format!("chain deliver s0 b{}", i), &r);
		let r = twin.deliver_block(&kit.blks[*i].block);
		out.line(&format!("chain deliver t0 b{}", i), &r);
		// C15: discarded extensions that rewind (merkle proof at an older header, txhashset_read,
		// segmenter) between deliveries - right after balanced blocks and below the head - must be
		// no-ops; the bitmap root against the from-scratch root after every block
		bitmap_oracle(out, &kit, &subj, "s0", "after-block", &mut rstats.borrow_mut());
		let h = k as u64 + 1;
		if h >= 10 && (h % 9 <= 2 || h + 4 > n_trunk) {
			discarded_ops(out, &mut rrng.borrow_mut(), &kit, &subj, "s0", &mut rstats.borrow_mut());
			if subj.roots() != twin.roots() {
				out.raw(&format!("#ORACLE-FAIL C15 after discarded extensions at height {} the node's roots differ from its twin's: {} vs {}", h, subj.roots(), twin.roots()));
			}
		}
	}
	let check_pair = |out: &mut Out, subj: &Subject, twin: &Subject, stage: &str| {
		let (o, r) = (subj.obs(&kit), subj.roots());
		let (to, tr) = (twin.obs(&kit), twin.roots());
		out.line("chain obs s0", &o);
		// C02: the other reporting paths of the unspent set, on the compacted node
		report_lines(out, &mut rrng.borrow_mut(), &kit, subj, "s0", &mut rstats.borrow_mut());
		bitmap_oracle(out, &kit, subj, "s0", stage, &mut rstats.borrow_mut());
		discarded_ops(out, &mut rrng.borrow_mut(), &kit, subj, "s0", &mut rstats.borrow_mut());
		// C08: the bitmap compaction receives / would receive as "spent above the horizon"
		protect_line(out, &kit, subj, "s0", &mut rstats.borrow_mut());
		if o != to || r != tr {
			out.raw(&format!(
				"#ORACLE-FAIL C08 compacted node differs from the never-compacted twin at stage {}: s=[{} {}] t=[{} {}]",
				stage, o, r, to, tr
			));
		}
	};
	if hdr_ahead {
		// their HEADERS only are delivered before the compaction
		for id in &ahead {
			let h = kit.blks[*id].block.header.clone();
			let r = subj.deliver_header(&h);
			out.line(&format!("chain hdr s0 b{}", id), &r);
			let r = twin.deliver_header(&h);
			out.line(&format!("chain hdr t0 b{}", id), &r);
		}
		*stats.entry("long:headers-ahead-of-bodies-at-compaction".into()).or_insert(0) += ahead.len() as u64;
	}
	check_pair(out, &subj, &twin, "before-compaction");
	let roots_before = subj.roots();
	let v0 = subj.c().validate(false).is_ok();
	// compaction
	let tail_before = subj.c().tail().map(|t| t.height).unwrap_or(0);
	let r = match subj.c().compact() {
		Ok(_) => "ok".to_string(),
		Err(e) => format!("err:{}", error_class(&e)),
	};
	out.line("chain compact s0", &r);
	// the blocks below the new body tail lost their spent-index records (remove_historical_blocks)
	tail_line(out, &kit, &subj, "s0");
	let tail_after = subj.c().tail().map(|t| t.height).unwrap_or(0);
	*stats.entry("long:compaction-moved-tail".into()).or_insert(0) += (tail_after > tail_before) as u64;
	if tail_after <= tail_before {
		out.raw(&format!("#ORACLE-FAIL C08 harness: compaction did not run (tail {} -> {})", tail_before, tail_after));
	}
	{
		// which full blocks survive: the lowest height whose block is still in the store
		let lowest = trunk.iter().skip(1).find(|i| subj.c().get_block(&kit.blks[**i].block.hash()).is_ok()).map(|i| kit.blks[*i].height);
		out.raw(&format!("#STAT long:lowest-block-kept-after-compaction height={:?} head={} tail={}", lowest, n_trunk, tail_after));
	}
	check_pair(out, &subj, &twin, "after-compaction");
	if subj.roots() != roots_before {
		out.raw("#ORACLE-FAIL C08 compaction changed the state roots");
	}
	let v1 = subj.c().validate(false);
	out.line("chain validate s0", &match &v1 { Ok(_) => "ok".to_string(), Err(e) => format!("err:{}", error_class(e)) });
	if v0 && v1.is_err() {
		out.raw("#ORACLE-FAIL C08 full validation fails after compaction");
	}
	// spent outputs must stay spent, Merkle proofs of unspent outputs still verify
	for o in spent_plain.iter().take(40) {
		if let Ok(Some(_)) = subj.c().get_unspent(kit.outs[*o].commit) {
			out.raw(&format!("#ORACLE-FAIL C02 spent output o{} reappeared after compaction", o));
		}
	}
	let mut proofs = 0;
	for oid in subj.utxo(&kit).iter().take(60) {
		let c = kit.outs[*oid].commit;
		match subj.c().get_merkle_proof_for_pos(c) {
			Ok(_) => proofs += 1,
			Err(e) => out.raw(&format!("#ORACLE-FAIL C08 no Merkle proof for unspent o{} after compaction: {}", oid, error_class(&e))),
		}
	}
	*stats.entry("long:merkle-proofs-after-compaction".into()).or_insert(0) += proofs;
	// C01: the sums the node stores for its head equal the sums recomputed from the compacted state
	if let Err(e) = subj.sums_check() {
		out.raw(&format!("#ORACLE-FAIL C01 after compaction: {}", e));
	}
	// the block that was head when the node compacted is replaced by its heavier sibling: everything
	// it spent - outputs created far below the horizon, two of them sibling leaves - is unspent again,
	// its data and range proof are still in the files, the state validates in full and the stored
	// sums are those of the full state
	if let Some(a) = alt {
		let r = subj.deliver_block(&kit.blks[a].block);
		out.line(&format!("chain deliver s0 b{}", a), &r);
		let r2 = twin.deliver_block(&kit.blks[a].block);
		out.line(&format!("chain deliver t0 b{}", a), &r2);
		if r != "ok:head" || r2 != "ok:head" {
			out.raw(&format!("#ORACLE-FAIL C03 the heavier sibling of the head did not become the head (compacted node: {}, twin: {})", r, r2));
		}
		check_pair(out, &subj, &twin, "sibling-replaces-the-head-the-node-compacted-at");
		for o in &head_spent {
			let created = kit.blks.iter().find_map(|b| b.block.outputs().iter().find(|x| x.commitment() == kit.outs[*o].commit).cloned());
			match subj.c().get_unspent(kit.outs[*o].commit) {
				Ok(Some(_)) => {}
				_ => out.raw(&format!("#ORACLE-FAIL C02 o{} (spent only by the block the node compacted at, which a sibling replaced) is not unspent again", o)),
			}
			if let Some(cr) = created {
				if let Err(e) = subj.readback(&kit, *o, &cr) {
					out.raw(&format!("#ORACLE-FAIL C08 after compaction at a head that spent it and a one-block reorganisation away from that head: {}", e));
				}
			}
		}
		let v = subj.c().validate(false);
		out.line("chain validate s0", &match &v { Ok(_) => "ok".to_string(), Err(e) => format!("err:{}", error_class(e)) });
		if let Err(e) = &v {
			out.raw(&format!("#ORACLE-FAIL C01 full validation fails after compaction and a one-block reorganisation: {}", error_class(e)));
		}
		if let Err(e) = subj.sums_check() {
			out.raw(&format!("#ORACLE-FAIL C01 after compaction and a one-block reorganisation: {}", e));
		}
		*stats.entry("long:one-block-reorg-away-from-the-compaction-head".into()).or_insert(0) += 1;
		*stats.entry("long:old-outputs-unspent-again-and-read-back".into()).or_insert(0) += head_spent.len() as u64;
	}
	// restart (bitmap accumulator and output_pos index are rebuilt on open)
	let roots_before = subj.roots();
	let r = match subj.reopen() {
		Ok(_) => "ok".to_string(),
		Err(e) => format!("err:{}", e),
	};
	out.line("chain reopen s0", &r);
	check_pair(out, &subj, &twin, "after-reopen");
	if subj.roots() != roots_before {
		out.raw("#ORACLE-FAIL C15 state roots (incl. the bitmap root) differ after restart");
	}
	// reorganisation inside the horizon, on both
	for i in &fork {
		let r = subj.deliver_block(&kit.blks[*i].block);
		out.line(&format!("chain deliver s0 b{}", i), &r);
		let r2 = twin.deliver_block(&kit.blks[*i].block);
		out.line(&format!("chain deliver t0 b{}", i), &r2);
		if r != r2 {
			out.raw(&format!("#ORACLE-FAIL C08 reorg inside the horizon behaves differently after compaction: b{} {} vs {}", i, r, r2));
		}
		check_pair(out, &subj, &twin, "reorg-inside-horizon");
	}
	let v2 = subj.c().validate(false);
	out.line("chain validate s0", &match &v2 { Ok(_) => "ok".to_string(), Err(e) => format!("err:{}", error_class(e)) });
	if let Err(e) = subj.sums_check() {
		out.raw(&format!("#ORACLE-FAIL C01 after compaction, restart and a reorganisation inside the horizon: {}", e));
	}
	// a reorganisation from the deepest block a compacted node can still reorganise from: the
	// branch rooted exactly at its body tail
	// (only where the tail IS the compaction horizon, as on mainnet and under UserTesting; under
	// AutomatedTesting the state-sync threshold equals the horizon, the tail is pulled back to the
	// archive header below it, and a branch rooted between the two is outside what a compacted
	// node supports: the data of outputs spent there is gone)
	let tail_is_horizon = tail_after == (n_trunk as u64).saturating_sub(horizon as u64);
	if !tail_is_horizon {
		*stats.entry(format!("long:tail-{}-below-horizon-{}:no-reorg-from-the-tail", tail_after, n_trunk as u64 - horizon as u64)).or_insert(0) += 1;
	}
	match tail_forks.get(&tail_after).filter(|_| tail_is_horizon) {
		Some(ids) => {
			for i in ids {
				let r = subj.deliver_block(&kit.blks[*i].block);
				out.line(&format!("chain deliver s0 b{}", i), &r);
				let r2 = twin.deliver_block(&kit.blks[*i].block);
				out.line(&format!("chain deliver t0 b{}", i), &r2);
				if r != r2 {
					out.raw(&format!("#ORACLE-FAIL C08 reorg from the body tail (height {}) behaves differently after compaction: b{} {} vs {}", tail_after, i, r, r2));
				}
				check_pair(out, &subj, &twin, "reorg-from-the-tail");
			}
			let v3 = subj.c().validate(false);
			out.line("chain validate s0", &match &v3 { Ok(_) => "ok".to_string(), Err(e) => format!("err:{}", error_class(e)) });
			if let Err(e) = subj.sums_check() {
				out.raw(&format!("#ORACLE-FAIL C01 after a reorganisation from the body tail of a compacted node: {}", e));
			}
			*stats.entry("long:reorg-from-the-body-tail".into()).or_insert(0) += 1;
		}
		None => {
			*stats.entry(format!("long:no-branch-prepared-at-tail-height-{}", tail_after)).or_insert(0) += 1;
		}
	}
	// C08: the walk over the never-compacted twin's head path after the reorganisations: the
	// abandoned trunk blocks still have their spent-index records but are not on the path
	protect_line(out, &kit, &twin, "t0", &mut rstats.borrow_mut());
	// ... and a third node that compacts while one block inside the window has NO spent-index record
	// (deleted behind the node's back): the walk skips that block
	if !user && !hdr_ahead {
		let third = new_rec_subject(&format!("{}/long_u", work), &kit.genesis);
		out.raw("chain new u0");
		for i in &trunk[1..] {
			let r = third.deliver_block(&kit.blks[*i].block);
			out.line(&format!("chain deliver u0 b{}", i), &r);
		}
		discard_status();
		protect_line(out, &kit, &third, "u0", &mut rstats.borrow_mut());
		let hd = third.c().head_header().unwrap();
		let mut victim = None;
		let mut cur = hd.clone();
		for _ in 0..8 {
			cur = match third.c().get_previous_header(&cur) {
				Ok(h) => h,
				Err(_) => break,
			};
			if third.c().store().batch().ok().and_then(|b| b.get_spent_index(&cur.hash()).ok()).map(|l| !l.is_empty()).unwrap_or(false) {
				victim = Some(cur.clone());
				break;
			}
		}
		if let Some(v) = victim {
			let store = third.c().store();
			let r = match store.batch() {
				Ok(mut b) => {
					let d = b.delete(Some(b'S'), v.hash().as_ref());
					match d.and_then(|_| b.commit()) {
						Ok(_) => "ok".to_string(),
						Err(e) => format!("err:{:?}", e),
					}
				}
				Err(e) => format!("err:{:?}", e),
			};
			out.line(&format!("chain spentdrop u0 {}", kit.bid(&v.hash())), &r);
			protect_line(out, &kit, &third, "u0", &mut rstats.borrow_mut());
			let tail_before = third.c().tail().map(|t| t.height).unwrap_or(0);
			let r = match third.c().compact() {
				Ok(_) => "ok".to_string(),
				Err(e) => format!("err:{}", error_class(&e)),
			};
			out.line("chain compact u0", &r);
			tail_line(out, &kit, &third, "u0");
			let tail_after = third.c().tail().map(|t| t.height).unwrap_or(0);
			protect_line(out, &kit, &third, "u0", &mut rstats.borrow_mut());
			out.line("chain obs u0", &third.obs(&kit));
			bitmap_oracle(out, &kit, &third, "u0", "after-compaction-with-a-missing-spent-index-record", &mut rstats.borrow_mut());
			*stats.entry(format!("long:compaction-with-a-missing-spent-index-record:tail-moved={}", tail_after > tail_before)).or_insert(0) += 1;
		}
	}
	*stats.entry("long:blocks".into()).or_insert(0) += kit.blks.len() as u64;
	*stats.entry("long:outputs".into()).or_insert(0) += kit.outs.len() as u64;
	*stats.entry("long:spent-plain".into()).or_insert(0) += spent_plain.len() as u64;
	for (k, v) in rstats.into_inner() {
		*stats.entry(k).or_insert(0) += v;
	}
	stats
}

/// C03 at depth: (1) a fork rooted more than 50 blocks below the head that carries more work
/// than the whole main chain, delivered after / before it; (2) exactly MAX_ORPHAN_SIZE blocks
/// waiting in the orphan pool at once (children delivered before the first block), with a few
/// duplicates. Every node must end on the most-work chain with the state of a node that got the
/// blocks in order.
fn run_deep(out: &mut Out, rng: &mut Rng, work: &str) -> BTreeMap<String, u64> {
	out.raw("chain reset");
	let mut stats: BTreeMap<String, u64> = BTreeMap::new();
	let mut kit = Kit::new(&format!("{}/builder_deep", work));
	// main chain of 66 light blocks, a few spends on the way
	let mut trunk = vec![0usize];
	for h in 1..=66u64 {
		let parent = *trunk.last().unwrap();
		let mut specs = vec![];
		if h % 9 == 5 {
			// spend the coinbase of the block 4 below
			let b = &kit.blks[trunk[(h - 4) as usize]].block;
			let cb = b.outputs().iter().find(|o| o.is_coinbase()).map(|o| *kit.by_commit.get(&o.commitment()).unwrap());
			if let Some(o) = cb {
				let v = kit.outs[o].value;
				specs.push(TxSpec { inputs: vec![o], outputs: vec![(v - 2, None)], kernel: KSpec::Plain(2) });
			}
		}
		match kit.new_block(parent, 1, &specs) {
			Ok(id) => trunk.push(id),
			Err(e) => {
				*stats.entry(format!("generator:{}", e)).or_insert(0) += 1;
				complain(format!("scripted chain: {}", e));
				break;
			}
		}
	}
	// the fork leaves the main chain at height 5 (61 blocks below its tip): its first blocks carry
	// less total work than the main tip, its last ones more than the whole main chain
	let mut fork = vec![];
	let mut t = trunk[5];
	for d in 0..8 {
		match kit.new_block(t, if d < 2 { 1 } else { 30 }, &[]) {
			Ok(id) => {
				fork.push(id);
				t = id;
			}
			Err(e) => {
				// every block of this script is valid by construction: a refusal by the node that
				// builds the tree is itself the failure
				out.raw(&format!(
					"#ORACLE-FAIL C03 valid fork block at height {} (parent b{}, {} blocks below the head) refused by the node: {}",
					kit.blks[t].height + 1,
					t,
					trunk.len() as u64 - 1 - kit.blks[t].height,
					e
				));
				break;
			}
		}
	}
	// invalid blocks at height 6 on the main chain's block 5 (a stale fork point, 60 blocks below
	// the tip, further than the cut-through horizon), each wrong only against the chain STATE at
	// that point: wrong output root, immature coinbase spend, spend of an output block 5 spent
	let mut stale_invalid: Vec<usize> = vec![];
	if trunk.len() > 60 {
		let cb = |kit: &Kit, b: usize| -> Option<usize> {
			kit.blks[b].block.outputs().iter().find(|o| o.is_coinbase()).and_then(|o| kit.by_commit.get(&o.commitment()).cloned())
		};
		if let Ok(mut b) = kit.assemble(trunk[5], 1, &[], 0) {
			let mut v = b.header.output_root.to_vec();
			v[5] ^= 1;
			b.header.output_root = Hash::from_vec(&v);
			stale_invalid.push(kit.record(b, trunk[5], vec!["late:InvalidRoot".into(), "kind:state-root-wrong(late)-on-stale-fork".into()], false));
		}
		for (src, kind) in [(4usize, "kind:immature-coinbase-on-stale-fork"), (1usize, "kind:double-spend-on-stale-fork")] {
			if let Some(o) = cb(&kit, trunk[src]) {
				let v = kit.outs[o].value;
				if let Ok(tx) = kit.build_tx(&TxSpec { inputs: vec![o], outputs: vec![(v - 2, None)], kernel: KSpec::Plain(2) }) {
					if let Ok(b) = kit.assemble(trunk[5], 1, &[tx], 0) {
						stale_invalid.push(kit.record(b, trunk[5], vec![kind.into()], false));
					}
				}
			}
		}
	}
	// a second builder tree for the orphan scenario: a straight chain of MAX_ORPHAN_SIZE + 1 blocks
	let n_orph = grin_chain::MAX_ORPHAN_SIZE;
	let mut line = vec![0usize];
	for _ in 0..=n_orph {
		let parent = *line.last().unwrap();
		match kit.new_block(parent, 200, &[]) {
			Ok(id) => line.push(id),
			Err(e) => {
				out.raw(&format!("#ORACLE-FAIL C03 valid block at height {} of a straight chain refused by the node: {}", line.len(), e));
				break;
			}
		}
	}
	// a third small tree for header sync in overlapping chunks: m1[10]-m2[10] and f1[1]-f2[1]-f3[1]-f4[100]
	let mut small: Vec<usize> = vec![];
	{
		let mut ok = true;
		let mut add = |kit: &mut Kit, parent: usize, diff: u64, small: &mut Vec<usize>, ok: &mut bool| -> usize {
			match kit.new_block(parent, diff, &[]) {
				Ok(id) => {
					small.push(id);
					id
				}
				Err(e) => {
					complain(format!("header-sync tree: {}", e));
					*ok = false;
					0
				}
			}
		};
		let m1 = add(&mut kit, 0, 10, &mut small, &mut ok);
		if ok {
			add(&mut kit, m1, 10, &mut small, &mut ok);
		}
		let mut f = 0;
		for d in [1u64, 1, 1, 100] {
			if ok {
				f = add(&mut kit, f, d, &mut small, &mut ok);
			}
		}
		if !ok {
			small.clear();
		}
	}
	// a fourth tree: two same-shaped sibling blocks (one input, one output, one kernel each) that
	// spend DIFFERENT old coinbases; the second is heavier and wins
	let mut sib: Vec<usize> = vec![];
	let mut sib_foreign: Option<usize> = None;
	let mut sib_more: Vec<usize> = vec![];
	{
		let mut cur = 0usize;
		let mut chain5 = vec![];
		for _ in 0..5 {
			match kit.new_block(cur, 3, &[]) {
				Ok(id) => {
					cur = id;
					chain5.push(id);
				}
				Err(e) => {
					complain(format!("sibling tree: {}", e));
					break;
				}
			}
		}
		if chain5.len() == 5 {
			let cb = |kit: &Kit, b: usize| -> usize {
				let o = kit.blks[b].block.outputs().iter().find(|o| o.is_coinbase()).unwrap().commitment();
				*kit.by_commit.get(&o).unwrap()
			};
			let (o1, o2) = (cb(&kit, chain5[0]), cb(&kit, chain5[1]));
			let sp = |kit: &Kit, o: usize| TxSpec { inputs: vec![o], outputs: vec![(kit.outs[o].value - 2, None)], kernel: KSpec::Plain(2) };
			let s1 = sp(&kit, o1);
			let s2 = sp(&kit, o2);
			match (kit.new_block(cur, 1, &[s1]), kit.new_block(cur, 2, &[s2])) {
				(Ok(a), Ok(b)) => {
					sib = chain5.clone();
					sib.push(a);
					sib.push(b);
					// on top of the winner: a block spending the plain output that only the losing
					// sibling created (it sits where the winner's own plain output now sits)
					let lost = kit.blks[a].block.outputs().iter().find(|o| !o.is_coinbase()).map(|o| *kit.by_commit.get(&o.commitment()).unwrap());
					// (three blocks later, so that whatever sits at that position has matured)
					let mut top = b;
					for _ in 0..3 {
						if let Ok(id) = kit.new_block(top, 1, &[]) {
							sib_more.push(id);
							top = id;
						}
					}
					if let (Some(x), 3) = (lost, sib_more.len()) {
						let v = kit.outs[x].value;
						if let Ok(tx) = kit.build_tx(&TxSpec { inputs: vec![x], outputs: vec![(v - 2, None)], kernel: KSpec::Plain(2) }) {
							// roots computed on the form the wire carries (what a peer crafting it would do)
							kit.wire_next = true;
							if let Ok(mut blk) = kit.assemble(top, 1, &[tx], 0) {
								// its roots as a node that lived through the reorganisation computes them (the
								// node building the trees holds this tree as a light fork only); when that node
								// refuses to, the header keeps the sizes-only fallback
								let rs = Subject::new(&format!("{}/deep_rootsrc", work), &kit.genesis);
								for i in sib.iter().chain(sib_more.iter()) {
									rs.deliver_block(&kit.blks[*i].block);
								}
								let mut b2 = blk.clone();
								if rs.c().set_txhashset_roots(&mut b2).is_ok() {
									blk = b2;
								}
								sib_foreign = Some(kit.record(blk, top, vec!["kind:spend-of-output-from-rewound-sibling".into()], false));
							}
						}
					}
				}
				(a, b) => complain(format!("sibling tree: {:?} {:?}", a.err(), b.err())),
			}
		}
	}
	// a fifth tree for the inputs in "features and commit" form (protocol v2 / JSON): five light blocks,
	// X spending the (matured) coinbase of the first into two outputs, Y spending a plain output of X;
	// probe transactions spending the second coinbase (matured at the next height), the fifth
	// (immature) and - after X - a plain output of X
	let mut ft: Vec<usize> = vec![];
	let mut ft_xy: Option<(usize, usize)> = None;
	let mut ft_probes: Vec<(String, grin_core::core::Transaction)> = vec![];
	{
		let mut cur = 0usize;
		for _ in 0..5 {
			match kit.new_block(cur, 4, &[]) {
				Ok(id) => {
					cur = id;
					ft.push(id);
				}
				Err(e) => {
					complain(format!("features tree: {}", e));
					break;
				}
			}
		}
		if ft.len() == 5 {
			let cb = |kit: &Kit, b: usize| -> usize {
				let o = kit.blks[b].block.outputs().iter().find(|o| o.is_coinbase()).unwrap().commitment();
				*kit.by_commit.get(&o).unwrap()
			};
			let o1 = cb(&kit, ft[0]);
			let v1 = kit.outs[o1].value;
			let sx = TxSpec { inputs: vec![o1], outputs: vec![(v1 / 2, None), (v1 - v1 / 2 - 2, None)], kernel: KSpec::Plain(2) };
			if let Ok(x) = kit.new_block(cur, 4, &[sx]) {
				let px: Vec<usize> = kit.blks[x].block.outputs().iter().filter(|o| !o.is_coinbase()).map(|o| *kit.by_commit.get(&o.commitment()).unwrap()).collect();
				let vp = kit.outs[px[0]].value;
				let sy = TxSpec { inputs: vec![px[0]], outputs: vec![(vp - 2, None)], kernel: KSpec::Plain(2) };
				if let Ok(y) = kit.new_block(x, 4, &[sy]) {
					ft_xy = Some((x, y));
				}
				let (o2, o5) = (cb(&kit, ft[1]), cb(&kit, ft[4]));
				for (label, o) in [("matured-coinbase", o2), ("immature-coinbase", o5), ("plain-output", px[1])] {
					let v = kit.outs[o].value;
					if let Ok(tx) = kit.build_tx(&TxSpec { inputs: vec![o], outputs: vec![(v - 3, None)], kernel: KSpec::Plain(3) }) {
						ft_probes.push((label.to_string(), tx));
					}
				}
			}
		}
	}
	for l in kit.out_lines(0) {
		out.raw(&l);
	}
	for id in 0..kit.blks.len() {
		out.raw(&kit.blk_line(id));
	}
	*stats.entry("deep:main-chain-blocks".into()).or_insert(0) += (trunk.len() - 1) as u64;
	*stats.entry("deep:fork-blocks".into()).or_insert(0) += fork.len() as u64;
	*stats.entry("deep:fork-root-below-tip".into()).or_insert(0) += (trunk.len() - 1 - 5) as u64;
	let rstats: std::cell::RefCell<BTreeMap<String, u64>> = std::cell::RefCell::new(BTreeMap::new());
	let rrng = std::cell::RefCell::new(Rng::new(seed_from_env() ^ 0x5eed_c0de));
	let deliver = |out: &mut Out, subj: &Subject, name: &str, ids: &[usize], obs_every: usize| {
		for (k, i) in ids.iter().enumerate() {
			discard_status();
			let head_before = subj.c().head().unwrap().last_block_h;
			let r = subj.deliver_block(&kit.blks[*i].block);
			out.line(&format!("chain deliver {} b{}", name, i), &r);
			// C03: the notifications of this call (up to MAX_ORPHAN_SIZE + 1 of them when the parent of a
			// full orphan pool arrives)
			let (sl, told) = drain_status(&kit);
			out.line(&format!("chain status {}", name), &sl);
			status_oracle(out, &kit, name, head_before, &told, &mut rstats.borrow_mut());
			if told.len() > 1 {
				*rstats.borrow_mut().entry(format!("status:notifications-in-one-call={}", told.len())).or_insert(0) += 1;
			}
			if (k + 1) % obs_every == 0 || k + 1 == ids.len() {
				out.line(&format!("chain obs {}", name), &subj.obs(&kit));
				report_lines(out, &mut rrng.borrow_mut(), &kit, subj, name, &mut rstats.borrow_mut());
			}
		}
	};
	// (1) deep fork: main chain first, then the fork; and the other way round
	let s0 = new_rec_subject(&format!("{}/deep_s0", work), &kit.genesis);
	out.raw("chain new s0");
	deliver(out, &s0, "s0", &trunk[1..], 11);
	for i in &stale_invalid {
		let before = (s0.obs(&kit), s0.roots());
		let r = s0.deliver_block(&kit.blks[*i].block);
		out.line(&format!("chain deliver s0 b{}", i), &r);
		*stats.entry(format!("deep:invalid-on-stale-fork:{}", r)).or_insert(0) += 1;
		if r.starts_with("ok") {
			out.raw(&format!("#ORACLE-FAIL C06 an invalid block {} blocks below the head was accepted: b{} tags={:?} {}", trunk.len() - 1 - 6, i, kit.blks[*i].tags, r));
		}
		let strip = |s: String| -> String { s.split(' ').filter(|t| !t.starts_with("hhead=")).collect::<Vec<_>>().join(" ") };
		if (strip(before.0.clone()), before.1.clone()) != (strip(s0.obs(&kit)), s0.roots()) {
			out.raw(&format!("#ORACLE-FAIL C06 a refused block far below the head changed the chain state: b{}", i));
		}
		// nothing of it is remembered: offered again it is refused again, not "already known"
		let r2 = s0.deliver_block(&kit.blks[*i].block);
		out.line(&format!("chain deliver s0 b{}", i), &r2);
		out.line("chain obs s0", &s0.obs(&kit));
	}
	deliver(out, &s0, "s0", &fork, 1);
	let s1 = new_rec_subject(&format!("{}/deep_s1", work), &kit.genesis);
	out.raw("chain new s1");
	deliver(out, &s1, "s1", &trunk[1..=5], 5);
	deliver(out, &s1, "s1", &fork, 1);
	deliver(out, &s1, "s1", &trunk[6..], 11);
	if s0.obs(&kit) != s1.obs(&kit) || s0.roots() != s1.roots() {
		out.raw(&format!(
			"#ORACLE-FAIL C03 a fork rooted {} blocks below the head: final state depends on the delivery order: main-first=[{}] fork-first=[{}]",
			trunk.len() - 1 - 5,
			s0.head_str(&kit),
			s1.head_str(&kit)
		));
	}
	for (n, s) in [("s0", &s0), ("s1", &s1)] {
		let v = match s.c().validate(false) {
			Ok(_) => "ok".to_string(),
			Err(e) => format!("err:{}", error_class(&e)),
		};
		out.line(&format!("chain validate {}", n), &v);
	}
	// (2) exactly MAX_ORPHAN_SIZE waiting orphans: blocks 2..=N+1 of the line in random order with
	// a few duplicates, then block 1; reference: in order
	if line.len() == n_orph + 2 {
		let s2 = new_rec_subject(&format!("{}/deep_s2", work), &kit.genesis);
		out.raw("chain new s2");
		let mut later: Vec<usize> = line[2..].to_vec();
		for i in (1..later.len()).rev() {
			let j = rng.below(i as u64 + 1) as usize;
			later.swap(i, j);
		}
		for k in 0..5 {
			let d = later[rng.below(later.len() as u64) as usize];
			later.insert(later.len() - k, d);
		}
		// the headers are known first (as after header sync), so that a body whose parent body is
		// missing is parked as an orphan
		for i in &line[1..] {
			let r = s2.deliver_header(&kit.blks[*i].block.header);
			out.line(&format!("chain hdr s2 b{}", i), &r);
		}
		deliver(out, &s2, "s2", &later, 50);
		*stats.entry("deep:simultaneous-orphans".into()).or_insert(0) += s2.c().orphans_len() as u64;
		deliver(out, &s2, "s2", &line[1..2], 1);
		let s3 = new_rec_subject(&format!("{}/deep_s3", work), &kit.genesis);
		out.raw("chain new s3");
		deliver(out, &s3, "s3", &line[1..], 50);
		if s2.obs(&kit) != s3.obs(&kit) || s2.roots() != s3.roots() {
			out.raw(&format!(
				"#ORACLE-FAIL C03 {} blocks waiting in the orphan pool (its capacity), then their parent: the node ends on [{}] but in-order delivery ends on [{}]",
				n_orph,
				s2.head_str(&kit),
				s3.head_str(&kit)
			));
		}
	}
	// (2b) BEYOND the capacity of the orphan pool (OrphanBlockPool::add and its eviction, compared
	// with Model/ChainOrphans.lean): the 200 blocks of the line wait, then blocks of the main chain
	// (heights 2..13, their parent body missing too) arrive one by one, then evicted blocks again
	if line.len() == n_orph + 2 && trunk.len() > 14 {
		let s9 = new_rec_subject(&format!("{}/deep_s9", work), &kit.genesis);
		out.raw("chain opool s9 new");
		for i in line[1..].iter().chain(trunk[1..14].iter()) {
			let _ = s9.deliver_header(&kit.blks[*i].block.header);
		}
		let mut order: Vec<usize> = line[2..].to_vec();
		for i in (1..order.len()).rev() {
			let j = rng.below(i as u64 + 1) as usize;
			order.swap(i, j);
		}
		// a duplicate inside the capacity, the main-chain blocks beyond it, evicted ones again
		let dup = order[7];
		order.insert(20, dup);
		order.extend(trunk[2..14].iter().cloned());
		let tail: Vec<usize> = line[line.len() - 6..].to_vec();
		order.extend(tail);
		let mut parked = 0u64;
		for i in &order {
			let r = s9.deliver_block(&kit.blks[*i].block);
			if r != "err:Orphan" {
				out.raw(&format!("#ORACLE-FAIL C03 harness: block b{} whose parent body is missing was not parked as an orphan: {}", i, r));
				continue;
			}
			parked += 1;
			out.line(
				&format!("chain opool s9 add b{} h={}", i, kit.blks[*i].height),
				&format!("len={} evicted={}", s9.c().orphans_len(), s9.c().orphans_evicted_len()),
			);
		}
		let all: Vec<usize> = line[2..].iter().chain(trunk[2..14].iter()).cloned().collect();
		let has: Vec<String> = all.iter().map(|i| if s9.c().is_orphan(&kit.blks[*i].block.hash()) { "1".to_string() } else { "0".to_string() }).collect();
		let ids: Vec<String> = all.iter().map(|i| format!("b{}", i)).collect();
		out.line(&format!("chain opool s9 has [{}]", ids.join(",")), &format!("[{}]", has.join(",")));
		// the parent of the line arrives: exactly the blocks still waiting in an unbroken run of
		// heights are connected
		let mut expect = line[1];
		for i in &line[2..] {
			if s9.c().is_orphan(&kit.blks[*i].block.hash()) {
				expect = *i;
			} else {
				break;
			}
		}
		discard_status();
		let r = s9.deliver_block(&kit.blks[line[1]].block);
		let (_, told) = drain_status(&kit);
		let got = s9.head_str(&kit);
		if !r.starts_with("ok") || !got.starts_with(&format!("head=b{} ", expect)) {
			out.raw(&format!(
				"#ORACLE-FAIL C03 orphan pool beyond its capacity: after the parent (b{}: {}) the node is at [{}] but the blocks still waiting connect up to b{}",
				line[1], r, got, expect
			));
		}
		*stats.entry("deep:orphans-offered-beyond-capacity".into()).or_insert(0) += parked;
		*stats.entry("deep:orphans-evicted".into()).or_insert(0) += s9.c().orphans_evicted_len() as u64;
		*stats.entry(format!("deep:connected-after-eviction={}", told.len())).or_insert(0) += 1;
	}
	// (3) header sync in overlapping chunks (a chunk starting with a known header and ending below
	// the current header head), then bodies children-first: must end on the most-work chain
	if small.len() == 6 {
		let (m1, m2, f1, f2, f3, f4) = (small[0], small[1], small[2], small[3], small[4], small[5]);
		let s4 = new_rec_subject(&format!("{}/deep_s4", work), &kit.genesis);
		out.raw("chain new s4");
		for chunk in [vec![f1], vec![m1, m2], vec![f1, f2, f3], vec![f4]] {
			let hs: Vec<grin_core::core::BlockHeader> = chunk.iter().map(|i| kit.blks[*i].block.header.clone()).collect();
			let r = s4.sync_headers(&hs);
			for i in &chunk {
				// honest headers: a batch behaves like its headers delivered one by one
				out.line(&format!("chain hdr s4 b{}", i), &r);
			}
			out.line("chain obs s4", &s4.obs(&kit));
		}
		deliver(out, &s4, "s4", &[m1, m2, f1, f4, f3, f2], 1);
		let s5 = new_rec_subject(&format!("{}/deep_s5", work), &kit.genesis);
		out.raw("chain new s5");
		deliver(out, &s5, "s5", &[m1, m2, f1, f2, f3, f4], 1);
		if s4.obs(&kit) != s5.obs(&kit) || s4.roots() != s5.roots() {
			out.raw(&format!(
				"#ORACLE-FAIL C03 headers synced in overlapping chunks, bodies children-first: the node ends on [{}] but in-order delivery ends on [{}]",
				s4.head_str(&kit),
				s5.head_str(&kit)
			));
		}
		*stats.entry("deep:header-sync-chunks".into()).or_insert(0) += 4;
		// (4) a same-hash twin: the genuine header of fork block f2 with the body of another block
		// (the block hash covers the header only). It must be refused and leave NOTHING behind: the
		// genuine f2 and the rest of its fork are accepted afterwards and the node reorganises onto f4
		let s6 = new_rec_subject(&format!("{}/deep_s6", work), &kit.genesis);
		out.raw("chain new s6");
		deliver(out, &s6, "s6", &[m1, m2, f1], 1);
		let mut twin = kit.blks[m2].block.clone();
		twin.header = kit.blks[f2].block.header.clone();
		let before = (s6.obs(&kit), s6.roots());
		let r = s6.deliver_block(&twin);
		let after = (s6.obs(&kit), s6.roots());
		*stats.entry(format!("deep:same-hash-twin-result:{}", r)).or_insert(0) += 1;
		if r.starts_with("ok") {
			out.raw(&format!("#ORACLE-FAIL C06 a block made of the header of b{} and the body of b{} was accepted: {}", f2, m2, r));
		}
		if before != after {
			out.raw(&format!(
				"#ORACLE-FAIL C06 a refused same-hash twin of b{} changed the chain state: before=[{}] after=[{}]",
				f2, before.0, after.0
			));
		}
		deliver(out, &s6, "s6", &[f2, f3, f4], 1);
		if s6.obs(&kit) != s5.obs(&kit) || s6.roots() != s5.roots() {
			out.raw(&format!(
				"#ORACLE-FAIL C06 after a refused same-hash twin of b{} the node ends on [{}] but a node that never saw the twin ends on [{}]",
				f2,
				s6.head_str(&kit),
				s5.head_str(&kit)
			));
		}
	}
	// (5) a reorganisation between two same-shaped siblings (the unspent SET changes, its size and
	// its largest position do not), then work that is rolled back (a refused block, a full
	// validation), then a restart: the reported unspent set must stay that of the winning sibling
	if sib.len() == 7 {
		let mut s7 = new_rec_subject(&format!("{}/deep_s7", work), &kit.genesis);
		out.raw("chain new s7");
		deliver(out, &s7, "s7", &sib, 1);
		// a refused block on top of the winner: its genuine header with the loser's body
		let mut twin = kit.blks[sib[5]].block.clone();
		twin.header.prev_hash = kit.blks[sib[6]].block.hash();
		twin.header.height += 1;
		let r = s7.deliver_block(&twin);
		*stats.entry(format!("deep:refused-block-after-sibling-reorg:{}", r)).or_insert(0) += 1;
		out.line("chain obs s7", &s7.obs(&kit));
		if let Some(fid) = sib_foreign {
			deliver(out, &s7, "s7", &sib_more, 1);
			// in both input representations (the wire carries bare commitments)
			for wire in [true, false] {
				let before = (s7.obs(&kit), s7.roots());
				let r = if wire { s7.deliver_block_wire(&kit.blks[fid].block) } else { s7.deliver_block(&kit.blks[fid].block) };
				out.line(&format!("chain deliver s7 b{}", fid), &r);
				*stats.entry(format!("deep:spend-of-rewound-sibling-output:{}", r)).or_insert(0) += 1;
				if r.starts_with("ok") {
					out.raw(&format!("#ORACLE-FAIL C02 a block spending an output that exists only on the rewound sibling was accepted (wire form: {}): b{} {}", wire, fid, r));
				}
				// (the header head may move: the block's header is itself valid)
				let strip = |s: String| -> String { s.split(' ').filter(|t| !t.starts_with("hhead=")).collect::<Vec<_>>().join(" ") };
				if (strip(before.0.clone()), before.1.clone()) != (strip(s7.obs(&kit)), s7.roots()) {
					out.raw(&format!("#ORACLE-FAIL C06 a refused spend of a rewound sibling's output changed the chain state: before=[{}] after=[{}]", before.0, s7.obs(&kit)));
				}
				out.line("chain obs s7", &s7.obs(&kit));
			}
		}
		let v = match s7.c().validate(false) {
			Ok(_) => "ok".to_string(),
			Err(e) => format!("err:{}", error_class(&e)),
		};
		out.line("chain validate s7", &v);
		out.line("chain obs s7", &s7.obs(&kit));
		let rr = match reopen_rec(&mut s7) {
			Ok(_) => "ok".to_string(),
			Err(e) => format!("err:{}", e),
		};
		out.line("chain reopen s7", &rr);
		out.line("chain obs s7", &s7.obs(&kit));
	}
	// (6) C02: inputs in the "features and commit" form. An input that names an EXISTING unspent
	// commitment with the WRONG features (plain for a coinbase, coinbase for a plain output) spends
	// nothing that exists: refused by `process_block` (a same-hash twin of a valid block: the block
	// hash does not cover the inputs), `Chain::validate_tx` and `Chain::validate_inputs`, nothing
	// changes; the same spend with the right features and in commit-only form is accepted; the
	// maturity check is not dodged by claiming a coinbase plain
	if let Some((x, y)) = ft_xy {
		let s8 = new_rec_subject(&format!("{}/deep_s8", work), &kit.genesis);
		out.raw("chain new s8");
		deliver(out, &s8, "s8", &ft, 5);
		let strip = |s: String| -> String { s.split(' ').filter(|t| !t.starts_with("hhead=")).collect::<Vec<_>>().join(" ") };
		let probe = |out: &mut Out, stats: &mut BTreeMap<String, u64>, stage: &str| {
			for (label, tx) in &ft_probes {
				for form in ["commit-only", "right-features", "wrong-features"] {
					let t = match form {
						"commit-only" => Some(tx.clone()),
						"right-features" => kit.tx_features_form(tx, None),
						_ => kit.tx_features_form(tx, Some(None)),
					};
					let t = match t {
						Some(t) => t,
						None => continue,
					};
					let d = format!("{}{}", tx_desc(&kit, &t), kit.claims_desc(&t.inputs()));
					let before = (s8.obs(&kit), s8.roots());
					let show = |r: Result<(), grin_chain::Error>| match r {
						Ok(_) => "ok".to_string(),
						Err(e) => format!("err:{}", error_class(&e)),
					};
					let rv = show(s8.c().validate_tx(&t));
					let ri = show(s8.c().validate_inputs(&t.inputs()).map(|_| ()));
					let rm = show(s8.c().verify_coinbase_maturity(&t.inputs()));
					out.line(&format!("chain txval s8 {}", d), &rv);
					out.line(&format!("chain txins s8 {}", d), &ri);
					out.line(&format!("chain txmat s8 {}", d), &rm);
					*stats.entry(format!("deep:features-form:{}:{}:{}:validate_tx={}:validate_inputs={}:maturity={}", stage, label, form, rv, ri, rm)).or_insert(0) += 1;
					// the oracle of the property (both spent-ness and the identifier are what C02 is about)
					let spendable_now = rv == "ok" && form == "commit-only";
					let _ = spendable_now;
					if form == "wrong-features" && (rv == "ok" || ri == "ok") {
						// (an input whose commitment is not unspent at all is refused in every form: fine)
						out.raw(&format!(
							"#ORACLE-FAIL C02 an input naming an unspent commitment with the wrong features is accepted ({} {}): validate_tx={} validate_inputs={} tx {}",
							stage, label, rv, ri, d
						));
					}
					if (before.0.clone(), before.1.clone()) != (s8.obs(&kit), s8.roots()) {
						out.raw(&format!("#ORACLE-FAIL C06 an admission check changed the chain state ({} {} {})", stage, label, form));
					}
				}
			}
		};
		probe(out, &mut stats, "before-X");
		for (valid_id, what) in [(x, "a matured coinbase claimed plain"), (y, "a plain output claimed coinbase")] {
			let genuine = &kit.blks[valid_id].block;
			if let Some(lying) = kit.features_form(genuine, Some(None)) {
				// (its header - the genuine one - is valid and known first, as after header sync)
				let hr = s8.deliver_header(&genuine.header);
				out.line(&format!("chain hdr s8 b{}", valid_id), &hr);
				let before = (s8.obs(&kit), s8.roots(), s8.txhashset_files());
				let r = s8.deliver_block(&lying);
				*stats.entry(format!("deep:features-form:same-hash-twin-of-valid-block:{}:{}", what.replace(' ', "-"), r)).or_insert(0) += 1;
				if r.starts_with("ok") {
					out.raw(&format!("#ORACLE-FAIL C02 a block whose input names an unspent commitment with the wrong features ({}; same hash as the valid b{}) was accepted: {}", what, valid_id, r));
				}
				let after = (s8.obs(&kit), s8.roots(), s8.txhashset_files());
				if (strip(before.0.clone()), before.1.clone()) != (strip(after.0.clone()), after.1.clone()) {
					out.raw(&format!("#ORACLE-FAIL C06 a refused block with wrong input features changed the chain state: before=[{}] after=[{}]", before.0, after.0));
				}
				if let Some(d) = files_diff(&before.2, &after.2) {
					out.raw(&format!("#ORACLE-FAIL C06 a refused block with wrong input features changed the txhashset files: {}", d));
				}
				out.line("chain obs s8", &s8.obs(&kit));
			}
			// the genuine block: X with the right features spelled out, Y as bare commitments
			let r = if valid_id == x { s8.deliver_block_features(&kit, genuine) } else { s8.deliver_block_wire(genuine) };
			out.line(&format!("chain deliver s8 b{}", valid_id), &r);
			if r != "ok:head" {
				out.raw(&format!("#ORACLE-FAIL C02 the valid b{} was not accepted after its wrong-features twin had been refused: {}", valid_id, r));
			}
			out.line("chain obs s8", &s8.obs(&kit));
			if valid_id == x {
				probe(out, &mut stats, "after-X");
			}
		}
		let v = match s8.c().validate(false) {
			Ok(_) => "ok".to_string(),
			Err(e) => format!("err:{}", error_class(&e)),
		};
		out.line("chain validate s8", &v);
	}
	for (k, v) in rstats.into_inner() {
		*stats.entry(k).or_insert(0) += v;
	}
	stats
}

impl Gen {
	/// Build a block from explicit tx specs on `parent`; the builder chain's verdict decides
	/// whether it is recorded as valid (processed there) or as an invalid variant.
	fn add_scripted(&mut self, parent: usize, diff: u64, specs: &[TxSpec], label: &str) -> Option<usize> {
		let mut txs = vec![];
		for s in specs {
			txs.push(self.kit.build_tx(s).ok()?);
		}
		let b = self.kit.assemble(parent, diff, &txs, 0).ok()?;
		match self.kit.builder().process_block(b.clone(), grin_chain::Options::SKIP_POW) {
			Ok(_) => {
				let st = self.state_after(parent, &b);
				let id = self.kit.record(b, parent, vec![], true);
				self.states.insert(id, st);
				self.valid.push(id);
				self.stat(&format!("c13:accepted-by-builder:{}", label));
				Some(id)
			}
			Err(e) => {
				let id = self.kit.record(b, parent, vec![format!("kind:{}", label)], false);
				self.invalid.push(id);
				self.stat(&format!("c13:rejected-by-builder:{}:{}", label, error_class(&e)));
				Some(id)
			}
		}
	}
}

impl Gen {
	/// A block on `parent` from ready-made transactions (so that the very same transactions can be
	/// offered at another height); the builder chain's verdict decides whether it is recorded as
	/// valid; `must_accept` is what the property fixes for it - a different verdict of the node is
	/// reported as an oracle failure.
	fn add_txs(&mut self, parent: usize, diff: u64, txs: &[grin_core::core::Transaction], label: &str, must_accept: Option<bool>) -> Option<usize> {
		let b = self.kit.assemble(parent, diff, txs, 0).ok()?;
		let h = b.header.height;
		match self.kit.builder().process_block(b.clone(), grin_chain::Options::SKIP_POW) {
			Ok(_) => {
				if must_accept == Some(false) {
					complain_as("C13", format!("a block that must be refused ({}) at height {} was accepted by the node", label, h));
				}
				let st = self.state_after(parent, &b);
				let id = self.kit.record(b, parent, vec![], true);
				self.states.insert(id, st);
				self.valid.push(id);
				self.stat(&format!("c13:accepted-by-builder:{}", label));
				Some(id)
			}
			Err(e) => {
				if must_accept == Some(true) {
					complain_as("C13", format!("a block whose locks are all satisfied ({}) at height {} was refused by the node: {}", label, h, error_class(&e)));
				}
				let id = self.kit.record(b, parent, vec![format!("kind:{}", label)], false);
				self.invalid.push(id);
				self.stat(&format!("c13:rejected-by-builder:{}:{}", label, error_class(&e)));
				Some(id)
			}
		}
	}

	/// build the transaction of `spec` again and again until its kernel sorts before (`first`) /
	/// after every kernel of `others` (kernels are sorted by hash inside a block body)
	fn tx_sorting(&mut self, spec: &TxSpec, others: &[grin_core::core::Transaction], first: bool) -> Option<grin_core::core::Transaction> {
		for _ in 0..60 {
			let tx = self.kit.build_tx(spec).ok()?;
			let k = tx.kernels()[0].hash();
			let ok = others.iter().all(|o| {
				let ko = o.kernels()[0].hash();
				if first {
					k < ko
				} else {
					k > ko
				}
			});
			if ok {
				return Some(tx);
			}
		}
		None
	}
}

fn tx_desc(kit: &Kit, tx: &grin_core::core::Transaction) -> String {
	let ins: Vec<grin_core::core::CommitWrapper> = tx.inputs().into();
	let i: Vec<String> = ins.iter().map(|c| kit.by_commit.get(&c.commitment()).map(|x| format!("o{}", x)).unwrap_or("o?".into())).collect();
	let o: Vec<String> = tx.outputs().iter().map(|c| kit.by_commit.get(&c.commitment()).map(|x| format!("o{}", x)).unwrap_or("o?".into())).collect();
	let k: Vec<String> = tx
		.kernels()
		.iter()
		.map(|k| match k.features {
			grin_core::core::KernelFeatures::Coinbase => "cb".to_string(),
			grin_core::core::KernelFeatures::Plain { fee } => format!("p:{}", fee.fee()),
			grin_core::core::KernelFeatures::HeightLocked { fee, lock_height } => format!("hl:{}:{}", fee.fee(), lock_height),
			grin_core::core::KernelFeatures::NoRecentDuplicate { fee, relative_height } => {
				format!("nrd:{}:{}:{}", fee.fee(), u64::from(relative_height), hex(&k.excess.0[..8]))
			}
		})
		.collect();
	format!("ins=[{}] outs=[{}] kers=[{}]", i.join(","), o.join(","), k.join(","))
}

/// C13: spends and locked kernels placed one below / at / one above each threshold, on the main
/// chain and on forks (coinbase on the other side of the fork point; duplicate-excess NRD
/// kernels before and after a reorganisation that re-applies fork blocks), plus the pool-facing
/// admission checks of the chain evaluated at every head.
fn run_c13(out: &mut Out, rng: &mut Rng, work: &str, noprobe: bool) -> BTreeMap<String, u64> {
	out.raw("chain reset");
	let kit = Kit::new(&format!("{}/builder_c13", work));
	let mut g = Gen {
		kit,
		states: BTreeMap::new(),
		valid: vec![],
		invalid: vec![],
		stats: BTreeMap::new(),
		outs_described: 0,
		blks_described: 0,
	};
	let mut s0 = AState::default();
	s0.utxo.insert(0, (0, true));
	g.states.insert(0, s0);
	// coinbase output id of a valid block
	let cb_of = |g: &Gen, b: usize| -> usize {
		let blk = &g.kit.blks[b].block;
		let o = blk.outputs().iter().find(|o| o.is_coinbase()).unwrap();
		*g.kit.by_commit.get(&o.commitment()).unwrap()
	};
	// ---- trunk: 13 blocks; odd heights carry an extra tx so the coinbase is not always alone
	let mut trunk = vec![0usize];
	let mut plain: Vec<usize> = vec![];
	for h in 1..=13u64 {
		let parent = *trunk.last().unwrap();
		let mut specs = vec![];
		if h % 2 == 1 && h >= 5 {
			if let Some(o) = g.spendable(parent, h).into_iter().find(|o| g.kit.outs[*o].coinbase) {
				let v = g.kit.outs[o].value;
				let kernel = if h == 11 { KSpec::Nrd(2, 3, 0) } else { KSpec::Plain(2) };
				specs.push(TxSpec { inputs: vec![o], outputs: vec![(v / 2, None), (v - v / 2 - 2, None)], kernel });
			}
		}
		let before = g.kit.outs.len();
		if let Some(id) = g.add_scripted(parent, 2, &specs, "trunk") {
			if g.kit.blks[id].valid {
				trunk.push(id);
				for o in before..g.kit.outs.len() {
					if !g.kit.outs[o].coinbase {
						plain.push(o);
					}
				}
			}
		}
	}
	let spend = |o: usize, g: &Gen, k: KSpec| -> TxSpec {
		let v = g.kit.outs[o].value;
		TxSpec { inputs: vec![o], outputs: vec![(v - 3, None)], kernel: k }
	};
	// ---- coinbase maturity: one below / at / one above, on the trunk and from a side fork
	for c in [1usize, 2, 4, 5, 7] {
		if c + 3 >= trunk.len() {
			continue;
		}
		let cb = cb_of(&g, trunk[c]);
		let h_c = g.kit.blks[trunk[c]].height;
		// on the trunk's own blocks as parents (these become fork blocks or invalid variants)
		for (delta, label) in [(1usize, "maturity:one-below"), (2, "maturity:at"), (3, "maturity:one-above")] {
			let parent = trunk[c + delta];
			let _ = h_c;
			g.add_scripted(parent, 1, &[spend(cb, &g, KSpec::Plain(3))], label);
		}
		// the spender sits on a side fork that leaves the trunk right after the coinbase's block
		if let Some(s1) = g.add_scripted(trunk[c], 1, &[], "side-fork") {
			if g.kit.blks[s1].valid {
				g.add_scripted(s1, 1, &[spend(cb, &g, KSpec::Plain(3))], "maturity:fork:one-below");
				if let Some(s2) = g.add_scripted(s1, 1, &[], "side-fork") {
					if g.kit.blks[s2].valid {
						g.add_scripted(s2, 1, &[spend(cb, &g, KSpec::Plain(3))], "maturity:fork:at");
					}
				}
			}
		}
	}
	// ---- lock heights: h-1, h, h+1
	for k in [4usize, 8] {
		if k >= trunk.len() || plain.is_empty() {
			continue;
		}
		let parent = trunk[k];
		let h = g.kit.blks[parent].height + 1;
		for (lock, label) in [(h - 1, "lock:below"), (h, "lock:at"), (h + 1, "lock:above")] {
			let avail: Vec<usize> = g.spendable(parent, h).into_iter().filter(|o| !g.kit.outs[*o].coinbase).collect();
			if let Some(o) = avail.first() {
				g.add_scripted(parent, 1, &[spend(*o, &g, KSpec::HeightLocked(3, lock))], label);
			}
		}
	}
	// ---- EVERY kernel / input of a block is checked, not the first in sort order: blocks with two
	// and three height-locked kernels of which one is still locked (lock = h+1, h+10), the locked one
	// sorting first / last (/ in the middle); HeightLocked + NRD + Plain; two NRD kernels of which one
	// repeats an excess too early; two coinbase spends of which only the second / first input in
	// sort order is immature. Each refused at height h in every order; the very same transactions
	// are accepted in a block at the height where every lock is satisfied.
	if trunk.len() > 13 {
		let parent = trunk[10];
		let h = 11u64;
		let pl: Vec<usize> = g.spendable(parent, h).into_iter().filter(|o| !g.kit.outs[*o].coinbase).collect();
		if pl.len() >= 3 {
			for (locked_at, dist, up) in [(h + 1, "h+1", trunk[11]), (h + 10, "h+10", 0usize)] {
				for locked_first in [true, false] {
					let sat = match g.kit.build_tx(&spend(pl[0], &g, KSpec::HeightLocked(3, if locked_first { h } else { h - 1 }))) {
						Ok(t) => t,
						Err(_) => continue,
					};
					if let Some(lk) = g.tx_sorting(&spend(pl[1], &g, KSpec::HeightLocked(3, locked_at)), &[sat.clone()], locked_first) {
						let order = if locked_first { "locked-kernel-sorts-first" } else { "locked-kernel-sorts-last" };
						g.add_txs(parent, 1, &[sat.clone(), lk.clone()], &format!("multi:two-height-locked:{}:lock={}", order, dist), Some(false));
						if up != 0 {
							// one block higher both locks are satisfied: the same two transactions
							g.add_txs(up, 1, &[sat.clone(), lk.clone()], &format!("multi:two-height-locked:{}:all-satisfied-one-block-higher", order), Some(true));
						}
					}
				}
			}
			// three height-locked kernels, the locked one first / in the middle / last
			for place in ["first", "middle", "last"] {
				let a = g.kit.build_tx(&spend(pl[0], &g, KSpec::HeightLocked(3, h)));
				let b = g.kit.build_tx(&spend(pl[1], &g, KSpec::HeightLocked(3, h - 2)));
				if let (Ok(a), Ok(b)) = (a, b) {
					let lk = match place {
						"first" => g.tx_sorting(&spend(pl[2], &g, KSpec::HeightLocked(3, h + 1)), &[a.clone(), b.clone()], true),
						"last" => g.tx_sorting(&spend(pl[2], &g, KSpec::HeightLocked(3, h + 1)), &[a.clone(), b.clone()], false),
						_ => {
							let (lo, hi) = if a.kernels()[0].hash() < b.kernels()[0].hash() { (a.clone(), b.clone()) } else { (b.clone(), a.clone()) };
							let (klo, khi) = (lo.kernels()[0].hash(), hi.kernels()[0].hash());
							let mut found = None;
							for _ in 0..120 {
								if let Ok(t) = g.kit.build_tx(&spend(pl[2], &g, KSpec::HeightLocked(3, h + 1))) {
									let k = t.kernels()[0].hash();
									if k > klo && k < khi {
										found = Some(t);
										break;
									}
								}
							}
							found
						}
					};
					if let Some(lk) = lk {
						g.add_txs(parent, 1, &[a.clone(), b.clone(), lk.clone()], &format!("multi:three-height-locked:locked-kernel-sorts-{}", place), Some(false));
						g.add_txs(trunk[11], 1, &[a, b, lk], &format!("multi:three-height-locked:locked-kernel-sorts-{}:all-satisfied-one-block-higher", place), Some(true));
					}
				}
			}
			// HeightLocked (still locked) + NRD (a fresh excess) + Plain
			for locked_first in [true, false] {
				let n1 = g.kit.build_tx(&spend(pl[0], &g, KSpec::Nrd(3, 2, 2)));
				let p1 = g.kit.build_tx(&spend(pl[1], &g, KSpec::Plain(3)));
				if let (Ok(n1), Ok(p1)) = (n1, p1) {
					if let Some(lk) = g.tx_sorting(&spend(pl[2], &g, KSpec::HeightLocked(3, h + 1)), &[n1.clone(), p1.clone()], locked_first) {
						let order = if locked_first { "locked-kernel-sorts-first" } else { "locked-kernel-sorts-last" };
						g.add_txs(parent, 1, &[n1.clone(), p1.clone(), lk.clone()], &format!("multi:height-locked+nrd+plain:{}", order), Some(false));
						g.add_txs(trunk[11], 1, &[n1, p1, lk], &format!("multi:height-locked+nrd+plain:{}:all-satisfied-one-block-higher", order), Some(true));
					}
				}
			}
		}
		// two NRD kernels: a fresh excess and slot 0 again (it occurred at height 11 with relative
		// height 3): at height 12 the second is two blocks after - refused whichever sorts first; at 14 accepted
		let pl12: Vec<usize> = g.spendable(trunk[11], 12).into_iter().filter(|o| !g.kit.outs[*o].coinbase).collect();
		if pl12.len() >= 2 {
			for early_first in [true, false] {
				if let Ok(fresh) = g.kit.build_tx(&spend(pl12[0], &g, KSpec::Nrd(3, 1, 1))) {
					if let Some(dup) = g.tx_sorting(&spend(pl12[1], &g, KSpec::Nrd(3, 3, 0)), &[fresh.clone()], early_first) {
						let order = if early_first { "too-recent-kernel-sorts-first" } else { "too-recent-kernel-sorts-last" };
						g.add_txs(trunk[11], 1, &[fresh.clone(), dup.clone()], &format!("multi:two-nrd:{}:distance-1-of-3", order), Some(false));
						g.add_txs(trunk[13], 1, &[fresh, dup], &format!("multi:two-nrd:{}:distance-3-of-3", order), Some(true));
					}
				}
			}
		}
		// two NRD kernels sharing ONE excess inside a block (`verify_no_nrd_duplicates`): refused whatever
		// their relative heights and although the excess never occurred before; an NRD kernel and a
		// PLAIN kernel sharing an excess: the rule is about NRD kernels only (observed, not fixed)
		if pl12.len() >= 2 {
			for (r1, r2) in [(1u64, 1u64), (1, 2)] {
				let a = g.kit.build_tx(&spend(pl12[0], &g, KSpec::Nrd(3, r1, 3)));
				let b = g.kit.build_tx(&spend(pl12[1], &g, KSpec::Nrd(3, r2, 3)));
				if let (Ok(a), Ok(b)) = (a, b) {
					g.add_txs(trunk[11], 1, &[a, b], &format!("multi:two-nrd-sharing-an-excess:relative-heights-{}-{}", r1, r2), Some(false));
				}
			}
			let a = g.kit.build_tx(&spend(pl12[0], &g, KSpec::Nrd(3, 1, 3)));
			let b = g.kit.build_tx(&spend(pl12[1], &g, KSpec::PlainSlot(3, 3)));
			if let (Ok(a), Ok(b)) = (a, b) {
				g.add_txs(trunk[11], 1, &[a, b], "multi:nrd-and-plain-kernel-sharing-an-excess", None);
			}
		}
		// two coinbase spends, one matured, one not: the immature input sorting second / first
		{
			let st = g.states[&parent].clone();
			let mature: Vec<usize> = st.utxo.iter().filter(|(_, (c, cb))| *cb && h >= *c + MATURITY).map(|(o, _)| *o).collect();
			let immature: Vec<usize> = st.utxo.iter().filter(|(_, (c, cb))| *cb && h < *c + MATURITY && 13 >= *c + MATURITY).map(|(o, _)| *o).collect();
			// (the node that builds the trunk spends the first matured coinbase it finds: take the last)
			let still: Vec<usize> = mature.iter().cloned().filter(|o| g.states[&trunk[12]].utxo.contains_key(o)).collect();
			use grin_core::core::CommitWrapper;
			let key = |g: &Gen, o: usize| CommitWrapper::from(g.kit.outs[o].commit).hash();
			for immature_second in [true, false] {
				let pair = still.iter().rev().flat_map(|m| immature.iter().map(move |i| (*m, *i))).find(|(m, i)| (key(&g, *m) < key(&g, *i)) == immature_second);
				if let Some((m, i)) = pair {
					let order = if immature_second { "immature-input-sorts-second" } else { "immature-input-sorts-first" };
					let v = g.kit.outs[m].value + g.kit.outs[i].value;
					let spec = TxSpec { inputs: vec![m, i], outputs: vec![(v - 3, None)], kernel: KSpec::Plain(3) };
					if let Ok(tx) = g.kit.build_tx(&spec) {
						g.add_txs(parent, 1, &[tx.clone()], &format!("multi:two-coinbase-spends:{}", order), Some(false));
						// at height 13 both have matured
						g.add_txs(trunk[12], 1, &[tx], &format!("multi:two-coinbase-spends:{}:both-matured-two-blocks-higher", order), Some(true));
					}
				} else {
					g.stat(&format!("c13:multi:two-coinbase-spends:no-pair-for-immature-{}", if immature_second { "second" } else { "first" }));
				}
			}
		}
	}
	// ---- NRD on the trunk: slot 0 occurred at height 11 (rel 3): repeat at 13 (too early) / 14
	let n = trunk.len() - 1;
	let pick_plain = |g: &Gen, parent: usize, h: u64| -> Option<usize> {
		g.spendable(parent, h).into_iter().find(|o| !g.kit.outs[*o].coinbase)
	};
	if n >= 13 {
		if let Some(o) = pick_plain(&g, trunk[12], 13) {
			g.add_scripted(trunk[12], 1, &[spend(o, &g, KSpec::Nrd(3, 3, 0))], "nrd:trunk:distance-2-of-3");
		}
		if let Some(o) = pick_plain(&g, trunk[13], 14) {
			g.add_scripted(trunk[13], 1, &[spend(o, &g, KSpec::Nrd(3, 3, 0))], "nrd:trunk:distance-3-of-3");
		}
		// ---- NRD across a reorganisation: fork from height 9
		let mut f = trunk[9];
		let mut fork = vec![];
		// f10 carries slot 1 (rel 3); f11 is heavy enough to win, re-applying f10 on every node
		if let Some(o) = pick_plain(&g, f, 10) {
			if let Some(id) = g.add_scripted(f, 1, &[spend(o, &g, KSpec::Nrd(3, 3, 1))], "nrd:fork:first") {
				if g.kit.blks[id].valid {
					fork.push(id);
					f = id;
				}
			}
		}
		if let Some(id) = g.add_scripted(f, 40, &[], "fork:heavy") {
			if g.kit.blks[id].valid {
				fork.push(id);
				f = id;
			}
		}
		if fork.len() == 2 {
			// at height 12 on the fork: slot 1 again, distance 2 of 3 -> must be refused
			if let Some(o) = pick_plain(&g, f, 12) {
				g.add_scripted(f, 1, &[spend(o, &g, KSpec::Nrd(3, 3, 1))], "nrd:fork:after-reorg:distance-2-of-3");
			}
			// slot 0 occurred only on the trunk (height 11): on the fork it is free
			if let Some(o) = pick_plain(&g, f, 12) {
				g.add_scripted(f, 1, &[spend(o, &g, KSpec::Nrd(3, 3, 0))], "nrd:fork:excess-only-on-other-fork");
			}
			if let Some(id) = g.add_scripted(f, 1, &[], "fork:extend") {
				if g.kit.blks[id].valid {
					// height 13: distance 3 of 3 -> fine
					if let Some(o) = pick_plain(&g, id, 13) {
						g.add_scripted(id, 1, &[spend(o, &g, KSpec::Nrd(3, 3, 1))], "nrd:fork:after-reorg:distance-3-of-3");
					}
				}
			}
		}
	}
	// ---- an NRD kernel that is the newest kernel of the chain (last in its block, alone on the
	// last leaf of an odd-sized kernel MMR) when the node restarts, and its duplicate right after
	// the restart (subject s4 reopens after every block): on the heaviest chain built so far
	let mut nrd_last_pair: Option<(usize, usize)> = None;
	{
		let tip = *g.valid.iter().max_by_key(|i| (g.kit.blks[**i].work, **i)).unwrap();
		let h = g.kit.blks[tip].height + 1;
		let plains: Vec<usize> = g.spendable(tip, h).into_iter().filter(|o| !g.kit.outs[*o].coinbase).collect();
		g.stat(&format!("c13:nrd-newest-kernel-setup:tip-height={}:plain-outputs={}", h - 1, plains.len()));
		if h >= 10 && plains.len() >= 2 {
			let is_nrd = |k: &grin_core::core::TxKernel| matches!(k.features, grin_core::core::KernelFeatures::NoRecentDuplicate { .. });
			if let Ok(nrd_tx) = g.kit.build_tx(&spend(plains[0], &g, KSpec::Nrd(3, 2, 5))) {
				let mut txs = vec![nrd_tx];
				let mut chosen = None;
				for attempt in 0..60 {
					let b = match g.kit.assemble(tip, 1, &txs, 0) {
						Ok(b) => b,
						Err(_) => break,
					};
					let odd = grin_core::core::pmmr::n_leaves(b.header.kernel_mmr_size) % 2 == 1;
					if !odd && attempt == 0 {
						// one more (plain) kernel flips the parity
						if let Ok(extra) = g.kit.build_tx(&spend(plains[1], &g, KSpec::Plain(3))) {
							txs.push(extra);
						}
						continue;
					}
					if odd && b.kernels().last().map(|k| is_nrd(k)).unwrap_or(false) {
						chosen = Some(b);
						break;
					}
				}
				if let Some(b) = chosen {
					if g.kit.builder().process_block(b.clone(), grin_chain::Options::SKIP_POW).is_ok() {
						let st = g.state_after(tip, &b);
						let id = g.kit.record(b, tip, vec![], true);
						g.states.insert(id, st);
						g.valid.push(id);
						g.stat("c13:accepted-by-builder:nrd:newest-kernel-at-restart");
						// the duplicate one block later: distance 1 of 2 -> must be refused
						if let Some(o) = pick_plain(&g, id, h + 1) {
							if let Some(d) = g.add_scripted(id, 1, &[spend(o, &g, KSpec::Nrd(3, 2, 5))], "nrd:duplicate-right-after-restart:distance-1-of-2") {
								nrd_last_pair = Some((id, d));
							}
						}
					}
				}
			}
		}
	}
	let _ = nrd_last_pair;
	// ---- the same NRD excess FOUR times on one chain (relative height 2, two blocks apart), then a
	// fork that rewinds the last two instances and repeats the excess one block after the newest
	// instance that is still on its path (must be refused), and the duplicate on the main chain
	{
		let tip = *g.valid.iter().max_by_key(|i| (g.kit.blks[**i].work, **i)).unwrap();
		let h0 = g.kit.blks[tip].height;
		let src = pick_plain(&g, tip, h0 + 1);
		if let Some(src) = src {
			let v = g.kit.outs[src].value;
			let part = (v - 2) / 8;
			let mut outs: Vec<(u64, Option<usize>)> = (0..7).map(|_| (part, None)).collect();
			outs.push((v - 2 - 7 * part, None));
			let before = g.kit.outs.len();
			if let Some(fan) = g.add_scripted(tip, 1, &[TxSpec { inputs: vec![src], outputs: outs, kernel: KSpec::Plain(2) }], "nrd4:fan") {
				let fanned: Vec<usize> = (before..g.kit.outs.len()).filter(|o| !g.kit.outs[*o].coinbase).collect();
				if g.kit.blks[fan].valid && fanned.len() >= 7 {
					let mut cur = fan;
					let mut chain_ids = vec![];
					let mut ok = true;
					for k in 0..8 {
						// instances at fan+1, +3, +5, +7; empty blocks in between
						let specs = if k % 2 == 0 { vec![spend(fanned[k / 2], &g, KSpec::Nrd(3, 2, 6))] } else { vec![] };
						match g.add_scripted(cur, 1, &specs, if k % 2 == 0 { "nrd4:instance" } else { "nrd4:spacer" }) {
							Some(id) if g.kit.blks[id].valid => {
								cur = id;
								chain_ids.push(id);
							}
							_ => {
								ok = false;
								break;
							}
						}
					}
					if ok {
						// main chain: the excess again one block after the fourth instance: distance 2 from
						// instance 4 (at +7, this block at +9): allowed; at +8 (spacer height) it would be 1
						// fork: on top of the SECOND instance (chain_ids[2], height fan+3): height fan+4,
						// distance 1 from the newest instance on its own path -> refused
						g.add_scripted(chain_ids[2], 1, &[spend(fanned[4], &g, KSpec::Nrd(3, 2, 6))], "nrd4:fork-after-rewinding-two-instances:distance-1-of-2");
						// control fork: one spacer first, then the excess at distance 2 -> accepted
						if let Some(sp) = g.add_scripted(chain_ids[2], 1, &[], "nrd4:fork-spacer") {
							if g.kit.blks[sp].valid {
								g.add_scripted(sp, 1, &[spend(fanned[5], &g, KSpec::Nrd(3, 2, 6))], "nrd4:fork-after-rewinding-two-instances:distance-2-of-2");
							}
						}
						// and on the main chain right after the fourth instance (distance 1): refused
						g.add_scripted(chain_ids[6], 1, &[spend(fanned[6], &g, KSpec::Nrd(3, 2, 6))], "nrd4:main:distance-1-of-2");
					}
				}
			}
		}
	}
	let mut nrd30_probe_out: Option<usize> = None;
	// ---- an NRD kernel whose relative height (30) is larger than the cut-through horizon (20): its
	// duplicate 23 blocks later must still be refused, also by a node that restarted in between
	// (subject s4 restarts after every block)
	{
		let tip = *g.valid.iter().max_by_key(|i| (g.kit.blks[**i].work, **i)).unwrap();
		let h0 = g.kit.blks[tip].height;
		let plains: Vec<usize> = g.spendable(tip, h0 + 1).into_iter().filter(|o| !g.kit.outs[*o].coinbase).collect();
		nrd30_probe_out = plains.get(2).cloned();
		if plains.len() >= 2 {
			if let Some(x) = g.add_scripted(tip, 1, &[spend(plains[0], &g, KSpec::Nrd(3, 30, 9))], "nrd30:first") {
				if g.kit.blks[x].valid {
					let mut cur = x;
					let mut ok = true;
					for _ in 0..22 {
						match g.add_scripted(cur, 1, &[], "nrd30:spacer") {
							Some(id) if g.kit.blks[id].valid => cur = id,
							_ => {
								ok = false;
								break;
							}
						}
					}
					if ok {
						g.add_scripted(cur, 1, &[spend(plains[1], &g, KSpec::Nrd(3, 30, 9))], "nrd30:duplicate-after-23-of-30");
					}
				}
			}
		}
	}
	// ---- a short but heavy fork off height 1, announced header-first while the body chain grows:
	// the header head sits on another fork than every block delivered afterwards
	let heavy_short = match g.add_scripted(trunk[1], 500, &[], "fork:heavy-short") {
		Some(id) if g.kit.blks[id].valid => Some(id),
		_ => None,
	};
	// ---- a long, heavy fork off height 1 whose blocks carry many outputs, announced by its headers
	// only (subject s3): at every height its headers commit to a larger output MMR than the trunk
	let mut fat: Vec<usize> = vec![];
	{
		let mut f = trunk[1];
		let mut fan_src: Option<usize> = Some(0);
		for h in 2..=10u64 {
			let mut specs = vec![];
			if h >= 3 {
				if let Some(o) = fan_src {
					let v = g.kit.outs[o].value;
					if v > 100 {
						let part = (v - 2) / 8;
						let mut outs: Vec<(u64, Option<usize>)> = (0..7).map(|_| (part, None)).collect();
						outs.push((v - 2 - 7 * part, None));
						specs.push(TxSpec { inputs: vec![o], outputs: outs, kernel: KSpec::Plain(2) });
					}
				}
			}
			let before = g.kit.outs.len();
			match g.add_scripted(f, if h == 2 { 600 } else { 1 }, &specs, "fork:fat-long") {
				Some(id) if g.kit.blks[id].valid => {
					fat.push(id);
					f = id;
					if let Some(o) = (before..g.kit.outs.len()).find(|o| !g.kit.outs[*o].coinbase) {
						fan_src = Some(o);
					}
				}
				_ => break,
			}
		}
	}
	// transactions for the pool-facing checks (built once, evaluated at every head)
	let mut probes: Vec<(String, grin_core::core::Transaction)> = vec![];
	for c in [1usize, 3, 6, 9, 11] {
		if c < trunk.len() {
			let cb = cb_of(&g, trunk[c]);
			if let Ok(tx) = g.kit.build_tx(&spend(cb, &g, KSpec::Plain(3))) {
				probes.push((format!("spend-coinbase-of-h{}", c), tx));
			}
		}
	}
	for (i, lock) in [5u64, 9, 12].iter().enumerate() {
		if let Some(o) = plain.get(i) {
			if let Ok(tx) = g.kit.build_tx(&spend(*o, &g, KSpec::HeightLocked(3, *lock))) {
				probes.push((format!("height-locked-{}", lock), tx));
			}
		}
	}
	if let Some(o) = nrd30_probe_out {
		// spends an output that stays unspent on the chain carrying the rel-30 kernel
		if let Ok(tx) = g.kit.build_tx(&spend(o, &g, KSpec::Nrd(3, 30, 9))) {
			probes.push(("nrd-slot9-rel30".into(), tx));
		}
	}
	for (slot, rel) in [(0usize, 3u64), (1, 3), (1, 2)] {
		if let Some(o) = plain.get(3 + slot) {
			if let Ok(tx) = g.kit.build_tx(&spend(*o, &g, KSpec::Nrd(3, rel, slot))) {
				probes.push((format!("nrd-slot{}-rel{}", slot, rel), tx));
			}
		}
	}
	// aggregated (multi-kernel) probes: a kernel locked far ahead together with a plain kernel, in
	// both orders the kernels can sort in (kernels sort by hash)
	if let Some(o1) = plain.get(6) {
		if let Ok(locked) = g.kit.build_tx(&spend(*o1, &g, KSpec::HeightLocked(3, 60))) {
			let mut have_first = false;
			let mut have_last = false;
			for k in 0..40usize {
				if have_first && have_last || plain.len() < 8 {
					break;
				}
				let j = 7 + k % (plain.len() - 7);
				let fee = 3 + (k as u64 / (plain.len() as u64 - 7));
				let v = g.kit.outs[plain[j]].value;
				let spec = TxSpec { inputs: vec![plain[j]], outputs: vec![(v - fee, None)], kernel: KSpec::Plain(fee) };
				if let Ok(ptx) = g.kit.build_tx(&spec) {
					if let Ok(agg) = grin_core::core::transaction::aggregate(&[locked.clone(), ptx]) {
						let first_locked = matches!(agg.kernels()[0].features, grin_core::core::KernelFeatures::HeightLocked { .. });
						if first_locked && !have_first {
							have_first = true;
							probes.push(("aggregate-locked-kernel-sorts-first".into(), agg));
						} else if !first_locked && !have_last {
							have_last = true;
							probes.push(("aggregate-locked-kernel-sorts-last".into(), agg));
						}
					}
				}
			}
			g.stat(&format!("c13:aggregate-probes:locked-first={}:locked-last={}", have_first, have_last));
		}
	}
	g.describe_new(out);
	let all: Vec<usize> = (1..g.kit.blks.len()).collect();
	let kit = &g.kit;
	let all: Vec<usize> = all.into_iter().filter(|i| Some(*i) != heavy_short && !fat.contains(i)).collect();
	let mut r_stats: BTreeMap<String, u64> = BTreeMap::new();
	for si in 0..5 {
		let name = format!("s{}", si);
		let order: Vec<usize> = if si == 0 || si >= 2 {
			all.clone()
		} else {
			// parents first, otherwise random
			let mut done: BTreeSet<usize> = BTreeSet::new();
			done.insert(0);
			let mut rem = all.clone();
			let mut res = vec![];
			while !rem.is_empty() {
				let ready: Vec<usize> = rem.iter().cloned().filter(|i| done.contains(&kit.blks[*i].parent.unwrap())).collect();
				if ready.is_empty() {
					break;
				}
				let p = *rng.pick(&ready);
				rem.retain(|x| *x != p);
				if kit.blks[p].valid {
					done.insert(p);
				}
				res.push(p);
			}
			res
		};
		let mut subj = new_rec_subject(&format!("{}/c13_{}", work, name), &kit.genesis);
		let mut rrng = Rng::new(seed_from_env() ^ 0x5eed_c0de ^ si as u64);
		out.raw(&format!("chain new {}", name));
		let mut announced = false;
		for i in order {
			if si == 3 && !announced && kit.blks[i].height >= 5 {
				// s3: the fat fork is known by its headers only from here on
				announced = true;
				for x in &fat {
					let r = subj.deliver_header(&kit.blks[*x].block.header);
					out.line(&format!("chain hdr {} b{}", name, x), &r);
				}
				out.line(&format!("chain obs {}", name), &subj.obs(kit));
			}
			if si == 2 && !announced && kit.blks[i].height >= 5 {
				// s2: the heavy short fork is known by its header only from here on
				announced = true;
				if let Some(x) = heavy_short {
					let r = subj.deliver_header(&kit.blks[x].block.header);
					out.line(&format!("chain hdr {} b{}", name, x), &r);
					out.line(&format!("chain obs {}", name), &subj.obs(kit));
				}
			}
			discard_status();
			let head_before = subj.c().head().unwrap().last_block_h;
			let r = subj.deliver_block(&kit.blks[i].block);
			out.line(&format!("chain deliver {} b{}", name, i), &r);
			// C03: the notification; s2 / s3 extend the body chain while the header head sits on another fork
			let (sl, told) = drain_status(kit);
			out.line(&format!("chain status {}", name), &sl);
			status_oracle(out, kit, &name, head_before, &told, &mut r_stats);
			out.line(&format!("chain obs {}", name), &subj.obs(kit));
			if r.starts_with("ok") {
				report_lines(out, &mut rrng, kit, &subj, &name, &mut r_stats);
			}
			if si == 4 && r == "ok:head" {
				// s4: the node restarts after every block that became head
				let rr = match reopen_rec(&mut subj) {
					Ok(_) => "ok".to_string(),
					Err(e) => format!("err:{}", e),
				};
				out.line(&format!("chain reopen {}", name), &rr);
				out.line(&format!("chain obs {}", name), &subj.obs(kit));
			}
			if r == "ok:head" && !noprobe {
				// what the node reports about the kernels of its best chain (looked up in the kernel
				// data file) is not disturbed by transactions it validated and refused earlier
				// (get_kernel_height maps positions to heights through the header MMR: only asked
				// while the header head is the body head)
				if subj.c().header_head().unwrap().last_block_h == subj.c().head().unwrap().last_block_h {
					let mut cur = kit.by_hash.get(&subj.c().head().unwrap().last_block_h).cloned();
					let mut walked = 0;
					while let Some(b) = cur {
						if walked >= 12 || b == 0 {
							break;
						}
						let blk = &kit.blks[b].block;
						for k in blk.kernels().iter().filter(|k| k.is_coinbase()) {
							let got = subj.c().get_kernel_height(&k.excess, None, None);
							let ok = match &got {
								Ok(Some((kk, h, _))) => *h == blk.header.height && kk.excess == k.excess,
								_ => false,
							};
							if !ok {
								out.raw(&format!(
									"#ORACLE-FAIL C06 the coinbase kernel of best-chain block b{} (height {}) is looked up as {:?} on subject {} after b{} (transactions were validated and refused in between)",
									b, blk.header.height, got.as_ref().map(|o| o.as_ref().map(|(_, h, p)| (*h, *p))).map_err(|e| error_class(e)), name, i
								));
							}
						}
						*g.stats.entry("c13:kernel-lookups-of-best-chain-coinbase-kernels".into()).or_insert(0) += 1;
						cur = kit.blks[b].parent;
						walked += 1;
					}
				}
				let before = (subj.obs(kit), subj.roots());
				for (_, tx) in &probes {
					let d = tx_desc(kit, tx);
					let m = match subj.c().verify_coinbase_maturity(&tx.inputs()) {
						Ok(_) => "ok".to_string(),
						Err(e) => format!("err:{}", error_class(&e)),
					};
					// recorded finding: with the header head on another fork than the head, the
					// pool-facing maturity check reads its cutoff header from the header fork
					let head_id = kit.by_hash.get(&subj.c().head().unwrap().last_block_h).cloned();
					let hhead_id = kit.by_hash.get(&subj.c().header_head().unwrap().last_block_h).cloned();
					let mut known = false;
					if let (Some(hd), Some(hh)) = (head_id, hhead_id) {
						let anc = |mut a: usize, b: usize| -> bool {
							loop {
								if a == b {
									return true;
								}
								match kit.blks[a].parent {
									Some(p) => a = p,
									None => return false,
								}
							}
						};
						if !anc(hh, hd) && !anc(hd, hh) {
							if let Some(st) = g.states.get(&hd) {
								let next_h = kit.blks[hd].height + 1;
								let ins: Vec<grin_core::core::CommitWrapper> = tx.inputs().into();
								let mut expected = Some("ok".to_string());
								for c in &ins {
									match kit.by_commit.get(&c.commitment()).and_then(|o| st.utxo.get(o)) {
										Some((ch, true)) if next_h < *ch + MATURITY => expected = Some("err:ImmatureCoinbase".into()),
										Some(_) => {}
										None => {
											expected = None;
											break;
										}
									}
								}
								if let Some(e) = expected {
									if e != m {
										known = true;
										out.raw(&format!(
											"#KNOWN-PROBE C13 pool-maturity-cutoff-read-from-header-fork head=b{} (height {}) header_head=b{} (height {}, another fork): Chain::verify_coinbase_maturity({}) = {} but on the head's fork the answer is {}",
											hd, kit.blks[hd].height, hh, kit.blks[hh].height, d, m, e
										));
									}
								}
							}
						}
					}
					if !known {
						out.line(&format!("chain txmat {} {}", name, d), &m);
					}
					let l = match subj.c().verify_tx_lock_height(tx) {
						Ok(_) => "ok".to_string(),
						Err(e) => format!("err:{}", error_class(&e)),
					};
					out.line(&format!("chain txlock {} {}", name, d), &l);
					let v = match subj.c().validate_tx(tx) {
						Ok(_) => "ok".to_string(),
						Err(e) => format!("err:{}", error_class(&e)),
					};
					out.line(&format!("chain txval {} {}", name, d), &v);
				}
				// C06, transaction clause: validating (and refusing) transactions leaves the state untouched
				let after = (subj.obs(kit), subj.roots());
				if before != after {
					out.raw(&format!(
						"#ORACLE-FAIL C06 validating transactions changed the chain state: subject={} after b{}: before=[{} {}] after=[{} {}]",
						name, i, before.0, before.1, after.0, after.1
					));
				}
			}
		}
		let last: Vec<usize> = if si == 3 { fat.clone() } else { heavy_short.iter().cloned().collect() };
		// s3: the fat fork's bodies; elsewhere the heavy fork's body arrives last: every subject reorganises onto it
		for x in &last {
			discard_status();
			let head_before = subj.c().head().unwrap().last_block_h;
			let r = subj.deliver_block(&kit.blks[*x].block);
			out.line(&format!("chain deliver {} b{}", name, x), &r);
			let (sl, told) = drain_status(kit);
			out.line(&format!("chain status {}", name), &sl);
			status_oracle(out, kit, &name, head_before, &told, &mut r_stats);
			out.line(&format!("chain obs {}", name), &subj.obs(kit));
			report_lines(out, &mut rrng, kit, &subj, &name, &mut r_stats);
		}
		let v = match subj.c().validate(false) {
			Ok(_) => "ok".to_string(),
			Err(e) => format!("err:{}", error_class(&e)),
		};
		out.line(&format!("chain validate {}", name), &v);
	}
	*g.stats.entry("c13:probe-transactions".into()).or_insert(0) += probes.len() as u64;
	let mut st = g.stats.clone();
	for (k, v) in r_stats {
		*st.entry(k).or_insert(0) += v;
	}
	st
}

// ---------------------------------------------------------------------------------------------
// C06 `fat`: a LOSING fork that writes a lot. Every fork block carries the maximal number of
// outputs the block weight of the test chain allows (10 + the coinbase); processing the k-th fork
// block rewinds the working state to the fork point - undoing best-chain blocks that created
// outputs after it - and re-applies the whole fork inside one extension (11·k outputs: > 64 KiB of
// range proofs from k = 10 on, > 1 MiB in the thorough tier) before the extension is rolled back
// because the fork has less work. After every such block, and after invalid blocks on top of the
// fork that fail at the LAST stage (roots / sizes, after everything was applied), every byte of
// every file under the txhashset directory, everything the database shows of the best chain, the
// data and range proof of every best-chain output created after the fork point must be what they
// were, the state must validate in full, and the best chain must go on as on a node that never
// saw the fork.
fn run_fat(out: &mut Out, _rng: &mut Rng, work: &str, thorough: bool) -> BTreeMap<String, u64> {
	out.raw("chain reset");
	let mut stats: BTreeMap<String, u64> = BTreeMap::new();
	let mut kit = Kit::new(&format!("{}/builder_fat", work));
	let n_fork: usize = if thorough { 150 } else { 12 };
	let cb = |kit: &Kit, b: usize| -> usize {
		let o = kit.blks[b].block.outputs().iter().find(|o| o.is_coinbase()).unwrap().commitment();
		*kit.by_commit.get(&o).unwrap()
	};
	let plains = |kit: &Kit, b: usize| -> Vec<usize> {
		kit.blks[b].block.outputs().iter().filter(|o| !o.is_coinbase()).map(|o| *kit.by_commit.get(&o.commitment()).unwrap()).collect()
	};
	let heavy = 1000u64;
	let mut trunk = vec![0usize];
	let mut fail = |stats: &mut BTreeMap<String, u64>, e: String| {
		*stats.entry(format!("generator:{}", e)).or_insert(0) += 1;
		complain(format!("fat fork script: {}", e));
	};
	// trunk below the fork point (height 8): the genesis reward split at height 4
	for h in 1..=8u64 {
		let mut specs = vec![];
		if h == 4 {
			let v = kit.outs[0].value;
			specs.push(TxSpec { inputs: vec![0], outputs: vec![(v / 2, None), (v - v / 2 - 2, None)], kernel: KSpec::Plain(2) });
		}
		match kit.new_block(*trunk.last().unwrap(), heavy, &specs) {
			Ok(id) => trunk.push(id),
			Err(e) => {
				fail(&mut stats, e);
				return stats;
			}
		}
	}
	let fork_point = trunk[8];
	let old = plains(&kit, trunk[4]); // two plain outputs created at height 4
	// best chain above the fork point: every block creates outputs
	for h in 9..=14u64 {
		let v = |kit: &Kit, o: usize| kit.outs[o].value;
		let mut specs = vec![];
		match h {
			9 => {
				let o = cb(&kit, trunk[1]);
				specs.push(TxSpec { inputs: vec![o], outputs: vec![(v(&kit, o) / 2, None), (v(&kit, o) - v(&kit, o) / 2 - 2, None)], kernel: KSpec::Plain(2) });
			}
			10 => {
				let o = cb(&kit, trunk[2]);
				specs.push(TxSpec { inputs: vec![o], outputs: vec![(1000, None), (2000, None), (v(&kit, o) - 3003, None)], kernel: KSpec::Plain(3) });
			}
			11 => {
				let o = old[0];
				specs.push(TxSpec { inputs: vec![o], outputs: vec![(v(&kit, o) - 1, None)], kernel: KSpec::Plain(1) });
			}
			12 => {
				let o = cb(&kit, trunk[3]);
				specs.push(TxSpec { inputs: vec![o], outputs: vec![(v(&kit, o) / 3, None), (v(&kit, o) - v(&kit, o) / 3 - 2, None)], kernel: KSpec::Plain(2) });
			}
			13 => {
				// spends an output created above the fork point and the old output the fork spends too
				let a = plains(&kit, trunk[10])[0];
				let b = old[1];
				specs.push(TxSpec { inputs: vec![a, b], outputs: vec![(v(&kit, a) + v(&kit, b) - 2, None)], kernel: KSpec::Plain(2) });
			}
			_ => {
				let o = cb(&kit, trunk[5]);
				specs.push(TxSpec { inputs: vec![o], outputs: vec![(v(&kit, o) - 2, None)], kernel: KSpec::Plain(2) });
			}
		}
		match kit.new_block(*trunk.last().unwrap(), heavy, &specs) {
			Ok(id) => trunk.push(id),
			Err(e) => {
				fail(&mut stats, e);
				return stats;
			}
		}
	}
	// the fat fork: block k spends the carry output of block k-1 (block 1: the old output the best
	// chain spends at height 13) into 10 outputs
	let mut fork: Vec<usize> = vec![];
	let mut invalid: Vec<(usize, usize)> = vec![]; // (deliver after fork block index, block id)
	{
		let mut parent = fork_point;
		let mut carry = old[1];
		for k in 1..=n_fork {
			let v = kit.outs[carry].value;
			let small = 1000u64;
			let mut outs: Vec<(u64, Option<usize>)> = vec![(v - 9 * small - 2, None)];
			for _ in 0..9 {
				outs.push((small, None));
			}
			let first_new = kit.outs.len();
			let spec = TxSpec { inputs: vec![carry], outputs: outs, kernel: KSpec::Plain(2) };
			match kit.new_block(parent, 1, &[spec.clone()]) {
				Ok(id) => {
					fork.push(id);
					parent = id;
					carry = first_new; // the first output registered is the carry
				}
				Err(e) => {
					fail(&mut stats, format!("fork block {}: {}", k, e));
					break;
				}
			}
			// invalid fat blocks on top of the fork (in the middle and at its end), failing at the last
			// stage: wrong kernel root, wrong kernel MMR size; with less work than the head (the
			// extension would have been rolled back anyway) and with more (it would have been kept)
			if k == n_fork / 2 || k == n_fork {
				for (which, diff) in [(0u8, 1u64), (1, 1), (0, 100 * heavy), (1, 100 * heavy)] {
					let v = kit.outs[carry].value;
					let mut outs: Vec<(u64, Option<usize>)> = vec![(v - 9 * small - 2, None)];
					for _ in 0..9 {
						outs.push((small, None));
					}
					let tx = match kit.build_tx(&TxSpec { inputs: vec![carry], outputs: outs, kernel: KSpec::Plain(2) }) {
						Ok(t) => t,
						Err(_) => continue,
					};
					if let Ok(mut b) = kit.assemble(parent, diff, &[tx], 0) {
						let tag = if which == 0 {
							let mut v = b.header.kernel_root.to_vec();
							v[7] ^= 1;
							b.header.kernel_root = Hash::from_vec(&v);
							"late:InvalidRoot"
						} else {
							b.header.kernel_mmr_size =
								grin_core::core::pmmr::insertion_to_pmmr_index(grin_core::core::pmmr::n_leaves(b.header.kernel_mmr_size) + 1);
							"late:InvalidMMRSize"
						};
						let kind = format!("kind:fat-fork-block-{}-{}", if which == 0 { "kernel-root-wrong(late)" } else { "kernel-mmr-size-wrong(late)" }, if diff == 1 { "less-work-than-head" } else { "more-work-than-head" });
						let id = kit.record(b, parent, vec![tag.to_string(), kind], false);
						invalid.push((k, id));
					}
				}
			}
		}
	}
	for l in kit.out_lines(0) {
		out.raw(&l);
	}
	for id in 0..kit.blks.len() {
		out.raw(&kit.blk_line(id));
	}
	let mut subj = Subject::new(&format!("{}/fat_s", work), &kit.genesis);
	let twin = Subject::new(&format!("{}/fat_t", work), &kit.genesis);
	out.raw("chain new s0");
	out.raw("chain new t0");
	for i in &trunk[1..=12] {
		let r = subj.deliver_block(&kit.blks[*i].block);
		out.line(&format!("chain deliver s0 b{}", i), &r);
		let r = twin.deliver_block(&kit.blks[*i].block);
		out.line(&format!("chain deliver t0 b{}", i), &r);
	}
	out.line("chain obs s0", &subj.obs(&kit));
	let best: Vec<usize> = trunk[..=12].to_vec();
	// best-chain outputs created above the fork point and unspent at the head
	let mut fresh: Vec<(usize, grin_core::core::Output)> = vec![];
	for i in &trunk[9..=12] {
		for o in kit.blks[*i].block.outputs() {
			let oid = *kit.by_commit.get(&o.commitment()).unwrap();
			if let Ok(Some(_)) = subj.c().get_unspent(o.commitment()) {
				fresh.push((oid, o.clone()));
			}
		}
	}
	*stats.entry("fat:best-chain-outputs-above-the-fork-point-checked-by-read-back".into()).or_insert(0) += fresh.len() as u64;
	let strip = |s: String| -> String { s.split(' ').filter(|t| !t.starts_with("hhead=")).collect::<Vec<_>>().join(" ") };
	let mut max_ext_outputs = 0usize;
	// one delivery of a block that must leave the best chain untouched
	let mut untouched = |out: &mut Out, stats: &mut BTreeMap<String, u64>, subj: &Subject, id: usize, ext_outputs: usize, expect_ok_fork: bool| {
		let before = (strip(subj.obs(&kit)), subj.roots(), subj.txhashset_files(), subj.db_view(&kit, &best));
		let r = subj.deliver_block(&kit.blks[id].block);
		out.line(&format!("chain deliver s0 b{}", id), &r);
		let what = format!(
			"b{} (height {}, {} fork blocks / {} outputs / about {} KiB of range proofs re-applied in the rolled-back extension) => {}",
			id,
			kit.blks[id].height,
			kit.blks[id].height - 8,
			ext_outputs,
			ext_outputs * 675 / 1024,
			r
		);
		if expect_ok_fork && r != "ok:fork" {
			out.raw(&format!("#ORACLE-FAIL C06 a valid block of a losing fork was not accepted as a fork block: {}", what));
		}
		if !expect_ok_fork && r.starts_with("ok") {
			out.raw(&format!("#ORACLE-FAIL C06 invalid block accepted: {} tags={:?}", what, kit.blks[id].tags));
		}
		let obs = subj.obs(&kit);
		out.line("chain obs s0", &obs);
		let mut verdict: Vec<String> = vec![];
		if (strip(obs.clone()), subj.roots()) != (before.0.clone(), before.1.clone()) {
			out.raw(&format!("#ORACLE-FAIL C06 a {} changed head / unspent set / roots: {}: before=[{} {}] after=[{} {}]", if expect_ok_fork { "losing-fork block" } else { "refused block" }, what, before.0, before.1, obs, subj.roots()));
			verdict.push("state=CHANGED".into());
		} else {
			verdict.push("state=same".into());
		}
		match files_diff(&before.2, &subj.txhashset_files()) {
			Some(d) => {
				out.raw(&format!("#ORACLE-FAIL C06 a rolled-back extension left bytes behind in the txhashset files: {}: {}", d, what));
				verdict.push("files=CHANGED".into());
			}
			None => verdict.push("files=same".into()),
		}
		let db = subj.db_view(&kit, &best);
		if db != before.3 {
			let first = db.iter().zip(before.3.iter()).find(|(a, b)| a != b).map(|(a, b)| format!("{} (was {})", a, b)).unwrap_or_default();
			out.raw(&format!("#ORACLE-FAIL C06 a rolled-back extension changed what the database shows of the best chain: {}: {}", first, what));
			verdict.push("db=CHANGED".into());
		} else {
			verdict.push("db=same".into());
		}
		let mut rb = "readback=same".to_string();
		for (oid, o) in &fresh {
			if let Err(e) = subj.readback(&kit, *oid, o) {
				out.raw(&format!("#ORACLE-FAIL C06 best-chain output created above the fork point damaged by a rolled-back extension: {}: {}", e, what));
				rb = "readback=CHANGED".to_string();
			}
		}
		verdict.push(rb);
		match subj.c().validate(false) {
			Ok(_) => verdict.push("validate=ok".into()),
			Err(e) => {
				out.raw(&format!("#ORACLE-FAIL C01 full validation fails after a rolled-back extension: {}: {}", error_class(&e), what));
				verdict.push(format!("validate=err:{}", error_class(&e)));
			}
		}
		match subj.sums_check() {
			Ok(_) => verdict.push("sums=ok".into()),
			Err(e) => {
				out.raw(&format!("#ORACLE-FAIL C01 after a rolled-back extension: {}: {}", e, what));
				verdict.push("sums=CHANGED".into());
			}
		}
		out.line(&format!("chain untouched s0 b{}", id), &verdict.join(","));
		*stats.entry(format!("fat:{}:{}", if expect_ok_fork { "losing-fork-block" } else { "invalid-block-on-the-fork" }, r)).or_insert(0) += 1;
	};
	for (k, id) in fork.iter().enumerate() {
		let ext_outputs = 11 * (k + 1);
		max_ext_outputs = max_ext_outputs.max(ext_outputs);
		untouched(out, &mut stats, &subj, *id, ext_outputs, true);
		for (after, bad) in &invalid {
			if *after == k + 1 {
				untouched(out, &mut stats, &subj, *bad, ext_outputs + 11, false);
				max_ext_outputs = max_ext_outputs.max(ext_outputs + 11);
			}
		}
	}
	out.raw(&format!(
		"#STAT fat: largest rolled-back extension re-applied {} outputs = about {} KiB appended to the range proof data file, {} KiB to the output data / hash files",
		max_ext_outputs,
		max_ext_outputs * 675 / 1024,
		max_ext_outputs * (34 + 2 * 32 * 2) / 1024
	));
	// the node that saw all of it against the twin that never did: same files byte for byte
	if let Some(d) = files_diff(&twin.txhashset_files(), &subj.txhashset_files()) {
		out.raw(&format!("#ORACLE-FAIL C06 after {} losing-fork blocks and {} refused blocks the txhashset files differ from those of a node that never saw them: {}", fork.len(), invalid.len(), d));
	}
	// a restart in between, then the best chain goes on (the block at height 13 spends an output
	// created above the fork point and the old output the fork spent)
	let r = match subj.reopen() {
		Ok(_) => "ok".to_string(),
		Err(e) => format!("err:{}", e),
	};
	out.line("chain reopen s0", &r);
	out.line("chain obs s0", &subj.obs(&kit));
	for i in &trunk[13..] {
		let r = subj.deliver_block(&kit.blks[*i].block);
		out.line(&format!("chain deliver s0 b{}", i), &r);
		let r2 = twin.deliver_block(&kit.blks[*i].block);
		out.line(&format!("chain deliver t0 b{}", i), &r2);
		if r != "ok:head" || r2 != "ok:head" {
			out.raw(&format!("#ORACLE-FAIL C06 after the losing fat fork the best chain does not go on: b{} => {} (twin: {})", i, r, r2));
		}
		let (o, t) = (subj.obs(&kit), twin.obs(&kit));
		out.line("chain obs s0", &o);
		if strip(o.clone()) != strip(t.clone()) || subj.roots() != twin.roots() {
			out.raw(&format!("#ORACLE-FAIL C06 node that saw the losing fat fork diverged from its twin: subj=[{} {}] twin=[{} {}]", o, subj.roots(), t, twin.roots()));
		}
	}
	if let Some(d) = files_diff(&twin.txhashset_files(), &subj.txhashset_files()) {
		out.raw(&format!("#ORACLE-FAIL C06 after the losing fat fork and two more best-chain blocks the txhashset files differ from the twin's: {}", d));
	}
	let v = match subj.c().validate(false) {
		Ok(_) => "ok".to_string(),
		Err(e) => format!("err:{}", error_class(&e)),
	};
	out.line("chain validate s0", &v);
	if let Err(e) = subj.sums_check() {
		out.raw(&format!("#ORACLE-FAIL C01 at the end of the fat-fork history: {}", e));
	}
	*stats.entry("fat:fork-blocks".into()).or_insert(0) += fork.len() as u64;
	*stats.entry("fat:outputs-built".into()).or_insert(0) += kit.outs.len() as u64;
	if max_ext_outputs < 100 {
		out.raw(&format!("#ORACLE-FAIL C06 harness: the fat fork reached only {} outputs in one extension", max_ext_outputs));
	}
	stats
}

// ---------------------------------------------------------------------------------------------
// C01 `fullval`: full-state validation — `txhashset::Extension::validate`, the path behind
// `Chain::validate(false)`, `Chain::txhashset_write`, the desegmenter's `validate_complete_state`
// and the periodic validation — must REFUSE a state that contains one bad item, for every size.
// States are assembled directly inside a read-only txhashset extension (the way a state archive
// or PIBD delivers them: no block validation on the way): honest blocks of several shapes, and a
// twin of one of them that carries ANOTHER kernel's signature / another output's range proof / a
// foreign (well-signed) kernel / a foreign (well-proved) output of another amount, or a header whose
// total kernel offset is off by one. The header against which the state is validated gets the
// roots and sizes of the very state under test, so MMR hashes, roots and sizes are consistent and
// only the signature / range-proof / sum checks can refuse it.

#[derive(Clone, Copy, PartialEq, Eq, Debug, PartialOrd, Ord)]
enum FvKind {
	Honest,
	Sig,
	Proof,
	SumsKernel,
	SumsOutput,
	SumsOffset,
}

impl FvKind {
	fn name(&self) -> &'static str {
		match self {
			FvKind::Honest => "honest",
			FvKind::Sig => "sig",
			FvKind::Proof => "proof",
			FvKind::SumsKernel => "sums-kernel",
			FvKind::SumsOutput => "sums-output",
			FvKind::SumsOffset => "sums-offset",
		}
	}
}

struct FvRes {
	full: String,
	fast: String,
	/// kernels in the state (leaves of the kernel MMR)
	k: u64,
	/// MMR sizes (output, kernel)
	sizes: (u64, u64),
}

fn fv_class(e: &grin_chain::Error) -> String {
	// the Debug form without addresses / payloads: variant names only
	let s = format!("{:?}", e);
	let mut words: Vec<String> = vec![];
	let mut cur = String::new();
	for c in s.chars() {
		if c.is_alphanumeric() {
			cur.push(c);
		} else {
			if !cur.is_empty() {
				words.push(cur.clone());
				cur.clear();
			}
			if c == '"' {
				break;
			}
		}
	}
	if !cur.is_empty() {
		words.push(cur);
	}
	let keep: Vec<String> = words.into_iter().filter(|w| w != "source" && w.chars().next().map(|c| c.is_uppercase()).unwrap_or(false)).take(3).collect();
	keep.join(":")
}

/// apply `blocks` on top of the chain's state inside a read-only extension, give the last header
/// the roots and sizes of the resulting state (and `offset`, when given, as total kernel offset),
/// run the full and the fast validation on it. Everything is rolled back afterwards.
fn fv_eval(chain: &grin_chain::Chain, blocks: &[Block], offset: Option<grin_keychain::BlindingFactor>) -> Result<FvRes, String> {
	use grin_chain::txhashset;
	use grin_chain::types::NoStatus;
	let genesis_hdr = chain.genesis();
	let hp = chain.header_pmmr();
	let ts = chain.txhashset();
	let mut header_pmmr = hp.write();
	let mut txhashset = ts.write();
	let r = txhashset::extending_readonly(&mut header_pmmr, &mut txhashset, |ext, batch| {
		let extension = &mut ext.extension;
		let header_extension = &mut ext.header_extension;
		for b in blocks {
			extension.apply_block(b, header_extension, batch)?;
		}
		let mut header = blocks.last().unwrap().header.clone();
		let sizes = extension.sizes();
		header.output_mmr_size = sizes.0;
		header.kernel_mmr_size = sizes.2;
		let roots = extension.roots()?;
		header.output_root = roots.output_root(&header);
		header.range_proof_root = roots.rproof_root;
		header.kernel_root = roots.kernel_root;
		if let Some(o) = &offset {
			header.total_kernel_offset = o.clone();
		}
		let show = |r: Result<(grin_util::secp::pedersen::Commitment, grin_util::secp::pedersen::Commitment), grin_chain::Error>| match r {
			Ok(_) => "ok".to_string(),
			Err(e) => format!("err:{}", fv_class(&e)),
		};
		let full = show(extension.validate(&genesis_hdr, false, &NoStatus, None, None, &header, None));
		let fast = show(extension.validate(&genesis_hdr, true, &NoStatus, None, None, &header, None));
		Ok(FvRes { full, fast, k: grin_core::core::pmmr::n_leaves(sizes.2), sizes: (sizes.0, sizes.2) })
	});
	r.map_err(|e| format!("{:?}", e))
}

/// the unspent outputs after `blocks` on top of `genesis`, in MMR order
fn fv_utxo(genesis: &Block, blocks: &[Block]) -> Vec<grin_util::secp::pedersen::Commitment> {
	let mut v: Vec<grin_util::secp::pedersen::Commitment> = genesis.outputs().iter().map(|o| o.commitment()).collect();
	for b in blocks {
		for o in b.outputs() {
			v.push(o.commitment());
		}
		let ins: Vec<grin_core::core::CommitWrapper> = b.inputs().into();
		for i in ins {
			if let Some(p) = v.iter().position(|c| *c == i.commitment()) {
				v.remove(p);
			}
		}
	}
	v
}

fn fv_pos(idx: usize, count: usize) -> &'static str {
	if count == 1 {
		"only"
	} else if idx == 0 {
		"first"
	} else if idx + 1 == count {
		"last"
	} else if idx == 1 {
		"second"
	} else {
		"middle"
	}
}

struct FvCtx {
	stats: BTreeMap<String, u64>,
	ks: BTreeSet<u64>,
	us: BTreeSet<u64>,
	cases: u64,
}

/// one state: evaluate, print the two lines for the model, apply the oracle of the property
#[allow(clippy::too_many_arguments)]
fn fv_case(
	out: &mut Out,
	cx: &mut FvCtx,
	kit: &Kit,
	chain: &grin_chain::Chain,
	genesis: &Block,
	fam: &str,
	kind: FvKind,
	blocks: &[Block],
	offset: Option<grin_keychain::BlindingFactor>,
	sig_bad: Option<usize>,
	proof_bad: Option<grin_util::secp::pedersen::Commitment>,
	blind_fault: bool,
) {
	let res = fv_eval(chain, blocks, offset);
	fv_report(out, cx, kit, genesis, fam, kind, blocks, res, sig_bad, proof_bad, blind_fault);
}

/// print the two lines of one evaluated state for the model, apply the oracle of the property
#[allow(clippy::too_many_arguments)]
fn fv_report(
	out: &mut Out,
	cx: &mut FvCtx,
	kit: &Kit,
	genesis: &Block,
	fam: &str,
	kind: FvKind,
	blocks: &[Block],
	res: Result<FvRes, String>,
	sig_bad: Option<usize>,
	proof_bad: Option<grin_util::secp::pedersen::Commitment>,
	blind_fault: bool,
) {
	let n = blocks.len();
	let gr = if genesis.kernels().is_empty() { 0u64 } else { 1 };
	let utxo = fv_utxo(genesis, blocks);
	let u = utxo.len();
	let total: i128 = utxo.iter().map(|c| kit.by_commit.get(c).map(|i| kit.outs[*i].value as i128).unwrap_or(0)).sum();
	let supply: i128 = (n as i128 + gr as i128) * grin_core::consensus::REWARD as i128;
	let voff = total - supply;
	let res = match res {
		Ok(r) => r,
		Err(e) => {
			out.raw(&format!("#ORACLE-FAIL C01 harness: the state fam={} n={} kind={} could not be assembled in an extension: {}", fam, n, kind.name(), e));
			return;
		}
	};
	let k = res.k as usize;
	let proof_rank = proof_bad.and_then(|c| utxo.iter().position(|x| *x == c));
	let (pos, par) = match kind {
		FvKind::Sig | FvKind::SumsKernel => (fv_pos(sig_bad.unwrap_or(0), k), k % 2),
		FvKind::Proof | FvKind::SumsOutput => (fv_pos(proof_rank.unwrap_or(0), u), u % 2),
		_ => ("-", k % 2),
	};
	let last_is_leaf = res.sizes.1 > 0 && grin_core::core::pmmr::is_leaf(res.sizes.1 - 1);
	let sigl = if kind == FvKind::Sig { sig_bad.map(|i| i.to_string()).unwrap_or_default() } else { String::new() };
	let prl = if kind == FvKind::Proof { proof_rank.map(|i| i.to_string()).unwrap_or_default() } else { String::new() };
	for (fast, r) in [(0, &res.full), (1, &res.fast)] {
		out.line(
			&format!(
				"chain fullval fam={} n={} kind={} fast={} K={} U={} gr={} voff={} blind={} sigbad=[{}] proofbad=[{}] pos={} lastleaf={}",
				fam,
				n,
				kind.name(),
				fast,
				k,
				u,
				gr,
				voff,
				if blind_fault { 1 } else { 0 },
				sigl,
				prl,
				pos,
				if last_is_leaf { 1 } else { 0 }
			),
			r,
		);
	}
	// the oracle of the property: an honest state passes both; a state with a bad signature, a bad
	// range proof or sums that do not balance is refused by the full validation whatever the
	// counts; sums that do not balance are refused by the fast validation too
	let what = format!(
		"fam={} blocks={} kernels={} unspent-outputs={} bad-item={} position={} (kernel index {:?}, unspent-output rank {:?}) last-kernel-MMR-position-is-leaf={}",
		fam, n, k, u, kind.name(), pos, sig_bad, proof_rank, last_is_leaf
	);
	match kind {
		FvKind::Honest => {
			if res.full != "ok" || res.fast != "ok" {
				out.raw(&format!("#ORACLE-FAIL C01 an honest state is refused by full-state validation (full={} fast={}): {}", res.full, res.fast, what));
			}
		}
		FvKind::Sig | FvKind::Proof => {
			if res.full == "ok" {
				out.raw(&format!("#ORACLE-FAIL C01 full-state validation (fast=false) ACCEPTS a state containing a bad {}: {}", if kind == FvKind::Sig { "kernel signature" } else { "range proof" }, what));
			}
		}
		_ => {
			if res.full == "ok" || res.fast == "ok" {
				out.raw(&format!("#ORACLE-FAIL C01 state validation ACCEPTS a state whose sums do not balance (full={} fast={}): {}", res.full, res.fast, what));
			}
		}
	}
	cx.cases += 1;
	cx.ks.insert(k as u64);
	cx.us.insert(u as u64);
	*cx.stats.entry(format!("fullval:{}:count-{}:{}:full={}:fast={}", kind.name(), if par == 0 { "even" } else { "odd" }, pos, res.full, res.fast)).or_insert(0) += 1;
	*cx.stats.entry(format!("fullval:last-kernel-position-is-{}", if last_is_leaf { "leaf" } else { "parent" })).or_insert(0) += 1;
}

/// every corrupted twin of the state `honest[..n]` with the bad item in block `j` (1-based)
#[allow(clippy::too_many_arguments)]
fn fv_variants(
	out: &mut Out,
	cx: &mut FvCtx,
	kit: &Kit,
	chain: &grin_chain::Chain,
	genesis: &Block,
	fam: &str,
	honest: &[Block],
	j: usize,
	last_item: bool,
	foreign: &grin_core::core::Transaction,
) {
	let n = honest.len();
	let kernels_before: usize = genesis.kernels().len() + honest[..j - 1].iter().map(|b| b.kernels().len()).sum::<usize>();
	let bj = &honest[j - 1];
	let ki = if last_item { bj.kernels().len() - 1 } else { 0 };
	// a signature made for another kernel of the same state (another block's, or the genesis')
	let donor_sig = if n > 1 { honest[j % n].kernels()[0].excess_sig.clone() } else if !genesis.kernels().is_empty() { genesis.kernels()[0].excess_sig.clone() } else { foreign.kernels()[0].excess_sig.clone() };
	{
		let mut blocks = honest.to_vec();
		blocks[j - 1].body.kernels[ki].excess_sig = donor_sig;
		fv_case(out, cx, kit, chain, genesis, fam, FvKind::Sig, &blocks, None, Some(kernels_before + ki), None, false);
	}
	{
		// a foreign kernel (well signed under its own excess) in the place of a kernel of the state
		let mut blocks = honest.to_vec();
		blocks[j - 1].body.kernels[ki] = foreign.kernels()[0].clone();
		fv_case(out, cx, kit, chain, genesis, fam, FvKind::SumsKernel, &blocks, None, Some(kernels_before + ki), None, true);
	}
	// an output of block j that is still unspent in the final state
	let utxo = fv_utxo(genesis, honest);
	let mine: Vec<usize> = bj.outputs().iter().enumerate().filter(|(_, o)| utxo.contains(&o.commitment())).map(|(i, _)| i).collect();
	if let Some(oi) = if last_item { mine.last() } else { mine.first() } {
		let donor_proof = if n > 1 { honest[j % n].outputs()[0].proof } else if !genesis.outputs().is_empty() { genesis.outputs()[0].proof } else { foreign.outputs()[0].proof };
		{
			let mut blocks = honest.to_vec();
			blocks[j - 1].body.outputs[*oi].proof = donor_proof;
			let c = blocks[j - 1].body.outputs[*oi].commitment();
			fv_case(out, cx, kit, chain, genesis, fam, FvKind::Proof, &blocks, None, None, Some(c), false);
		}
		{
			// a foreign output (its own valid range proof, another amount) in the place of an output
			let mut blocks = honest.to_vec();
			blocks[j - 1].body.outputs[*oi] = foreign.outputs()[0].clone();
			let c = blocks[j - 1].body.outputs[*oi].commitment();
			fv_case(out, cx, kit, chain, genesis, fam, FvKind::SumsOutput, &blocks, None, None, Some(c), false);
		}
	} else {
		*cx.stats.entry("fullval:block-without-surviving-output(no proof variant)".into()).or_insert(0) += 1;
	}
}

fn fv_offset_plus_one(kit: &Kit, h: &grin_core::core::BlockHeader) -> grin_keychain::BlindingFactor {
	use grin_keychain::Keychain;
	let secp = kit.kc.secp();
	let mut one = [0u8; 32];
	one[31] = 1;
	let mut pos = vec![grin_util::secp::key::SecretKey::from_slice(secp, &one).unwrap()];
	if let Ok(k) = h.total_kernel_offset.secret_key(secp) {
		if h.total_kernel_offset != grin_keychain::BlindingFactor::zero() {
			pos.push(k);
		}
	}
	grin_keychain::BlindingFactor::from_secret_key(secp.blind_sum(pos, vec![]).unwrap())
}

fn run_fullval(out: &mut Out, rng: &mut Rng, work: &str, thorough: bool) -> BTreeMap<String, u64> {
	use grin_core::core::{FeeFields, KernelFeatures, TxKernel};
	use grin_core::libtx::aggsig;
	use grin_keychain::Keychain;
	out.raw("chain reset");
	let mut cx = FvCtx { stats: BTreeMap::new(), ks: BTreeSet::new(), us: BTreeSet::new(), cases: 0 };
	let mut kit = Kit::new(&format!("{}/builder_fullval", work));
	let genesis = kit.genesis.clone();
	let reward = grin_core::consensus::REWARD;
	// a transaction that is never part of any state: donor of a well-signed kernel and a well-proved output
	let fkey = kit.fresh_key();
	let fcommit_in = (777_000u64, fkey, false);
	let fk2 = kit.fresh_key();
	let foreign = make_tx(&kit.kc, &[fcommit_in], &[(776_000u64, fk2.clone())], KernelFeatures::Plain { fee: 1000u32.into() }).unwrap();
	{
		let c = foreign.outputs()[0].commitment();
		kit.register_out(c, 776_000, fk2, false);
	}
	let cb_of = |kit: &Kit, b: &Block| -> usize { *kit.by_commit.get(&b.outputs().iter().find(|o| o.is_coinbase()).unwrap().commitment()).unwrap() };
	let plain_of = |kit: &Kit, b: &Block, k: usize| -> usize { *kit.by_commit.get(&b.outputs().iter().filter(|o| !o.is_coinbase()).nth(k).unwrap().commitment()).unwrap() };
	let n_a = if thorough { 17 } else { 13 };
	// ---- family A: blocks of several shapes (1-in-2-out, 1-in-1-out, 2-in-1-out, 1-in-3-out, two
	// transactions, 3-in-1-out), so that kernel and output counts take both parities independently
	let mut fam_a: Vec<Block> = vec![];
	{
		let mut prev = genesis.header.clone();
		for h in 1..=n_a {
			let cb = |kit: &Kit, fam: &Vec<Block>, hh: usize| -> usize { if hh == 0 { 0 } else { cb_of(kit, &fam[hh - 1]) } };
			let v = |kit: &Kit, o: usize| kit.outs[o].value;
			let mut specs: Vec<TxSpec> = vec![];
			match h {
				3 => {
					let o = cb(&kit, &fam_a, 0);
					specs.push(TxSpec { inputs: vec![o], outputs: vec![(v(&kit, o) / 3, None), (v(&kit, o) - v(&kit, o) / 3 - 2, None)], kernel: KSpec::Plain(2) });
				}
				4 => {
					let o = cb(&kit, &fam_a, 1);
					specs.push(TxSpec { inputs: vec![o], outputs: vec![(v(&kit, o) - 3, None)], kernel: KSpec::Plain(3) });
				}
				6 => {
					let (a, b) = (cb(&kit, &fam_a, 2), cb(&kit, &fam_a, 3));
					specs.push(TxSpec { inputs: vec![a, b], outputs: vec![(v(&kit, a) + v(&kit, b) - 1, None)], kernel: KSpec::Plain(1) });
				}
				7 => {
					let o = cb(&kit, &fam_a, 4);
					specs.push(TxSpec { inputs: vec![o], outputs: vec![(1000, None), (2000, None), (v(&kit, o) - 3004, None)], kernel: KSpec::Plain(4) });
				}
				9 => {
					let o = plain_of(&kit, &fam_a[2], 0);
					specs.push(TxSpec { inputs: vec![o], outputs: vec![(v(&kit, o) - 2, None)], kernel: KSpec::HeightLocked(2, 9) });
				}
				11 => {
					let (a, b) = (cb(&kit, &fam_a, 5), cb(&kit, &fam_a, 6));
					specs.push(TxSpec { inputs: vec![a], outputs: vec![(v(&kit, a) - 1, None)], kernel: KSpec::Plain(1) });
					specs.push(TxSpec { inputs: vec![b], outputs: vec![(7, None), (v(&kit, b) - 9, None)], kernel: KSpec::Plain(2) });
				}
				13 => {
					let (a, b, c) = (cb(&kit, &fam_a, 7), cb(&kit, &fam_a, 8), plain_of(&kit, &fam_a[6], 0));
					specs.push(TxSpec { inputs: vec![a, b, c], outputs: vec![(v(&kit, a) + v(&kit, b) + v(&kit, c) - 5, None)], kernel: KSpec::Plain(5) });
				}
				15 => {
					let o = cb(&kit, &fam_a, 10);
					specs.push(TxSpec { inputs: vec![o], outputs: vec![(v(&kit, o) - 1, None)], kernel: KSpec::Plain(1) });
				}
				_ => {}
			}
			let mut txs = vec![];
			for s in &specs {
				txs.push(kit.build_tx(s).unwrap());
			}
			let b = kit.raw_block(&prev, &txs).unwrap();
			prev = b.header.clone();
			fam_a.push(b);
		}
	}
	// ---- family B: block 1 gives the whole genesis reward up as fees (its coinbase claims them), then
	// coinbase-only blocks: n unspent outputs and n + 2 kernels after n blocks (1 unspent output at n = 1)
	let n_b = if thorough { 12 } else { 10 };
	let mut fam_b: Vec<Block> = vec![];
	{
		let mut prev = genesis.header.clone();
		for h in 1..=n_b {
			let mut txs = vec![];
			if h == 1 {
				let g = &kit.outs[0];
				txs.push(make_tx(&kit.kc, &[(g.value, g.key_id.clone(), true)], &[], KernelFeatures::Plain { fee: FeeFields::new(0, g.value).unwrap() }).unwrap());
			}
			let b = kit.raw_block(&prev, &txs).unwrap();
			prev = b.header.clone();
			fam_b.push(b);
		}
	}
	let builder = kit.builder.take().unwrap();
	for (fam, blocks, nmax) in [("A", &fam_a, n_a), ("B", &fam_b, n_b)] {
		for n in 1..=nmax {
			let honest = &blocks[..n];
			fv_case(out, &mut cx, &kit, &builder, &genesis, fam, FvKind::Honest, honest, None, None, None, false);
			let off = fv_offset_plus_one(&kit, &honest[n - 1].header);
			fv_case(out, &mut cx, &kit, &builder, &genesis, fam, FvKind::SumsOffset, honest, Some(off), None, None, true);
			let mut js = vec![1usize, (n + 1) / 2, n];
			js.dedup();
			if !thorough && n > 8 && js.len() == 3 && n % 2 == 0 {
				js.remove(1);
			}
			for (t, j) in js.iter().enumerate() {
				fv_variants(out, &mut cx, &kit, &builder, &genesis, fam, honest, *j, (t + n) % 2 == 1, &foreign);
			}
		}
	}
	// ---- family C: a genesis without reward (no kernel, no output): n kernels and n unspent
	// outputs after n coinbase-only blocks, 1 of each at n = 1; the first kernel of the MMR can be the bad one
	{
		let bare = grin_core::genesis::genesis_dev();
		let dir = format!("{}/fullval_bare", work);
		let _ = std::fs::remove_dir_all(&dir);
		match init_chain(&dir, bare.clone()) {
			Ok(chain_c) => {
				let mut fam_c: Vec<Block> = vec![];
				let mut prev = bare.header.clone();
				for _ in 1..=4 {
					let b = kit.raw_block(&prev, &[]).unwrap();
					prev = b.header.clone();
					fam_c.push(b);
				}
				for n in 1..=4 {
					let honest = &fam_c[..n];
					fv_case(out, &mut cx, &kit, &chain_c, &bare, "C", FvKind::Honest, honest, None, None, None, false);
					let off = fv_offset_plus_one(&kit, &honest[n - 1].header);
					fv_case(out, &mut cx, &kit, &chain_c, &bare, "C", FvKind::SumsOffset, honest, Some(off), None, None, true);
					let mut js = vec![1usize, n];
					js.dedup();
					for j in js {
						fv_variants(out, &mut cx, &kit, &chain_c, &bare, "C", honest, j, false, &foreign);
					}
				}
			}
			Err(e) => {
				*cx.stats.entry(format!("fullval:no-chain-on-a-genesis-without-reward:{}", error_class(&e))).or_insert(0) += 1;
			}
		}
	}
	// ---- family V: the same through the node's own entry point, `Chain::validate(fast)`: a node that
	// processed the honest blocks 1..n-1 gets block n's bad twin the way a state archive would bring
	// it: its header (committing to the roots of the bad state) through header processing, its
	// body applied in a committed txhashset extension with no block validation, the head moved onto it
	{
		let mut kit_v = Kit::new(&format!("{}/builder_fullval_v", work));
		let mut ids = vec![0usize];
		for h in 1..=5usize {
			let mut specs = vec![];
			if h == 4 {
				let v = kit_v.outs[0].value;
				specs.push(TxSpec { inputs: vec![0], outputs: vec![(v / 2, None), (v - v / 2 - 2, None)], kernel: KSpec::Plain(2) });
			}
			match kit_v.new_block(*ids.last().unwrap(), 1, &specs) {
				Ok(id) => ids.push(id),
				Err(e) => {
					complain(format!("fullval V chain: {}", e));
					break;
				}
			}
		}
		let fk = kit_v.fresh_key();
		let fk2 = kit_v.fresh_key();
		let foreign_v = make_tx(&kit_v.kc, &[(555_000u64, fk, false)], &[(554_000u64, fk2.clone())], KernelFeatures::Plain { fee: 1000u32.into() }).unwrap();
		kit_v.register_out(foreign_v.outputs()[0].commitment(), 554_000, fk2, false);
		let honest_v: Vec<Block> = ids[1..].iter().map(|i| kit_v.blks[*i].block.clone()).collect();
		let mut vcase = 0usize;
		for n in [1usize, 2, 4, 5] {
			if n > honest_v.len() {
				continue;
			}
			for kind in [FvKind::Sig, FvKind::Proof, FvKind::SumsKernel, FvKind::SumsOutput] {
				vcase += 1;
				let mut blocks = honest_v[..n].to_vec();
				let kernels_before: usize = 1 + blocks[..n - 1].iter().map(|b| b.kernels().len()).sum::<usize>();
				let last = blocks[n - 1].clone();
				let ki = if vcase % 2 == 0 { 0 } else { last.kernels().len() - 1 };
				let oi = if vcase % 2 == 0 { 0 } else { last.outputs().len() - 1 };
				let (mut sig_bad, mut proof_bad) = (None, None);
				match kind {
					FvKind::Sig => {
						blocks[n - 1].body.kernels[ki].excess_sig = kit_v.genesis.kernels()[0].excess_sig.clone();
						sig_bad = Some(kernels_before + ki);
					}
					FvKind::Proof => {
						blocks[n - 1].body.outputs[oi].proof = kit_v.genesis.outputs()[0].proof;
						proof_bad = Some(blocks[n - 1].body.outputs[oi].commitment());
					}
					FvKind::SumsKernel => {
						blocks[n - 1].body.kernels[ki] = foreign_v.kernels()[0].clone();
						sig_bad = Some(kernels_before + ki);
					}
					_ => {
						blocks[n - 1].body.outputs[oi] = foreign_v.outputs()[0].clone();
						proof_bad = Some(blocks[n - 1].body.outputs[oi].commitment());
					}
				}
				let subj = Subject::new(&format!("{}/fullval_v{}", work, vcase), &kit_v.genesis);
				let mut setup_ok = true;
				for b in &honest_v[..n - 1] {
					setup_ok &= subj.deliver_block(b).starts_with("ok");
				}
				let res: Result<FvRes, String> = (|| {
					use grin_chain::txhashset;
					if !setup_ok {
						return Err("honest prefix refused".to_string());
					}
					let chain = subj.c();
					// roots and sizes of the bad state
					let (roots_hdr, k) = {
						let hp = chain.header_pmmr();
						let ts = chain.txhashset();
						let mut header_pmmr = hp.write();
						let mut txhashset = ts.write();
						let bad = blocks[n - 1].clone();
						txhashset::extending_readonly(&mut header_pmmr, &mut txhashset, |ext, batch| {
							let extension = &mut ext.extension;
							let header_extension = &mut ext.header_extension;
							extension.apply_block(&bad, header_extension, batch)?;
							let mut header = bad.header.clone();
							let sizes = extension.sizes();
							header.output_mmr_size = sizes.0;
							header.kernel_mmr_size = sizes.2;
							let roots = extension.roots()?;
							header.output_root = roots.output_root(&header);
							header.range_proof_root = roots.rproof_root;
							header.kernel_root = roots.kernel_root;
							Ok((header, grin_core::core::pmmr::n_leaves(sizes.2)))
						})
						.map_err(|e| format!("roots: {:?}", e))?
					};
					let mut bad = blocks[n - 1].clone();
					bad.header = roots_hdr;
					let hr = subj.deliver_header(&bad.header);
					if hr != "ok" {
						return Err(format!("header of the bad state refused: {}", hr));
					}
					{
						let hp = chain.header_pmmr();
						let ts = chain.txhashset();
						let store = chain.store();
						let mut header_pmmr = hp.write();
						let mut txhashset = ts.write();
						let mut batch = store.batch().map_err(|e| format!("{:?}", e))?;
						txhashset::extending(&mut header_pmmr, &mut txhashset, &mut batch, |ext, batch| {
							let extension = &mut ext.extension;
							let header_extension = &mut ext.header_extension;
							extension.apply_block(&bad, header_extension, batch)?;
							Ok(())
						})
						.map_err(|e| format!("apply: {:?}", e))?;
						batch.save_block(&bad).map_err(|e| format!("{:?}", e))?;
						batch.save_body_head(&grin_chain::Tip::from_header(&bad.header)).map_err(|e| format!("{:?}", e))?;
						batch.commit().map_err(|e| format!("{:?}", e))?;
					}
					if chain.head().map(|t| t.last_block_h).ok() != Some(bad.hash()) {
						return Err("head did not move onto the bad state".to_string());
					}
					let show = |r: Result<(), grin_chain::Error>| match r {
						Ok(_) => "ok".to_string(),
						Err(e) => format!("err:{}", fv_class(&e)),
					};
					let full = show(chain.validate(false));
					let fast = show(chain.validate(true));
					Ok(FvRes { full, fast, k, sizes: (bad.header.output_mmr_size, bad.header.kernel_mmr_size) })
				})();
				fv_report(out, &mut cx, &kit_v, &kit_v.genesis, "V", kind, &blocks, res, sig_bad, proof_bad, kind == FvKind::SumsKernel);
			}
		}
		*cx.stats.entry("fullval:states-through-Chain::validate".into()).or_insert(0) += vcase as u64;
	}
	// ---- family K: one block with thousands of extra kernels (each well signed under its own
	// excess, the header's total offset compensating their sum), so that the signature batches of
	// `verify_kernel_signatures` (5000 kernels each) are a full one + a remainder, exactly one full
	// one, or two full ones + a remainder; the bad signature first / at the end of a batch / at the
	// start of the next / last
	{
		let base = kit.raw_block(&genesis.header, &[]).unwrap();
		let secp = kit.kc.secp();
		let kbatch = 5000usize;
		let totals: Vec<usize> = if thorough { vec![kbatch, kbatch + 3, 2 * kbatch, 2 * kbatch + 3] } else { vec![kbatch, kbatch + 3] };
		let maxm = totals.iter().max().unwrap() - 2;
		let mut keys = vec![];
		let mut arts: Vec<TxKernel> = vec![];
		for _ in 0..maxm {
			let mut bytes = rng.bytes(32);
			bytes[0] &= 0x7f;
			bytes[31] |= 1;
			let bf = grin_keychain::BlindingFactor::from_slice(&bytes);
			let skey = bf.secret_key(secp).unwrap();
			let mut kernel = TxKernel::with_features(KernelFeatures::Plain { fee: FeeFields::zero() });
			let msg = kernel.msg_to_sign().unwrap();
			kernel.excess = secp.commit(0, skey.clone()).unwrap();
			let pubkey = kernel.excess.to_pubkey(secp).unwrap();
			kernel.excess_sig = aggsig::sign_with_blinding(secp, &msg, &bf, Some(&pubkey)).unwrap();
			keys.push(skey);
			arts.push(kernel);
		}
		for total in totals {
			let m = total - 2; // genesis kernel + the block's coinbase kernel
			let mut b = base.clone();
			b.body.kernels.extend_from_slice(&arts[..m]);
			// total offset = 0 - sum of the extra excess keys
			let off = grin_keychain::BlindingFactor::from_secret_key(secp.blind_sum(vec![], keys[..m].to_vec()).unwrap());
			fv_case(out, &mut cx, &kit, &builder, &genesis, "K", FvKind::Honest, &[b.clone()], Some(off.clone()), None, None, false);
			let mut idxs: Vec<usize> = vec![1, 2, kbatch - 1, kbatch, total - 1];
			if total > 2 * kbatch {
				idxs.extend_from_slice(&[2 * kbatch - 1, 2 * kbatch]);
			}
			idxs.retain(|i| *i < total);
			idxs.sort_unstable();
			idxs.dedup();
			for gi in idxs {
				// global kernel index gi = 1 is the coinbase kernel, 2.. the extra kernels
				let mut bad = b.clone();
				let bi = gi - 1;
				let donor = if bi + 1 < bad.body.kernels.len() { bi + 1 } else { bi - 1 };
				bad.body.kernels[bi].excess_sig = b.body.kernels[donor].excess_sig.clone();
				fv_case(out, &mut cx, &kit, &builder, &genesis, "K", FvKind::Sig, &[bad], Some(off.clone()), Some(gi), None, false);
			}
			// sums: the compensation is off by one
			let off1 = {
				let mut h = b.header.clone();
				h.total_kernel_offset = off.clone();
				fv_offset_plus_one(&kit, &h)
			};
			fv_case(out, &mut cx, &kit, &builder, &genesis, "K", FvKind::SumsOffset, &[b.clone()], Some(off1), None, None, true);
		}
	}
	// ---- family U (thorough): more unspent outputs than one range-proof batch (1000): the bad
	// proof first / at the end of the first batch / at the start of the remainder / last
	if thorough {
		let pbatch = 1000usize;
		let g = kit.outs[0].clone();
		for total in [pbatch, pbatch + 2] {
			// the genesis reward split into total - 1 outputs; with the coinbase: `total` unspent outputs
			let n_out = total - 1;
			let each = (g.value - 10) / n_out as u64;
			let mut outs: Vec<(u64, Option<usize>)> = (0..n_out).map(|_| (each, None)).collect();
			outs[0].0 = g.value - 10 - each * (n_out as u64 - 1);
			let tx = kit.build_tx(&TxSpec { inputs: vec![0], outputs: outs, kernel: KSpec::Plain(10) }).unwrap();
			let b = kit.raw_block(&genesis.header, &[tx]).unwrap();
			fv_case(out, &mut cx, &kit, &builder, &genesis, "U", FvKind::Honest, &[b.clone()], None, None, None, false);
			for oi in [0usize, 1, pbatch - 2, pbatch - 1, pbatch, total - 1] {
				if oi >= b.body.outputs.len() {
					continue;
				}
				let mut bad = b.clone();
				let donor = (oi + 1) % bad.body.outputs.len();
				bad.body.outputs[oi].proof = b.body.outputs[donor].proof;
				let c = bad.body.outputs[oi].commitment();
				fv_case(out, &mut cx, &kit, &builder, &genesis, "U", FvKind::Proof, &[bad], None, None, Some(c), false);
			}
		}
	}
	let _ = reward;
	let ks: Vec<String> = cx.ks.iter().map(|k| k.to_string()).collect();
	let us: Vec<String> = cx.us.iter().map(|k| k.to_string()).collect();
	out.raw(&format!("#STAT fullval: kernel counts of the states validated = [{}]", ks.join(",")));
	out.raw(&format!("#STAT fullval: unspent-output counts of the states validated = [{}]", us.join(",")));
	// the matrix the run is for: every (bad-item kind x parity of the count x position) cell
	for kind in ["sig", "proof", "sums-kernel", "sums-output"] {
		for par in ["even", "odd"] {
			for pos in ["first", "middle", "last"] {
				let pre = format!("fullval:{}:count-{}:{}:", kind, par, pos);
				let hit: u64 = cx.stats.iter().filter(|(k, _)| k.starts_with(&pre)).map(|(_, v)| *v).sum();
				if hit == 0 && !(pos == "first" && (kind == "sig" || kind == "sums-kernel") && par == "even") {
					out.raw(&format!("#ORACLE-FAIL C01 harness: no state with a bad item of kind {} at position {} among an {} number of items was generated", kind, pos, par));
				}
			}
		}
	}
	*cx.stats.entry("fullval:states".into()).or_insert(0) += cx.cases;
	cx.stats
}

/// C03 / C06 / C02: the "already known" short-cuts of block processing (`Chain::is_known`,
/// `pipe::check_known` / `_head` / `_store`, the known-header exit of `process_block_header`) in
/// every combination with forks, with `Chain::reset_chain_head` (after which blocks with MORE work
/// than the head are in the store and are offered AGAIN, in any order), with the header denylist
/// (`Chain::invalidate_header`: denied block, its descendants, a never-seen denied block, a
/// restart) and with processing options that must reach the adapter unchanged - also through the
/// orphan pool (`Orphan.opts`). Model: Model/ChainKnown.lean.
fn run_known(out: &mut Out, rng: &mut Rng, work: &str, thorough: bool) -> BTreeMap<String, u64> {
	let mut stats: BTreeMap<String, u64> = BTreeMap::new();
	let nh = if thorough { 8 } else { 3 };
	for hist in 0..nh {
		out.raw("chain reset");
		let kit = Kit::new(&format!("{}/kbuilder{}", work, hist));
		let mut g = Gen { kit, states: BTreeMap::new(), valid: vec![], invalid: vec![], stats: BTreeMap::new(), outs_described: 0, blks_described: 0 };
		let mut s0 = AState::default();
		s0.utxo.insert(0, (0, true));
		g.states.insert(0, s0);
		// history 0: a chain long enough for the `OldBlock` branch of check_known_store (more than 50
		// blocks between a stored block and the head)
		let long = hist == 0;
		let trunk_len = if long { 56 } else { rng.range(7, 11) };
		let mut tip = 0usize;
		let mut trunk = vec![0usize];
		for _ in 0..trunk_len {
			let d = rng.range(1, 5);
			if let Some(id) = g.add_valid(rng, tip, d) {
				tip = id;
				trunk.push(id);
			}
		}
		let mut branches: Vec<Vec<usize>> = vec![];
		let nbr = rng.range(2, 3);
		for _ in 0..nbr {
			let lo = if trunk.len() > 8 { trunk.len() - 8 } else { 1 };
			let start = trunk[lo + rng.below((trunk.len() - 1 - lo) as u64) as usize];
			let depth = rng.range(1, 4);
			let mut t = start;
			let mut br = vec![];
			for _ in 0..depth {
				let d = rng.range(1, 7);
				match g.add_valid(rng, t, d) {
					Some(id) => {
						t = id;
						br.push(id);
					}
					None => break,
				}
			}
			if !br.is_empty() {
				branches.push(br);
			}
		}
		// the last branch is never delivered before the denylist phase
		let late: Vec<usize> = if branches.len() >= 2 { branches.pop().unwrap() } else { vec![] };
		// header-sync chunks: a valid chain v1-v2-v3(-v4) on a trunk block a few below the tip, and for
		// every invalid-header kind and every non-last position j a TWIN chain: the headers before j
		// are the valid ones, header j is wrong (prev_root / timestamp / version), the followers are
		// built honestly on top of it (same bodies, prev_hash and prev_root re-computed for THAT
		// history, so only header j is wrong)
		let chunk_root = trunk[trunk.len() - 1 - std::cmp::min(trunk.len() - 2, 2 + rng.below(2) as usize)];
		let mut vchain: Vec<usize> = vec![];
		{
			let mut t = chunk_root;
			let n = 3 + rng.below(2);
			for _ in 0..n {
				let d = rng.range(1, 3);
				match g.add_valid(rng, t, d) {
					Some(id) => {
						t = id;
						vchain.push(id);
					}
					None => break,
				}
			}
		}
		// (kind, position j, twin ids for positions j..)
		let mut twins: Vec<(&'static str, usize, Vec<usize>)> = vec![];
		if vchain.len() >= 3 {
			let path_headers = |kit: &Kit, mut id: usize| -> Vec<grin_core::core::BlockHeader> {
				let mut v = vec![];
				loop {
					v.push(kit.blks[id].block.header.clone());
					match kit.blks[id].parent {
						Some(p) => id = p,
						None => break,
					}
				}
				v.reverse();
				v
			};
			let mmr_root = |hs: &[grin_core::core::BlockHeader]| -> Hash {
				use grin_core::core::pmmr::{ReadablePMMR, VecBackend, PMMR};
				let mut ba = VecBackend::<grin_core::core::BlockHeader>::new();
				let mut pmmr = PMMR::new(&mut ba);
				for h in hs {
					pmmr.push(h).unwrap();
				}
				pmmr.root().unwrap()
			};
			for kind in ["prev-root", "timestamp", "version"] {
				for j in 0..vchain.len() - 1 {
					if j > 1 && !thorough {
						continue;
					}
					let mut ids = vec![];
					let mut prev_id = if j == 0 { chunk_root } else { vchain[j - 1] };
					for k in j..vchain.len() {
						let mut b = g.kit.blks[vchain[k]].block.clone();
						// the hash of a header is the hash of its proof of work: a twin needs its own
						{
							let eb = grin_core::global::min_edge_bits();
							let mask = (1u64 << eb) - 1;
							let mut v: Vec<u64> = (0..grin_core::global::proofsize()).map(|_| rng.below(u64::MAX) & mask).collect();
							v.sort_unstable();
							b.header.pow.proof = grin_core::pow::Proof { edge_bits: eb, nonces: v };
						}
						let mut tags: Vec<String> = vec![];
						if k == j {
							match kind {
								"prev-root" => {
									let mut v = b.header.prev_root.to_vec();
									v[3] ^= 1;
									b.header.prev_root = Hash::from_vec(&v);
									tags.push("hdr:InvalidRoot".into());
								}
								"timestamp" => {
									b.header.timestamp = g.kit.blks[prev_id].block.header.timestamp;
								}
								_ => {
									b.header.version = grin_core::core::HeaderVersion(b.header.version.0 + 1);
								}
							}
							tags.push(format!("kind:chunk-header-{}-wrong-at-{}", kind, j));
						} else {
							// built honestly on the wrong header
							b.header.prev_hash = g.kit.blks[prev_id].block.hash();
							b.header.prev_root = mmr_root(&path_headers(&g.kit, prev_id));
							tags.push(format!("kind:chunk-follower-of-{}-wrong-at-{}", kind, j));
						}
						let id = g.kit.record(b, prev_id, tags, false);
						ids.push(id);
						prev_id = id;
					}
					twins.push((kind, j, ids));
				}
			}
			// self-test of the root computation: the honest chain's own prev_roots
			for k in 1..vchain.len() {
				let want = g.kit.blks[vchain[k]].block.header.prev_root;
				let got = mmr_root(&path_headers(&g.kit, vchain[k - 1]));
				if want != got {
					out.raw("#ORACLE-FAIL C03 harness self-test: header MMR root recomputed over a block's ancestors differs from the prev_root the building node set");
				}
			}
		}
		g.describe_new(out);
		let kit = &g.kit;
		let seen: Vec<usize> = g.valid.iter().cloned().filter(|i| !late.contains(i) && !vchain.contains(i)).collect();
		let maxw = seen.iter().map(|i| kit.blks[*i].work).max().unwrap_or(0);
		let unique_max = seen.iter().filter(|i| kit.blks[**i].work == maxw).count() == 1;

		let orph_line = |out: &mut Out, s: &Subject, name: &str| {
			let l: Vec<String> = (1..kit.blks.len()).filter(|i| s.c().is_orphan(&kit.blks[*i].block.hash())).map(|i| format!("b{}", i)).collect();
			out.line(&format!("chain orph {}", name), &format!("[{}]", l.join(",")));
		};
		let deliver = |out: &mut Out, s: &Subject, name: &str, i: usize, opts: u32, stats: &mut BTreeMap<String, u64>| -> String {
			discard_status();
			let head_before = s.c().head().unwrap().last_block_h;
			let o = grin_chain::Options::from_bits_truncate(opts);
			let r = match s.c().process_block(kit.blks[i].block.clone(), o) {
				Ok(Some(_)) => "ok:head".to_string(),
				Ok(None) => "ok:fork".to_string(),
				Err(e) => format!("err:{}", error_class(&e)),
			};
			out.line(&format!("chain deliver {} b{} opts={}", name, i, opts), &r);
			let (sl, evs) = drain_status_opts(kit);
			out.line(&format!("chain statuso {}", name), &sl);
			status_oracle(out, kit, name, head_before, &evs, stats);
			out.line(&format!("chain obs {}", name), &s.obs(kit));
			r
		};
		let hdr = |out: &mut Out, s: &Subject, name: &str, i: usize| -> String {
			let r = s.deliver_header(&kit.blks[i].block.header);
			out.line(&format!("chain hdr {} b{}", name, i), &r);
			r
		};
		let opt_choices = [1u32, 3, 5, 7];
		let strip = |s: &str| -> String { s.split(' ').filter(|t| !t.starts_with("hhead=")).collect::<Vec<_>>().join(" ") };

		// reference: everything seen, creation order, never reset
		let rf = Subject::new(&format!("{}/kref_{}", work, hist), &kit.genesis);
		for i in &seen {
			let _ = rf.deliver_block(&kit.blks[*i].block);
		}

		// --- phase A: the short-cuts without a reset ---
		let mut sk = new_rec_subject(&format!("{}/sk_{}", work, hist), &kit.genesis);
		out.raw("chain new sk");
		for i in &trunk[1..] {
			let o = *rng.pick(&opt_choices);
			deliver(out, &sk, "sk", *i, o, &mut stats);
		}
		let mut delivered: Vec<usize> = trunk[1..].to_vec();
		let mut probe_known = |out: &mut Out, rng: &mut Rng, sk: &Subject, delivered: &Vec<usize>, stats: &mut BTreeMap<String, u64>, stage: &str| {
			let head = *kit.by_hash.get(&sk.c().head().unwrap().last_block_h).unwrap_or(&0);
			let mut cands = vec![head];
			if let Some(p) = kit.blks[head].parent {
				if p != 0 {
					cands.push(p);
				}
			}
			cands.push(*rng.pick(delivered));
			cands.push(*rng.pick(delivered));
			if long && delivered.len() > 52 {
				// a block more than 50 below the head: `OldBlock` in check_known_store - which
				// `Chain::is_known` shadows (Props/C03Known oldBlock_unreachable)
				cands.push(trunk[1 + rng.below(3) as usize]);
			}
			for c in cands {
				let rel = if kit.blks[c].work > kit.blks[head].work { "more" } else if kit.blks[c].work == kit.blks[head].work { "equal" } else { "less" };
				let old = kit.blks[c].height + 50 < kit.blks[head].height;
				if rng.chance(1, 2) {
					let r = hdr(out, sk, "sk", c);
					*stats.entry(format!("known:{}:header-of-stored-block:work-{}:{}", stage, rel, r)).or_insert(0) += 1;
				}
				let before = (sk.obs(kit), sk.roots());
				let r = deliver(out, sk, "sk", c, *rng.pick(&opt_choices), stats);
				*stats.entry(format!("known:{}:stored-block-again:work-{}{}:{}", stage, rel, if old { ":old" } else { "" }, r)).or_insert(0) += 1;
				if r.starts_with("err") && (sk.obs(kit), sk.roots()) != before {
					out.raw(&format!("#ORACLE-FAIL C06 a refused re-delivery of b{} ({}) changed the node: before=[{} {}] after=[{} {}]", c, r, before.0, before.1, sk.obs(kit), sk.roots()));
				}
			}
		};
		probe_known(out, rng, &sk, &delivered, &mut stats, "no-reset");
		for br in &branches {
			for i in br {
				deliver(out, &sk, "sk", *i, *rng.pick(&opt_choices), &mut stats);
				delivered.push(*i);
				if rng.chance(1, 2) {
					probe_known(out, rng, &sk, &delivered, &mut stats, "no-reset");
				}
			}
		}
		probe_known(out, rng, &sk, &delivered, &mut stats, "no-reset");

		// --- phase B: reset below the head, then everything above it is offered again ---
		let rounds = if thorough { 4 } else { 3 };
		for round in 0..rounds {
			let head = *kit.by_hash.get(&sk.c().head().unwrap().last_block_h).unwrap_or(&0);
			let hh = kit.blks[head].height as usize;
			if hh < 3 {
				break;
			}
			let mut depth = 1 + rng.below(std::cmp::min(6, hh - 1) as u64) as usize;
			let mut target = head;
			for _ in 0..depth {
				target = kit.blks[target].parent.unwrap();
			}
			// the last round resets onto a block of a LOSING fork (stored, not on the head's path)
			let mut onto_fork = false;
			if round == rounds - 1 {
				let mut head_path = BTreeSet::new();
				let mut x = Some(head);
				while let Some(i) = x {
					head_path.insert(i);
					x = kit.blks[i].parent;
				}
				let cands: Vec<usize> = delivered.iter().cloned().filter(|i| !head_path.contains(i)).collect();
				if !cands.is_empty() {
					target = *rng.pick(&cands);
					depth = 0;
					onto_fork = true;
				}
			}
			// the first round keeps the header chain (PIBD restart), the second rewinds it (owner API)
			let rewind_headers = if onto_fork { rng.chance(1, 2) } else { round % 2 == 1 };
			let before_reset = (sk.obs(kit), sk.roots());
			let th = kit.blks[target].block.header.clone();
			let r = match sk.c().reset_chain_head(grin_chain::Tip::from_header(&th), rewind_headers) {
				Ok(_) => "ok".to_string(),
				Err(e) => format!("err:{}", error_class(&e)),
			};
			out.line(&format!("chain resethead sk b{} hdrs={}", target, if rewind_headers { 1 } else { 0 }), &r);
			out.line("chain obs sk", &sk.obs(kit));
			*stats.entry(format!("known:reset:{}:rewind_headers={}:{}", if onto_fork { "onto-losing-fork-block".to_string() } else { format!("depth={}", depth) }, rewind_headers, r)).or_insert(0) += 1;
			// BEFORE anything is offered again: the node must be in the replayed state of the target.
			// (the `obs` line above compares get_unspent of every output ever built with the model's
			// replay of the target's own path.) Outputs spent only by DISCARDED blocks are unspent
			// again and spendable, outputs created only by discarded blocks are gone; full state valid.
			if r == "ok" {
				let st_t = &g.states[&target];
				let st_h = &g.states[&head];
				let revived: Vec<usize> = st_t.utxo.keys().cloned().filter(|o| !st_h.utxo.contains_key(o)).collect();
				let gone: Vec<usize> = st_h.utxo.keys().cloned().filter(|o| !st_t.utxo.contains_key(o)).collect();
				*stats.entry(format!("known:reset:outputs-spent-only-by-discarded-blocks={}", std::cmp::min(revived.len(), 5))).or_insert(0) += 1;
				let probe = |out: &mut Out, o: usize, want_ok: bool, stats: &mut BTreeMap<String, u64>| {
					let rec = &kit.outs[o];
					let unspent = matches!(sk.c().get_unspent(rec.commit), Ok(Some(_)));
					let key = grin_keychain::ExtKeychainPath::new(3, 7, o as u32, round as u32, 0).to_identifier();
					if rec.value < 5 {
						return;
					}
					let tx = match make_tx(&kit.kc, &[(rec.value, rec.key_id.clone(), rec.coinbase)], &[(rec.value - 1, key)], grin_core::core::KernelFeatures::Plain { fee: 1u32.into() }) {
						Ok(t) => t,
						Err(_) => return,
					};
					let v = match sk.c().validate_tx(&tx) {
						Ok(_) => "ok".to_string(),
						Err(e) => format!("err:{}", error_class(&e)),
					};
					out.line(&format!("chain txval sk ins=[o{}] outs=[] kers=[p:1]", o), &v);
					*stats.entry(format!("known:reset:probe:{}:unspent={}:validate_tx={}", if want_ok { "spent-only-by-discarded-blocks" } else { "created-only-by-discarded-blocks" }, unspent, v)).or_insert(0) += 1;
					if unspent != want_ok || (v == "ok") != want_ok {
						out.raw(&format!(
							"#ORACLE-FAIL C02 after reset_chain_head(b{}, {}) from head b{}: output o{} ({}) get_unspent={} validate_tx of a spend={} - the replayed state of b{} says {}",
							target, rewind_headers, head, o,
							if want_ok { "spent only by discarded blocks" } else { "created only by discarded blocks" },
							unspent, v, target, if want_ok { "unspent" } else { "not there" }
						));
					}
				};
				for o in revived.iter().take(3) {
					probe(out, *o, true, &mut stats);
				}
				for o in gone.iter().take(2) {
					probe(out, *o, false, &mut stats);
				}
				let v = match sk.c().validate(true) {
					Ok(_) => "ok".to_string(),
					Err(e) => format!("err:{}", error_class(&e)),
				};
				out.line("chain validate sk", &v);
				if let Err(e) = sk.sums_check() {
					out.raw(&format!("#ORACLE-FAIL C01 right after reset_chain_head(b{}, {}): {}", target, rewind_headers, e));
				}
				// against a node that only ever saw the target's own path
				let tr = Subject::new(&format!("{}/ktr_{}_{}", work, hist, round), &kit.genesis);
				let mut p = vec![];
				let mut x = target;
				while x != 0 {
					p.push(x);
					x = kit.blks[x].parent.unwrap();
				}
				p.reverse();
				for i in &p {
					let _ = tr.deliver_block(&kit.blks[*i].block);
				}
				if strip(&sk.obs(kit)) != strip(&tr.obs(kit)) || sk.roots() != tr.roots() {
					out.raw(&format!(
						"#ORACLE-FAIL C02 after reset_chain_head(b{}, {}) from head b{} the node reports [{} {}] but a node that only saw the path to b{} reports [{} {}]",
						target, rewind_headers, head, sk.obs(kit), sk.roots(), target, tr.obs(kit), tr.roots()
					));
				}
			}
			// blocks on the target's own path are known and not above the head; the others are offered
			// again in random order (children before parents included)
			let mut on_path = BTreeSet::new();
			let mut x = Some(target);
			while let Some(i) = x {
				on_path.insert(i);
				x = kit.blks[i].parent;
			}
			let mut above: Vec<usize> = delivered.iter().cloned().filter(|i| !on_path.contains(i)).collect();
			shuffle(rng, &mut above);
			// some of the target's own ancestors as well
			for _ in 0..2 {
				let a = *rng.pick(&delivered);
				above.insert(rng.below(above.len() as u64 + 1) as usize, a);
			}
			for i in &above {
				let head = *kit.by_hash.get(&sk.c().head().unwrap().last_block_h).unwrap_or(&0);
				let rel = if kit.blks[*i].work > kit.blks[head].work { "more" } else if kit.blks[*i].work == kit.blks[head].work { "equal" } else { "less" };
				let parent_is_head = kit.blks[*i].parent == Some(head);
				if rng.chance(1, 3) {
					let r = hdr(out, &sk, "sk", *i);
					out.line("chain obs sk", &sk.obs(kit));
					*stats.entry(format!("known:after-reset:header-of-stored-block:work-{}:{}", rel, r)).or_insert(0) += 1;
				}
				let r = deliver(out, &sk, "sk", *i, *rng.pick(&opt_choices), &mut stats);
				orph_line(out, &sk, "sk");
				*stats.entry(format!("known:after-reset:stored-block-again:work-{}:{}:{}", rel, if parent_is_head { "next" } else if on_path.contains(i) { "own-path" } else { "detached" }, r)).or_insert(0) += 1;
				// what the property fixes: a stored, valid block with more work than the head is taken
				// (its own ancestors come from the block store), one with no more work changes nothing
				if rel == "more" && !r.starts_with("ok:head") {
					out.raw(&format!("#ORACLE-FAIL C03 after reset_chain_head(b{}, {}) the stored valid block b{} with more work than the head b{} was not made the head: {}", target, rewind_headers, i, head, r));
				}
				if rel != "more" && !r.starts_with("err") {
					out.raw(&format!("#ORACLE-FAIL C03 after reset_chain_head(b{}, {}) the stored block b{} with no more work than the head b{} was processed again: {}", target, rewind_headers, i, head, r));
				}
			}
			let after = (sk.obs(kit), sk.roots());
			if unique_max && (strip(&after.0) != strip(&before_reset.0) || after.1 != before_reset.1) {
				out.raw(&format!(
					"#ORACLE-FAIL C03 reset_chain_head(b{}, {}) and re-delivery of every stored block in random order did not lead back: before=[{} {}] after=[{} {}]",
					target, rewind_headers, before_reset.0, before_reset.1, after.0, after.1
				));
			}
			if unique_max && (strip(&after.0) != strip(&rf.obs(kit)) || after.1 != rf.roots()) {
				out.raw(&format!("#ORACLE-FAIL C02 after reset and re-delivery the node reports [{} {}], a node that was never reset [{} {}]", after.0, after.1, rf.obs(kit), rf.roots()));
			}
			if let Err(e) = sk.c().validate(true) {
				out.raw(&format!("#ORACLE-FAIL C01 validate(fast) fails after reset_chain_head(b{}) and re-delivery: {}", target, error_class(&e)));
			}
			if let Err(e) = sk.sums_check() {
				out.raw(&format!("#ORACLE-FAIL C01 after reset_chain_head(b{}) and re-delivery: {}", target, e));
			}
			probe_known(out, rng, &sk, &delivered, &mut stats, "after-redelivery");
		}

		// --- phase C: the denylist ---
		{
			let head = *kit.by_hash.get(&sk.c().head().unwrap().last_block_h).unwrap_or(&0);
			let hh = kit.blks[head].height as usize;
			if hh >= 4 {
				// x: on the head's path, 0..2 below the head
				let dx = rng.below(3) as usize;
				let mut x = head;
				for _ in 0..dx {
					x = kit.blks[x].parent.unwrap();
				}
				let par = kit.blks[x].parent.unwrap();
				let _ = sk.c().invalidate_header(kit.blks[x].block.hash());
				out.line(&format!("chain deny sk b{}", x), "ok");
				for rewind_headers in [false, true] {
					// keep the header chain first: the denied header is known and not above the header
					// head, `validate_header` (where the denylist lives) is not reached - model and code
					// take the block again; then with the header chain rewound: refused, with every
					// descendant
					let ph = kit.blks[par].block.header.clone();
					let r = match sk.c().reset_chain_head(grin_chain::Tip::from_header(&ph), rewind_headers) {
						Ok(_) => "ok".to_string(),
						Err(e) => format!("err:{}", error_class(&e)),
					};
					out.line(&format!("chain resethead sk b{} hdrs={}", par, if rewind_headers { 1 } else { 0 }), &r);
					out.line("chain obs sk", &sk.obs(kit));
					let before = (sk.obs(kit), sk.roots());
					// x, then its descendants on the old head's path, then x's header
					let mut chain_above = vec![];
					let mut y = head;
					while y != par {
						chain_above.push(y);
						y = kit.blks[y].parent.unwrap();
					}
					chain_above.reverse();
					let mut results = vec![];
					for i in &chain_above {
						let r = deliver(out, &sk, "sk", *i, 1, &mut stats);
						results.push(r);
					}
					let rh = hdr(out, &sk, "sk", x);
					out.line("chain obs sk", &sk.obs(kit));
					orph_line(out, &sk, "sk");
					*stats.entry(format!("denylist:rewind_headers={}:denied-block-again={}:header={}:descendants={}", rewind_headers, results[0], rh, results[1..].join("/"))).or_insert(0) += 1;
					if rewind_headers {
						let after = (sk.obs(kit), sk.roots());
						if results.iter().any(|r| r.starts_with("ok")) || rh == "ok" || before != after {
							out.raw(&format!(
								"#ORACLE-FAIL C06 denied block b{} (or a descendant) offered after reset_chain_head(b{}, true): results={:?} header={}; before=[{} {}] after=[{} {}]",
								x, par, results, rh, before.0, before.1, after.0, after.1
							));
						}
					}
				}
				// a denied block the node has never seen, and its child
				if !late.is_empty() {
					let _ = sk.c().invalidate_header(kit.blks[late[0]].block.hash());
					out.line(&format!("chain deny sk b{}", late[0]), "ok");
					let before = (sk.obs(kit), sk.roots());
					let mut rs = vec![];
					for i in &late {
						if rng.chance(1, 2) {
							hdr(out, &sk, "sk", *i);
						}
						rs.push(deliver(out, &sk, "sk", *i, *rng.pick(&opt_choices), &mut stats));
					}
					*stats.entry(format!("denylist:never-seen-denied-block-and-children:{}", rs.join("/"))).or_insert(0) += 1;
					if rs.iter().any(|r| r.starts_with("ok")) || before != (sk.obs(kit), sk.roots()) {
						out.raw(&format!("#ORACLE-FAIL C06 a never-seen block on the denylist (b{}) or its child was taken: {:?}", late[0], rs));
					}
				}
				// the denylist lives in memory: after a restart everything is offered again and taken
				match reopen_rec(&mut sk) {
					Ok(_) => out.line("chain reopen sk", "ok"),
					Err(e) => out.line("chain reopen sk", &format!("err:{}", e)),
				}
				out.line("chain obs sk", &sk.obs(kit));
				let mut again: Vec<usize> = delivered.clone();
				again.extend(late.iter().cloned());
				for i in &again {
					let head = *kit.by_hash.get(&sk.c().head().unwrap().last_block_h).unwrap_or(&0);
					if kit.blks[*i].work > kit.blks[head].work {
						let r = deliver(out, &sk, "sk", *i, *rng.pick(&opt_choices), &mut stats);
						*stats.entry(format!("denylist:after-restart:{}", r)).or_insert(0) += 1;
					}
				}
				let v = match sk.c().validate(true) {
					Ok(_) => "ok".to_string(),
					Err(e) => format!("err:{}", error_class(&e)),
				};
				out.line("chain validate sk", &v);
			}
		}

		// --- phase D: options through the orphan pool ---
		{
			let so = new_rec_subject(&format!("{}/so_{}", work, hist), &kit.genesis);
			out.raw("chain new so");
			let m = std::cmp::min(trunk.len() - 1, if thorough { 12 } else { 7 });
			for i in &trunk[1..=m] {
				hdr(out, &so, "so", *i);
			}
			let mut order: Vec<usize> = trunk[2..=m].to_vec();
			order.reverse();
			if rng.chance(1, 2) {
				shuffle(rng, &mut order);
			}
			for (k, i) in order.iter().enumerate() {
				let o = opt_choices[k % 4];
				deliver(out, &so, "so", *i, o, &mut stats);
				if rng.chance(1, 3) {
					// parked a second time: the pool keeps the options of the LAST offer
					let o2 = opt_choices[(k + 1 + rng.below(3) as usize) % 4];
					deliver(out, &so, "so", *i, o2, &mut stats);
					*stats.entry("opts:orphan-parked-twice".into()).or_insert(0) += 1;
				}
				orph_line(out, &so, "so");
			}
			discard_status();
			let o = grin_chain::Options::from_bits_truncate(5);
			let r = match so.c().process_block(kit.blks[trunk[1]].block.clone(), o) {
				Ok(Some(_)) => "ok:head".to_string(),
				Ok(None) => "ok:fork".to_string(),
				Err(e) => format!("err:{}", error_class(&e)),
			};
			out.line(&format!("chain deliver so b{} opts=5", trunk[1]), &r);
			let (sl, evs) = drain_status_opts(kit);
			out.line("chain statuso so", &sl);
			*stats.entry(format!("opts:notifications-in-one-call={}", evs.len())).or_insert(0) += 1;
			out.line("chain obs so", &so.obs(kit));
			orph_line(out, &so, "so");
			if evs.len() != m {
				out.raw(&format!("#ORACLE-FAIL C03 {} blocks waited in the orphan pool for b{}; it arrived and {} blocks were announced", m - 1, trunk[1], evs.len()));
			}
		}
		// --- phase E: header sync chunks with a wrong NON-LAST header ---
		if vchain.len() >= 3 {
			// `main`: the node's head is the chunk's root (the chunk extends the main branch);
			// `fork`: the node has the whole trunk (the chunk is a fork branch)
			for (mode, name) in [("main", "sc"), ("fork", "sf")] {
				let mut subj = new_rec_subject(&format!("{}/{}_{}", work, name, hist), &kit.genesis);
				// the twin gets every header singly
				let single = new_rec_subject(&format!("{}/{}1_{}", work, name, hist), &kit.genesis);
				out.raw(&format!("chain new {}", name));
				for i in &trunk[1..] {
					if mode == "main" && kit.blks[*i].height > kit.blks[chunk_root].height {
						break;
					}
					let r = subj.deliver_block(&kit.blks[*i].block);
					out.line(&format!("chain deliver {} b{}", name, i), &r);
					let _ = single.deliver_block(&kit.blks[*i].block);
				}
				out.line(&format!("chain obs {}", name), &subj.obs(kit));
				let header_state = |s: &Subject| -> (String, u64, Vec<bool>) {
					let hh = s.c().header_head().unwrap();
					let size = s.c().header_pmmr().read().size;
					let stored: Vec<bool> = (0..kit.blks.len()).map(|i| s.c().get_block_header(&kit.blks[i].block.hash()).is_ok()).collect();
					(kit.bid(&hh.last_block_h), size, stored)
				};
				for (kind, j, ids) in &twins {
					let mut chunk: Vec<usize> = vchain[..*j].to_vec();
					chunk.extend(ids.iter().cloned());
					let hs: Vec<grin_core::core::BlockHeader> = chunk.iter().map(|i| kit.blks[*i].block.header.clone()).collect();
					let before = header_state(&subj);
					let obs_before = (subj.obs(kit), subj.roots());
					let r = subj.sync_headers(&hs);
					let l: Vec<String> = chunk.iter().map(|i| format!("b{}", i)).collect();
					out.line(&format!("chain hdrs {} [{}]", name, l.join(",")), &r);
					out.line(&format!("chain obs {}", name), &subj.obs(kit));
					*stats.entry(format!("chunk:{}:{}-wrong-at-{}-of-{}:{}", mode, kind, j, chunk.len(), r)).or_insert(0) += 1;
					// the same headers singly, in order, on the twin: the chunk is taken iff each is
					let singles: Vec<String> = chunk.iter().map(|i| single.deliver_header(&kit.blks[*i].block.header)).collect();
					let all_single = singles.iter().all(|x| x == "ok");
					if (r == "ok") != all_single {
						out.raw(&format!(
							"#ORACLE-FAIL C06 header chunk [{}] ({} header wrong at position {}) = {} but the same headers one by one = {:?}",
							l.join(","), kind, j, r, singles
						));
					}
					if r != "ok" && (header_state(&subj) != before || (subj.obs(kit), subj.roots()) != obs_before) {
						let after = header_state(&subj);
						out.raw(&format!(
							"#ORACLE-FAIL C06 a refused header chunk [{}] ({} header wrong at position {}) left something behind: header_head {} -> {}, header MMR size {} -> {}, stored headers changed: {}",
							l.join(","), kind, j, before.0, after.0, before.1, after.1, before.2 != after.2
						));
					}
					// the full blocks of the wrong header and of its followers: never taken
					let head_before = subj.obs(kit);
					for i in ids {
						let r = deliver(out, &subj, name, *i, 1, &mut stats);
						if r.starts_with("ok") {
							out.raw(&format!(
								"#ORACLE-FAIL C03 the block b{} ({} header wrong at position {} of a refused chunk, or built on it) was accepted: {}; before [{}] after [{}]",
								i, kind, j, r, head_before, subj.obs(kit)
							));
						}
					}
					if strip(&subj.obs(kit)) != strip(&head_before) {
						out.raw(&format!("#ORACLE-FAIL C06 refused blocks of a refused header chunk moved the node: [{}] -> [{}]", head_before, subj.obs(kit)));
					}
					if rng.chance(1, 3) {
						match reopen_rec(&mut subj) {
							Ok(_) => out.line(&format!("chain reopen {}", name), "ok"),
							Err(e) => out.line(&format!("chain reopen {}", name), &format!("err:{}", e)),
						}
					}
				}
				// a later valid chunk is still taken, in two overlapping pieces, then the bodies
				let hs: Vec<grin_core::core::BlockHeader> = vchain.iter().map(|i| kit.blks[*i].block.header.clone()).collect();
				for (a, b) in [(0usize, 2usize), (1, vchain.len())] {
					let r = subj.sync_headers(&hs[a..b]);
					let l: Vec<String> = vchain[a..b].iter().map(|i| format!("b{}", i)).collect();
					out.line(&format!("chain hdrs {} [{}]", name, l.join(",")), &r);
					out.line(&format!("chain obs {}", name), &subj.obs(kit));
					*stats.entry(format!("chunk:{}:valid-chunk-after-refused-ones:{}", mode, r)).or_insert(0) += 1;
					if r != "ok" {
						out.raw(&format!("#ORACLE-FAIL C03 a valid header chunk [{}] was refused after refused chunks: {}", l.join(","), r));
					}
				}
				for i in &vchain {
					deliver(out, &subj, name, *i, 1, &mut stats);
				}
				let v = match subj.c().validate(true) {
					Ok(_) => "ok".to_string(),
					Err(e) => format!("err:{}", error_class(&e)),
				};
				out.line(&format!("chain validate {}", name), &v);
			}
		}
		for (k, v) in g.stats.clone() {
			*stats.entry(k).or_insert(0) += v;
		}
		*stats.entry("known:histories".into()).or_insert(0) += 1;
		drop(sk);
		drop(rf);
		let _ = std::fs::remove_dir_all(work);
		let _ = std::fs::create_dir_all(work);
	}
	stats
}

/// C02 / C08 at chain level: EXACTLY ONE block is rewound (a one-block reorganisation, and
/// `reset_chain_head` to head-1) and that block spent the output T whose 1-based MMR position is
/// the previous header's `output_mmr_size`: the LAST output of block N-1, a plain output sorted
/// after the coinbase, on a lone single-leaf peak when the leaf count is odd (even counts as
/// controls). T must be unspent again afterwards.
fn run_lonepeak(out: &mut Out, rng: &mut Rng, work: &str, stats: &mut BTreeMap<String, u64>) {
	for pad in [3u64, 4, 5, 6, 8] {
		out.raw("chain reset");
		let mut kit = Kit::new(&format!("{}/lp_builder{}", work, pad));
		let mut chain_ids = vec![0usize];
		let mut ok = true;
		for _ in 0..pad {
			match kit.new_block(*chain_ids.last().unwrap(), 1, &[]) {
				Ok(id) => chain_ids.push(id),
				Err(e) => {
					complain(format!("lone-peak script: {}", e));
					ok = false;
					break;
				}
			}
		}
		if !ok {
			continue;
		}
		// block N-1: spends the coinbase of b1 into ONE plain output T; retried with fresh keys
		// until T sorts after the coinbase output
		let b1 = chain_ids[1];
		let cb1 = kit.blks[b1].block.outputs().iter().find(|o| o.is_coinbase()).and_then(|o| kit.by_commit.get(&o.commitment()).cloned());
		let cb1 = match cb1 {
			Some(o) => o,
			None => continue,
		};
		let parent = *chain_ids.last().unwrap();
		let v = kit.outs[cb1].value;
		let mut nm1: Option<(usize, usize)> = None;
		for _try in 0..12 {
			let before = kit.outs.len();
			let tx = match kit.build_tx(&TxSpec { inputs: vec![cb1], outputs: vec![(v - 1, None)], kernel: KSpec::Plain(1) }) {
				Ok(t) => t,
				Err(_) => break,
			};
			let t_id = before;
			let b = match kit.assemble(parent, 1, &[tx], 0) {
				Ok(b) => b,
				Err(_) => break,
			};
			let last_is_t = b.outputs().last().map(|o| !o.is_coinbase()).unwrap_or(false);
			if !last_is_t {
				*stats.entry("lonepeak:retry-because-the-coinbase-sorted-last".into()).or_insert(0) += 1;
				continue;
			}
			match kit.builder().process_block(b.clone(), grin_chain::Options::SKIP_POW) {
				Ok(_) => {
					let id = kit.record(b, parent, vec![], true);
					nm1 = Some((id, t_id));
				}
				Err(e) => complain(format!("lone-peak script, block N-1: {}", error_class(&e))),
			}
			break;
		}
		let (nm1, t_id) = match nm1 {
			Some(x) => x,
			None => {
				*stats.entry("lonepeak:no-block-with-T-last".into()).or_insert(0) += 1;
				continue;
			}
		};
		let tv = kit.outs[t_id].value;
		let n = match kit.new_block(nm1, 1, &[TxSpec { inputs: vec![t_id], outputs: vec![(tv - 1, None)], kernel: KSpec::Plain(1) }]) {
			Ok(id) => id,
			Err(e) => {
				complain(format!("lone-peak script, block N: {}", e));
				continue;
			}
		};
		let n2 = match kit.new_block(nm1, 7, &[]) {
			Ok(id) => id,
			Err(e) => {
				complain(format!("lone-peak script, block N': {}", e));
				continue;
			}
		};
		for l in kit.out_lines(0) {
			out.raw(&l);
		}
		for id in 0..kit.blks.len() {
			out.raw(&kit.blk_line(id));
		}
		let kit = &kit;
		let leaves = grin_core::core::pmmr::n_leaves(kit.blks[nm1].block.header.output_mmr_size);
		let prev_size = kit.blks[nm1].block.header.output_mmr_size;
		let path: Vec<usize> = chain_ids[1..].iter().cloned().chain(std::iter::once(nm1)).collect();
		let check_t = |out: &mut Out, s: &Subject, name: &str, stage: &str, winning: &[usize], stats: &mut BTreeMap<String, u64>| {
			let unspent = s.c().get_unspent(kit.outs[t_id].commit).ok().flatten();
			let at_last = unspent.map(|(_, cp)| cp.pos == prev_size).unwrap_or(false);
			*stats.entry(format!("lonepeak:leaves-after-N-1={}({}):{}:T-unspent={}:T-at-position-of-prev-size={}", leaves, if leaves % 2 == 1 { "lone-peak" } else { "even" }, stage, unspent.is_some(), at_last)).or_insert(0) += 1;
			let fresh = Subject::new(&format!("{}/lp_fresh_{}_{}_{}", work, pad, name, stage), &kit.genesis);
			for i in winning {
				let _ = fresh.deliver_block(&kit.blks[*i].block);
			}
			let tx_ok = make_tx(&kit.kc, &[(tv, kit.outs[t_id].key_id.clone(), false)], &[(tv - 1, grin_keychain::ExtKeychainPath::new(3, 9, pad as u32, 0, 0).to_identifier())], grin_core::core::KernelFeatures::Plain { fee: 1u32.into() })
				.ok()
				.map(|tx| match s.c().validate_tx(&tx) {
					Ok(_) => "ok".to_string(),
					Err(e) => format!("err:{}", error_class(&e)),
				})
				.unwrap_or("ok".to_string());
			out.line(&format!("chain txval {} ins=[o{}] outs=[] kers=[p:1]", name, t_id), &tx_ok);
			let vf = match s.c().validate(true) {
				Ok(_) => "ok".to_string(),
				Err(e) => format!("err:{}", error_class(&e)),
			};
			out.line(&format!("chain validate {}", name), &vf);
			let strip = |x: &str| -> String { x.split(' ').filter(|t| !t.starts_with("hhead=")).collect::<Vec<_>>().join(" ") };
			if unspent.is_none() || tx_ok != "ok" || strip(&s.obs(kit)) != strip(&fresh.obs(kit)) || s.roots() != fresh.roots() {
				out.raw(&format!(
					"#ORACLE-FAIL C02 exactly one block (b{}) was rewound ({}); it spent o{}, the last output of b{} at MMR position {} = output_mmr_size of that header ({} leaves): unspent again={} validate_tx of a spend={}; node [{} {}] fresh node on the winning path [{} {}]",
					n, stage, t_id, nm1, prev_size, leaves, unspent.is_some(), tx_ok, s.obs(kit), s.roots(), fresh.obs(kit), fresh.roots()
				));
			}
		};
		// (a) one-block reorganisation: N replaced by the heavier N'
		{
			let sp = new_rec_subject(&format!("{}/lp_sp{}", work, pad), &kit.genesis);
			out.raw("chain new sp");
			for i in path.iter().chain(std::iter::once(&n)) {
				let r = sp.deliver_block(&kit.blks[*i].block);
				out.line(&format!("chain deliver sp b{}", i), &r);
			}
			out.line("chain obs sp", &sp.obs(kit));
			let r = sp.deliver_block(&kit.blks[n2].block);
			out.line(&format!("chain deliver sp b{}", n2), &r);
			out.line("chain obs sp", &sp.obs(kit));
			let mut winning = path.clone();
			winning.push(n2);
			check_t(out, &sp, "sp", "one-block-reorg", &winning, stats);
			discard_status();
		}
		// (b) reset_chain_head to head-1, then N again
		{
			let sq = new_rec_subject(&format!("{}/lp_sq{}", work, pad), &kit.genesis);
			out.raw("chain new sq");
			for i in path.iter().chain(std::iter::once(&n)) {
				let r = sq.deliver_block(&kit.blks[*i].block);
				out.line(&format!("chain deliver sq b{}", i), &r);
			}
			let rh = rng.chance(1, 2);
			let th = kit.blks[nm1].block.header.clone();
			let r = match sq.c().reset_chain_head(grin_chain::Tip::from_header(&th), rh) {
				Ok(_) => "ok".to_string(),
				Err(e) => format!("err:{}", error_class(&e)),
			};
			out.line(&format!("chain resethead sq b{} hdrs={}", nm1, if rh { 1 } else { 0 }), &r);
			out.line("chain obs sq", &sq.obs(kit));
			check_t(out, &sq, "sq", "reset-to-head-1", &path, stats);
			let r = sq.deliver_block(&kit.blks[n].block);
			out.line(&format!("chain deliver sq b{}", n), &r);
			out.line("chain obs sq", &sq.obs(kit));
			discard_status();
		}
		let _ = std::fs::remove_dir_all(work);
		let _ = std::fs::create_dir_all(work);
	}
}

fn main() {
	quiet_panics();
	setup_globals();
	let work = std::env::var("VERIF_WORK").unwrap_or_else(|_| "/verif/work/chain.d".to_string());
	let mut rng = Rng::new(seed_from_env());
	let thorough = tier_thorough();
	let args: Vec<String> = std::env::args().collect();
	let n: usize = args.get(1).and_then(|s| s.parse().ok()).unwrap_or(if thorough { 10 } else { 2 });
	let mut out = Out::stdout();
	let mut total: BTreeMap<String, u64> = BTreeMap::new();
	if args.get(1).map(|s| s == "c13").unwrap_or(false) {
		// `c13 noprobe` (quick tier of C03): the same tree and deliveries without the pool-facing probe
		// transactions and kernel look-ups after every head change (they belong to C06 / C13)
		// (ignored in the thorough tier, which always runs the full c13)
		let noprobe = args.get(2).map(|s| s == "noprobe").unwrap_or(false) && !thorough;
		let st = run_c13(&mut out, &mut rng, &work, noprobe);
		for (k, v) in st {
			out.raw(&format!("#STAT {}={}", k, v));
		}
		flush_complaints(&mut out);
		out.flush();
		return;
	}
	if args.get(1).map(|s| s == "known").unwrap_or(false) {
		let mut st = run_known(&mut out, &mut rng, &work, thorough);
		run_lonepeak(&mut out, &mut rng, &work, &mut st);
		for (k, v) in st {
			out.raw(&format!("#STAT {}={}", k, v));
		}
		flush_complaints(&mut out);
		out.flush();
		return;
	}
	if args.get(1).map(|s| s == "fat").unwrap_or(false) {
		let st = run_fat(&mut out, &mut rng, &work, thorough);
		for (k, v) in st {
			out.raw(&format!("#STAT {}={}", k, v));
		}
		flush_complaints(&mut out);
		out.flush();
		return;
	}
	if args.get(1).map(|s| s == "fullval").unwrap_or(false) {
		let st = run_fullval(&mut out, &mut rng, &work, thorough);
		for (k, v) in st {
			out.raw(&format!("#STAT {}={}", k, v));
		}
		flush_complaints(&mut out);
		out.flush();
		return;
	}
	if args.get(1).map(|s| s == "deep").unwrap_or(false) {
		let st = run_deep(&mut out, &mut rng, &work);
		for (k, v) in st {
			out.raw(&format!("#STAT {}={}", k, v));
		}
		flush_complaints(&mut out);
		out.flush();
		return;
	}
	if args.get(1).map(|s| s == "long").unwrap_or(false) {
		let user = args.get(2).map(|s| s == "user").unwrap_or(false);
		let hdr_ahead = args.get(2).map(|s| s == "hdr").unwrap_or(false);
		if user {
			std::env::set_var("VERIF_CHAIN_TYPE", "user");
			setup_globals();
		}
		let st = run_long(&mut out, &mut rng, &work, user, hdr_ahead);
		for (k, v) in st {
			out.raw(&format!("#STAT {}={}", k, v));
		}
		flush_complaints(&mut out);
		out.flush();
		return;
	}
	for h in 0..n {
		let st = run_history(&mut out, &mut rng, &work, h, thorough);
		for (k, v) in st {
			*total.entry(k).or_insert(0) += v;
		}
		let _ = std::fs::remove_dir_all(&work);
		let _ = std::fs::create_dir_all(&work);
	}
	for (k, v) in total {
		out.raw(&format!("#STAT {}={}", k, v));
	}
	flush_complaints(&mut out);
	out.flush();
}
