//! C18 correspondence: `grin_store::lmdb::{Store, Batch}` on a real LMDB environment.
//!
//! Modes (first argument):
//!   prog    random nested-batch programs + reads from another thread at deterministic sync points
//!   pages   more than one 10 000-key iterator page (DatabaseIterator::read_key_page)
//!   resize  value sizes that force several map resizes (1 MB chunks in test mode), readers that
//!           hold a read transaction across `Store::batch()`, reopen
//!   crash   child processes killed before / after / during `commit`; parent reopens and dumps
//!   cstore  the chain-level layer `grin_chain::store::{ChainStore, Batch}`: nested typed batches,
//!           typed getters through the batch / a child / the parent / the plain store on two threads
//!   selfiter  a batch started while the CALLING thread holds an open iterator and a resize is due
//!           (every outcome of the "transactions are open" branch of maybe_resize), then growth
//!   inflight  reads of every kind demonstrably inside their read transaction while batch() is at the threshold
//!   handles several Store handles on one environment; the handle that did not commit last writes the big batch
//!   growth  growth through many resizes (more than 10 allocation chunks), fixed and random batch sizes
//!   slowreader  a reader / an un-committed batch held open for 12.5 s (thorough: also 45 s, 100 s) while a
//!           resize is pending: everything that arrives in the window must wait and then succeed
//!   frag    fragmented free space (deletes / overwrites of a large share of the data) followed by
//!           growth with multi-page values: resizes must come in time, no put / commit may fail
//!   newprobe  (by hand only, not in checks/C18.json; may crash the process) Store::new in a loop on an open
//!           environment while a deferred resize is released: its write transaction is outside the gate
//!   crash-child <dir> <kind> <n>   (internal: the process that gets killed)
//!
//! One line per operation: `kv <op> <args> => <what the implementation answered>`; the Lean
//! driver recomputes every answer with the model (Model/Kv.lean).  The same oracle is also
//! evaluated here on a shadow map, so that a violation is reported as `#ORACLE-FAIL C18 …`
//! independently of the driver.
use grin_core::global::{self, ChainTypes};
use grin_core::ser::{self, Readable, Reader, Writeable, Writer};
use grin_store::{Batch, Error, Store};
use gvharness::*;
use std::collections::BTreeMap;
use std::io::{BufRead, BufReader, Read, Write};
use std::sync::{mpsc, Arc};
use std::thread;
use std::time::{Duration, Instant};

/// named databases registered with the store (plus the default db = 4 key spaces)
const DBS: [u8; 3] = [b'A', b'B', b'Z'];
/// a db key that is *not* registered (every op on it must fail with OtherErr)
const BAD_DB: u8 = b'Q';

type Db = Option<u8>;
type K = (u16, Vec<u8>);

fn db_id(db: Db) -> u16 {
	match db {
		None => 0,
		Some(p) => p as u16 + 1,
	}
}
fn db_tok(db: Db) -> String {
	match db {
		None => "def".to_string(),
		Some(p) => p.to_string(),
	}
}
fn all_dbs() -> Vec<Db> {
	let mut v = vec![None];
	v.extend(DBS.iter().map(|p| Some(*p)));
	v
}

fn fnv32(b: &[u8]) -> u32 {
	let mut h: u32 = 0x811c9dc5;
	for x in b {
		h ^= *x as u32;
		h = h.wrapping_mul(16777619);
	}
	h
}
/// values longer than 48 bytes are shown as length + FNV-1a-32
fn showval(v: &[u8]) -> String {
	if v.len() > 48 {
		format!("L{}:{:08x}", v.len(), fnv32(v))
	} else {
		hex(v)
	}
}
/// value token of a put line: hex, or `r<byte>x<len>` for a run of one byte
fn valtok(v: &[u8]) -> String {
	if v.len() > 48 && v.iter().all(|b| *b == v[0]) {
		format!("r{:02x}x{}", v[0], v.len())
	} else {
		hex(v)
	}
}

/// record type for put_ser / get_ser
struct Rec {
	tag: u64,
	body: Vec<u8>,
}
impl Writeable for Rec {
	fn write<W: Writer>(&self, w: &mut W) -> Result<(), ser::Error> {
		w.write_u64(self.tag)?;
		w.write_bytes(&self.body)
	}
}
impl Readable for Rec {
	fn read<R: Reader>(r: &mut R) -> Result<Rec, ser::Error> {
		let tag = r.read_u64()?;
		let body = r.read_bytes_len_prefix()?;
		Ok(Rec { tag, body })
	}
}

fn fmt_unit(r: Result<(), Error>) -> String {
	match r {
		Ok(()) => "ok".into(),
		Err(_) => "err".into(),
	}
}
fn fmt_get(r: &Result<Option<Vec<u8>>, Error>) -> String {
	match r {
		Ok(Some(v)) => format!("some:{}", showval(v)),
		Ok(None) => "none".into(),
		Err(_) => "err".into(),
	}
}
fn fmt_rec(r: Result<Option<Rec>, Error>) -> String {
	match r {
		Ok(Some(v)) => format!("rec:{}:{}", v.tag, showval(&v.body)),
		Ok(None) => "none".into(),
		Err(_) => "err".into(),
	}
}
fn fmt_bool(r: &Result<bool, Error>) -> String {
	match r {
		Ok(b) => b.to_string(),
		Err(_) => "err".into(),
	}
}
fn fmt_items(items: &[(Vec<u8>, Vec<u8>)]) -> String {
	let parts: Vec<String> = items
		.iter()
		.map(|(k, v)| format!("{}={}", hex(k), showval(v)))
		.collect();
	format!("[{}]", parts.join(","))
}
fn collect_iter<I: Iterator<Item = Result<(Vec<u8>, Vec<u8>), Error>>>(
	it: Result<I, Error>,
) -> Result<Vec<(Vec<u8>, Vec<u8>)>, ()> {
	match it {
		Err(_) => Err(()),
		Ok(it) => {
			let mut v = vec![];
			for x in it {
				match x {
					Ok(kv) => v.push(kv),
					Err(_) => return Err(()),
				}
			}
			Ok(v)
		}
	}
}
fn fmt_iter(r: &Result<Vec<(Vec<u8>, Vec<u8>)>, ()>) -> String {
	match r {
		Ok(v) => fmt_items(v),
		Err(_) => "err".into(),
	}
}
fn kvpair(k: &[u8], v: &[u8]) -> Result<(Vec<u8>, Vec<u8>), Error> {
	Ok((k.to_vec(), v.to_vec()))
}

fn open_store(dir: &str) -> Store {
	global::set_local_chain_type(ChainTypes::AutomatedTesting);
	Store::new(dir, None, None, DBS.to_vec(), None, None).expect("Store::new")
}

/// (map size, last page, txn id) of the newest LMDB meta page of `<dir>/multi_lmdb/data.mdb`
/// (MDB_meta: magic u32, version u32, address u64, mapsize u64, 2 x MDB_db (48 B), last_pg, txnid;
/// after the 16-byte page header; meta pages are pages 0 and 1).
fn meta_info(dir: &str) -> Option<(u64, u64, u64)> {
	let p = std::path::Path::new(dir).join("multi_lmdb").join("data.mdb");
	let mut f = std::fs::File::open(p).ok()?;
	let mut buf = vec![0u8; 2 * 4096];
	f.read_exact(&mut buf).ok()?;
	let rd = |o: usize| u64::from_le_bytes(buf[o..o + 8].try_into().unwrap());
	let mut best: Option<(u64, u64, u64)> = None;
	for pg in 0..2 {
		let b = pg * 4096 + 16;
		let magic = u32::from_le_bytes(buf[b..b + 4].try_into().unwrap());
		if magic != 0xBEEFC0DE {
			continue;
		}
		let m = (rd(b + 16), rd(b + 24 + 96), rd(b + 24 + 96 + 8));
		if best.map(|x| m.2 >= x.2).unwrap_or(true) {
			best = Some(m);
		}
	}
	best
}

// ---------------------------------------------------------------------------------------------
// reader thread: the "other thread" of the property
// ---------------------------------------------------------------------------------------------
enum Req {
	Get(Db, Vec<u8>),
	GetRec(Db, Vec<u8>),
	Exists(Db, Vec<u8>),
	Iter(Db),
	ItOpen(Db),
	ItNext(usize),
	ItClose,
	/// a competing writer: Store::batch() (blocks while the main thread's batch is open), reads,
	/// puts, commit or drop; answers all results joined by '|', last field = ms spent in batch()
	WriteBatch(Vec<(Db, Vec<u8>)>, Vec<(Db, Vec<u8>, Vec<u8>)>, bool),
	/// open an iterator, answer "ok", keep it for `ms` milliseconds, then drop it (no answer)
	HoldFor(Db, u64),
	Quit,
}
struct ReaderT {
	tx: mpsc::Sender<Req>,
	rx: mpsc::Receiver<String>,
	h: Option<thread::JoinHandle<()>>,
	/// when the reader thread began to drop the iterator of its last `HoldFor` (taken on the reader
	/// thread itself, so that scheduling delays of the asking thread do not matter)
	hold_drop: Arc<std::sync::Mutex<Option<Instant>>>,
}
impl ReaderT {
	fn spawn(store: Arc<Store>) -> ReaderT {
		let (tx, rrx) = mpsc::channel::<Req>();
		let (rtx, rx) = mpsc::channel::<String>();
		let hold_drop = Arc::new(std::sync::Mutex::new(None));
		let hold_drop2 = hold_drop.clone();
		let h = thread::spawn(move || {
			global::set_local_chain_type(ChainTypes::AutomatedTesting);
			let mut held = None;
			loop {
				let req = match rrx.recv() {
					Ok(r) => r,
					Err(_) => break,
				};
				let ans = match req {
					Req::Get(db, k) => fmt_get(&store.get_ser::<Vec<u8>>(db, &k, None)),
					Req::GetRec(db, k) => fmt_rec(store.get_ser::<Rec>(db, &k, None)),
					Req::Exists(db, k) => fmt_bool(&store.exists(db, &k)),
					Req::Iter(db) => fmt_iter(&collect_iter(store.iter(db, kvpair))),
					Req::ItOpen(db) => match store.iter(db, kvpair) {
						Ok(it) => {
							held = Some(it);
							"ok".to_string()
						}
						Err(_) => "err".to_string(),
					},
					Req::ItNext(n) => match held.as_mut() {
						None => "err".to_string(),
						Some(it) => {
							let mut v = vec![];
							let mut bad = false;
							for _ in 0..n {
								match it.next() {
									Some(Ok(kv)) => v.push(kv),
									Some(Err(_)) => {
										bad = true;
										break;
									}
									None => break,
								}
							}
							if bad {
								"err".to_string()
							} else {
								fmt_items(&v)
							}
						}
					},
					Req::ItClose => {
						held = None;
						"ok".to_string()
					}
					Req::HoldFor(db, ms) => match store.iter(db, kvpair) {
						Ok(it) => {
							*hold_drop2.lock().unwrap() = None;
							let _ = rtx.send("ok".to_string());
							thread::sleep(Duration::from_millis(ms));
							let t = Instant::now();
							drop(it);
							*hold_drop2.lock().unwrap() = Some(t);
							continue;
						}
						Err(_) => "err".to_string(),
					},
					Req::WriteBatch(gets, puts, commit) => {
						let t0 = Instant::now();
						match store.batch() {
							Err(_) => "err".to_string(),
							Ok(mut b) => {
								let ms = t0.elapsed().as_millis();
								let mut parts = vec!["ok".to_string()];
								for (db, k) in gets.iter() {
									parts.push(fmt_get(&b.get_ser::<Vec<u8>>(*db, k, None)));
								}
								for (db, k, v) in puts.iter() {
									parts.push(fmt_unit(b.put(*db, k, v)));
								}
								if commit {
									parts.push(fmt_unit(b.commit()));
								} else {
									drop(b);
									parts.push("ok".to_string());
								}
								parts.push(ms.to_string());
								parts.join("|")
							}
						}
					}
					Req::Quit => {
						drop(held.take());
						break;
					}
				};
				if rtx.send(ans).is_err() {
					break;
				}
			}
		});
		ReaderT {
			tx,
			rx,
			h: Some(h),
			hold_drop,
		}
	}
	/// `Store::batch()` returned at `t_ret` and turned out to have resized the map while the reader
	/// thread's `HoldFor` iterator was (to be) open: did it return only after the reader began to
	/// drop that iterator?  Waits for the reader to get there; `Some(ms)` = returned `ms` too early.
	fn returned_before_hold_ended(&self, t_ret: Instant) -> Option<u128> {
		for _ in 0..400 {
			if let Some(t_drop) = *self.hold_drop.lock().unwrap() {
				return if t_ret < t_drop { Some((t_drop - t_ret).as_millis().max(1)) } else { None };
			}
			thread::sleep(Duration::from_millis(5));
		}
		Some(u128::MAX)
	}
	fn ask(&self, r: Req) -> String {
		self.tx.send(r).unwrap();
		self.rx
			.recv_timeout(Duration::from_secs(60))
			.unwrap_or_else(|_| "timeout".to_string())
	}
	fn send_only(&self, r: Req) {
		self.tx.send(r).unwrap();
	}
	fn recv_only(&self) -> String {
		self.rx
			.recv_timeout(Duration::from_secs(60))
			.unwrap_or_else(|_| "timeout".to_string())
	}
	fn quit(&mut self) {
		let _ = self.tx.send(Req::Quit);
		if let Some(h) = self.h.take() {
			let _ = h.join();
		}
	}
}

// ---------------------------------------------------------------------------------------------
// shadow map: the oracle evaluated in Rust
// ---------------------------------------------------------------------------------------------
#[derive(Default)]
struct Shadow {
	committed: BTreeMap<K, Vec<u8>>,
	stack: Vec<Vec<(K, Option<Vec<u8>>)>>,
}
impl Shadow {
	fn bget(&self, k: &K) -> Option<Vec<u8>> {
		for ov in self.stack.iter().rev() {
			for (k2, v) in ov.iter().rev() {
				if k2 == k {
					return v.clone();
				}
			}
		}
		self.committed.get(k).cloned()
	}
	fn view(&self) -> BTreeMap<K, Vec<u8>> {
		let mut m = self.committed.clone();
		for ov in self.stack.iter() {
			for (k, v) in ov.iter() {
				match v {
					Some(v) => {
						m.insert(k.clone(), v.clone());
					}
					None => {
						m.remove(k);
					}
				}
			}
		}
		m
	}
	fn items(m: &BTreeMap<K, Vec<u8>>, db: Db) -> Vec<(Vec<u8>, Vec<u8>)> {
		let id = db_id(db);
		m.range((id, vec![])..(id + 1, vec![]))
			.map(|((_, k), v)| (k.clone(), v.clone()))
			.collect()
	}
	fn write(&mut self, k: K, v: Option<Vec<u8>>) {
		self.stack.last_mut().unwrap().push((k, v));
	}
	fn commit(&mut self) {
		let top = self.stack.pop().unwrap();
		if let Some(parent) = self.stack.last_mut() {
			parent.extend(top);
		} else {
			for (k, v) in top {
				match v {
					Some(v) => {
						self.committed.insert(k, v);
					}
					None => {
						self.committed.remove(&k);
					}
				}
			}
		}
	}
	fn dump(&self) -> String {
		dump_fmt(
			&self
				.committed
				.iter()
				.map(|((d, k), v)| (*d, k.clone(), v.clone()))
				.collect::<Vec<_>>(),
		)
	}
}
fn dump_fmt(items: &[(u16, Vec<u8>, Vec<u8>)]) -> String {
	let parts: Vec<String> = items
		.iter()
		.map(|(d, k, v)| {
			let dt = if *d == 0 {
				"def".to_string()
			} else {
				(d - 1).to_string()
			};
			format!("{}:{}={}", dt, hex(k), showval(v))
		})
		.collect();
	format!("[{}]", parts.join(","))
}
/// full dump through a fresh non-batch reader (Store::iter over every database)
fn dump_store(store: &Store) -> Result<String, ()> {
	let mut items = vec![];
	for db in all_dbs() {
		let v = collect_iter(store.iter(db, kvpair))?;
		for (k, val) in v {
			items.push((db_id(db), k, val));
		}
	}
	Ok(dump_fmt(&items))
}

#[derive(Default)]
struct Stats {
	ops: BTreeMap<String, u64>,
	max_depth: usize,
	commits: [u64; 5],
	drops: [u64; 5],
	outside_reads: u64,
	outside_reads_during_dirty_batch: u64,
	outside_saw_committed_value_differs_from_batch_view: u64,
	oracle_fails: u64,
	errs: u64,
	iter_max_len: usize,
	snap_iters_across_commit: u64,
	t2_batches: u64,
	t2_blocked: u64,
}
impl Stats {
	fn op(&mut self, name: &str) {
		*self.ops.entry(name.to_string()).or_insert(0) += 1;
	}
}

struct Cx {
	out: Out,
	rng: Rng,
	st: Stats,
	sh: Shadow,
	store: Option<Arc<Store>>,
	reader: ReaderT,
	dir: String,
}

impl Cx {
	fn store(&self) -> Arc<Store> {
		self.store.as_ref().unwrap().clone()
	}
	fn new(dir: &str, seed: u64) -> Cx {
		let store = Arc::new(open_store(dir));
		let reader = ReaderT::spawn(store.clone());
		let mut out = Out::stdout();
		let toks: Vec<String> = all_dbs().iter().map(|d| db_tok(*d)).collect();
		out.line(&format!("kv new [{}]", toks.join(",")), "ok");
		Cx {
			out,
			rng: Rng::new(seed),
			st: Stats::default(),
			sh: Shadow::default(),
			store: Some(store),
			reader,
			dir: dir.to_string(),
		}
	}
	fn oracle_fail(&mut self, msg: String) {
		self.st.oracle_fails += 1;
		self.out.raw(&format!("#ORACLE-FAIL C18 {}", msg));
	}
	fn line(&mut self, lhs: &str, rhs: &str) {
		if rhs == "err" {
			self.st.errs += 1;
		}
		self.out.line(lhs, rhs);
	}

	fn rand_db(&mut self) -> Db {
		let r = self.rng.below(100);
		if r < 2 {
			Some(BAD_DB)
		} else if r < 22 {
			None
		} else {
			Some(*self.rng.pick(&DBS))
		}
	}
	/// small key pool so that overwrites, delete-then-put and prefix relations are frequent
	fn rand_key(&mut self) -> Vec<u8> {
		let r = self.rng.below(1000);
		if r < 6 {
			return vec![]; // invalid: MDB_BAD_VALSIZE
		}
		if r < 10 {
			return vec![0x61; 512]; // invalid: longer than 511
		}
		if r < 16 {
			return vec![0x61; 511]; // longest valid key
		}
		let alpha = [0x00u8, 0x01, 0x61, 0x62, 0xff];
		let len = if r < 700 {
			self.rng.range(1, 3)
		} else {
			self.rng.range(1, 6)
		} as usize;
		(0..len).map(|_| *self.rng.pick(&alpha)).collect()
	}
	fn rand_val(&mut self) -> Vec<u8> {
		let r = self.rng.below(100);
		if r < 15 {
			vec![]
		} else if r < 70 {
			let n = self.rng.range(1, 8) as usize;
			self.rng.bytes(n)
		} else if r < 97 {
			let n = self.rng.range(9, 40) as usize;
			self.rng.bytes(n)
		} else {
			let n = self.rng.range(49, 300) as usize;
			self.rng.bytes(n)
		}
	}
	/// reads and deletes: unknown db -> OtherErr, empty key -> MDB_BAD_VALSIZE; an over-long key
	/// is simply not found
	fn key_ok(db: Db, key: &[u8]) -> bool {
		db != Some(BAD_DB) && !key.is_empty()
	}
	/// puts additionally refuse keys longer than 511 bytes
	fn put_ok(db: Db, key: &[u8]) -> bool {
		Cx::key_ok(db, key) && key.len() <= 511
	}

	// ---- reads from outside the batch (other thread `t1`, or the writer thread itself `main`)
	fn outside_read(&mut self) {
		let mut db = self.rand_db();
		let mut key = self.rand_key();
		// mostly aim at keys the open batch (any level) has written: these discriminate
		let pending: Vec<K> = self.sh.stack.iter().flat_map(|o| o.iter().map(|(k, _)| k.clone())).collect();
		if !pending.is_empty() && self.rng.chance(2, 3) {
			let k = self.rng.pick(&pending).clone();
			db = if k.0 == 0 { None } else { Some((k.0 - 1) as u8) };
			key = k.1;
		}
		let who_main = self.rng.chance(1, 4);
		let who = if who_main { "main" } else { "t1" };
		let kind = self.rng.below(10);
		let dirty = self.sh.stack.iter().any(|o| !o.is_empty());
		self.st.outside_reads += 1;
		if dirty {
			self.st.outside_reads_during_dirty_batch += 1;
		}
		let k: K = (db_id(db), key.clone());
		if kind < 4 {
			let ans = if who_main {
				fmt_get(&self.store().get_ser::<Vec<u8>>(db, &key, None))
			} else {
				self.reader.ask(Req::Get(db, key.clone()))
			};
			let want = if Cx::key_ok(db, &key) {
				match self.sh.committed.get(&k) {
					Some(v) => format!("some:{}", showval(v)),
					None => "none".into(),
				}
			} else {
				"err".into()
			};
			if dirty && self.sh.bget(&k) != self.sh.committed.get(&k).cloned() {
				self.st.outside_saw_committed_value_differs_from_batch_view += 1;
			}
			if ans != want {
				self.oracle_fail(format!(
					"reader outside the batch ({}) get {} {} answered {} but the committed state has {} (batch view: {:?})",
					who, db_tok(db), hex(&key), ans, want, self.sh.bget(&k).map(|v| showval(&v))
				));
			}
			self.st.op("read-outside get");
			self.line(&format!("kv read-outside {} get {} {}", who, db_tok(db), hex(&key)), &ans);
		} else if kind < 5 {
			let ans = if who_main {
				fmt_rec(self.store().get_ser::<Rec>(db, &key, None))
			} else {
				self.reader.ask(Req::GetRec(db, key.clone()))
			};
			self.st.op("read-outside getrec");
			self.line(&format!("kv read-outside {} getrec {} {}", who, db_tok(db), hex(&key)), &ans);
		} else if kind < 8 {
			let ans = if who_main {
				fmt_bool(&self.store().exists(db, &key))
			} else {
				self.reader.ask(Req::Exists(db, key.clone()))
			};
			let want = if Cx::key_ok(db, &key) {
				self.sh.committed.contains_key(&k).to_string()
			} else {
				"err".into()
			};
			if dirty && self.sh.bget(&k).is_some() != self.sh.committed.contains_key(&k) {
				self.st.outside_saw_committed_value_differs_from_batch_view += 1;
			}
			if ans != want {
				self.oracle_fail(format!(
					"reader outside the batch ({}) exists {} {} answered {} but the committed state says {}",
					who, db_tok(db), hex(&key), ans, want
				));
			}
			self.st.op("read-outside exists");
			self.line(&format!("kv read-outside {} exists {} {}", who, db_tok(db), hex(&key)), &ans);
		} else {
			let ans = if who_main {
				fmt_iter(&collect_iter(self.store().iter(db, kvpair)))
			} else {
				self.reader.ask(Req::Iter(db))
			};
			let want = if db == Some(BAD_DB) {
				"err".into()
			} else {
				fmt_items(&Shadow::items(&self.sh.committed, db))
			};
			if ans != want {
				self.oracle_fail(format!(
					"iterator outside the batch ({}) over db {} yielded {} but the committed state is {}",
					who, db_tok(db), ans, want
				));
			}
			self.st.op("read-outside iter");
			self.line(&format!("kv read-outside {} iter {}", who, db_tok(db)), &ans);
		}
	}

	// ---- one operation on the innermost open batch
	fn batch_op(&mut self, b: &mut Batch<'_>) {
		let db = self.rand_db();
		let key = self.rand_key();
		let k: K = (db_id(db), key.clone());
		let valid = Cx::key_ok(db, &key);
		let r = self.rng.below(100);
		let valid = if r < 38 { Cx::put_ok(db, &key) } else { valid };
		if r < 30 {
			let v = self.rand_val();
			let ans = fmt_unit(b.put(db, &key, &v));
			if valid && ans == "ok" {
				self.sh.write(k, Some(v.clone()));
			}
			if valid && ans != "ok" {
				self.oracle_fail(format!("put {} {} ({} bytes) failed", db_tok(db), hex(&key), v.len()));
			}
			self.st.op("put");
			self.line(&format!("kv put {} {} {}", db_tok(db), hex(&key), valtok(&v)), &ans);
		} else if r < 38 {
			let tag = self.rng.next() >> self.rng.below(64);
			let n = self.rng.below(24) as usize;
			let body = self.rng.bytes(n);
			let rec = Rec {
				tag,
				body: body.clone(),
			};
			let ans = fmt_unit(b.put_ser(db, &key, &rec));
			if valid && ans == "ok" {
				let bytes = ser::ser_vec(&rec, b.protocol_version()).unwrap();
				self.sh.write(k, Some(bytes));
			}
			if valid && ans != "ok" {
				self.oracle_fail(format!("put_ser {} {} failed", db_tok(db), hex(&key)));
			}
			self.st.op("putser");
			self.line(
				&format!("kv putser {} {} {} {}", db_tok(db), hex(&key), tag, hex(&body)),
				&ans,
			);
		} else if r < 52 {
			let ans = fmt_unit(b.delete(db, &key));
			if valid && ans == "ok" {
				self.sh.write(k, None);
			}
			self.st.op("del");
			self.line(&format!("kv del {} {}", db_tok(db), hex(&key)), &ans);
		} else if r < 70 {
			let res = b.get_ser::<Vec<u8>>(db, &key, None);
			let ans = fmt_get(&res);
			let want = if valid {
				match self.sh.bget(&k) {
					Some(v) => format!("some:{}", showval(&v)),
					None => "none".into(),
				}
			} else {
				"err".into()
			};
			if ans != want {
				self.oracle_fail(format!(
					"batch at depth {} get {} {} answered {} but its own view has {}",
					self.sh.stack.len(), db_tok(db), hex(&key), ans, want
				));
			}
			self.st.op("get");
			self.line(&format!("kv get {} {}", db_tok(db), hex(&key)), &ans);
		} else if r < 75 {
			let ans = fmt_rec(b.get_ser::<Rec>(db, &key, None));
			self.st.op("getrec");
			self.line(&format!("kv getrec {} {}", db_tok(db), hex(&key)), &ans);
		} else if r < 88 {
			let ans = fmt_bool(&b.exists(db, &key));
			let want = if valid {
				self.sh.bget(&k).is_some().to_string()
			} else {
				"err".into()
			};
			if ans != want {
				self.oracle_fail(format!(
					"batch at depth {} exists {} {} answered {} but its own view says {}",
					self.sh.stack.len(), db_tok(db), hex(&key), ans, want
				));
			}
			self.st.op("exists");
			self.line(&format!("kv exists {} {}", db_tok(db), hex(&key)), &ans);
		} else {
			let res = collect_iter(b.iter(db, kvpair));
			if let Ok(v) = &res {
				self.st.iter_max_len = self.st.iter_max_len.max(v.len());
			}
			let ans = fmt_iter(&res);
			let want = if db == Some(BAD_DB) {
				"err".into()
			} else {
				fmt_items(&Shadow::items(&self.sh.view(), db))
			};
			if ans != want {
				self.oracle_fail(format!(
					"batch at depth {} iter {} yielded {} but its own view is {}",
					self.sh.stack.len(), db_tok(db), ans, want
				));
			}
			self.st.op("iter");
			self.line(&format!("kv iter {}", db_tok(db)), &ans);
		}
	}

	/// body of one (nested) batch: ops, outside reads, children
	fn level(&mut self, b: &mut Batch<'_>, depth: usize, max_depth: usize) {
		self.st.max_depth = self.st.max_depth.max(depth);
		let n = self.rng.range(0, if depth == 1 { 14 } else { 8 });
		for _ in 0..n {
			let r = self.rng.below(100);
			if r < 62 {
				self.batch_op(b);
			} else if r < 82 {
				self.outside_read();
			} else if depth < max_depth {
				match b.child() {
					Ok(mut c) => {
						self.sh.stack.push(vec![]);
						self.st.op("child");
						self.line("kv child", "ok");
						self.level(&mut c, depth + 1, max_depth);
						if self.rng.chance(3, 5) {
							let ans = fmt_unit(c.commit());
							if ans != "ok" {
								self.oracle_fail(format!("child commit at depth {} failed", depth + 1));
							}
							self.sh.commit();
							self.st.commits[depth + 1] += 1;
							self.st.op("commit");
							self.line("kv commit", &ans);
						} else {
							drop(c);
							self.sh.stack.pop();
							self.st.drops[depth + 1] += 1;
							self.st.op("drop");
							self.line("kv drop", "ok");
						}
					}
					Err(_) => {
						self.oracle_fail(format!("Batch::child at depth {} failed", depth));
						self.line("kv child", "err");
					}
				}
			} else {
				self.batch_op(b);
			}
		}
	}

	fn obs(&mut self) {
		let ans = match dump_store(&self.store()) {
			Ok(s) => s,
			Err(_) => "err".to_string(),
		};
		let want = self.sh.dump();
		if ans != want {
			self.oracle_fail(format!(
				"committed state after the batch is {} but the committed writes give {}",
				ans, want
			));
		}
		self.st.op("obs");
		self.line("kv obs", &ans);
	}

	/// one top-level batch; optionally an iterator opened on the other thread before the commit
	/// is drained after it (must keep yielding the pre-commit snapshot)
	fn top_batch(&mut self, max_depth: usize) {
		let store = self.store();
		let mut b = match store.batch() {
			Ok(b) => b,
			Err(_) => {
				self.oracle_fail("Store::batch failed".to_string());
				self.line("kv begin", "err");
				return;
			}
		};
		self.sh.stack.push(vec![]);
		self.st.op("begin");
		self.line("kv begin", "ok");
		self.level(&mut b, 1, max_depth);
		let snap = self.rng.chance(1, 4);
		let mut snap_db = None;
		let mut snap_items = vec![];
		let mut snap_taken = 0usize;
		if snap {
			snap_db = Some(*self.rng.pick(&all_dbs()));
			let db = snap_db.unwrap();
			let a = self.reader.ask(Req::ItOpen(db));
			self.line(&format!("kv it-open t1 {}", db_tok(db)), &a);
			snap_items = Shadow::items(&self.sh.committed, db);
			snap_taken = self.rng.below(snap_items.len() as u64 + 1) as usize;
			let a = self.reader.ask(Req::ItNext(snap_taken));
			let want = fmt_items(&snap_items[..snap_taken]);
			if a != want {
				self.oracle_fail(format!("outside iterator (before commit) yielded {} expected {}", a, want));
			}
			self.line(&format!("kv it-next t1 {}", snap_taken), &a);
			self.st.op("it-open");
		}
		// a second writer on the other thread: its Store::batch() blocks on LMDB's writer lock
		// until this batch is committed or dropped, then runs entirely after it
		let mut t2: Option<(Vec<(Db, Vec<u8>)>, Vec<(Db, Vec<u8>, Vec<u8>)>, bool)> = None;
		if !snap && self.rng.chance(1, 6) {
			let mut gets = vec![];
			let top: Vec<K> = self.sh.stack[0].iter().map(|(k, _)| k.clone()).collect();
			for _ in 0..self.rng.below(4) {
				if top.is_empty() || self.rng.chance(1, 4) {
					let db = *self.rng.pick(&all_dbs());
					let mut k = self.rand_key();
					if k.is_empty() {
						k = vec![1];
					}
					gets.push((db, k));
				} else {
					let k = self.rng.pick(&top).clone();
					let db = if k.0 == 0 { None } else { Some((k.0 - 1) as u8) };
					gets.push((db, k.1));
				}
			}
			let mut puts = vec![];
			for _ in 0..self.rng.range(1, 3) {
				let db = *self.rng.pick(&all_dbs());
				let mut k = self.rand_key();
				if k.is_empty() || k.len() > 511 {
					k = vec![0x62];
				}
				puts.push((db, k, self.rand_val()));
			}
			let commit = self.rng.chance(4, 5);
			self.reader.send_only(Req::WriteBatch(gets.clone(), puts.clone(), commit));
			thread::sleep(Duration::from_millis(2));
			t2 = Some((gets, puts, commit));
		}
		if self.rng.chance(7, 10) {
			let ans = fmt_unit(b.commit());
			if ans != "ok" {
				self.oracle_fail("outermost commit failed".to_string());
			}
			self.sh.commit();
			self.st.commits[1] += 1;
			self.st.op("commit");
			self.line("kv commit", &ans);
		} else {
			drop(b);
			self.sh.stack.pop();
			self.st.drops[1] += 1;
			self.st.op("drop");
			self.line("kv drop", "ok");
		}
		if let Some(_db) = snap_db {
			// the snapshot iterator must not see the batch that just committed
			let a = self.reader.ask(Req::ItNext(1_000_000));
			let want = fmt_items(&snap_items[snap_taken..]);
			if a != want {
				self.oracle_fail(format!(
					"iterator opened before the commit yielded {} after it, its snapshot has {}",
					a, want
				));
			}
			self.line("kv it-next t1 1000000", &a);
			let a = self.reader.ask(Req::ItClose);
			self.line("kv it-close t1", &a);
			self.st.snap_iters_across_commit += 1;
		}
		if let Some((gets, puts, commit)) = t2 {
			// everything the second writer did happened after the main batch ended
			let reply = self.reader.recv_only();
			let parts: Vec<&str> = reply.split('|').collect();
			let want_len = 1 + gets.len() + puts.len() + 2;
			if parts.len() != want_len {
				self.oracle_fail(format!("second writer thread failed: {}", reply));
				self.line("kv begin", "err");
			} else {
				self.st.t2_batches += 1;
				if parts[want_len - 1].parse::<u64>().unwrap_or(0) >= 1 {
					self.st.t2_blocked += 1;
				}
				self.sh.stack.push(vec![]);
				self.st.op("begin");
				self.line("kv begin", parts[0]);
				let mut i = 1;
				for (db, k) in gets.iter() {
					let kk: K = (db_id(*db), k.clone());
					let want = match self.sh.bget(&kk) {
						Some(v) => format!("some:{}", showval(&v)),
						None => "none".into(),
					};
					if parts[i] != want {
						self.oracle_fail(format!(
							"second writer (its batch() was issued while the main batch was open) read {} {} = {} but the state after the main batch ended has {}",
							db_tok(*db), hex(k), parts[i], want
						));
					}
					self.st.op("get");
					self.line(&format!("kv get {} {}", db_tok(*db), hex(k)), parts[i]);
					i += 1;
				}
				for (db, k, v) in puts.iter() {
					self.sh.write((db_id(*db), k.clone()), Some(v.clone()));
					self.st.op("put");
					self.line(&format!("kv put {} {} {}", db_tok(*db), hex(k), valtok(v)), parts[i]);
					i += 1;
				}
				if commit {
					self.sh.commit();
					self.st.commits[1] += 1;
					self.st.op("commit");
					self.line("kv commit", parts[i]);
				} else {
					self.sh.stack.pop();
					self.st.drops[1] += 1;
					self.st.op("drop");
					self.line("kv drop", parts[i]);
				}
			}
		}
		self.obs();
	}

	fn reopen(&mut self) {
		self.reader.quit();
		// the reader's handle is gone; drop ours (the last one) so the environment really closes
		let dir = self.dir.clone();
		let old = self.store.take();
		drop(old);
		self.store = Some(Arc::new(open_store(&dir)));
		self.reader = ReaderT::spawn(self.store());
		self.st.op("reopen");
		self.line("kv reopen", "ok");
		self.obs();
	}

	fn print_stats(&mut self, mode: &str) {
		let ops: Vec<String> = self.st.ops.iter().map(|(k, v)| format!("{}={}", k, v)).collect();
		self.out.raw(&format!("#STAT {} ops: {}", mode, ops.join(" ")));
		self.out.raw(&format!(
			"#STAT {} max nesting {}; commits per level 1..3 = {}/{}/{}; drops per level 1..3 = {}/{}/{}",
			mode, self.st.max_depth, self.st.commits[1], self.st.commits[2], self.st.commits[3],
			self.st.drops[1], self.st.drops[2], self.st.drops[3]
		));
		self.out.raw(&format!(
			"#STAT {} outside reads {} ({} while the open batch had uncommitted writes, {} of them on a key whose batch view differs from the committed value); snapshot iterators held across a commit {}; batches by a second writer thread issued while the main batch was open {} ({} measurably blocked in Store::batch()); longest batch iteration {} items; err answers {}; oracle failures {}",
			mode, self.st.outside_reads, self.st.outside_reads_during_dirty_batch,
			self.st.outside_saw_committed_value_differs_from_batch_view,
			self.st.snap_iters_across_commit, self.st.t2_batches, self.st.t2_blocked,
			self.st.iter_max_len, self.st.errs, self.st.oracle_fails
		));
	}
	fn finish(mut self) {
		self.reader.quit();
		self.out.flush();
	}
}

// ---------------------------------------------------------------------------------------------
// mode prog
// ---------------------------------------------------------------------------------------------
fn mode_prog(work: &str, seed: u64, thorough: bool) {
	let mut cx = Cx::new(&format!("{}/prog", work), seed);
	let n = if thorough { 4000 } else { 900 };
	for i in 0..n {
		cx.top_batch(3);
		// reads between batches (no batch open: outside = the only view)
		for _ in 0..cx.rng.below(3) {
			cx.outside_read();
		}
		if i % 97 == 96 {
			cx.reopen();
		}
	}
	cx.print_stats("prog");
	cx.finish();
}

// ---------------------------------------------------------------------------------------------
// mode pages: more than one (thorough: more than two) page of 10 000 keys per database, with
// VARIABLE-length keys arranged so that the keys sitting at the page boundaries (sorted
// positions 10 000, 20 000 and their neighbours) are proper prefixes of their successors, end in
// 0xFF with "incremented" and longer successors, or are one-byte keys.  An iterator that fetches
// the next page from a key computed out of the last key of the previous page (instead of
// skipping `skip_total` entries) loses or repeats entries exactly there.
// ---------------------------------------------------------------------------------------------
const PAGE_KEYS: usize = 10_000;

fn is_proper_prefix(a: &[u8], b: &[u8]) -> bool {
	a.len() < b.len() && b.starts_with(a)
}

/// the tricky keys around one page boundary of database number `dbi`; returns (keys, target):
/// `target` is the key that is to sit at sorted position 10 000·(j+1) (index 10 000·(j+1) − 1,
/// the last key of a page); the keys after it are the first keys of the next page
fn boundary_cluster(dbi: usize, cb: u8) -> (Vec<Vec<u8>>, Vec<u8>) {
	let mut v: Vec<Vec<u8>> = vec![];
	let target: Vec<u8>;
	match dbi {
		0 => {
			// chain: every key is a proper prefix of the next one (k, k·00, k·00·00, …)
			for n in 0..=20 {
				let mut k = vec![cb];
				k.extend(std::iter::repeat(0u8).take(n));
				v.push(k);
			}
			v.push(vec![cb, 0x00, 0x01]);
			v.push(vec![cb, 0x01]);
			v.push(vec![cb, 0xff]);
			v.push(vec![cb, 0xff, 0xff]);
			target = {
				let mut k = vec![cb];
				k.extend(std::iter::repeat(0u8).take(8));
				k
			};
		}
		1 => {
			// fan: k followed by k·b for b from 0x00 upward incl. 0xFF, each with its own children;
			// the prefix [cb] of k is itself a key, and [cb, cb+1] follows the whole fan
			let k = vec![cb, cb];
			v.push(vec![cb]);
			v.push(k.clone());
			for b in [0x00u8, 0x01, 0x02, 0x7f, 0x80, 0xfe, 0xff] {
				v.push(vec![cb, cb, b]);
				v.push(vec![cb, cb, b, 0x00]);
				v.push(vec![cb, cb, b, 0xff]);
			}
			v.push(vec![cb, cb + 1]);
			target = k;
		}
		2 => {
			// key ending in 0xFF, followed by longer keys sharing it, by keys sharing the stripped
			// prefix, and by the stripped-prefix-incremented key [cb+1]
			v.push(vec![cb]);
			v.push(vec![cb, 0x00]);
			v.push(vec![cb, 0xfe]);
			v.push(vec![cb, 0xfe, 0xff]);
			v.push(vec![cb, 0xff]);
			v.push(vec![cb, 0xff, 0x00]);
			v.push(vec![cb, 0xff, 0x01]);
			v.push(vec![cb, 0xff, 0xff]);
			v.push(vec![cb, 0xff, 0xff, 0xff]);
			v.push(vec![cb, 0xff, 0xff, 0xff, 0x00]);
			v.push(vec![cb + 1]);
			v.push(vec![cb + 1, 0x00]);
			v.push(vec![cb + 1, 0x00, 0x00]);
			target = vec![cb, 0xff];
		}
		_ => {
			// one-byte boundary key: stripping anything from it leaves the empty string
			v.push(vec![cb]);
			v.push(vec![cb, 0x00]);
			v.push(vec![cb, 0x00, 0x00]);
			v.push(vec![cb, 0x00, 0xff]);
			v.push(vec![cb, 0x01]);
			v.push(vec![cb, 0xff]);
			v.push(vec![cb, 0xff, 0xff]);
			v.push(vec![cb + 1]);
			target = vec![cb];
		}
	}
	v.sort();
	v.dedup();
	(v, target)
}

/// filler keys of segment `seg` (first byte `fb`): triples x, x·00, x·FF with x of 4 bytes, so that
/// also an unplanned boundary position mostly hits a proper-prefix pair
fn filler(fb: u8, i: usize) -> Vec<u8> {
	let x = i / 3;
	let mut k = vec![fb, (x >> 16) as u8, (x >> 8) as u8, x as u8];
	match i % 3 {
		1 => k.push(0x00),
		2 => k.push(0xff),
		_ => {}
	}
	k
}

/// sorted key population of database number `dbi` with `nbound` planned page boundaries
fn page_population(dbi: usize, nbound: usize) -> (Vec<Vec<u8>>, Vec<Vec<u8>>, Vec<Vec<u8>>) {
	let mut keys: Vec<Vec<u8>> = vec![vec![0x00], vec![0x00, 0x00], vec![0x01]];
	let mut targets = vec![];
	let mut clusters: Vec<Vec<u8>> = vec![];
	for j in 0..nbound {
		let fb = 0x10 + 0x60 * j as u8; // 0x10, 0x70
		let cb = 0x50 + 0x40 * j as u8; // 0x50, 0x90
		let (cl, target) = boundary_cluster(dbi, cb);
		let tpos = cl.iter().position(|k| *k == target).unwrap();
		let want_index = PAGE_KEYS * (j + 1) - 1;
		let nfill = want_index - tpos - keys.len();
		for i in 0..nfill {
			keys.push(filler(fb, i));
		}
		clusters.extend(cl.iter().cloned());
		keys.extend(cl);
		targets.push(target);
	}
	let fb = 0x10 + 0x60 * nbound as u8;
	for i in 0..(23 + 3 * dbi) {
		keys.push(filler(fb, i));
	}
	keys.push(vec![0xff]);
	keys.push(vec![0xff, 0x00]);
	keys.push(vec![0xff, 0xff]);
	keys.push(vec![0xff, 0xff, 0xff]);
	let mut sorted = keys.clone();
	sorted.sort();
	sorted.dedup();
	assert_eq!(sorted, keys, "population is built in sorted order without duplicates");
	for (j, t) in targets.iter().enumerate() {
		assert_eq!(&keys[PAGE_KEYS * (j + 1) - 1], t);
	}
	(keys, targets, clusters)
}

fn page_val(k: &[u8]) -> Vec<u8> {
	if k.len() % 5 == 0 {
		vec![]
	} else {
		vec![(fnv32(k) % 251) as u8]
	}
}

#[derive(Default)]
struct PageStats {
	iterations: u64,
	multi_page: u64,
	boundaries: u64,
	last_is_prefix_of_next: u64,
	last_ends_ff: u64,
	last_one_byte: u64,
	first_is_prefix_of_next: u64,
	via_batch: u64,
	via_store: u64,
	with_uncommitted: u64,
}

fn parse_item_keys(s: &str) -> Option<Vec<Vec<u8>>> {
	let inner = s.strip_prefix('[')?.strip_suffix(']')?;
	if inner.is_empty() {
		return Some(vec![]);
	}
	let mut v = vec![];
	for it in inner.split(',') {
		let k = it.split('=').next()?;
		let mut b = vec![];
		if k != "-" {
			if k.len() % 2 != 0 {
				return None;
			}
			for i in (0..k.len()).step_by(2) {
				b.push(u8::from_str_radix(&k[i..i + 2], 16).ok()?);
			}
		}
		v.push(b);
	}
	Some(v)
}

/// the iterator oracle in Rust: `got` (formatted answer) against the sorted expected items
fn check_iteration(
	cx: &mut Cx,
	ps: &mut PageStats,
	what: &str,
	via_batch: bool,
	uncommitted: bool,
	got: &str,
	want: &[(Vec<u8>, Vec<u8>)],
) {
	ps.iterations += 1;
	if via_batch {
		ps.via_batch += 1;
	} else {
		ps.via_store += 1;
	}
	if uncommitted {
		ps.with_uncommitted += 1;
	}
	if want.len() > PAGE_KEYS {
		ps.multi_page += 1;
		let mut b = PAGE_KEYS;
		while b < want.len() {
			ps.boundaries += 1;
			let last = &want[b - 1].0;
			let next = &want[b].0;
			if is_proper_prefix(last, next) {
				ps.last_is_prefix_of_next += 1;
			}
			if last.last() == Some(&0xff) {
				ps.last_ends_ff += 1;
			}
			if last.len() == 1 {
				ps.last_one_byte += 1;
			}
			if b + 1 < want.len() && is_proper_prefix(next, &want[b + 1].0) {
				ps.first_is_prefix_of_next += 1;
			}
			b += PAGE_KEYS;
		}
	}
	if got == fmt_items(want) {
		return;
	}
	let msg = match parse_item_keys(got) {
		None => format!("answered {}", &got[..got.len().min(80)]),
		Some(gk) => {
			use std::collections::BTreeMap as M;
			let mut cnt: M<&[u8], usize> = M::new();
			for k in gk.iter() {
				*cnt.entry(k.as_slice()).or_insert(0) += 1;
			}
			let skipped: Vec<&Vec<u8>> = want.iter().map(|e| &e.0).filter(|k| !cnt.contains_key(k.as_slice())).collect();
			let dup: Vec<&[u8]> = cnt.iter().filter(|(_, c)| **c > 1).map(|(k, _)| *k).collect();
			let wantset: std::collections::BTreeSet<&[u8]> = want.iter().map(|e| e.0.as_slice()).collect();
			let extra = gk.iter().filter(|k| !wantset.contains(k.as_slice())).count();
			let first_diff = gk
				.iter()
				.zip(want.iter())
				.position(|(a, b)| *a != b.0)
				.unwrap_or(gk.len().min(want.len()));
			format!(
				"yielded {} items, expected {}; {} skipped (first skipped {}), {} duplicated (first {}), {} unexpected; first difference at sorted position {} (expected key {}, key before it {})",
				gk.len(),
				want.len(),
				skipped.len(),
				skipped.first().map(|k| hex(k)).unwrap_or_else(|| "none".into()),
				dup.len(),
				dup.first().map(|k| hex(k)).unwrap_or_else(|| "none".into()),
				extra,
				first_diff + 1,
				want.get(first_diff).map(|e| hex(&e.0)).unwrap_or_else(|| "end".into()),
				if first_diff > 0 { want.get(first_diff - 1).map(|e| hex(&e.0)).unwrap_or_default() } else { "start".into() }
			)
		}
	};
	cx.oracle_fail(format!("iterator skipped/duplicated keys: {}: {}", what, msg));
}

/// Batch::iter over every database inside the open (child) batch
fn pages_iter_batch(cx: &mut Cx, ps: &mut PageStats, b: &Batch<'_>, what: &str) {
	for db in all_dbs() {
		let res = collect_iter(b.iter(db, kvpair));
		if let Ok(v) = &res {
			cx.st.iter_max_len = cx.st.iter_max_len.max(v.len());
		}
		let ans = fmt_iter(&res);
		let want = Shadow::items(&cx.sh.view(), db);
		check_iteration(cx, ps, &format!("Batch::iter db {} {}", db_tok(db), what), true, true, &ans, &want);
		cx.st.op("iter");
		cx.line(&format!("kv iter {}", db_tok(db)), &ans);
	}
}

/// Store::iter over every database, from the other thread and from this one
fn pages_iter_store(cx: &mut Cx, ps: &mut PageStats, what: &str, batch_open: bool) {
	for (n, db) in all_dbs().into_iter().enumerate() {
		let main = n % 2 == 1;
		let ans = if main {
			fmt_iter(&collect_iter(cx.store().iter(db, kvpair)))
		} else {
			cx.reader.ask(Req::Iter(db))
		};
		let who = if main { "main" } else { "t1" };
		let want = Shadow::items(&cx.sh.committed, db);
		check_iteration(cx, ps, &format!("Store::iter ({}) db {} {}", who, db_tok(db), what), false, batch_open, &ans, &want);
		cx.st.op("read-outside iter");
		cx.line(&format!("kv read-outside {} iter {}", who, db_tok(db)), &ans);
	}
}

fn pages_write(cx: &mut Cx, b: &mut Batch<'_>, db: Db, key: &[u8], v: Option<Vec<u8>>) {
	match v {
		Some(v) => {
			let ans = fmt_unit(b.put(db, key, &v));
			if ans != "ok" {
				cx.oracle_fail(format!("put {} {} failed in pages run", db_tok(db), hex(key)));
			}
			cx.sh.write((db_id(db), key.to_vec()), Some(v.clone()));
			cx.st.op("put");
			cx.line(&format!("kv put {} {} {}", db_tok(db), hex(key), valtok(&v)), &ans);
		}
		None => {
			let ans = fmt_unit(b.delete(db, key));
			cx.sh.write((db_id(db), key.to_vec()), None);
			cx.st.op("del");
			cx.line(&format!("kv del {} {}", db_tok(db), hex(key)), &ans);
		}
	}
}

fn mode_pages(work: &str, seed: u64, thorough: bool) {
	let mut cx = Cx::new(&format!("{}/pages", work), seed);
	let mut ps = PageStats::default();
	let nbound = if thorough { 2 } else { 1 };
	let dbs = all_dbs();
	let pops: Vec<(Vec<Vec<u8>>, Vec<Vec<u8>>, Vec<Vec<u8>>)> =
		(0..dbs.len()).map(|i| page_population(i, nbound)).collect();
	let store = cx.store();

	// --- phase 1a: the filler keys, committed in batches of 2000 puts.  (Not one batch: the map
	// is only enlarged in Store::batch(), a single batch of this volume does not fit the 1 MiB
	// test-mode map.)  Descending order.
	{
		let mut todo: Vec<(Db, Vec<u8>)> = vec![];
		for (i, db) in dbs.iter().enumerate().rev() {
			for k in pops[i].0.iter().rev() {
				if !pops[i].2.contains(k) {
					todo.push((*db, k.clone()));
				}
			}
		}
		for chunk in todo.chunks(2000) {
			let mut b = store.batch().unwrap();
			cx.sh.stack.push(vec![]);
			cx.st.op("begin");
			cx.line("kv begin", "ok");
			for (db, k) in chunk {
				pages_write(&mut cx, &mut b, *db, k, Some(page_val(k)));
			}
			let ans = fmt_unit(b.commit());
			if ans != "ok" {
				cx.oracle_fail("commit of a filler batch failed".to_string());
			}
			cx.sh.commit();
			cx.st.commits[1] += 1;
			cx.line("kv commit", &ans);
		}
	}
	// --- phase 1b: the boundary clusters of every database in one batch: iterated while they are
	// uncommitted (Batch::iter sees them merged into the committed fillers, Store::iter does not),
	// then committed
	{
		let mut b = store.batch().unwrap();
		cx.sh.stack.push(vec![]);
		cx.st.op("begin");
		cx.line("kv begin", "ok");
		for (i, db) in dbs.iter().enumerate().rev() {
			for k in pops[i].2.iter().rev() {
				pages_write(&mut cx, &mut b, *db, k, Some(page_val(k)));
			}
		}
		pages_iter_batch(&mut cx, &mut ps, &b, "(boundary keys uncommitted)");
		pages_iter_store(&mut cx, &mut ps, "(boundary keys not yet committed)", true);
		let ans = fmt_unit(b.commit());
		if ans != "ok" {
			cx.oracle_fail("commit of the boundary-cluster batch failed".to_string());
		}
		cx.sh.commit();
		cx.st.commits[1] += 1;
		cx.line("kv commit", &ans);
	}
	pages_iter_store(&mut cx, &mut ps, "(all keys committed)", false);

	// --- phase 2: shift the boundary by one key per round (delete the smallest remaining key of
	// every database) and add uncommitted keys next to the boundary keys
	let rounds = 5;
	for round in 0..rounds {
		let mut b = store.batch().unwrap();
		cx.sh.stack.push(vec![]);
		cx.st.op("begin");
		cx.line("kv begin", "ok");
		let mut body = |cx: &mut Cx, ps: &mut PageStats, bb: &mut Batch<'_>, tag: &str| {
			for (i, db) in dbs.iter().enumerate() {
				// smallest committed key of this db goes away: every later key moves up one position
				let first = Shadow::items(&cx.sh.view(), *db).first().map(|e| e.0.clone());
				if let Some(k) = first {
					pages_write(cx, bb, *db, &k, None);
				}
				// new uncommitted keys right behind the boundary targets (do not move them)
				for t in pops[i].1.iter() {
					let mut k = t.clone();
					k.push(0x00);
					k.push(0x80 + round as u8);
					pages_write(cx, bb, *db, &k, Some(vec![round as u8]));
				}
			}
			pages_iter_batch(cx, ps, bb, tag);
		};
		match round {
			0 => {
				// top-level batch, dropped: leaves no trace
				body(&mut cx, &mut ps, &mut b, "(round 0, uncommitted deletes and puts, then dropped)");
				pages_iter_store(&mut cx, &mut ps, "(round 0, batch open)", true);
				drop(b);
				cx.sh.stack.pop();
				cx.st.drops[1] += 1;
				cx.line("kv drop", "ok");
			}
			1 => {
				// in a child batch: iterate in the child, commit it, iterate in the parent, commit
				{
					let mut c = b.child().unwrap();
					cx.sh.stack.push(vec![]);
					cx.st.max_depth = 2;
					cx.line("kv child", "ok");
					body(&mut cx, &mut ps, &mut c, "(round 1, inside a child batch)");
					let ans = fmt_unit(c.commit());
					cx.sh.commit();
					cx.st.commits[2] += 1;
					cx.line("kv commit", &ans);
				}
				pages_iter_batch(&mut cx, &mut ps, &b, "(round 1, parent after child commit)");
				let ans = fmt_unit(b.commit());
				cx.sh.commit();
				cx.st.commits[1] += 1;
				cx.line("kv commit", &ans);
			}
			2 => {
				// snapshot iterators of the other thread held across the commit, read across the
				// page boundary only after it
				body(&mut cx, &mut ps, &mut b, "(round 2, uncommitted)");
				let db = dbs[round % dbs.len()];
				let snap = Shadow::items(&cx.sh.committed, db);
				let a = cx.reader.ask(Req::ItOpen(db));
				cx.line(&format!("kv it-open t1 {}", db_tok(db)), &a);
				let a1 = cx.reader.ask(Req::ItNext(PAGE_KEYS - 3));
				cx.line(&format!("kv it-next t1 {}", PAGE_KEYS - 3), &a1);
				let ans = fmt_unit(b.commit());
				cx.sh.commit();
				cx.st.commits[1] += 1;
				cx.line("kv commit", &ans);
				let a2 = cx.reader.ask(Req::ItNext(1_000_000));
				cx.line("kv it-next t1 1000000", &a2);
				let a = cx.reader.ask(Req::ItClose);
				cx.line("kv it-close t1", &a);
				cx.st.snap_iters_across_commit += 1;
				// both parts together must be the pre-commit snapshot
				let joined = match (a1.strip_suffix(']'), a2.strip_prefix('[')) {
					(Some(x), Some(y)) if a2 != "[]" => format!("{},{}", x, y),
					_ => a1.clone(),
				};
				check_iteration(&mut cx, &mut ps, &format!("Store::iter snapshot held across a commit, db {}", db_tok(db)), false, true, &joined, &snap);
			}
			_ => {
				body(&mut cx, &mut ps, &mut b, "(uncommitted)");
				let ans = fmt_unit(b.commit());
				cx.sh.commit();
				cx.st.commits[1] += 1;
				cx.line("kv commit", &ans);
			}
		}
		pages_iter_store(&mut cx, &mut ps, &format!("(after round {})", round), false);
	}
	cx.obs();
	let sizes: Vec<String> = pops.iter().map(|p| p.0.len().to_string()).collect();
	cx.out.raw(&format!(
		"#STAT pages keys per database {} (variable-length keys, planned boundaries per database {}); iterations {} ({} through Batch::iter, {} through Store::iter, {} while uncommitted writes existed), {} of them longer than one page; page boundaries crossed {}: boundary key (last of a page) was a proper prefix of its successor at {}, ended in 0xFF at {}, was a one-byte key at {}; first key of the next page was a proper prefix of its successor at {}",
		sizes.join("/"), nbound, ps.iterations, ps.via_batch, ps.via_store, ps.with_uncommitted, ps.multi_page,
		ps.boundaries, ps.last_is_prefix_of_next, ps.last_ends_ff, ps.last_one_byte, ps.first_is_prefix_of_next
	));
	cx.print_stats("pages");
	cx.finish();
}

// ---------------------------------------------------------------------------------------------
// mode resize
// ---------------------------------------------------------------------------------------------
fn mode_resize(work: &str, seed: u64, thorough: bool) {
	let dir = format!("{}/resize", work);
	let mut cx = Cx::new(&dir, seed);
	let nb = if thorough { 420 } else { 130 };
	let mut last_map = meta_info(&dir).map(|m| m.0).unwrap_or(0);
	let first_map = last_map;
	let mut resizes = 0u64;
	let mut sizes: Vec<u64> = vec![last_map];
	let mut waited = 0u64;
	let mut waited_max = 0u128;
	let mut held_total = 0u64;
	let mut bytes_written = 0u64;
	let mut failed_ops = 0u64;
	let mut meta_fresh = true;
	let mut resized_while_held = 0u64;
	for i in 0..nb {
		// sometimes a reader on the other thread holds a read transaction while batch() is called:
		// when a resize is due, batch() has to wait for it (100 ms poll loop) and then continue
		let hold = i % 5 == 4;
		if hold {
			let a = cx.reader.ask(Req::HoldFor(Some(b'A'), 130));
			if a != "ok" {
				cx.oracle_fail(format!("reader could not open an iterator before batch {}: {}", i, a));
			}
			held_total += 1;
		}
		let pre = meta_info(&dir);
		if std::env::var("KV_DEBUG_LOG").is_ok() {
			eprintln!("batch {} hold={} pre={:?} fresh={}", i, hold, pre, meta_fresh);
		}
		let t0 = Instant::now();
		let store = cx.store();
		let mut b = match store.batch() {
			Ok(b) => b,
			Err(e) => {
				cx.oracle_fail(format!("Store::batch failed at batch {}: {:?}", i, e));
				cx.line("kv begin", "err");
				failed_ops += 1;
				continue;
			}
		};
		let t_ret = Instant::now();
		let el = t0.elapsed().as_millis();
		if el >= 90 {
			waited += 1;
			waited_max = waited_max.max(el);
		}
		cx.sh.stack.push(vec![]);
		cx.st.op("begin");
		cx.line("kv begin", "ok");
		// Volume of one batch: Store::batch() only guarantees that at most 90 % of the map is
		// used when the write transaction starts, and the map cannot grow inside a batch, so a
		// batch may rely on 10 % of the map being free.  Stay below half of that (the oversize
		// case is probed separately at the end).
		let mut budget = ((last_map / 22) as usize).max(45_000);
		let nput = cx.rng.range(1, 6);
		for _ in 0..nput {
			if budget < 8_000 {
				break;
			}
			let db = *cx.rng.pick(&all_dbs());
			// mostly fresh keys (growth), sometimes overwrite / delete of an old one
			let r = cx.rng.below(10);
			let keyn = if r < 7 { i as u64 * 4 + cx.rng.below(4) } else { cx.rng.below(i as u64 * 4 + 1) };
			let key = format!("big{:05}", keyn).into_bytes();
			let k: K = (db_id(db), key.clone());
			if r == 9 {
				let ans = fmt_unit(b.delete(db, &key));
				if ans != "ok" {
					failed_ops += 1;
					cx.oracle_fail(format!("delete failed in resize run at batch {}", i));
				}
				cx.sh.write(k, None);
				cx.st.op("del");
				cx.line(&format!("kv del {} {}", db_tok(db), hex(&key)), &ans);
				continue;
			}
			let len = cx.rng.range(8_000, budget.min(60_000) as u64) as usize;
			budget -= len;
			let v = vec![cx.rng.next() as u8; len];
			let ans = if cx.rng.chance(1, 3) && len < 90_000 {
				// through put_ser with a Vec<u8> value (raw bytes)
				fmt_unit(b.put_ser(db, &key, &v))
			} else {
				fmt_unit(b.put(db, &key, &v))
			};
			if ans != "ok" {
				failed_ops += 1;
				cx.oracle_fail(format!(
					"put of {} bytes failed at batch {} (map size {:?})",
					len, i, meta_info(&dir)
				));
			} else {
				bytes_written += len as u64;
				cx.sh.write(k, Some(v.clone()));
			}
			cx.st.op("put");
			cx.line(&format!("kv put {} {} {}", db_tok(db), hex(&key), valtok(&v)), &ans);
		}
		// a nested child with a big value, committed or dropped
		if budget >= 4_000 && cx.rng.chance(1, 2) {
			let mut c = b.child().unwrap();
			cx.sh.stack.push(vec![]);
			cx.line("kv child", "ok");
			let key = format!("child{:05}", i).into_bytes();
			let v = vec![0xcc; cx.rng.range(4_000, budget.min(30_000) as u64) as usize];
			let ans = fmt_unit(c.put(Some(b'Z'), &key, &v));
			if ans != "ok" {
				failed_ops += 1;
				cx.oracle_fail(format!("child put failed at batch {}", i));
			} else {
				cx.sh.write((db_id(Some(b'Z')), key.clone()), Some(v.clone()));
			}
			cx.line(&format!("kv put 90 {} {}", hex(&key), valtok(&v)), &ans);
			if cx.rng.chance(1, 2) {
				let ans = fmt_unit(c.commit());
				cx.sh.commit();
				cx.st.commits[2] += 1;
				cx.line("kv commit", &ans);
			} else {
				drop(c);
				cx.sh.stack.pop();
				cx.st.drops[2] += 1;
				cx.line("kv drop", "ok");
			}
		}
		if cx.rng.chance(1, 5) {
			cx.outside_read();
		}
		if cx.rng.chance(9, 10) {
			let ans = fmt_unit(b.commit());
			if ans != "ok" {
				failed_ops += 1;
				cx.oracle_fail(format!("commit failed at batch {}", i));
				cx.sh.stack.pop();
			} else {
				cx.sh.commit();
			}
			cx.st.commits[1] += 1;
			cx.line("kv commit", &ans);
			// the decision needs_resize took inside Store::batch(), as far as it is observable:
			// the meta page before batch() gives (map size, used pages), the one after the
			// commit gives the map size the environment has now.  Only meaningful when the
			// meta page was up to date (previous top-level batch committed).
			// (a commit of a batch that changed nothing writes no meta page: then nothing is
			// observable and the meta page is stale for the next batch as well)
			let post = meta_info(&dir);
			let wrote_meta = match (pre, post) {
				(Some(pre), Some(post)) => post.2 == pre.2 + 1,
				_ => false,
			};
			if let (true, true, Some(pre), Some(post)) = (meta_fresh, wrote_meta, pre, post) {
				// safety of the gate, observed from outside: the reader thread keeps its read
				// transaction for 130 ms after acknowledging; if the map was enlarged inside this
				// Store::batch() call, the call must have lasted until the reader let go
				if hold && post.0 != pre.0 {
					resized_while_held += 1;
					if let Some(early) = cx.reader.returned_before_hold_ended(t_ret) {
						cx.oracle_fail(format!(
							"batch {}: the map was resized ({} -> {}) inside a Store::batch() call that returned (after {} ms) {} ms BEFORE the other thread began to drop the iterator it held",
							i, pre.0, post.0, el, early
						));
					}
				}
				cx.st.op("needs-resize");
				cx.line(
					&format!("kv needs-resize {} {} {}", pre.0, pre.1 * 4096, 1_048_576),
					&format!("{} {}", post.0 != pre.0, post.0),
				);
			}
			meta_fresh = wrote_meta;
		} else {
			drop(b);
			cx.sh.stack.pop();
			cx.st.drops[1] += 1;
			cx.line("kv drop", "ok");
			meta_fresh = false;
		}
		if let Some((m, _, _)) = meta_info(&dir) {
			if m != last_map {
				resizes += 1;
				sizes.push(m);
				last_map = m;
				// every committed key must still be there right after a resize
				cx.obs();
			}
		}
		if i % 16 == 15 {
			cx.obs();
		}
		if i == nb / 2 {
			cx.reopen();
		}
	}
	cx.obs();
	if resizes < 2 {
		cx.out.raw(&format!("#STAT resize WARNING only {} resizes observed", resizes));
	}
	cx.out.raw(&format!(
		"#STAT resize batches {}; bytes written {}; map size {} -> {} in {} resizes {:?}; batch() calls with a reader holding a read txn {}; of these waited >= 90 ms for the reader {} (max {} ms); resizes observed inside such a call {} (each checked to have waited for the reader); failed ops {}",
		nb, bytes_written, first_map, last_map, resizes, sizes, held_total, waited, waited_max, resized_while_held, failed_ops
	));
	cx.print_stats("resize");
	cx.finish();

	// Probe (not part of the compared stream): one batch larger than the free part of the map.
	// The resize check runs only in Store::batch(), before the write transaction starts.
	let pdir = format!("{}/probe", work);
	let store = open_store(&pdir);
	let mut out = Out::stdout();
	let mut fail_at = None;
	{
		let mut b = store.batch().unwrap();
		for i in 0..64u32 {
			let v = vec![7u8; 32 * 1024];
			if let Err(e) = b.put(Some(b'A'), &i.to_be_bytes(), &v) {
				fail_at = Some((i, format!("{:?}", e)));
				break;
			}
		}
		if fail_at.is_none() {
			if let Err(e) = b.commit() {
				fail_at = Some((64, format!("commit: {:?}", e)));
			}
		}
	}
	match fail_at {
		Some((i, e)) => out.raw(&format!(
			"#KNOWN-PROBE C18 single-batch-larger-than-free-map: one batch of 64 x 32 KiB puts into a fresh store (test-mode map 1 MiB) failed at put #{} with {} - the map is only enlarged in Store::batch(), never inside a batch",
			i, e
		)),
		None => out.raw("#STAT resize probe: a single 2 MiB batch into a fresh 1 MiB map succeeded"),
	}
	out.flush();
}

// ---------------------------------------------------------------------------------------------
// mode crash
// ---------------------------------------------------------------------------------------------
const CRASH_KEYS: u32 = 6;

/// the deterministic batch `i` (1-based) of the crash programs, as (db, key, Some(value)|None)
/// top-level writes, a committed child, and a dropped child (its writes must never be visible)
struct CrashBatch {
	top: Vec<(Db, Vec<u8>, Option<Vec<u8>>)>,
	child_commit: Vec<(Db, Vec<u8>, Option<Vec<u8>>)>,
	child_drop: Vec<(Db, Vec<u8>, Option<Vec<u8>>)>,
}
fn crash_batch(seed: u64, i: u64) -> CrashBatch {
	let mut rng = Rng::new(seed ^ (i.wrapping_mul(0x9E37_79B9)));
	let mut top = vec![];
	for db in all_dbs() {
		top.push((db, b"m".to_vec(), Some(i.to_be_bytes().to_vec())));
		for j in 0..CRASH_KEYS {
			let n = rng.range(0, 200) as usize;
			let mut v = i.to_be_bytes().to_vec();
			v.extend(rng.bytes(n));
			top.push((db, format!("k{}", j).into_bytes(), Some(v)));
		}
		// exactly one `t<i>` key exists after batch i
		if i > 1 {
			top.push((db, format!("t{:06}", i - 1).into_bytes(), None));
		}
		top.push((db, format!("t{:06}", i).into_bytes(), Some(vec![])));
	}
	let child_commit = vec![
		(Some(b'B'), b"c".to_vec(), Some(i.to_be_bytes().to_vec())),
		(Some(b'A'), format!("h{:06}", i).into_bytes(), Some(rng.bytes(300))),
	];
	let child_drop = vec![
		(Some(b'A'), b"x".to_vec(), Some(i.to_be_bytes().to_vec())),
		(None, b"m".to_vec(), None),
	];
	CrashBatch {
		top,
		child_commit,
		child_drop,
	}
}

fn apply_writes(b: &mut Batch<'_>, ws: &[(Db, Vec<u8>, Option<Vec<u8>>)]) -> Result<(), Error> {
	for (db, k, v) in ws {
		match v {
			Some(v) => b.put(*db, k, v)?,
			None => b.delete(*db, k)?,
		}
	}
	Ok(())
}

fn kill_self() -> ! {
	unsafe {
		libc::kill(libc::getpid(), libc::SIGKILL);
	}
	loop {
		thread::sleep(Duration::from_secs(1));
	}
}

/// the process that dies. kind: before | after | async | child-before | child-after
fn crash_child(dir: &str, kind: &str, n: u64, seed: u64) {
	let store = open_store(dir);
	let so = std::io::stdout();
	let mut i = 0u64;
	// batch numbers continue from the marker in the store
	if let Ok(Some(m)) = store.get_ser::<Vec<u8>>(None, b"m", None) {
		if m.len() == 8 {
			i = u64::from_be_bytes(m[..].try_into().unwrap());
		}
	}
	let start = i;
	loop {
		i += 1;
		let cb = crash_batch(seed, i);
		let last = kind != "async" && i == start + n + 1;
		let mut b = store.batch().expect("batch");
		apply_writes(&mut b, &cb.top).expect("writes");
		{
			let mut c = b.child().expect("child");
			apply_writes(&mut c, &cb.child_commit).expect("child writes");
			if last && kind == "child-before" {
				kill_self();
			}
			c.commit().expect("child commit");
			if last && kind == "child-after" {
				kill_self();
			}
		}
		{
			let mut c = b.child().expect("child");
			apply_writes(&mut c, &cb.child_drop).expect("child writes");
		}
		if last && kind == "before" {
			kill_self();
		}
		b.commit().expect("commit");
		if last && kind == "after" {
			kill_self();
		}
		// acknowledged: commit has returned
		let mut l = so.lock();
		let _ = writeln!(l, "A {}", i);
		let _ = l.flush();
	}
}

fn mode_crash(work: &str, seed: u64, thorough: bool) {
	let dir = format!("{}/crash", work);
	let exe = std::env::current_exe().expect("current_exe");
	let mut out = Out::stdout();
	let toks: Vec<String> = all_dbs().iter().map(|d| db_tok(*d)).collect();
	out.line(&format!("kv new [{}]", toks.join(",")), "ok");
	// create the environment once so the child starts from an existing store
	drop(open_store(&dir));
	let mut rng = Rng::new(seed);
	let mut sh = Shadow::default();
	let mut replayed = 0u64; // batches already emitted as model lines
	let rounds = if thorough { 60 } else { 16 };
	let mut points: BTreeMap<String, u64> = BTreeMap::new();
	let mut oracle_fails = 0u64;
	let mut async_in_commit = 0u64;
	let mut total_batches = 0u64;
	let kinds = ["before", "after", "async", "child-before", "child-after", "async", "async"];
	for round in 0..rounds {
		let kind = kinds[round % kinds.len()];
		let n = rng.range(0, 4);
		let mut child = std::process::Command::new(&exe)
			.args(["crash-child", &dir, kind, &n.to_string()])
			.env("VERIF_SEED", seed.to_string())
			.stdin(std::process::Stdio::null())
			.stdout(std::process::Stdio::piped())
			.stderr(std::process::Stdio::null())
			.spawn()
			.expect("spawn crash child");
		let stdout = child.stdout.take().unwrap();
		let (atx, arx) = mpsc::channel::<u64>();
		let rd = thread::spawn(move || {
			let r = BufReader::new(stdout);
			for l in r.lines() {
				match l {
					Ok(l) => {
						if let Some(x) = l.strip_prefix("A ") {
							if let Ok(v) = x.trim().parse::<u64>() {
								let _ = atx.send(v);
							}
						}
					}
					Err(_) => break,
				}
			}
		});
		let mut acked = replayed;
		if kind == "async" {
			// let it run for a random time, then SIGKILL from outside
			let ms = rng.range(5, 60);
			let t0 = Instant::now();
			while t0.elapsed() < Duration::from_millis(ms) {
				if let Ok(v) = arx.recv_timeout(Duration::from_millis(1)) {
					acked = v;
				}
			}
			let _ = child.kill();
		}
		let status = child.wait().expect("wait");
		let _ = rd.join();
		while let Ok(v) = arx.try_recv() {
			acked = v;
		}
		let sig = {
			use std::os::unix::process::ExitStatusExt;
			status.signal()
		};
		if sig != Some(libc::SIGKILL) {
			oracle_fails += 1;
			out.raw(&format!(
				"#ORACLE-FAIL C18 crash child ({} n={}) was not killed but exited with {:?}: an operation failed in the child",
				kind, n, status
			));
		}
		// reopen and look
		let store = open_store(&dir);
		let marker = match store.get_ser::<Vec<u8>>(None, b"m", None) {
			Ok(Some(m)) if m.len() == 8 => u64::from_be_bytes(m[..].try_into().unwrap()),
			Ok(None) => 0,
			other => {
				oracle_fails += 1;
				out.raw(&format!("#ORACLE-FAIL C18 after crash ({}) the marker key is unreadable: {:?}", kind, other.map(|o| o.map(|v| hex(&v)))));
				0
			}
		};
		// which batches are durable according to the model of the crash point
		let expect: Vec<u64> = match kind {
			"before" | "child-before" | "child-after" => vec![replayed + n],
			"after" => vec![replayed + n + 1],
			_ => vec![acked, acked + 1],
		};
		if !expect.contains(&marker) {
			oracle_fails += 1;
			out.raw(&format!(
				"#ORACLE-FAIL C18 crash point {} (n={}, acknowledged commits up to batch {}): after reopen the newest durable batch is {} but only {:?} is possible",
				kind, n, acked, marker, expect
			));
		}
		if kind == "async" && marker == acked + 1 {
			async_in_commit += 1;
		}
		*points.entry(kind.to_string()).or_insert(0) += 1;
		// emit the batches replayed..marker as model lines (the child executed them; every op returned Ok
		// or the child would have exited instead of being killed)
		for i in replayed + 1..=marker {
			let cb = crash_batch(seed, i);
			out.line("kv begin", "ok");
			sh.stack.push(vec![]);
			let mut emit = |out: &mut Out, sh: &mut Shadow, ws: &[(Db, Vec<u8>, Option<Vec<u8>>)]| {
				for (db, k, v) in ws {
					match v {
						Some(v) => out.line(&format!("kv put {} {} {}", db_tok(*db), hex(k), valtok(v)), "ok"),
						None => out.line(&format!("kv del {} {}", db_tok(*db), hex(k)), "ok"),
					}
					sh.write((db_id(*db), k.clone()), v.clone());
				}
			};
			emit(&mut out, &mut sh, &cb.top);
			out.line("kv child", "ok");
			sh.stack.push(vec![]);
			emit(&mut out, &mut sh, &cb.child_commit);
			out.line("kv commit", "ok");
			sh.commit();
			out.line("kv child", "ok");
			sh.stack.push(vec![]);
			emit(&mut out, &mut sh, &cb.child_drop);
			out.line("kv drop", "ok");
			sh.stack.pop();
			out.line("kv commit", "ok");
			sh.commit();
			total_batches += 1;
		}
		// the batch that was open when the process died (not durable): begin + writes + crash
		if marker < replayed + n + 1 || kind == "async" {
			let cb = crash_batch(seed, marker + 1);
			out.line("kv begin", "ok");
			for (db, k, v) in cb.top.iter() {
				match v {
					Some(v) => out.line(&format!("kv put {} {} {}", db_tok(*db), hex(k), valtok(v)), "ok"),
					None => out.line(&format!("kv del {} {}", db_tok(*db), hex(k)), "ok"),
				}
			}
		}
		out.line(&format!("kv crash {}", kind), "ok");
		replayed = marker;
		// dump of the reopened store vs the committed prefix
		let ans = dump_store(&store).unwrap_or_else(|_| "err".to_string());
		let want = sh.dump();
		if ans != want {
			oracle_fails += 1;
			out.raw(&format!(
				"#ORACLE-FAIL C18 crash point {}: reopened store holds {} but the committed batches 1..{} give {} (partial or lost batch)",
				kind, ans, marker, want
			));
		}
		out.line("kv obs", &ans);
		// the reopened store must accept a new batch (no stuck writer lock); dropped, leaves no trace
		match store.batch() {
			Ok(mut b) => {
				let _ = b.put(Some(b'A'), b"x", b"dropped");
				drop(b);
			}
			Err(e) => {
				oracle_fails += 1;
				out.raw(&format!("#ORACLE-FAIL C18 after crash point {} a new batch cannot be opened: {:?}", kind, e));
			}
		}
		drop(store);
	}
	let pts: Vec<String> = points.iter().map(|(k, v)| format!("{}={}", k, v)).collect();
	out.raw(&format!(
		"#STAT crash rounds {}; crash points {}; committed batches replayed {}; async kills that landed between the durable commit and its acknowledgement {}; oracle failures {}",
		rounds, pts.join(" "), total_batches, async_in_commit, oracle_fails
	));
	out.flush();
}

// ---------------------------------------------------------------------------------------------
// mode cstore: the chain-level store layer chain/src/store.rs - `ChainStore`, its `Batch`
// (`batch()`, `child()`, `commit()`, drop) and the typed savers / getters on top of store::Store.
//
// Random programs of nested ChainStore batches over a pool of REAL objects (headers and blocks of
// a small fork tree built on a real chain, with mutated header variants; tips of those headers;
// block sums, spent indices, output positions): every typed saver is followed by the matching
// typed getter through the same batch, a fresh child reads what its parent wrote, the parent
// re-reads what a child wrote after the child committed / was dropped; after every write the plain
// `ChainStore` (outside any batch) is read on this thread and on a second thread - it must answer
// from the committed state only; after the outermost commit / drop every touched key is read twice
// from both threads (answers must not change between repeats: caches) and, periodically, the
// store is reopened and read again.  Every answer goes to the Lean driver (typed functions of
// Model/ChainStore.lean on the nested-transaction model) and is checked here against a shadow map.
// ---------------------------------------------------------------------------------------------
use grin_chain::store::{Batch as CBatch, ChainStore};
use grin_chain::types::{CommitPos, Tip};
use grin_core::core::hash::{Hash, Hashed};
use grin_core::core::{Block, BlockHeader, BlockSums};
use grin_core::ser::ProtocolVersion;
use grin_util::secp::pedersen::Commitment;
use gvharness::chainkit::{KSpec, Kit, TxSpec};

const DBV: ProtocolVersion = ProtocolVersion(3);
const CS_DBS: [u8; 7] = [b'h', b'b', b'p', b'K', b'k', b'M', b'S'];

#[derive(Clone)]
enum Obj {
	Hdr(BlockHeader),
	Blk(Block),
	Tip(Tip),
	Sums(BlockSums),
	Spent(Vec<CommitPos>),
	Pos(CommitPos),
}
#[derive(Clone)]
struct ObjRec {
	name: String,
	obj: Obj,
	/// intrinsic key (hash) of headers and blocks, empty otherwise
	key: Vec<u8>,
	/// prev_hash of headers, empty otherwise
	aux: Vec<u8>,
	bytes: Vec<u8>,
}

/// typed getters (of `Batch` and, where it exists, of `ChainStore`)
#[derive(Clone, Debug)]
enum G {
	/// head | tail | header-head | header | block | sums | spent | outpos-height
	Typed(&'static str, Vec<u8>),
	HeadHeader,
	Prev(usize),
	PrevSkip(usize),
	HeaderSkip(Vec<u8>),
	BlockExists(Vec<u8>),
	OutPos(Vec<u8>),
	PibdHead,
	BlocksIter,
	OutposIter,
}

fn cs_key(kind: &str, key: &[u8]) -> K {
	match kind {
		"head" => (0, vec![b'H']),
		"tail" => (0, vec![b'T']),
		"header-head" => (0, vec![b'G']),
		"pibd-head" => (0, vec![b'I']),
		"header" => (db_id(Some(b'h')), key.to_vec()),
		"block" => (db_id(Some(b'b')), key.to_vec()),
		"sums" => (db_id(Some(b'M')), key.to_vec()),
		"spent" => (db_id(Some(b'S')), key.to_vec()),
		"outpos-height" => (db_id(Some(b'p')), key.to_vec()),
		_ => panic!("kind {}", kind),
	}
}

fn fmt_ser<T: Writeable>(r: Result<T, Error>) -> String {
	match r {
		Ok(v) => match ser::ser_vec(&v, DBV) {
			Ok(b) => format!("some:{}", showval(&b)),
			Err(_) => "err".into(),
		},
		Err(Error::NotFoundErr(_)) => "none".into(),
		Err(_) => "err".into(),
	}
}
fn fmt_height(r: Result<BlockHeader, Error>) -> String {
	match r {
		Ok(h) => format!("some:h{}", h.height),
		Err(Error::NotFoundErr(_)) => "none".into(),
		Err(_) => "err".into(),
	}
}
fn fmt_num(r: Result<u64, Error>) -> String {
	match r {
		Ok(n) => format!("some:{}", n),
		Err(Error::NotFoundErr(_)) => "none".into(),
		Err(_) => "err".into(),
	}
}
fn g_args(g: &G, pool: &[ObjRec]) -> String {
	match g {
		G::Typed(kind, k) => format!("get {} {}", kind, hex(k)),
		G::HeadHeader => "head-header".into(),
		G::Prev(i) => format!("prev {}", pool[*i].name),
		G::PrevSkip(i) => format!("prev-skip {}", pool[*i].name),
		G::HeaderSkip(k) => format!("header-skip {}", hex(k)),
		G::BlockExists(k) => format!("block-exists {}", hex(k)),
		G::OutPos(k) => format!("outpos {}", hex(k)),
		G::PibdHead => "pibd-head".into(),
		G::BlocksIter => "blocks-iter".into(),
		G::OutposIter => "outpos-iter".into(),
	}
}
fn g_kind(g: &G) -> String {
	match g {
		G::Typed(kind, _) => format!("get-{}", kind),
		G::HeadHeader => "head-header".into(),
		G::Prev(_) => "prev".into(),
		G::PrevSkip(_) => "prev-skip".into(),
		G::HeaderSkip(_) => "header-skip".into(),
		G::BlockExists(_) => "block-exists".into(),
		G::OutPos(_) => "outpos".into(),
		G::PibdHead => "pibd-head".into(),
		G::BlocksIter => "blocks-iter".into(),
		G::OutposIter => "outpos-iter".into(),
	}
}
fn hdr_of(pool: &[ObjRec], i: usize) -> &BlockHeader {
	match &pool[i].obj {
		Obj::Hdr(h) => h,
		_ => panic!("not a header"),
	}
}
fn g_in_batch(b: &CBatch<'_>, g: &G, pool: &[ObjRec]) -> String {
	match g {
		G::Typed(kind, k) => match *kind {
			"head" => fmt_ser(b.head()),
			"tail" => fmt_ser(b.tail()),
			"header-head" => fmt_ser(b.header_head()),
			"header" => fmt_ser(b.get_block_header(&Hash::from_vec(k))),
			"block" => fmt_ser(b.get_block(&Hash::from_vec(k))),
			"sums" => fmt_ser(b.get_block_sums(&Hash::from_vec(k))),
			"spent" => fmt_ser(b.get_spent_index(&Hash::from_vec(k))),
			"outpos-height" => match b.get_output_pos_height(&Commitment::from_vec(k.clone())) {
				Ok(Some(p)) => fmt_ser(Ok(p)),
				Ok(None) => "none".into(),
				Err(_) => "err".into(),
			},
			_ => "unsupported".into(),
		},
		G::HeadHeader => fmt_ser(b.head_header()),
		G::Prev(i) => fmt_ser(b.get_previous_header(hdr_of(pool, *i))),
		G::PrevSkip(i) => fmt_height(b.get_previous_header_skip_proof(hdr_of(pool, *i))),
		G::HeaderSkip(k) => fmt_height(b.get_block_header_skip_proof(&Hash::from_vec(k))),
		G::BlockExists(k) => fmt_bool(&b.block_exists(&Hash::from_vec(k))),
		G::OutPos(k) => fmt_num(b.get_output_pos(&Commitment::from_vec(k.clone()))),
		G::PibdHead => "unsupported".into(),
		G::BlocksIter => match b.blocks_iter() {
			Err(_) => "err".into(),
			Ok(it) => {
				let mut v = vec![];
				for x in it {
					match x {
						Ok(blk) => v.push(hex(blk.hash().as_ref())),
						Err(_) => return "err".into(),
					}
				}
				format!("[{}]", v.join(","))
			}
		},
		G::OutposIter => match b.output_pos_iter() {
			Err(_) => "err".into(),
			Ok(it) => {
				let mut v = vec![];
				for x in it {
					match x {
						Ok((k, p)) => v.push((k, ser::ser_vec(&p, DBV).unwrap())),
						Err(_) => return "err".into(),
					}
				}
				fmt_items(&v)
			}
		},
	}
}
fn g_outside(cs: &ChainStore, g: &G, pool: &[ObjRec]) -> Option<String> {
	Some(match g {
		G::Typed(kind, k) => match *kind {
			"head" => fmt_ser(cs.head()),
			"tail" => fmt_ser(cs.tail()),
			"header-head" => fmt_ser(cs.header_head()),
			"header" => fmt_ser(cs.get_block_header(&Hash::from_vec(k))),
			"block" => fmt_ser(cs.get_block(&Hash::from_vec(k))),
			"sums" => fmt_ser(cs.get_block_sums(&Hash::from_vec(k))),
			"outpos-height" => match cs.get_output_pos_height(&Commitment::from_vec(k.clone())) {
				Ok(Some(p)) => fmt_ser(Ok(p)),
				Ok(None) => "none".into(),
				Err(_) => "err".into(),
			},
			_ => return None,
		},
		G::HeadHeader => fmt_ser(cs.head_header()),
		G::Prev(i) => fmt_ser(cs.get_previous_header(hdr_of(pool, *i))),
		G::PrevSkip(i) => fmt_height(cs.get_previous_header_skip_proof(hdr_of(pool, *i))),
		G::HeaderSkip(k) => fmt_height(cs.get_block_header_skip_proof(&Hash::from_vec(k))),
		G::BlockExists(k) => fmt_bool(&cs.block_exists(&Hash::from_vec(k))),
		G::OutPos(k) => fmt_num(cs.get_output_pos(&Commitment::from_vec(k.clone()))),
		G::PibdHead => fmt_ser(cs.pibd_head()),
		G::BlocksIter | G::OutposIter => return None,
	})
}
/// the oracle: what getter `g` must answer when raw reads answer `get`
fn g_expect(get: &dyn Fn(&K) -> Option<Vec<u8>>, items: &dyn Fn(Db) -> Vec<(Vec<u8>, Vec<u8>)>, g: &G, pool: &[ObjRec], gen_tip: &[u8]) -> String {
	let raw = |k: &K| match get(k) {
		Some(v) => format!("some:{}", showval(&v)),
		None => "none".to_string(),
	};
	let height = |k: &K| match get(k) {
		Some(v) if v.len() >= 10 => format!("some:h{}", u64::from_be_bytes(v[2..10].try_into().unwrap())),
		Some(_) => "err".to_string(),
		None => "none".to_string(),
	};
	match g {
		G::Typed(kind, k) => raw(&cs_key(kind, k)),
		G::HeadHeader => match get(&cs_key("head", &[])) {
			None => "none".into(),
			Some(t) if t.len() == 80 => raw(&cs_key("header", &t[8..40])),
			Some(_) => "err".into(),
		},
		G::Prev(i) => raw(&cs_key("header", &pool[*i].aux)),
		G::PrevSkip(i) => height(&cs_key("header", &pool[*i].aux)),
		G::HeaderSkip(k) => height(&cs_key("header", k)),
		G::BlockExists(k) => get(&cs_key("block", k)).is_some().to_string(),
		G::OutPos(k) => match get(&cs_key("outpos-height", k)) {
			None => "none".into(),
			Some(v) if v.len() == 16 => format!("some:{}", u64::from_be_bytes(v[0..8].try_into().unwrap()).wrapping_sub(1)),
			Some(_) => "err".into(),
		},
		G::PibdHead => match get(&cs_key("pibd-head", &[])) {
			Some(v) => format!("some:{}", showval(&v)),
			None => format!("some:{}", showval(gen_tip)),
		},
		G::BlocksIter => {
			let v: Vec<String> = items(Some(b'b')).iter().map(|(k, _)| hex(k)).collect();
			format!("[{}]", v.join(","))
		}
		G::OutposIter => fmt_items(&items(Some(b'p'))),
	}
}

struct CsReader {
	tx: mpsc::Sender<Option<G>>,
	rx: mpsc::Receiver<String>,
	h: Option<thread::JoinHandle<()>>,
}
impl CsReader {
	fn spawn(cs: Arc<ChainStore>, pool: Arc<Vec<ObjRec>>) -> CsReader {
		let (tx, rrx) = mpsc::channel::<Option<G>>();
		let (rtx, rx) = mpsc::channel::<String>();
		let h = thread::spawn(move || {
			global::set_local_chain_type(ChainTypes::AutomatedTesting);
			while let Ok(Some(g)) = rrx.recv() {
				let a = g_outside(&cs, &g, &pool).unwrap_or_else(|| "unsupported".to_string());
				if rtx.send(a).is_err() {
					break;
				}
			}
		});
		CsReader { tx, rx, h: Some(h) }
	}
	fn ask(&self, g: &G) -> String {
		self.tx.send(Some(g.clone())).unwrap();
		self.rx.recv_timeout(Duration::from_secs(60)).unwrap_or_else(|_| "timeout".to_string())
	}
	fn quit(&mut self) {
		let _ = self.tx.send(None);
		if let Some(h) = self.h.take() {
			let _ = h.join();
		}
	}
}

#[derive(Default)]
struct CsStats {
	ops: BTreeMap<String, u64>,
	commits: [u64; 5],
	drops: [u64; 5],
	max_depth: usize,
	readback_same: u64,
	child_reads_parent: u64,
	parent_after_child_commit: u64,
	parent_after_child_drop: u64,
	outside_main: u64,
	outside_t1: u64,
	outside_while_pending: u64,
	outside_discriminating: u64,
	repeat_pairs: u64,
	after_reopen_reads: u64,
	nontrivial_answers: u64,
	oracle_fails: u64,
}

struct Cs {
	out: Out,
	rng: Rng,
	sh: Shadow,
	cs: Option<Arc<ChainStore>>,
	raw: Option<Store>,
	reader: Option<CsReader>,
	pool: Arc<Vec<ObjRec>>,
	hdrs: Vec<usize>,
	blks: Vec<usize>,
	tips: Vec<usize>,
	sums: Vec<usize>,
	spents: Vec<usize>,
	poss: Vec<usize>,
	commits_keys: Vec<Vec<u8>>,
	gen_tip: Vec<u8>,
	dir: String,
	st: CsStats,
	/// getters for the keys written at each open level (innermost last)
	touched: Vec<Vec<G>>,
}

impl Cs {
	fn op(&mut self, name: &str) {
		*self.st.ops.entry(name.to_string()).or_insert(0) += 1;
	}
	fn fail(&mut self, msg: String) {
		self.st.oracle_fails += 1;
		self.out.raw(&format!("#ORACLE-FAIL C18 {}", msg));
	}
	fn open(&mut self) {
		let cs = Arc::new(ChainStore::new(&self.dir, None).expect("ChainStore::new"));
		// a raw handle on the same environment (same database names): full dumps for `kv obs`
		let raw = Store::new(&self.dir, None, Some("chain"), CS_DBS.to_vec(), None, None).expect("raw Store::new");
		self.reader = Some(CsReader::spawn(cs.clone(), self.pool.clone()));
		self.cs = Some(cs);
		self.raw = Some(raw);
	}
	fn close(&mut self) {
		if let Some(mut r) = self.reader.take() {
			r.quit();
		}
		self.raw = None;
		self.cs = None;
	}
	fn pending_differs(&self, g: &G) -> bool {
		let view = |k: &K| self.sh.bget(k);
		let com = |k: &K| self.sh.committed.get(k).cloned();
		let none = |_: Db| vec![];
		g_expect(&view, &none, g, &self.pool, &self.gen_tip) != g_expect(&com, &none, g, &self.pool, &self.gen_tip)
	}
	/// read through the innermost open batch, check, print
	fn read_in(&mut self, b: &CBatch<'_>, g: &G, why: &str) {
		let ans = g_in_batch(b, g, &self.pool);
		let want = {
			let view = |k: &K| self.sh.bget(k);
			let vm = self.sh.view();
			let items = |db: Db| cs_items(&vm, db);
			g_expect(&view, &items, g, &self.pool, &self.gen_tip)
		};
		if ans != want {
			self.fail(format!(
				"ChainStore batch at depth {} ({}): {} answered {} but the batch's own view gives {}",
				self.sh.stack.len(), why, g_args(g, &self.pool), ans, want
			));
		}
		if ans != "none" && ans != "false" && ans != "[]" {
			self.st.nontrivial_answers += 1;
		}
		self.op(&format!("in:{}", g_kind(g)));
		self.out.line(&format!("kv cs {}", g_args(g, &self.pool)), &ans);
	}
	/// read through the plain ChainStore (no batch) on this thread or on the second one
	fn read_out(&mut self, g: &G, main: bool, why: &str) -> Option<String> {
		let ans = if main {
			g_outside(self.cs.as_ref().unwrap(), g, &self.pool)?
		} else {
			let a = self.reader.as_ref().unwrap().ask(g);
			if a == "unsupported" {
				return None;
			}
			a
		};
		let want = {
			let com = |k: &K| self.sh.committed.get(k).cloned();
			let none = |_: Db| vec![];
			g_expect(&com, &none, g, &self.pool, &self.gen_tip)
		};
		let who = if main { "main" } else { "t1" };
		if main {
			self.st.outside_main += 1;
		} else {
			self.st.outside_t1 += 1;
		}
		if !self.sh.stack.is_empty() {
			self.st.outside_while_pending += 1;
			if self.pending_differs(g) {
				self.st.outside_discriminating += 1;
			}
		}
		if ans != want {
			let view = |k: &K| self.sh.bget(k);
			let none = |_: Db| vec![];
			let inview = g_expect(&view, &none, g, &self.pool, &self.gen_tip);
			self.fail(format!(
				"plain ChainStore read on thread {} ({}; {} batch level(s) open): {} answered {} but the committed state gives {} (the open batch's view: {})",
				who, why, self.sh.stack.len(), g_args(g, &self.pool), ans, want, inview
			));
		}
		if ans != "none" && ans != "false" {
			self.st.nontrivial_answers += 1;
		}
		self.op(&format!("out-{}", who));
		self.out.line(&format!("kv cs-out {} {}", who, g_args(g, &self.pool)), &ans);
		Some(ans)
	}
	fn read_out_both(&mut self, g: &G, why: &str) {
		self.read_out(g, true, why);
		self.read_out(g, false, why);
	}
	/// same read twice on the same thread: the answers must not differ (caches)
	fn read_out_repeat(&mut self, g: &G, main: bool, why: &str) {
		let a = self.read_out(g, main, why);
		let b = self.read_out(g, main, why);
		if a.is_some() {
			self.st.repeat_pairs += 1;
			if a != b {
				self.fail(format!(
					"repeating the plain ChainStore read {} on thread {} ({}) changed the answer from {:?} to {:?} with no write in between",
					g_args(g, &self.pool), if main { "main" } else { "t1" }, why, a, b
				));
			}
		}
	}

	fn rand_hash(&mut self) -> Vec<u8> {
		if self.rng.chance(1, 12) {
			return self.rng.bytes(32);
		}
		let i = if self.rng.chance(1, 2) { *self.rng.pick(&self.hdrs) } else { *self.rng.pick(&self.blks) };
		self.pool[i].key.clone()
	}
	fn rand_getter(&mut self) -> G {
		// mostly aim at what is pending in the open batches
		let pend: Vec<G> = self.touched.iter().flatten().cloned().collect();
		if !pend.is_empty() && self.rng.chance(1, 2) {
			return self.rng.pick(&pend).clone();
		}
		match self.rng.below(16) {
			0 => G::Typed("head", vec![]),
			1 => G::Typed("tail", vec![]),
			2 => G::Typed("header-head", vec![]),
			3 | 4 => G::Typed("header", self.rand_hash()),
			5 | 6 => G::Typed("block", self.rand_hash()),
			7 => G::Typed("sums", self.rand_hash()),
			8 => G::Typed("spent", self.rand_hash()),
			9 => G::Typed("outpos-height", self.rng.pick(&self.commits_keys.clone()).clone()),
			10 => G::HeadHeader,
			11 => {
				if self.rng.chance(1, 2) {
					G::Prev(*self.rng.pick(&self.hdrs))
				} else {
					G::PrevSkip(*self.rng.pick(&self.hdrs))
				}
			}
			12 => G::HeaderSkip(self.rand_hash()),
			13 => G::BlockExists(self.rand_hash()),
			14 => G::OutPos(self.rng.pick(&self.commits_keys.clone()).clone()),
			_ => {
				if self.rng.chance(1, 2) {
					G::BlocksIter
				} else {
					G::OutposIter
				}
			}
		}
	}

	/// one typed write on the innermost batch + read-back through it + plain reads outside
	fn write_op(&mut self, b: &mut CBatch<'_>) {
		let r = self.rng.below(100);
		// (line args, result, shadow writes, getters that address what was written)
		let (args, res, writes, gs): (String, Result<(), Error>, Vec<(K, Option<Vec<u8>>)>, Vec<G>);
		if r < 24 {
			let i = *self.rng.pick(&self.hdrs);
			let o = self.pool[i].clone();
			res = b.save_block_header(hdr_of(&self.pool, i));
			args = format!("save header - {}", o.name);
			writes = vec![(cs_key("header", &o.key), Some(o.bytes.clone()))];
			let mut v = vec![G::Typed("header", o.key.clone()), G::HeaderSkip(o.key.clone())];
			// headers whose prev_hash is this one: get_previous_header finds it now
			if let Some(c) = self.hdrs.iter().find(|c| self.pool[**c].aux == o.key) {
				v.push(if self.rng.chance(1, 2) { G::Prev(*c) } else { G::PrevSkip(*c) });
			}
			gs = v;
		} else if r < 38 {
			let i = *self.rng.pick(&self.blks);
			let o = self.pool[i].clone();
			res = match &o.obj {
				Obj::Blk(blk) => b.save_block(blk),
				_ => unreachable!(),
			};
			args = format!("save block - {}", o.name);
			writes = vec![(cs_key("block", &o.key), Some(o.bytes.clone()))];
			gs = vec![G::Typed("block", o.key.clone()), G::BlockExists(o.key.clone())];
		} else if r < 62 {
			let i = *self.rng.pick(&self.tips);
			let o = self.pool[i].clone();
			let t = match &o.obj {
				Obj::Tip(t) => t.clone(),
				_ => unreachable!(),
			};
			let kind = *self.rng.pick(&["head", "head", "head", "header-head", "header-head", "tail", "pibd-head"]);
			res = match kind {
				"head" => b.save_body_head(&t),
				"header-head" => b.save_header_head(&t),
				"tail" => b.save_body_tail(&t),
				_ => b.save_pibd_head(&t),
			};
			args = format!("save {} - {}", kind, o.name);
			writes = vec![(cs_key(kind, &[]), Some(o.bytes.clone()))];
			gs = match kind {
				"head" => vec![G::Typed("head", vec![]), G::HeadHeader],
				"pibd-head" => vec![G::PibdHead],
				_ => vec![G::Typed(kind, vec![])],
			};
		} else if r < 70 {
			let i = *self.rng.pick(&self.sums);
			let o = self.pool[i].clone();
			let h = self.rand_hash();
			res = match &o.obj {
				Obj::Sums(s) => b.save_block_sums(&Hash::from_vec(&h), s.clone()),
				_ => unreachable!(),
			};
			args = format!("save sums {} {}", hex(&h), o.name);
			writes = vec![(cs_key("sums", &h), Some(o.bytes.clone()))];
			gs = vec![G::Typed("sums", h)];
		} else if r < 76 {
			let i = *self.rng.pick(&self.spents);
			let o = self.pool[i].clone();
			let h = self.rand_hash();
			res = match &o.obj {
				Obj::Spent(s) => b.save_spent_index(&Hash::from_vec(&h), s),
				_ => unreachable!(),
			};
			args = format!("save spent {} {}", hex(&h), o.name);
			writes = vec![(cs_key("spent", &h), Some(o.bytes.clone()))];
			gs = vec![G::Typed("spent", h)];
		} else if r < 84 {
			let i = *self.rng.pick(&self.poss);
			let o = self.pool[i].clone();
			let c = self.rng.pick(&self.commits_keys.clone()).clone();
			res = match &o.obj {
				Obj::Pos(p) => b.save_output_pos_height(&Commitment::from_vec(c.clone()), *p),
				_ => unreachable!(),
			};
			args = format!("save outpos-height {} {}", hex(&c), o.name);
			writes = vec![(cs_key("outpos-height", &c), Some(o.bytes.clone()))];
			gs = vec![G::Typed("outpos-height", c.clone()), G::OutPos(c)];
		} else if r < 92 {
			let h = self.rand_hash();
			res = b.delete_block(&Hash::from_vec(&h));
			args = format!("delete-block {}", hex(&h));
			writes = vec![(cs_key("block", &h), None), (cs_key("sums", &h), None), (cs_key("spent", &h), None)];
			gs = vec![G::Typed("block", h.clone()), G::BlockExists(h.clone()), G::Typed("sums", h.clone()), G::Typed("spent", h)];
		} else if r < 96 {
			let c = self.rng.pick(&self.commits_keys.clone()).clone();
			res = b.delete_output_pos_height(&Commitment::from_vec(c.clone()));
			args = format!("delete-outpos {}", hex(&c));
			writes = vec![(cs_key("outpos-height", &c), None)];
			gs = vec![G::Typed("outpos-height", c.clone()), G::OutPos(c)];
		} else {
			// raw delete of a header or of the head key
			if self.rng.chance(1, 2) {
				let h = self.rand_hash();
				res = b.delete(Some(b'h'), &h);
				args = format!("delete-raw {} {}", b'h', hex(&h));
				writes = vec![(cs_key("header", &h), None)];
				gs = vec![G::Typed("header", h)];
			} else {
				res = b.delete(None, &[b'H']);
				args = format!("delete-raw def {}", hex(&[b'H']));
				writes = vec![(cs_key("head", &[]), None)];
				gs = vec![G::Typed("head", vec![]), G::HeadHeader];
			}
		}
		let ans = fmt_unit(res);
		if ans != "ok" {
			self.fail(format!("typed write {} failed at depth {}", args, self.sh.stack.len()));
		} else {
			for (k, v) in writes {
				self.sh.write(k, v);
			}
		}
		let mut toks = args.split(' ');
		let t0 = toks.next().unwrap_or("");
		let wname = if t0 == "save" { format!("save-{}", toks.next().unwrap_or("")) } else { t0.to_string() };
		self.op(&format!("w:{}", wname));
		self.out.line(&format!("kv cs {}", args), &ans);
		// read it back through the same batch (sometimes twice), then through the plain store
		for g in gs.iter() {
			if matches!(g, G::PibdHead) {
				continue;
			}
			self.read_in(b, g, "read-back of its own write");
			self.st.readback_same += 1;
			if self.rng.chance(1, 5) {
				self.read_in(b, g, "repeated read-back");
			}
		}
		for g in gs.iter() {
			self.read_out_both(g, "right after a write of the open batch");
		}
		self.touched.last_mut().unwrap().extend(gs);
	}

	fn level(&mut self, b: &mut CBatch<'_>, depth: usize, max_depth: usize) {
		self.st.max_depth = self.st.max_depth.max(depth);
		let n = self.rng.range(1, if depth == 1 { 7 } else { 4 });
		for _ in 0..n {
			let r = self.rng.below(100);
			if r < 45 {
				self.write_op(b);
			} else if r < 68 {
				let g = self.rand_getter();
				if !matches!(g, G::PibdHead) {
					self.read_in(b, &g, "random read");
				}
			} else if r < 78 {
				let g = self.rand_getter();
				let main = self.rng.chance(1, 2);
				self.read_out(&g, main, "random read while the batch is open");
			} else if depth < max_depth {
				let parent_writes: Vec<G> = self.touched.iter().flatten().cloned().collect();
				let ended: Option<(bool, Vec<G>)> = match b.child() {
					Ok(mut c) => {
						self.sh.stack.push(vec![]);
						self.touched.push(vec![]);
						self.op("child");
						self.out.line("kv child", "ok");
						// the fresh child sees what its ancestors wrote
						for _ in 0..self.rng.range(1, 3) {
							if parent_writes.is_empty() {
								break;
							}
							let g = self.rng.pick(&parent_writes).clone();
							if matches!(g, G::PibdHead) {
								continue;
							}
							self.read_in(&c, &g, "child reading a write of an enclosing batch");
							self.st.child_reads_parent += 1;
						}
						self.level(&mut c, depth + 1, max_depth);
						let commit = self.rng.chance(3, 5);
						let child_writes = self.touched.pop().unwrap();
						if commit {
							let ans = fmt_unit(c.commit());
							if ans != "ok" {
								self.fail(format!("child commit at depth {} failed", depth + 1));
							}
							self.sh.commit();
							self.st.commits[depth + 1] += 1;
							self.out.line("kv commit", &ans);
						} else {
							drop(c);
							self.sh.stack.pop();
							self.st.drops[depth + 1] += 1;
							self.out.line("kv drop", "ok");
						}
						Some((commit, child_writes))
					}
					Err(_) => {
						self.fail(format!("ChainStore Batch::child at depth {} failed", depth));
						self.out.line("kv child", "err");
						None
					}
				};
				if let Some((commit, child_writes)) = ended {
					// the parent after the child ended: committed -> the child's values, dropped -> as before
					let mut seen = 0;
					for g in child_writes.iter() {
						if matches!(g, G::PibdHead) || seen >= 6 {
							continue;
						}
						seen += 1;
						self.read_in(b, g, if commit { "parent after its child committed" } else { "parent after its child was dropped" });
						if commit {
							self.st.parent_after_child_commit += 1;
						} else {
							self.st.parent_after_child_drop += 1;
						}
					}
					for g in child_writes.iter().take(3) {
						let main = self.rng.chance(1, 2);
						self.read_out(g, main, if commit { "after a child commit (enclosing batch still open)" } else { "after a child drop" });
					}
					if commit {
						self.touched.last_mut().unwrap().extend(child_writes);
					}
				}
			} else {
				self.write_op(b);
			}
		}
	}

	fn obs(&mut self) {
		let mut items = vec![];
		let mut bad = false;
		{
			let raw = self.raw.as_ref().unwrap();
			let mut dbs: Vec<Db> = vec![None];
			let mut named: Vec<u8> = CS_DBS.to_vec();
			named.sort();
			dbs.extend(named.iter().map(|p| Some(*p)));
			for db in dbs {
				match collect_iter(raw.iter(db, kvpair)) {
					Ok(v) => {
						for (k, val) in v {
							items.push((db_id(db), k, val));
						}
					}
					Err(_) => bad = true,
				}
			}
		}
		let ans = if bad { "err".to_string() } else { dump_fmt(&items) };
		let want = self.sh.dump();
		if ans != want {
			self.fail(format!("committed state of the chain store is {} but the committed batches give {}", ans, want));
		}
		self.op("obs");
		self.out.line("kv obs", &ans);
	}

	fn top_batch(&mut self, i: usize) {
		let commit;
		{
			let cs = self.cs.as_ref().unwrap().clone();
			let mut b = match cs.batch() {
				Ok(b) => b,
				Err(_) => {
					self.fail("ChainStore::batch failed".to_string());
					self.out.line("kv begin", "err");
					return;
				}
			};
			self.sh.stack.push(vec![]);
			self.touched.push(vec![]);
			self.op("begin");
			self.out.line("kv begin", "ok");
			self.level(&mut b, 1, 3);
			commit = self.rng.chance(13, 20);
			if commit {
				let ans = fmt_unit(b.commit());
				if ans != "ok" {
					self.fail("outermost ChainStore commit failed".to_string());
				}
				self.sh.commit();
				self.st.commits[1] += 1;
				self.out.line("kv commit", &ans);
			} else {
				drop(b);
				self.sh.stack.pop();
				self.st.drops[1] += 1;
				self.out.line("kv drop", "ok");
			}
		}
		// everything the batch touched (also in dropped children: not in `touched` any more, but
		// the heads and head-header cover the hot keys), twice from both threads
		let mut ts = self.touched.pop().unwrap();
		ts.push(G::Typed("head", vec![]));
		ts.push(G::HeadHeader);
		ts.push(G::Typed("header-head", vec![]));
		ts.push(G::PibdHead);
		let mut seen = std::collections::BTreeSet::new();
		let why = if commit { "after the outermost commit" } else { "after the outermost batch was dropped" };
		for g in ts.iter() {
			if !seen.insert(g_args(g, &self.pool)) || seen.len() > 14 {
				continue;
			}
			self.read_out_repeat(g, true, why);
			self.read_out_repeat(g, false, why);
		}
		if i % 3 == 2 {
			self.obs();
		}
		if i % 40 == 39 {
			self.close();
			self.open();
			self.op("reopen");
			self.out.line("kv reopen", "ok");
			self.obs();
			for g in ts.iter().take(12) {
				self.read_out_both(g, "after reopen");
				self.st.after_reopen_reads += 2;
			}
		}
	}
}

fn cs_items(m: &BTreeMap<K, Vec<u8>>, db: Db) -> Vec<(Vec<u8>, Vec<u8>)> {
	let id = db_id(db);
	m.range((id, vec![])..(id + 1, vec![]))
		.map(|((_, k), v)| (k.clone(), v.clone()))
		.collect()
}

fn mode_cstore(work: &str, seed: u64, thorough: bool) {
	let dir = format!("{}/cstore", work);
	let mut rng = Rng::new(seed ^ 0xC5);
	// ---- real objects: a small fork tree with transactions, built on a real chain
	let mut kit = Kit::new(&format!("{}/kit", dir));
	let mut tip = 0usize;
	let mut ids = vec![0usize];
	for h in 1..=6u64 {
		let specs = if h == 4 {
			let v = kit.outs[0].value;
			vec![TxSpec { inputs: vec![0], outputs: vec![(v / 2, None), (v - v / 2 - 2, None)], kernel: KSpec::Plain(2) }]
		} else {
			vec![]
		};
		match kit.new_block(tip, rng.range(1, 4), &specs).or_else(|_| kit.new_block(tip, 2, &[])) {
			Ok(id) => {
				tip = id;
				ids.push(id);
			}
			Err(e) => panic!("cannot build block: {}", e),
		}
	}
	for back in [2usize, 3] {
		let mut t = ids[ids.len() - 1 - back];
		for _ in 0..2 {
			if let Ok(id) = kit.new_block(t, rng.range(1, 5), &[]) {
				t = id;
				ids.push(id);
			}
		}
	}
	let mut pool: Vec<ObjRec> = vec![];
	let (mut hdrs, mut blks, mut tips, mut sums, mut spents, mut poss) = (vec![], vec![], vec![], vec![], vec![], vec![]);
	let mut add_hdr = |pool: &mut Vec<ObjRec>, h: BlockHeader| {
		let n = pool.len();
		pool.push(ObjRec {
			name: format!("h{}", n),
			key: h.hash().to_vec(),
			aux: h.prev_hash.to_vec(),
			bytes: ser::ser_vec(&h, DBV).unwrap(),
			obj: Obj::Hdr(h.clone()),
		});
		hdrs.push(n);
		let t = Tip::from_header(&h);
		let n = pool.len();
		pool.push(ObjRec {
			name: format!("t{}", n),
			key: vec![],
			aux: vec![],
			bytes: ser::ser_vec(&t, DBV).unwrap(),
			obj: Obj::Tip(t),
		});
		tips.push(n);
	};
	for id in ids.iter() {
		let b = kit.blks[*id].block.clone();
		add_hdr(&mut pool, b.header.clone());
		// a variant with another nonce: different hash, same parent (never a stored block)
		if rng.chance(1, 2) {
			let mut h2 = b.header.clone();
			h2.pow.nonce = h2.pow.nonce.wrapping_add(rng.range(1, 1000));
			add_hdr(&mut pool, h2);
		}
		let n = pool.len();
		pool.push(ObjRec {
			name: format!("b{}", n),
			key: b.hash().to_vec(),
			aux: vec![],
			bytes: ser::ser_vec(&b, DBV).unwrap(),
			obj: Obj::Blk(b),
		});
		blks.push(n);
	}
	let commits: Vec<Commitment> = kit.outs.iter().map(|o| o.commit).collect();
	let commits_keys: Vec<Vec<u8>> = commits.iter().map(|c| c.as_ref().to_vec()).collect();
	for i in 0..5usize {
		let s = BlockSums {
			utxo_sum: commits[i % commits.len()],
			kernel_sum: commits[(i * 3 + 1) % commits.len()],
		};
		let n = pool.len();
		pool.push(ObjRec { name: format!("m{}", n), key: vec![], aux: vec![], bytes: ser::ser_vec(&s, DBV).unwrap(), obj: Obj::Sums(s) });
		sums.push(n);
		let sp: Vec<CommitPos> = (0..i).map(|j| CommitPos { pos: 1 + rng.below(1000), height: j as u64 }).collect();
		let n = pool.len();
		pool.push(ObjRec { name: format!("s{}", n), key: vec![], aux: vec![], bytes: ser::ser_vec(&sp, DBV).unwrap(), obj: Obj::Spent(sp) });
		spents.push(n);
		let p = CommitPos { pos: 1 + rng.below(5000), height: rng.below(50) };
		let n = pool.len();
		pool.push(ObjRec { name: format!("p{}", n), key: vec![], aux: vec![], bytes: ser::ser_vec(&p, DBV).unwrap(), obj: Obj::Pos(p) });
		poss.push(n);
	}
	drop(kit);
	let gen_tip = ser::ser_vec(&Tip::from_header(&global::get_genesis_block().header), DBV).unwrap();
	let mut out = Out::stdout();
	out.line(&format!("kv cs-new {}", hex(&gen_tip)), "ok");
	for o in pool.iter() {
		out.line(&format!("kv cs-obj {} {} {} {}", o.name, hex(&o.key), hex(&o.aux), hex(&o.bytes)), "ok");
	}
	let sizes: Vec<String> = [("headers", &hdrs), ("blocks", &blks), ("tips", &tips), ("sums", &sums), ("spent", &spents), ("outpos", &poss)]
		.iter()
		.map(|(n, v)| {
			let lens: Vec<usize> = v.iter().map(|i| pool[*i].bytes.len()).collect();
			format!("{}={} ({}..{} B)", n, v.len(), lens.iter().min().unwrap(), lens.iter().max().unwrap())
		})
		.collect();
	out.raw(&format!("#STAT cstore object pool: {}", sizes.join(", ")));
	let mut cx = Cs {
		out,
		rng,
		sh: Shadow::default(),
		cs: None,
		raw: None,
		reader: None,
		pool: Arc::new(pool),
		hdrs,
		blks,
		tips,
		sums,
		spents,
		poss,
		commits_keys,
		gen_tip,
		dir: format!("{}/db", dir),
		st: CsStats::default(),
		touched: vec![],
	};
	cx.open();
	let n = if thorough { 6000 } else { 1200 };
	for i in 0..n {
		cx.top_batch(i);
	}
	cx.obs();
	let mut by: BTreeMap<String, u64> = BTreeMap::new();
	for (k, v) in cx.st.ops.iter() {
		*by.entry(k.clone()).or_insert(0) += v;
	}
	let ops: Vec<String> = by.iter().map(|(k, v)| format!("{}={}", k, v)).collect();
	cx.out.raw(&format!("#STAT cstore ops: {}", ops.join(" ")));
	cx.out.raw(&format!(
		"#STAT cstore top-level batches {}; max nesting {}; commits per level 1..3 = {}/{}/{}; drops per level 1..3 = {}/{}/{}; read-backs through the writing batch {}; reads by a fresh child of an enclosing batch's writes {}; parent reads after child commit {} / after child drop {}; plain ChainStore reads on the writer thread {} / on the second thread {} ({} while a batch was open, {} of them on a getter whose answer inside the batch differs from the committed one); repeated-read pairs {}; reads after reopen {}; non-trivial answers {}; oracle failures {}",
		n, cx.st.max_depth, cx.st.commits[1], cx.st.commits[2], cx.st.commits[3], cx.st.drops[1], cx.st.drops[2], cx.st.drops[3],
		cx.st.readback_same, cx.st.child_reads_parent, cx.st.parent_after_child_commit, cx.st.parent_after_child_drop,
		cx.st.outside_main, cx.st.outside_t1, cx.st.outside_while_pending, cx.st.outside_discriminating,
		cx.st.repeat_pairs, cx.st.after_reopen_reads, cx.st.nontrivial_answers, cx.st.oracle_fails
	));
	cx.close();
	cx.out.flush();
}

// ---------------------------------------------------------------------------------------------
// mode frag (second part of the resize family): "no operation fails for lack of space" with
// FRAGMENTED free space.  600 values of 3000 bytes (one overflow page each), every other one
// deleted and a share of the rest overwritten by small values (the freed pages are scattered
// single pages), then growth by values of 20 000 bytes (five contiguous overflow pages: they
// cannot use the scattered pages and move the last page of the map), one per batch, some
// batches also deleting older big values, every 6th Store::batch() issued while the other thread
// holds an iterator.  Map resizes must come in time: no put / commit may fail.  Per committed
// batch: `kv needs-resize` (the decision, recomputed by the model from the meta page) and
// `kv space` (the pages the batch can allocate at most fit behind the last page => it must have
// succeeded, whatever the freelist; Props/C18 `tail_fit_never_fails`).
// ---------------------------------------------------------------------------------------------
#[derive(Default)]
struct FragStats {
	batches: u64,
	failed_ops: u64,
	held: u64,
	waited: u64,
	resized_while_held: u64,
	space_guaranteed: u64,
	space_not_guaranteed: u64,
	max_need: u64,
	min_tail: u64,
	sizes: Vec<u64>,
	last_pg_path: Vec<u64>,
}

/// pages a batch of these writes can allocate at most: overflow pages of the values plus
/// copy-on-write of the tree paths, the main db and the freelist db
fn frag_need(ws: &[(Db, Vec<u8>, Option<Vec<u8>>)]) -> u64 {
	let mut n = 8u64;
	for (_, _, v) in ws {
		n += 1;
		if let Some(v) = v {
			if v.len() > 1900 {
				n += (15 + v.len() as u64) / 4096 + 1;
			}
		}
	}
	n
}

fn frag_batch(cx: &mut Cx, dir: &str, fs: &mut FragStats, ws: Vec<(Db, Vec<u8>, Option<Vec<u8>>)>, hold: bool, what: &str) {
	fs.batches += 1;
	if hold {
		let a = cx.reader.ask(Req::HoldFor(Some(b'B'), 130));
		if a != "ok" {
			cx.oracle_fail(format!("reader could not open an iterator before a batch ({}): {}", what, a));
		}
		fs.held += 1;
	}
	let pre = meta_info(dir);
	let t0 = Instant::now();
	let store = cx.store();
	let mut b = match store.batch() {
		Ok(b) => b,
		Err(e) => {
			fs.failed_ops += 1;
			cx.oracle_fail(format!("Store::batch failed ({}): {:?}", what, e));
			cx.line("kv begin", "err");
			return;
		}
	};
	let t_ret = Instant::now();
	let el = t0.elapsed().as_millis();
	if el >= 90 {
		fs.waited += 1;
	}
	cx.sh.stack.push(vec![]);
	cx.st.op("begin");
	cx.line("kv begin", "ok");
	let mut all_ok = true;
	for (db, key, v) in ws.iter() {
		let k: K = (db_id(*db), key.clone());
		match v {
			Some(v) => {
				let ans = fmt_unit(b.put(*db, key, v));
				if ans != "ok" {
					all_ok = false;
					fs.failed_ops += 1;
					cx.oracle_fail(format!(
						"put of {} bytes failed for lack of space? ({}; meta before the batch {:?}, now {:?})",
						v.len(), what, pre, meta_info(dir)
					));
				} else {
					cx.sh.write(k, Some(v.clone()));
				}
				cx.st.op("put");
				cx.line(&format!("kv put {} {} {}", db_tok(*db), hex(key), valtok(v)), &ans);
			}
			None => {
				let ans = fmt_unit(b.delete(*db, key));
				if ans != "ok" {
					all_ok = false;
					fs.failed_ops += 1;
					cx.oracle_fail(format!("delete failed ({})", what));
				} else {
					cx.sh.write(k, None);
				}
				cx.st.op("del");
				cx.line(&format!("kv del {} {}", db_tok(*db), hex(key)), &ans);
			}
		}
	}
	let ans = fmt_unit(b.commit());
	if ans != "ok" {
		all_ok = false;
		fs.failed_ops += 1;
		cx.oracle_fail(format!("commit failed ({}; meta before the batch {:?})", what, pre));
		cx.sh.stack.pop();
	} else {
		cx.sh.commit();
	}
	cx.st.commits[1] += 1;
	cx.line("kv commit", &ans);
	let post = meta_info(dir);
	if let (Some(pre), Some(post)) = (pre, post) {
		if post.2 == pre.2 + 1 {
			if hold && post.0 != pre.0 {
				fs.resized_while_held += 1;
				if let Some(early) = cx.reader.returned_before_hold_ended(t_ret) {
					cx.oracle_fail(format!(
						"{}: the map was resized ({} -> {}) inside a Store::batch() call that returned (after {} ms) {} ms BEFORE the other thread began to drop the iterator it held",
						what, pre.0, post.0, el, early
					));
				}
			}
			cx.st.op("needs-resize");
			cx.line(
				&format!("kv needs-resize {} {} {}", pre.0, pre.1 * 4096, 1_048_576),
				&format!("{} {}", post.0 != pre.0, post.0),
			);
			let need = frag_need(&ws);
			fs.max_need = fs.max_need.max(need);
			let tail = (post.0 / 4096).saturating_sub(pre.1 + 1);
			fs.min_tail = if fs.min_tail == 0 { tail } else { fs.min_tail.min(tail) };
			if (pre.1 + 1 + need) * 4096 <= post.0 {
				fs.space_guaranteed += 1;
			} else {
				fs.space_not_guaranteed += 1;
			}
			cx.st.op("space");
			cx.line(
				&format!("kv space {} {} {} {}", pre.0, pre.1, need, 1_048_576),
				if all_ok { "ok" } else { "fail" },
			);
		}
		if fs.sizes.last() != Some(&post.0) {
			fs.sizes.push(post.0);
			cx.obs();
		}
		fs.last_pg_path.push(post.1);
	}
}

fn mode_frag(work: &str, seed: u64, thorough: bool) {
	let dir = format!("{}/frag", work);
	let mut cx = Cx::new(&dir, seed ^ 0xF4A6);
	let mut fs = FragStats::default();
	if let Some(m) = meta_info(&dir) {
		fs.sizes.push(m.0);
	}
	let nsmall = 600usize;
	let skey = |i: usize| format!("s{:05}", i).into_bytes();
	// ---- F1: 600 values of 3000 bytes, five per batch, over two databases
	let mut i = 0;
	while i < nsmall {
		let mut ws = vec![];
		for j in i..(i + 5).min(nsmall) {
			let db = if j % 3 == 0 { Some(b'B') } else { Some(b'A') };
			ws.push((db, skey(j), Some(vec![(j % 251) as u8; 3000])));
		}
		i += 5;
		frag_batch(&mut cx, &dir, &mut fs, ws, false, "F1 fill with 3000-byte values");
	}
	cx.obs();
	let after_fill = meta_info(&dir);
	// ---- F2: delete every other one, overwrite every 5th of the rest by a small value
	let mut ws = vec![];
	let mut deleted = 0u64;
	let mut shrunk = 0u64;
	for j in 0..nsmall {
		let db = if j % 3 == 0 { Some(b'B') } else { Some(b'A') };
		if j % 2 == 1 {
			ws.push((db, skey(j), None));
			deleted += 1;
		} else if j % 10 == 0 {
			ws.push((db, skey(j), Some(vec![0xee; 40])));
			shrunk += 1;
		}
		if ws.len() >= 10 {
			frag_batch(&mut cx, &dir, &mut fs, std::mem::take(&mut ws), false, "F2 delete every other value");
		}
	}
	if !ws.is_empty() {
		frag_batch(&mut cx, &dir, &mut fs, ws, false, "F2 delete every other value");
	}
	cx.obs();
	let after_del = meta_info(&dir);
	// ---- F3: keep growing with values spanning several pages, one per batch
	let grow = if thorough { 700 } else { 190 };
	let mut big_alive: Vec<(Db, Vec<u8>)> = vec![];
	let mut big_deleted = 0u64;
	for g in 0..grow {
		let db = *cx.rng.pick(&all_dbs());
		let key = format!("g{:05}", g).into_bytes();
		let len = if g % 7 == 3 { 33_000 } else { 20_000 };
		let mut ws = vec![(db, key.clone(), Some(vec![(g % 253) as u8; len]))];
		if g % 9 == 8 && big_alive.len() > 4 {
			// more holes: two older big values go away (their runs of 5 pages become reusable later)
			for _ in 0..2 {
				let i = cx.rng.below(big_alive.len() as u64) as usize;
				let (d, k) = big_alive.swap_remove(i);
				ws.push((d, k, None));
				big_deleted += 1;
			}
		}
		big_alive.push((db, key));
		// an iterator open on the other thread when Store::batch() is called: every 6th batch, and
		// mostly when the resize threshold (90 % by last page) is about to be crossed, so that the
		// resize itself has to wait for the iterator
		let near = meta_info(&dir).map(|m| m.1 * 4096 * 100 > m.0 * 88).unwrap_or(false);
		let hold = g % 6 == 5 || (near && cx.rng.chance(2, 3));
		frag_batch(&mut cx, &dir, &mut fs, ws, hold, &format!("F3 growth batch {}", g));
		if g % 25 == 24 {
			cx.outside_read();
		}
		if g == grow / 2 {
			cx.reopen();
		}
	}
	cx.obs();
	if fs.sizes.len() < 3 {
		cx.out.raw(&format!("#STAT frag WARNING only {} resizes observed", fs.sizes.len().saturating_sub(1)));
	}
	cx.out.raw(&format!(
		"#STAT frag fill: {} values of 3000 B (last page after fill {:?}); {} deleted (every other one), {} overwritten by 40-byte values (last page after that {:?}: freed pages stay inside); growth: {} batches of one 20 000 / 33 000-byte value ({} older big values deleted on the way); batches {}; failed ops {}; map sizes {:?}; batch() calls with an iterator open on the other thread {} ({} waited >= 90 ms, {} resizes observed inside such a call, each checked to have waited)",
		nsmall, after_fill.map(|m| m.1), deleted, shrunk, after_del.map(|m| m.1), grow, big_deleted, fs.batches, fs.failed_ops, fs.sizes, fs.held, fs.waited, fs.resized_while_held
	));
	let lp = &fs.last_pg_path;
	out_of_order_note(&mut cx, lp);
	cx.out.raw(&format!(
		"#STAT frag space lines: batch volume bound max {} pages; smallest tail (pages behind the last page when the batch began, after the resize check) {}; batches whose success the model guarantees {} / not guaranteed {}",
		fs.max_need, fs.min_tail, fs.space_guaranteed, fs.space_not_guaranteed
	));
	cx.print_stats("frag");
	cx.finish();
}

/// distribution of the last-page movement per batch (how often the tail really had to be used)
fn out_of_order_note(cx: &mut Cx, lp: &[u64]) {
	let mut grew = 0u64;
	let mut same = 0u64;
	let mut maxstep = 0u64;
	for w in lp.windows(2) {
		if w[1] > w[0] {
			grew += 1;
			maxstep = maxstep.max(w[1] - w[0]);
		} else {
			same += 1;
		}
	}
	cx.out.raw(&format!(
		"#STAT frag last page moved forward in {} batches (max step {} pages), stayed (freed pages reused) in {}; final last page {:?}",
		grew, maxstep, same, lp.last()
	));
}


// ---------------------------------------------------------------------------------------------
// mode selfiter (third part of the resize family): the "transactions are open" branch of
// `Store::maybe_resize` in all its outcomes.  For every case a fresh environment is filled by plain
// batches until a resize is due (usage by last page above 90 % of the map); then ONE batch is
// started while
//   other        an iterator is open on ANOTHER thread (batch() has to wait for it, then resized)
//   same-after   the CALLING thread itself holds an open `Store::iter` iterator, dropped after commit
//   same-before  … dropped inside the batch, before the commit
//   both         own iterator and one on the other thread
//   nested       own iterator -> batch -> child batch (committed) -> commit -> iterator dropped
//   same-drop    own iterator, the batch is DROPPED, then the iterator
//   peer         the own iterator belongs to a second `Store` handle on the same environment
//                (another database name: chain store / peer store share one env per path)
//   two          two own iterators (both handles), dropped one before and one after the commit
// (with an own transaction open the batch proceeds on the old map and the resize is postponed);
// afterwards plain batches with nothing else open - the first one either at once (racing with the
// waiter thread) or after a pause - until the map has been enlarged at least twice more.  No put /
// commit may fail, a resize that is due with nothing open must happen, nothing may stall
// (watchdog).  The own iterator is drained at its end: it must still be the snapshot from before
// the batch.  Lines: the usual put / commit lines, `kv rz-batch …` (resize protocol model with its
// guard flags, Model/KvResize.lean), `kv needs-resize` and `kv space` for the plain batches.
// ---------------------------------------------------------------------------------------------
#[derive(Clone, Copy, PartialEq, Debug)]
enum SiCase {
	/// nesting bookkeeping: own iterator, completed lookups under it, ANOTHER thread's batch() finds
	/// the threshold crossed, more lookups while that resize is pending, iterator dropped
	NestOther,
	/// single thread: own iterator -> one lookup -> own batch() at the threshold (child batch and
	/// lookups inside) -> commit -> more lookups -> iterator dropped
	NestSelf,
	/// as NestSelf, and after the commit the other thread's batch() arrives while the iterator is
	/// still held (guard busy; it waits), more lookups, iterator dropped
	NestSelfOther,
	Other,
	SameAfter,
	SameBefore,
	Both,
	Nested,
	SameDrop,
	Peer,
	Two,
}

struct SiState {
	/// the map size the environment has in memory, as far as the harness can know it (meta page
	/// after the last commit)
	cur_map: u64,
	grown: u64,
	batches: u64,
	failed: u64,
	skipped_due: u64,
	progress: Arc<std::sync::atomic::AtomicU64>,
	phase: Arc<std::sync::Mutex<String>>,
}

fn si_tick(si: &SiState, what: &str) {
	si.progress.fetch_add(1, std::sync::atomic::Ordering::SeqCst);
	*si.phase.lock().unwrap() = what.to_string();
}

type SiIter = Box<dyn Iterator<Item = Result<(Vec<u8>, Vec<u8>), Error>>>;

/// one plain batch (nothing else open); returns false when an operation failed
fn si_plain(cx: &mut Cx, dir: &str, si: &mut SiState, n: u64, settled: bool, what: &str) -> bool {
	si_tick(si, what);
	si.batches += 1;
	let pre = meta_info(dir);
	let store = cx.store();
	let mut b = match store.batch() {
		Ok(b) => b,
		Err(e) => {
			si.failed += 1;
			cx.oracle_fail(format!("selfiter {}: Store::batch failed: {:?}", what, e));
			cx.line("kv begin", "err");
			return false;
		}
	};
	cx.sh.stack.push(vec![]);
	cx.st.op("begin");
	cx.line("kv begin", "ok");
	let db = *cx.rng.pick(&all_dbs());
	let key = format!("v{:05}", n).into_bytes();
	let len = cx.rng.range(30_000, 44_000) as usize;
	let v = vec![(n % 249) as u8; len];
	let mut ok = true;
	let ans = fmt_unit(b.put(db, &key, &v));
	if ans != "ok" {
		ok = false;
		si.failed += 1;
		cx.oracle_fail(format!("selfiter {}: put of {} bytes failed (meta before the batch {:?}, map in memory {})", what, len, pre, si.cur_map));
	} else {
		cx.sh.write((db_id(db), key.clone()), Some(v.clone()));
	}
	cx.st.op("put");
	cx.line(&format!("kv put {} {} {}", db_tok(db), hex(&key), valtok(&v)), &ans);
	let ans = fmt_unit(b.commit());
	if ans != "ok" {
		ok = false;
		si.failed += 1;
		cx.oracle_fail(format!("selfiter {}: commit failed (meta before the batch {:?})", what, pre));
		cx.sh.stack.pop();
	} else {
		cx.sh.commit();
	}
	cx.st.commits[1] += 1;
	cx.line("kv commit", &ans);
	si_tick(si, what);
	if let (Some(pre), Some(post)) = (pre, meta_info(dir)) {
		let used = pre.1 * 4096;
		let due = used * 10 > 9 * si.cur_map;
		if post.0 > si.cur_map {
			si.grown += 1;
		} else if due && ok {
			si.skipped_due += 1;
			cx.oracle_fail(format!(
				"selfiter {}: a resize was due (used {} of a {} byte map, nothing open) but Store::batch() did not enlarge the map",
				what, used, si.cur_map
			));
		}
		cx.st.op("rz-batch");
		cx.line(
			&format!("kv rz-batch same=0 other=0 settled={} used={}", if settled { 1 } else { 0 }, used),
			&post.0.to_string(),
		);
		if pre.0 == si.cur_map {
			// the meta page was up to date: the stateless decision line as well
			cx.st.op("needs-resize");
			cx.line(
				&format!("kv needs-resize {} {} {}", pre.0, used, 1_048_576),
				&format!("{} {}", post.0 != pre.0, post.0),
			);
			cx.st.op("space");
			cx.line(&format!("kv space {} {} {} {}", pre.0, pre.1, 12 + (15 + len as u64) / 4096 + 1, 1_048_576), if ok { "ok" } else { "fail" });
		}
		si.cur_map = post.0;
	}
	ok
}

fn si_open_iter(cx: &mut Cx, store: &Store, db: Db, model_lines: bool) -> Option<SiIter> {
	match store.iter(db, kvpair) {
		Ok(it) => {
			let mut it: SiIter = Box::new(it);
			if model_lines {
				cx.line(&format!("kv it-open main {}", db_tok(db)), "ok");
				// partially consumed: one item
				let mut v = vec![];
				if let Some(Ok(kv)) = it.next() {
					v.push(kv);
				}
				cx.line("kv it-next main 1", &fmt_items(&v));
			} else {
				let _ = it.next();
			}
			Some(it)
		}
		Err(e) => {
			cx.oracle_fail(format!("selfiter: Store::iter on the calling thread failed: {:?}", e));
			None
		}
	}
}

/// drain and drop an own iterator: it must yield the rest of the snapshot it was opened on
fn si_close_iter(cx: &mut Cx, it: Option<SiIter>, model_lines: bool, snap_rest: &[(Vec<u8>, Vec<u8>)]) {
	if let Some(it) = it {
		if model_lines {
			let mut v = vec![];
			let mut bad = false;
			for x in it {
				match x {
					Ok(kv) => v.push(kv),
					Err(_) => {
						bad = true;
						break;
					}
				}
			}
			let ans = if bad { "err".to_string() } else { fmt_items(&v) };
			let want = fmt_items(snap_rest);
			if ans != want {
				cx.oracle_fail(format!(
					"selfiter: the iterator the writer thread held across its own batch yielded {} items / {} but its snapshot has {} items",
					v.len(), &ans[..ans.len().min(120)], snap_rest.len()
				));
			}
			cx.line("kv it-next main 1000000", &ans);
			cx.line("kv it-close main", "ok");
		} else {
			drop(it);
		}
	}
}

fn si_case(cx: &mut Cx, dir: &str, peer: &Store, si: &mut SiState, case: SiCase, n: u64) {
	let what = format!("case {:?}", case);
	si_tick(si, &what);
	si.batches += 1;
	let pre = meta_info(dir);
	let store = cx.store();
	let snap_db = Some(b'A');
	let snap: Vec<(Vec<u8>, Vec<u8>)> = Shadow::items(&cx.sh.committed, snap_db);
	let snap_rest: Vec<(Vec<u8>, Vec<u8>)> = snap.iter().skip(1).cloned().collect();
	// own iterators
	let mut it_main: Option<SiIter> = None; // on the same handle, mirrored in the model lines
	let mut it_peer: Option<SiIter> = None; // on the second handle (its database is not modelled)
	let same = match case {
		SiCase::Other => 0,
		SiCase::Peer => {
			it_peer = si_open_iter(cx, peer, None, false);
			1
		}
		SiCase::Two => {
			it_main = si_open_iter(cx, &store, snap_db, true);
			it_peer = si_open_iter(cx, peer, None, false);
			2
		}
		_ => {
			it_main = si_open_iter(cx, &store, snap_db, true);
			1
		}
	};
	let other = if case == SiCase::Other || case == SiCase::Both {
		let a = cx.reader.ask(Req::HoldFor(Some(b'B'), 130));
		if a != "ok" {
			cx.oracle_fail(format!("selfiter {}: reader could not open an iterator: {}", what, a));
		}
		1
	} else {
		0
	};
	let t0 = Instant::now();
	let mut b = match store.batch() {
		Ok(b) => b,
		Err(e) => {
			si.failed += 1;
			cx.oracle_fail(format!("selfiter {}: Store::batch failed: {:?}", what, e));
			cx.line("kv begin", "err");
			return;
		}
	};
	let t_ret = Instant::now();
	let el = t0.elapsed().as_millis();
	si_tick(si, &what);
	cx.sh.stack.push(vec![]);
	cx.st.op("begin");
	cx.line("kv begin", "ok");
	let mut ok = true;
	let mut put = |cx: &mut Cx, bb: &mut Batch<'_>, key: Vec<u8>, len: usize, ok: &mut bool| {
		let v = vec![0xa5u8; len];
		let ans = fmt_unit(bb.put(Some(b'A'), &key, &v));
		if ans != "ok" {
			*ok = false;
			cx.oracle_fail(format!("selfiter {}: put of {} bytes failed inside the batch started with an own iterator open (meta {:?})", what, len, pre));
		} else {
			cx.sh.write((db_id(Some(b'A')), key.clone()), Some(v.clone()));
		}
		cx.st.op("put");
		cx.line(&format!("kv put 65 {} {}", hex(&key), valtok(&v)), &ans);
	};
	put(cx, &mut b, format!("c{:05}", n).into_bytes(), 24_000, &mut ok);
	if case == SiCase::Nested {
		match b.child() {
			Ok(mut c) => {
				cx.sh.stack.push(vec![]);
				cx.line("kv child", "ok");
				put(cx, &mut c, format!("d{:05}", n).into_bytes(), 12_000, &mut ok);
				let ans = fmt_unit(c.commit());
				if ans != "ok" {
					ok = false;
					cx.oracle_fail(format!("selfiter {}: child commit failed", what));
				}
				cx.sh.commit();
				cx.st.commits[2] += 1;
				cx.line("kv commit", &ans);
			}
			Err(e) => {
				ok = false;
				cx.oracle_fail(format!("selfiter {}: Batch::child failed: {:?}", what, e));
			}
		}
	}
	// the plain store read on THIS thread (a nested transaction: other threads' reads wait while the
	// resize is pending) does not see the batch's write
	{
		let key = format!("c{:05}", n).into_bytes();
		let ans = fmt_get(&store.get_ser::<Vec<u8>>(Some(b'A'), &key, None));
		if ans != "none" {
			cx.oracle_fail(format!("selfiter {}: the plain store on the writer thread sees the uncommitted write: {}", what, ans));
		}
		cx.st.op("read-outside get");
		cx.line(&format!("kv read-outside main get 65 {}", hex(&key)), &ans);
	}
	if case == SiCase::SameBefore || case == SiCase::Two {
		// dropped inside the batch: the batch's own transaction keeps the resize waiting
		let it = it_main.take();
		si_close_iter(cx, it, true, &snap_rest);
	}
	let committed = case != SiCase::SameDrop;
	if committed {
		let ans = fmt_unit(b.commit());
		if ans != "ok" {
			ok = false;
			cx.oracle_fail(format!("selfiter {}: commit failed (meta before the batch {:?})", what, pre));
			cx.sh.stack.pop();
		} else {
			cx.sh.commit();
		}
		cx.st.commits[1] += 1;
		cx.line("kv commit", &ans);
	} else {
		drop(b);
		cx.sh.stack.pop();
		cx.st.drops[1] += 1;
		cx.line("kv drop", "ok");
	}
	if !ok {
		si.failed += 1;
	}
	let post = meta_info(dir);
	// the own iterators end after the batch
	si_close_iter(cx, it_main.take(), true, &snap_rest);
	si_close_iter(cx, it_peer.take(), false, &[]);
	si_tick(si, &what);
	if let (Some(pre), Some(post)) = (pre, post) {
		let used = pre.1 * 4096;
		if same == 0 && other == 1 {
			if post.0 > si.cur_map {
				si.grown += 1;
				if let Some(early) = cx.reader.returned_before_hold_ended(t_ret) {
					cx.oracle_fail(format!("selfiter {}: the map was resized inside a Store::batch() call that returned (after {} ms) {} ms BEFORE the other thread began to drop the iterator it held", what, el, early));
				}
			} else {
				cx.oracle_fail(format!("selfiter {}: a resize was due and only another thread's iterator was open, but the batch ran on the old map", what));
			}
		}
		cx.st.op("rz-batch");
		let res = if committed { post.0.to_string() } else { "dropped".to_string() };
		cx.line(&format!("kv rz-batch same={} other={} settled=1 used={}", same, other, used), &res);
		if committed {
			si.cur_map = post.0;
		}
	}
	cx.out.raw(&format!(
		"#STAT selfiter {:?}: own iterators {} / on the other thread {}; Store::batch() returned after {} ms; map before {:?} -> after commit {:?}",
		case, same, other, el, pre.map(|m| m.0), post.map(|m| m.0)
	));
}


/// one lookup through the plain store on the writer thread (`exists` / `get_ser` / a complete nested
/// iteration), checked against the committed state; pushes its enter/leave pair to the schedule
fn si_lookup(cx: &mut Cx, store: &Store, si: &SiState, seq: &mut Vec<String>, kind: u64, key: &[u8], what: &str) {
	si_tick(si, what);
	let db = Some(b'A');
	let k: K = (db_id(db), key.to_vec());
	match kind % 3 {
		0 => {
			let ans = fmt_bool(&store.exists(db, key));
			let want = cx.sh.committed.contains_key(&k).to_string();
			if ans != want {
				cx.oracle_fail(format!("selfiter {}: exists {} answered {} (committed state: {})", what, hex(key), ans, want));
			}
			cx.st.op("read-outside exists");
			cx.line(&format!("kv read-outside main exists 65 {}", hex(key)), &ans);
		}
		1 => {
			let ans = fmt_get(&store.get_ser::<Vec<u8>>(db, key, None));
			let want = match cx.sh.committed.get(&k) {
				Some(v) => format!("some:{}", showval(v)),
				None => "none".into(),
			};
			if ans != want {
				cx.oracle_fail(format!("selfiter {}: get_ser {} answered {} (committed state: {})", what, hex(key), ans, want));
			}
			cx.st.op("read-outside get");
			cx.line(&format!("kv read-outside main get 65 {}", hex(key)), &ans);
		}
		_ => {
			let ans = fmt_iter(&collect_iter(store.iter(Some(b'Z'), kvpair)));
			let want = fmt_items(&Shadow::items(&cx.sh.committed, Some(b'Z')));
			if ans != want {
				cx.oracle_fail(format!("selfiter {}: nested iterator over db Z yielded {} items, committed state has other contents", what, ans.matches('=').count()));
			}
			cx.st.op("read-outside iter");
			cx.line("kv read-outside main iter 90", &ans);
		}
	}
	seq.push("e0".into());
	seq.push("l0".into());
	si_tick(si, what);
}

/// the other thread's batch (one put, commit), issued with `send_only` before; collects its answer
fn si_collect_t1(cx: &mut Cx, dir: &str, si: &mut SiState, key: Vec<u8>, v: Vec<u8>, pre: Option<(u64, u64, u64)>, min_ms: u64, what: &str) {
	si_tick(si, what);
	let reply = cx.reader.recv_only();
	si_tick(si, what);
	let parts: Vec<&str> = reply.split('|').collect();
	if parts.len() != 4 || parts[0] != "ok" || parts[1] != "ok" || parts[2] != "ok" {
		si.failed += 1;
		cx.oracle_fail(format!("selfiter {}: the other thread's batch (issued while a resize was pending behind this thread's iterator) answered {}", what, reply));
		cx.line("kv begin", "err");
		return;
	}
	let ms: u64 = parts[3].parse().unwrap_or(0);
	if ms < min_ms {
		cx.oracle_fail(format!(
			"selfiter {}: the other thread's Store::batch() returned after {} ms although a resize was due and this thread held a transaction for at least {} ms more",
			what, ms, min_ms
		));
	}
	si.batches += 1;
	cx.sh.stack.push(vec![]);
	cx.st.op("begin");
	cx.line("kv begin", "ok");
	cx.sh.write((db_id(Some(b'B')), key.clone()), Some(v.clone()));
	cx.st.op("put");
	cx.line(&format!("kv put 66 {} {}", hex(&key), valtok(&v)), "ok");
	cx.sh.commit();
	cx.st.commits[1] += 1;
	cx.line("kv commit", "ok");
	if let (Some(pre), Some(post)) = (pre, meta_info(dir)) {
		if post.0 > si.cur_map {
			si.grown += 1;
		} else {
			cx.oracle_fail(format!("selfiter {}: the long-lived transaction has ended but the other thread's batch ran on the old map ({}): the postponed resize did not happen", what, post.0));
		}
		cx.st.op("rz-batch");
		cx.line(&format!("kv rz-batch same=0 other=1 settled=1 used={}", pre.1 * 4096), &post.0.to_string());
		si.cur_map = post.0;
	}
	cx.out.raw(&format!("#STAT selfiter {}: the other thread's Store::batch() waited {} ms", what, ms));
}

fn si_nest_case(cx: &mut Cx, dir: &str, si: &mut SiState, case: SiCase, n: u64) {
	let what = format!("case {:?}", case);
	si_tick(si, &what);
	let store = cx.store();
	let mut seq: Vec<String> = vec![];
	let keys: Vec<Vec<u8>> = (0..4).map(|i| format!("v{:05}", (n / 4) * i).into_bytes()).collect();
	let snap_db = Some(b'A');
	let snap: Vec<(Vec<u8>, Vec<u8>)> = Shadow::items(&cx.sh.committed, snap_db);
	let snap_rest: Vec<(Vec<u8>, Vec<u8>)> = snap.iter().skip(1).cloned().collect();
	// the long-lived transaction of this thread
	let it_main = si_open_iter(cx, &store, snap_db, true);
	seq.push("e0".into());
	// completed operations under it
	si_lookup(cx, &store, si, &mut seq, 0, &keys[1], &what);
	if case == SiCase::NestOther {
		si_lookup(cx, &store, si, &mut seq, 1, &keys[2], &what);
		si_lookup(cx, &store, si, &mut seq, 2, &[], &what);
	}
	let t1_key = format!("w{:05}", n).into_bytes();
	let t1_val = vec![0x5au8; 24_000];
	match case {
		SiCase::NestOther => {
			// the other thread's batch() finds the map above the threshold: deferred, it waits
			let pre = meta_info(dir);
			cx.reader.send_only(Req::WriteBatch(vec![], vec![(Some(b'B'), t1_key.clone(), t1_val.clone())], true));
			seq.push("q".into());
			thread::sleep(Duration::from_millis(60));
			// further operations exactly while that resize is pending
			for i in 0..6u64 {
				si_lookup(cx, &store, si, &mut seq, i, &keys[(i % 4) as usize], &what);
			}
			si_close_iter(cx, it_main, true, &snap_rest);
			seq.push("l0".into());
			seq.push("w".into());
			seq.push("e1".into());
			seq.push("l1".into());
			si_collect_t1(cx, dir, si, t1_key, t1_val, pre, 50, &what);
		}
		_ => {
			// own batch() at the threshold: deferred behind the own iterator, proceeds nested
			si.batches += 1;
			let pre = meta_info(dir);
			let mut b = match store.batch() {
				Ok(b) => b,
				Err(e) => {
					si.failed += 1;
					cx.oracle_fail(format!("selfiter {}: Store::batch failed: {:?}", what, e));
					return;
				}
			};
			seq.push("q".into());
			seq.push("e0".into());
			si_tick(si, &what);
			cx.sh.stack.push(vec![]);
			cx.st.op("begin");
			cx.line("kv begin", "ok");
			let mut ok = true;
			let key = format!("c{:05}", n).into_bytes();
			let v = vec![0xa5u8; 20_000];
			let ans = fmt_unit(b.put(Some(b'A'), &key, &v));
			if ans != "ok" {
				ok = false;
				cx.oracle_fail(format!("selfiter {}: put failed inside the nested batch", what));
			} else {
				cx.sh.write((db_id(Some(b'A')), key.clone()), Some(v.clone()));
			}
			cx.line(&format!("kv put 65 {} {}", hex(&key), valtok(&v)), &ans);
			// a completed child batch and completed lookups while holding iterator + batch
			match b.child() {
				Ok(mut c) => {
					cx.sh.stack.push(vec![]);
					cx.line("kv child", "ok");
					let k2 = format!("d{:05}", n).into_bytes();
					let v2 = vec![0x3cu8; 9_000];
					let ans = fmt_unit(c.put(Some(b'Z'), &k2, &v2));
					if ans == "ok" {
						cx.sh.write((db_id(Some(b'Z')), k2.clone()), Some(v2.clone()));
					} else {
						ok = false;
						cx.oracle_fail(format!("selfiter {}: child put failed", what));
					}
					cx.line(&format!("kv put 90 {} {}", hex(&k2), valtok(&v2)), &ans);
					let ans = fmt_unit(c.commit());
					cx.sh.commit();
					cx.st.commits[2] += 1;
					cx.line("kv commit", &ans);
				}
				Err(e) => {
					ok = false;
					cx.oracle_fail(format!("selfiter {}: Batch::child failed: {:?}", what, e));
				}
			}
			si_lookup(cx, &store, si, &mut seq, 0, &key, &what);
			si_lookup(cx, &store, si, &mut seq, 1, &keys[2], &what);
			let ans = fmt_unit(b.commit());
			if ans != "ok" {
				ok = false;
				cx.oracle_fail(format!("selfiter {}: commit of the nested batch failed", what));
				cx.sh.stack.pop();
			} else {
				cx.sh.commit();
			}
			seq.push("l0".into());
			cx.st.commits[1] += 1;
			cx.line("kv commit", &ans);
			if !ok {
				si.failed += 1;
			}
			if let (Some(pre), Some(post)) = (pre, meta_info(dir)) {
				cx.st.op("rz-batch");
				cx.line(&format!("kv rz-batch same=1 other=0 settled=1 used={}", pre.1 * 4096), &post.0.to_string());
				si.cur_map = post.0;
			}
			// the resize is still pending behind the iterator: more lookups
			let pre_t1 = meta_info(dir);
			if case == SiCase::NestSelfOther {
				cx.reader.send_only(Req::WriteBatch(vec![], vec![(Some(b'B'), t1_key.clone(), t1_val.clone())], true));
				thread::sleep(Duration::from_millis(60));
			}
			for i in 0..5u64 {
				si_lookup(cx, &store, si, &mut seq, i, &keys[(i % 4) as usize], &what);
			}
			si_close_iter(cx, it_main, true, &snap_rest);
			seq.push("l0".into());
			seq.push("w".into());
			if case == SiCase::NestSelfOther {
				seq.push("e1".into());
				seq.push("l1".into());
				si_collect_t1(cx, dir, si, t1_key, t1_val, pre_t1, 50, &what);
			}
		}
	}
	si_tick(si, &what);
	cx.st.op("txseq");
	cx.line(&format!("kv txseq 2 {}", seq.join(",")), "completed:resizes=1");
	cx.out.raw(&format!("#STAT selfiter {:?}: schedule of {} enter/leave/request/resize steps, all operations returned", case, seq.len()));
}

fn mode_selfiter(work: &str, seed: u64, thorough: bool) {
	let progress = Arc::new(std::sync::atomic::AtomicU64::new(0));
	let phase = Arc::new(std::sync::Mutex::new(String::new()));
	{
		// watchdog: a leaked `resizing` flag makes every later enter_tx spin for ever
		let progress = progress.clone();
		let phase = phase.clone();
		thread::spawn(move || {
			let mut last = (0u64, Instant::now());
			loop {
				thread::sleep(Duration::from_millis(500));
				let p = progress.load(std::sync::atomic::Ordering::SeqCst);
				if p != last.0 {
					last = (p, Instant::now());
				} else if last.1.elapsed() > Duration::from_secs(20) {
					println!(
						"\n#ORACLE-FAIL C18 selfiter: no progress for 20 s in {}: Store::batch() / a read does not return (the resize protocol's flags were not released?)",
						phase.lock().unwrap()
					);
					std::process::exit(0);
				}
			}
		});
	}
	let cases = [
		SiCase::NestOther,
		SiCase::NestSelf,
		SiCase::NestSelfOther,
		SiCase::SameAfter,
		SiCase::Other,
		SiCase::SameBefore,
		SiCase::Both,
		SiCase::Nested,
		SiCase::SameDrop,
		SiCase::Peer,
		SiCase::Two,
	];
	let rounds = if thorough { 3 } else { 1 };
	let mut tot = (0u64, 0u64, 0u64, 0u64);
	let mut sizes_all: Vec<String> = vec![];
	for round in 0..rounds {
		for (ci, case) in cases.iter().enumerate() {
			let dir = format!("{}/selfiter{}_{}", work, round, ci);
			let mut cx = Cx::new(&dir, seed ^ ((round * 16 + ci) as u64 * 0x51));
			let peer = Store::new(&dir, None, Some("peer"), vec![], None, None).expect("second Store handle");
			{
				// something to iterate in the second handle's database
				let mut pb = peer.batch().unwrap();
				pb.put(None, b"peer1", b"x").unwrap();
				pb.put(None, b"peer2", b"y").unwrap();
				pb.commit().unwrap();
			}
			let map0 = meta_info(&dir).map(|m| m.0).unwrap_or(1_048_576);
			cx.line(&format!("kv rz-new {} {}", map0, 1_048_576), "ok");
			let mut si = SiState {
				cur_map: map0,
				grown: 0,
				batches: 0,
				failed: 0,
				skipped_due: 0,
				progress: progress.clone(),
				phase: phase.clone(),
			};
			let mut sizes = vec![map0];
			let mut n = 0u64;
			// fill until a resize is due
			loop {
				let due = meta_info(&dir).map(|m| m.1 * 4096 * 10 > 9 * m.0).unwrap_or(false);
				if due || n > 200 {
					break;
				}
				si_plain(&mut cx, &dir, &mut si, n, true, "fill");
				n += 1;
			}
			let grown_before = si.grown;
			if matches!(case, SiCase::NestOther | SiCase::NestSelf | SiCase::NestSelfOther) {
				si_nest_case(&mut cx, &dir, &mut si, *case, n);
			} else {
				si_case(&mut cx, &dir, &peer, &mut si, *case, n);
			}
			n += 1;
			if sizes.last() != Some(&si.cur_map) {
				sizes.push(si.cur_map);
			}
			// keep writing with nothing else open until the map has been enlarged twice more; the
			// first of these batches either races with the waiter thread or comes after a pause
			let pause = (ci + round) % 2 == 0;
			if pause {
				thread::sleep(Duration::from_millis(260));
			}
			let mut first = true;
			// the resize of the case itself (at once for `Other`, postponed to the first plain batch
			// for the others) plus two more
			let target = grown_before + 3;
			while si.grown < target && n < 600 {
				let okb = si_plain(&mut cx, &dir, &mut si, n, !first || pause, if first { "first plain batch after the case" } else { "growth after the case" });
				first = false;
				n += 1;
				if sizes.last() != Some(&si.cur_map) {
					sizes.push(si.cur_map);
					cx.obs();
				}
				if !okb {
					break;
				}
			}
			if si.grown < target {
				cx.oracle_fail(format!("selfiter case {:?}: after the case the map was enlarged only {} more times in {} batches ({:?})", case, si.grown - grown_before, n, sizes));
			}
			cx.obs();
			cx.out.raw(&format!(
				"#STAT selfiter {:?} round {}: batches {} map sizes {:?} ({} the first plain batch after the case); failed ops {}; due-but-skipped resizes {}",
				case, round, si.batches, sizes, if pause { "pause before" } else { "no pause before" }, si.failed, si.skipped_due
			));
			tot.0 += si.batches;
			tot.1 += si.failed;
			tot.2 += si.skipped_due;
			tot.3 += si.grown;
			sizes_all.push(format!("{:?}:{}", case, sizes.len() - 1));
			drop(peer);
			cx.finish();
		}
	}
	let mut out = Out::stdout();
	out.raw(&format!(
		"#STAT selfiter total: cases {} x rounds {}; batches {}; resizes {} ({}); failed ops {}; resizes due with nothing open but not done {}",
		cases.len(), rounds, tot.0, tot.3, sizes_all.join(" "), tot.1, tot.2
	));
	out.flush();
}


// ---------------------------------------------------------------------------------------------
// mode growth (fourth part of the resize family): growth far beyond the first few resizes.  A store
// that keeps growing through MANY resizes (more than 10 allocation chunks): `fixed` - 400 batches
// (thorough 1000) of one 64 KiB value; `random` - batches of 1 KiB .. 256 KiB (capped at 8 % of the
// current map: the map is only enlarged between batches) split into 1-4 values, with overwrites
// and deletes of older keys.  After EVERY batch: the commit is Ok, three earlier keys (sampled, on
// this or the other thread) are readable with the value written, the map size in the meta page is
// a multiple of the OS page size and of the allocation chunk, and it is strictly larger than
// before whenever the usage found by Store::batch() was above the threshold; a reopen half way;
// at the end a full iteration returns exactly the committed keys.  MDB_MAP_FULL or any other error
// is an #ORACLE-FAIL.  The driver keeps fingerprints only (`kv g-*` lines) and folds the resize
// protocol model over the `rz-batch` lines.
// ---------------------------------------------------------------------------------------------
fn mode_growth(work: &str, seed: u64, thorough: bool) {
	const CHUNK: u64 = 1_048_576;
	let gdb: Db = Some(b'A');
	let variants: Vec<(&str, u64)> = if thorough { vec![("fixed", 1000), ("random", 700)] } else { vec![("fixed", 400), ("random", 300)] };
	for (vi, (variant, nb)) in variants.iter().enumerate() {
		let dir = format!("{}/growth_{}", work, variant);
		let mut cx = Cx::new(&dir, seed ^ (0x6707 + vi as u64));
		cx.line("kv g-new", "ok");
		let map0 = meta_info(&dir).map(|m| m.0).unwrap_or(CHUNK);
		cx.line(&format!("kv rz-new {} {}", map0, CHUNK), "ok");
		let mut cur_map = map0;
		let mut sizes: Vec<u64> = vec![map0];
		// key -> (byte, len) of the committed value
		let mut shadow: BTreeMap<Vec<u8>, (u8, usize)> = BTreeMap::new();
		let fp = |b: u8, len: usize| -> String { format!("some:{}", showval(&vec![b; len])) };
		let (mut bytes, mut failed, mut reads, mut reads_t1, mut overwrites, mut deletes, mut skipped_due) = (0u64, 0u64, 0u64, 0u64, 0u64, 0u64, 0u64);
		let mut max_batch = 0usize;
		let mut next_key = 0u64;
		for i in 0..*nb {
			let pre = meta_info(&dir);
			let store = cx.store();
			let mut b = match store.batch() {
				Ok(b) => b,
				Err(e) => {
					failed += 1;
					cx.oracle_fail(format!("growth {}: Store::batch failed at batch {} (map {}): {:?}", variant, i, cur_map, e));
					break;
				}
			};
			// the writes of this batch
			let mut ws: Vec<(Vec<u8>, Option<(u8, usize)>)> = vec![];
			if *variant == "fixed" {
				ws.push((format!("g{:06}", next_key).into_bytes(), Some(((i % 251) as u8, 65_536))));
				next_key += 1;
			} else {
				let cap = (cur_map * 8 / 100).min(262_144).max(2048);
				let total = cx.rng.range(1024, cap) as usize;
				let parts = cx.rng.range(1, 4) as usize;
				for p in 0..parts {
					let len = (total / parts).max(1);
					let r = cx.rng.below(10);
					if r == 0 && !shadow.is_empty() {
						// overwrite an older key
						let k = shadow.keys().nth(cx.rng.below(shadow.len() as u64) as usize).unwrap().clone();
						ws.push((k, Some(((i + p as u64) as u8, len))));
						overwrites += 1;
					} else if r == 1 && shadow.len() > 4 {
						let k = shadow.keys().nth(cx.rng.below(shadow.len() as u64) as usize).unwrap().clone();
						if !ws.iter().any(|w| w.0 == k) {
							ws.push((k, None));
							deletes += 1;
						}
					} else {
						ws.push((format!("g{:06}", next_key).into_bytes(), Some(((i * 7 + p as u64) as u8, len))));
						next_key += 1;
					}
				}
			}
			let mut ok = true;
			let mut vol = 0usize;
			for (k, w) in ws.iter() {
				match w {
					Some((byte, len)) => {
						let v = vec![*byte; *len];
						vol += len;
						let ans = fmt_unit(b.put(gdb, k, &v));
						if ans != "ok" {
							ok = false;
							failed += 1;
							cx.oracle_fail(format!(
								"growth {}: put of {} bytes failed at batch {} (bytes written so far {}, map {}, meta before the batch {:?}): no operation may fail for lack of space",
								variant, len, i, bytes, cur_map, pre
							));
						}
						cx.st.op("g-put");
						cx.line(&format!("kv g-put {} {}", hex(k), valtok(&v)), &ans);
					}
					None => {
						let ans = fmt_unit(b.delete(gdb, k));
						if ans != "ok" {
							ok = false;
							failed += 1;
							cx.oracle_fail(format!("growth {}: delete failed at batch {}", variant, i));
						}
						cx.st.op("g-del");
						cx.line(&format!("kv g-del {}", hex(k)), &ans);
					}
				}
			}
			max_batch = max_batch.max(vol);
			match b.commit() {
				Ok(()) => {}
				Err(e) => {
					ok = false;
					failed += 1;
					cx.oracle_fail(format!("growth {}: commit failed at batch {} (bytes written so far {}, map {}): {:?}", variant, i, bytes, cur_map, e));
				}
			}
			if !ok {
				break;
			}
			bytes += vol as u64;
			for (k, w) in ws {
				match w {
					Some(x) => {
						shadow.insert(k, x);
					}
					None => {
						shadow.remove(&k);
					}
				}
			}
			// the map
			if let (Some(pre), Some(post)) = (pre, meta_info(&dir)) {
				let used = pre.1 * 4096;
				if post.0 % 4096 != 0 || post.0 % CHUNK != 0 {
					cx.oracle_fail(format!("growth {}: map size {} after batch {} is not a multiple of the page size / the allocation chunk", variant, post.0, i));
				}
				if post.0 < cur_map {
					cx.oracle_fail(format!("growth {}: the map shrank {} -> {} at batch {}", variant, cur_map, post.0, i));
				}
				if used * 10 > 9 * cur_map && post.0 <= cur_map {
					skipped_due += 1;
					cx.oracle_fail(format!("growth {}: batch {} found {} of {} bytes used (above the threshold, nothing open) but the map was not enlarged", variant, i, used, cur_map));
				}
				if post.0 > cur_map && (pre.1 + 1) * 4096 * 100 > 65 * post.0 + 100 * 4096 {
					cx.oracle_fail(format!("growth {}: after the resize at batch {} the usage {} is above 65 % of the new map {}", variant, i, used, post.0));
				}
				cx.st.op("rz-batch");
				cx.line(&format!("kv rz-batch same=0 other=0 settled=1 used={}", used), &post.0.to_string());
				if pre.0 == cur_map {
					cx.st.op("needs-resize");
					cx.line(&format!("kv needs-resize {} {} {}", pre.0, used, CHUNK), &format!("{} {}", post.0 != pre.0, post.0));
				}
				if post.0 != cur_map {
					sizes.push(post.0);
				}
				cur_map = post.0;
			}
			// sampled reads of what was written so far
			for _ in 0..3 {
				if shadow.is_empty() {
					break;
				}
				let k = shadow.keys().nth(cx.rng.below(shadow.len() as u64) as usize).unwrap().clone();
				let (byte, len) = shadow[&k];
				let t1 = cx.rng.chance(1, 3);
				let ans = if t1 {
					reads_t1 += 1;
					cx.reader.ask(Req::Get(gdb, k.clone()))
				} else {
					fmt_get(&store.get_ser::<Vec<u8>>(gdb, &k, None))
				};
				reads += 1;
				let want = fp(byte, len);
				if ans != want {
					cx.oracle_fail(format!("growth {}: after batch {} (map {}) key {} reads {} but {} was committed", variant, i, cur_map, hex(&k), ans, want));
				}
				cx.st.op("g-get");
				cx.line(&format!("kv g-get {} {}", if t1 { "t1" } else { "main" }, hex(&k)), &ans);
			}
			if i == nb / 2 {
				drop(store);
				// reopen: the enlarged map must be found again
				cx.reader.quit();
				let old = cx.store.take();
				drop(old);
				cx.store = Some(Arc::new(open_store(&dir)));
				cx.reader = ReaderT::spawn(cx.store());
				cx.st.op("reopen");
			}
		}
		// final full iteration: exactly the committed keys
		let items = collect_iter(cx.store().iter(gdb, kvpair));
		let ans = fmt_iter(&items);
		let want_items: Vec<(Vec<u8>, Vec<u8>)> = shadow.iter().map(|(k, (b, l))| (k.clone(), vec![*b; *l])).collect();
		let want = fmt_items(&want_items);
		if ans != want {
			let n = items.as_ref().map(|v| v.len()).unwrap_or(0);
			cx.oracle_fail(format!("growth {}: the final iteration yields {} entries, {} keys were committed (or values differ)", variant, n, shadow.len()));
		}
		cx.st.op("g-iter");
		cx.line("kv g-iter", &ans);
		if sizes.len() < 8 || cur_map <= 10 * CHUNK {
			cx.oracle_fail(format!("growth {}: harness: only {} resizes up to {} bytes - the run did not reach more than 10 allocation chunks", variant, sizes.len() - 1, cur_map));
		}
		cx.out.raw(&format!(
			"#STAT growth {}: batches {}; bytes written {}; largest batch {} bytes; keys at the end {}; overwrites {} deletes {}; map sizes in chunks {:?} ({} resizes, final {} chunks); sampled reads {} ({} on the other thread); failed ops {}; due-but-skipped resizes {}",
			variant, nb, bytes, max_batch, shadow.len(), overwrites, deletes,
			sizes.iter().map(|s| s / CHUNK).collect::<Vec<_>>(), sizes.len() - 1, cur_map / CHUNK, reads, reads_t1, failed, skipped_due
		));
		cx.print_stats(&format!("growth-{}", variant));
		cx.finish();
	}
}


// ---------------------------------------------------------------------------------------------
// mode inflight: which operations count as open transactions for the resize.  For every kind of
// store-level read - `Store::get_ser` without and with a deserialisation mode (both through
// `get_with`), `Store::iter` (its deserialisation callback), a read through a `Batch`, and `exists`
// (which offers no hook to stall in: three threads spinning on it) - a read that is demonstrably
// still inside its read transaction (the `Readable` impl / the iterator callback signals and sleeps
// 250 ms) while this thread's `batch()` finds the environment above its resize threshold with
// nothing else open.  Oracle: the map is enlarged, `batch()` returned only AFTER the read's
// callback had finished (timestamp taken by the reader), the read returned the committed value,
// nothing crashes or fails.
// ---------------------------------------------------------------------------------------------
static SLOW: std::sync::Mutex<Option<(mpsc::Sender<()>, u64)>> = std::sync::Mutex::new(None);
static SLOW_END: std::sync::Mutex<Option<Instant>> = std::sync::Mutex::new(None);

/// called from inside a read transaction of the store: signal, stay inside, note when leaving
fn slow_point() {
	let cfg = SLOW.lock().unwrap().take();
	if let Some((tx, ms)) = cfg {
		let _ = tx.send(());
		thread::sleep(Duration::from_millis(ms));
		*SLOW_END.lock().unwrap() = Some(Instant::now());
	}
}

struct SlowRec(Rec);
impl Readable for SlowRec {
	fn read<R: Reader>(r: &mut R) -> Result<SlowRec, ser::Error> {
		let rec = Rec::read(r)?;
		slow_point();
		Ok(SlowRec(rec))
	}
}

fn mode_inflight(work: &str, seed: u64, thorough: bool) {
	let kinds = ["get_ser", "get_ser_mode", "iter", "batch_get", "exists_spin"];
	let rounds = if thorough { 3 } else { 1 };
	let mut tot_wait: Vec<String> = vec![];
	for round in 0..rounds {
		for (ki, kind) in kinds.iter().enumerate() {
			let dir = format!("{}/inflight{}_{}", work, round, ki);
			let mut cx = Cx::new(&dir, seed ^ ((round * 8 + ki) as u64 * 0x1f));
			let store = cx.store();
			// the target of the reads, and a small database to iterate
			let tag = 7000 + (round * 10 + ki) as u64;
			let body = cx.rng.bytes(20);
			{
				let mut b = store.batch().unwrap();
				cx.sh.stack.push(vec![]);
				cx.line("kv begin", "ok");
				let rec = Rec { tag, body: body.clone() };
				let ans = fmt_unit(b.put_ser(Some(b'A'), b"slow", &rec));
				cx.sh.write((db_id(Some(b'A')), b"slow".to_vec()), Some(ser::ser_vec(&rec, b.protocol_version()).unwrap()));
				cx.line(&format!("kv putser 65 {} {} {}", hex(b"slow"), tag, hex(&body)), &ans);
				for i in 0..4u8 {
					let k = vec![b'i', i];
					let v = vec![i; 10];
					let ans = fmt_unit(b.put(Some(b'B'), &k, &v));
					cx.sh.write((db_id(Some(b'B')), k.clone()), Some(v.clone()));
					cx.line(&format!("kv put 66 {} {}", hex(&k), valtok(&v)), &ans);
				}
				let ans = fmt_unit(b.commit());
				cx.sh.commit();
				cx.line("kv commit", &ans);
			}
			// fill above the threshold
			let mut n = 0u64;
			loop {
				let m = meta_info(&dir).unwrap_or((1, 0, 0));
				if m.1 * 4096 * 10 > 9 * m.0 || n > 60 {
					break;
				}
				let mut b = store.batch().unwrap();
				cx.sh.stack.push(vec![]);
				cx.line("kv begin", "ok");
				let k = format!("fill{:03}", n).into_bytes();
				let v = vec![n as u8; 60_000];
				let ans = fmt_unit(b.put(Some(b'Z'), &k, &v));
				cx.sh.write((db_id(Some(b'Z')), k.clone()), Some(v.clone()));
				cx.line(&format!("kv put 90 {} {}", hex(&k), valtok(&v)), &ans);
				let ans = fmt_unit(b.commit());
				cx.sh.commit();
				cx.line("kv commit", &ans);
				n += 1;
			}
			let pre = meta_info(&dir).unwrap_or((0, 0, 0));
			cx.line(&format!("kv rz-new {} {}", pre.0, 1_048_576), "ok");
			let want_rec = format!("rec:{}:{}", tag, showval(&body));
			*SLOW_END.lock().unwrap() = None;
			let (itx, irx) = mpsc::channel::<()>();
			let (rtx, rrx) = mpsc::channel::<Vec<(String, String)>>();
			let spin_stop = Arc::new(std::sync::atomic::AtomicBool::new(false));
			let mut spinners = vec![];
			if *kind == "exists_spin" {
				for _ in 0..3 {
					let store = store.clone();
					let stop = spin_stop.clone();
					let rtx = rtx.clone();
					spinners.push(thread::spawn(move || {
						global::set_local_chain_type(ChainTypes::AutomatedTesting);
						let (mut ok, mut bad) = (0u64, 0u64);
						while !stop.load(std::sync::atomic::Ordering::SeqCst) {
							match store.exists(Some(b'A'), b"slow") {
								Ok(true) => ok += 1,
								_ => bad += 1,
							}
						}
						let _ = rtx.send(vec![("spin".to_string(), format!("{}:{}", ok, bad))]);
					}));
				}
				thread::sleep(Duration::from_millis(30));
			} else {
				*SLOW.lock().unwrap() = Some((itx.clone(), 250));
				let store = store.clone();
				let kind_s = kind.to_string();
				let rtx = rtx.clone();
				thread::spawn(move || {
					let kind = kind_s;
					global::set_local_chain_type(ChainTypes::AutomatedTesting);
					let r = std::panic::catch_unwind(std::panic::AssertUnwindSafe(|| -> Vec<(String, String)> {
						let fm = |r: Result<Option<SlowRec>, Error>| fmt_rec(r.map(|o| o.map(|s| s.0)));
						match kind.as_str() {
							"get_ser" => vec![("kv read-outside t1 getrec 65 736c6f77".to_string(), fm(store.get_ser::<SlowRec>(Some(b'A'), b"slow", None)))],
							"get_ser_mode" => vec![(
								"kv read-outside t1 getrec 65 736c6f77".to_string(),
								fm(store.get_ser::<SlowRec>(Some(b'A'), b"slow", Some(ser::DeserializationMode::SkipPow))),
							)],
							"iter" => {
								let it = store.iter(Some(b'B'), |k, v| {
									if k == [b'i', 2] {
										slow_point();
									}
									Ok((k.to_vec(), v.to_vec()))
								});
								vec![("kv read-outside t1 iter 66".to_string(), fmt_iter(&collect_iter(it)))]
							}
							_ => match store.batch() {
								Ok(b) => {
									let a = fm(b.get_ser::<SlowRec>(Some(b'A'), b"slow", None));
									drop(b);
									vec![("kv begin".to_string(), "ok".to_string()), ("kv getrec 65 736c6f77".to_string(), a), ("kv drop".to_string(), "ok".to_string())]
								}
								Err(_) => vec![("kv begin".to_string(), "err".to_string())],
							},
						}
					}));
					let _ = rtx.send(r.unwrap_or_else(|_| vec![("panic".to_string(), "panic".to_string())]));
				});
				if irx.recv_timeout(Duration::from_secs(5)).is_err() {
					cx.oracle_fail(format!("inflight {}: the read never reached its deserialisation callback", kind));
				}
			}
			// the read is inside its transaction now: batch() at the threshold
			let t0 = Instant::now();
			let bres = store.batch();
			let t_ret = Instant::now();
			let el = t0.elapsed().as_millis();
			spin_stop.store(true, std::sync::atomic::Ordering::SeqCst);
			// the reader's lines first (its transaction ended before this batch began)
			let mut rlines: Vec<(String, String)> = vec![];
			let expect = if *kind == "exists_spin" { 3 } else { 1 };
			for _ in 0..expect {
				match rrx.recv_timeout(Duration::from_secs(10)) {
					Ok(v) => rlines.extend(v),
					Err(_) => cx.oracle_fail(format!("inflight {}: the reading thread does not return", kind)),
				}
			}
			for h in spinners {
				let _ = h.join();
			}
			for (lhs, rhs) in rlines.iter() {
				if lhs == "spin" {
					let mut it = rhs.split(':');
					let (ok, bad): (u64, u64) = (it.next().unwrap().parse().unwrap_or(0), it.next().unwrap().parse().unwrap_or(1));
					if bad > 0 || ok == 0 {
						cx.oracle_fail(format!("inflight exists_spin: {} exists calls answered true, {} failed or answered false across the resize", ok, bad));
					}
					cx.out.raw(&format!("#STAT inflight exists_spin: a spinning thread completed {} exists calls across the resize", ok));
				} else if lhs == "panic" {
					cx.oracle_fail(format!("inflight {}: the read panicked while the map was being enlarged", kind));
				} else {
					if lhs.contains("getrec") && *rhs != want_rec {
						cx.oracle_fail(format!("inflight {}: the read that was in flight during the resize returned {} but {} is committed", kind, rhs, want_rec));
					}
					if lhs.contains(" iter ") {
						let want = fmt_items(&Shadow::items(&cx.sh.committed, Some(b'B')));
						if *rhs != want {
							cx.oracle_fail(format!("inflight iter: the iteration that was in flight during the resize yielded {} but {} is committed", rhs, want));
						}
					}
					cx.line(lhs, rhs);
				}
			}
			match bres {
				Ok(mut b) => {
					cx.sh.stack.push(vec![]);
					cx.line("kv begin", "ok");
					let v = vec![0x42u8; 30_000];
					let ans = fmt_unit(b.put(Some(b'Z'), b"after", &v));
					if ans != "ok" {
						cx.oracle_fail(format!("inflight {}: put failed after the resize", kind));
					} else {
						cx.sh.write((db_id(Some(b'Z')), b"after".to_vec()), Some(v.clone()));
					}
					cx.line(&format!("kv put 90 {} {}", hex(b"after"), valtok(&v)), &ans);
					let ans = fmt_unit(b.commit());
					if ans != "ok" {
						cx.oracle_fail(format!("inflight {}: commit failed after the resize", kind));
						cx.sh.stack.pop();
					} else {
						cx.sh.commit();
					}
					cx.line("kv commit", &ans);
				}
				Err(e) => cx.oracle_fail(format!("inflight {}: Store::batch failed: {:?}", kind, e)),
			}
			let post = meta_info(&dir).unwrap_or((0, 0, 0));
			let slow_end = *SLOW_END.lock().unwrap();
			if post.0 <= pre.0 {
				cx.oracle_fail(format!(
					"inflight {}: usage {} of {} was above the threshold and only a {} was in flight, but the map was not enlarged by Store::batch()",
					kind, pre.1 * 4096, pre.0, kind
				));
			} else if *kind != "exists_spin" {
				match slow_end {
					Some(te) if t_ret >= te => {}
					Some(te) => cx.oracle_fail(format!(
						"inflight {}: the map was enlarged ({} -> {}) by a Store::batch() that returned (after {} ms) {} ms BEFORE the {} in flight on another thread had left its read transaction: this read is not counted as an open transaction",
						kind, pre.0, post.0, el, (te - t_ret).as_millis().max(1), kind
					)),
					None => cx.oracle_fail(format!("inflight {}: the read never finished its callback", kind)),
				}
			}
			cx.line(&format!("kv rz-batch same=0 other=1 settled=1 used={}", pre.1 * 4096), &post.0.to_string());
			cx.line("kv txseq 2 e1,q,l1,w,e0,l0", "completed:resizes=1");
			cx.obs();
			tot_wait.push(format!("{}:{}ms", kind, el));
			cx.out.raw(&format!("#STAT inflight {}: Store::batch() at the threshold returned after {} ms; map {} -> {}", kind, el, pre.0, post.0));
			cx.finish();
		}
	}
	let mut out = Out::stdout();
	out.raw(&format!("#STAT inflight total: overlaps {} ({})", tot_wait.len(), tot_wait.join(" ")));
	out.flush();
}

// ---------------------------------------------------------------------------------------------
// mode handles: several `Store` handles on ONE environment (all Stores opened on one root share
// the env through ENV_MAP; the chain store and the peer store do this).  X (default names, prefixes
// A B Z), Y (database name "peer", prefixes A and P: shares database A with X), Z (same names as
// X), and a handle created late.  Per phase, on a fresh environment: X's most recent batch was
// dropped / was read-only / X was idle through a resize done by Y / Z never wrote / the handle is
// created only now - then Y's commits push the usage past the threshold and the other handle writes
// a batch of 120 kB, more than the few percent left: it must succeed (its batch() has to resize,
// whoever committed last).  Uncommitted writes of one handle are invisible through the others,
// committed ones visible at once.  Finally all handles alternate through further resizes.
// ---------------------------------------------------------------------------------------------
struct Hs {
	dir: String,
	cur_map: u64,
	grown: u64,
	failed: u64,
	n: u64,
}

fn h_tok(db: u16) -> String {
	if db == 0 {
		"def".to_string()
	} else {
		(db - 1).to_string()
	}
}

/// one batch through handle `st` (named `hname`): writes, an optional look through another handle
/// before the commit, commit / drop
#[allow(clippy::too_many_arguments)]
fn h_batch(cx: &mut Cx, hs: &mut Hs, hname: &str, st: &Store, ws: &[(u16, Db, Vec<u8>, Vec<u8>)], commit: bool, peek: Option<(&str, &Store)>, what: &str) -> bool {
	hs.n += 1;
	let pre = meta_info(&hs.dir);
	let mut b = match st.batch() {
		Ok(b) => b,
		Err(e) => {
			hs.failed += 1;
			cx.oracle_fail(format!("handles {}: batch() of handle {} failed: {:?}", what, hname, e));
			return false;
		}
	};
	cx.sh.stack.push(vec![]);
	cx.line("kv begin", "ok");
	let mut ok = true;
	for (mid, db, k, v) in ws {
		let ans = fmt_unit(b.put(*db, k, v));
		if ans != "ok" {
			ok = false;
			hs.failed += 1;
			cx.oracle_fail(format!(
				"handles {}: put of {} bytes through handle {} failed (meta before its batch {:?}, map in memory {}): no operation may fail for lack of space, whichever handle committed last",
				what, v.len(), hname, pre, hs.cur_map
			));
		} else {
			cx.sh.write((*mid, k.clone()), Some(v.clone()));
		}
		cx.line(&format!("kv put {} {} {}", h_tok(*mid), hex(k), valtok(v)), &ans);
	}
	if let (Some((pname, pst)), Some((mid, db, k, _))) = (peek, ws.first()) {
		// uncommitted: not visible through the other handle
		let ans = fmt_get(&pst.get_ser::<Vec<u8>>(*db, k, None));
		let want = match cx.sh.committed.get(&(*mid, k.clone())) {
			Some(v) => format!("some:{}", showval(v)),
			None => "none".into(),
		};
		if ans != want {
			cx.oracle_fail(format!("handles {}: handle {} sees {} for a key handle {} has written but not committed (committed: {})", what, pname, ans, hname, want));
		}
		cx.line(&format!("kv read-outside {} get {} {}", pname, h_tok(*mid), hex(k)), &ans);
	}
	if commit {
		let ans = fmt_unit(b.commit());
		if ans != "ok" {
			ok = false;
			hs.failed += 1;
			cx.oracle_fail(format!("handles {}: commit through handle {} failed (meta before its batch {:?})", what, hname, pre));
			cx.sh.stack.pop();
		} else {
			cx.sh.commit();
		}
		cx.line("kv commit", &ans);
	} else {
		drop(b);
		cx.sh.stack.pop();
		cx.line("kv drop", "ok");
	}
	if let (Some(pre), Some(post)) = (pre, meta_info(&hs.dir)) {
		let wrote = post.2 != pre.2;
		let used = pre.1 * 4096;
		if wrote {
			if post.0 > hs.cur_map {
				hs.grown += 1;
			} else if used * 10 > 9 * hs.cur_map && ok {
				cx.oracle_fail(format!("handles {}: handle {}'s batch() found {} of {} bytes used (above the threshold, nothing open) but did not enlarge the map", what, hname, used, hs.cur_map));
			}
			cx.line(&format!("kv rz-batch same=0 other=0 settled=1 used={}", used), &post.0.to_string());
			if pre.0 == hs.cur_map {
				cx.line(&format!("kv needs-resize {} {} {}", pre.0, used, 1_048_576), &format!("{} {}", post.0 != pre.0, post.0));
			}
			hs.cur_map = post.0;
		}
	}
	if let (true, Some((pname, pst)), Some((mid, db, k, v))) = (commit && ok, peek, ws.first()) {
		// committed: visible through the other handle at once
		let ans = fmt_get(&pst.get_ser::<Vec<u8>>(*db, k, None));
		let want = format!("some:{}", showval(v));
		if ans != want {
			cx.oracle_fail(format!("handles {}: handle {} reads {} for a key handle {} has committed ({})", what, pname, ans, hname, want));
		}
		cx.line(&format!("kv read-outside {} get {} {}", pname, h_tok(*mid), hex(k)), &ans);
	}
	ok
}

fn mode_handles(work: &str, seed: u64, thorough: bool) {
	const PEER_DEF: u16 = 1001; // model id of Y's default database ("peer")
	let phases = ["x-dropped", "x-readonly", "x-idle-through-resize", "z-first-batch", "late-handle"];
	let rounds = if thorough { 2 } else { 1 };
	let mut summary: Vec<String> = vec![];
	for round in 0..rounds {
		for (pi, phase) in phases.iter().enumerate() {
			let dir = format!("{}/handles{}_{}", work, round, pi);
			global::set_local_chain_type(ChainTypes::AutomatedTesting);
			let x = Store::new(&dir, None, None, DBS.to_vec(), None, None).expect("handle X");
			let y = Store::new(&dir, None, Some("peer"), vec![b'A', b'P'], None, None).expect("handle Y");
			let z = Store::new(&dir, None, None, DBS.to_vec(), None, None).expect("handle Z");
			// a Cx for the output / shadow; its own store handle is a fourth one on the same environment
			let mut cx = Cx {
				out: Out::stdout(),
				rng: Rng::new(seed ^ ((round * 8 + pi) as u64 * 0x3d)),
				st: Stats::default(),
				sh: Shadow::default(),
				store: Some(Arc::new(Store::new(&dir, None, None, DBS.to_vec(), None, None).expect("handle R"))),
				reader: ReaderT::spawn(Arc::new(Store::new(&dir, None, None, DBS.to_vec(), None, None).expect("handle T"))),
				dir: dir.clone(),
			};
			cx.out.line("kv new [def,65,66,90,80,1000]", "ok");
			let map0 = meta_info(&dir).map(|m| m.0).unwrap_or(1_048_576);
			cx.line(&format!("kv rz-new {} {}", map0, 1_048_576), "ok");
			let mut hs = Hs { dir: dir.clone(), cur_map: map0, grown: 0, failed: 0, n: 0 };
			let what = format!("phase {}", phase);
			let mut kn = 0u64;
			let mut key = |p: &str| {
				kn += 1;
				format!("{}{:04}", p, kn).into_bytes()
			};
			// what X did last
			match *phase {
				"x-dropped" => {
					h_batch(&mut cx, &mut hs, "X", &x, &[(db_id(Some(b'A')), Some(b'A'), key("xa"), vec![1u8; 2000])], true, Some(("Y", &y)), &what);
					h_batch(&mut cx, &mut hs, "X", &x, &[(0, None, key("xd"), vec![2u8; 3000])], false, Some(("Z", &z)), &what);
				}
				"x-readonly" => {
					h_batch(&mut cx, &mut hs, "X", &x, &[(db_id(Some(b'B')), Some(b'B'), key("xb"), vec![3u8; 2000])], true, Some(("Z", &z)), &what);
					// a batch that only reads, committed
					if let Ok(b) = x.batch() {
						cx.sh.stack.push(vec![]);
						cx.line("kv begin", "ok");
						let a = fmt_bool(&b.exists(Some(b'B'), b"xb0001"));
						cx.line("kv exists 66 786230303031", &a);
						let ans = fmt_unit(b.commit());
						cx.sh.commit();
						cx.line("kv commit", &ans);
					}
				}
				"x-idle-through-resize" => {
					h_batch(&mut cx, &mut hs, "X", &x, &[(0, None, key("x0"), vec![4u8; 1000])], true, Some(("Z", &z)), &what);
				}
				_ => {}
			}
			// Y commits until the usage is above the threshold (once more after its own resize in
			// the idle phase)
			let passes = if *phase == "x-idle-through-resize" { 2 } else { 1 };
			for pass in 0..passes {
				loop {
					let m = meta_info(&dir).unwrap_or((1, 0, 0));
					if m.1 * 4096 * 10 > 9 * m.0 || hs.n > 200 {
						break;
					}
					let (mid, db) = match cx.rng.below(3) {
						0 => (db_id(Some(b'A')), Some(b'A')),
						1 => (db_id(Some(b'P')), Some(b'P')),
						_ => (PEER_DEF, None),
					};
					let k = key("y");
					let len = cx.rng.range(40_000, 60_000) as usize;
					let peek: Option<(&str, &Store)> = if mid == db_id(Some(b'A')) && cx.rng.chance(1, 3) { Some(("X", &x)) } else { None };
					let byte = hs.n as u8;
					h_batch(&mut cx, &mut hs, "Y", &y, &[(mid, db, k, vec![byte; len])], true, peek, &what);
				}
				if pass + 1 < passes {
					// Y itself crosses the threshold: its own batch() resizes; X stays idle
					h_batch(&mut cx, &mut hs, "Y", &y, &[(PEER_DEF, None, key("yr"), vec![9u8; 50_000])], true, None, &what);
				}
			}
			let due = meta_info(&dir).map(|m| m.1 * 4096 * 10 > 9 * m.0).unwrap_or(false);
			let grown_before = hs.grown;
			// the other handle writes more than the few percent left
			let big = |key: &mut dyn FnMut(&str) -> Vec<u8>, mid: u16, db: Db| -> Vec<(u16, Db, Vec<u8>, Vec<u8>)> {
				(0..3).map(|i| (mid, db, key("big"), vec![0xb0 + i as u8; 40_000])).collect()
			};
			let okb = match *phase {
				"z-first-batch" => {
					let ws = big(&mut key, db_id(Some(b'A')), Some(b'A'));
					h_batch(&mut cx, &mut hs, "Z", &z, &ws, true, Some(("Y", &y)), &what)
				}
				"late-handle" => {
					let w = Store::new(&dir, None, Some("late"), vec![b'A'], None, None).expect("late handle");
					let ws = big(&mut key, db_id(Some(b'A')), Some(b'A'));
					h_batch(&mut cx, &mut hs, "W", &w, &ws, true, Some(("X", &x)), &what)
				}
				_ => {
					let ws = big(&mut key, 0, None);
					h_batch(&mut cx, &mut hs, "X", &x, &ws, true, Some(("Z", &z)), &what)
				}
			};
			if !due {
				cx.out.raw(&format!("#STAT handles:WARNING phase {} did not reach the threshold before the big batch", phase));
			} else if okb && hs.grown == grown_before {
				cx.oracle_fail(format!("handles {}: the big batch succeeded but the map was not enlarged although the usage was above the threshold", what));
			}
			// all handles alternate through further growth, reading each other's commits
			let more = if thorough { 60 } else { 30 };
			for i in 0..more {
				let len = cx.rng.range(20_000, 60_000) as usize;
				let k = key("alt");
				let v = vec![i as u8; len];
				let xc = cx.rng.chance(4, 5);
				let okb = match i % 3 {
					0 => h_batch(&mut cx, &mut hs, "X", &x, &[(db_id(Some(b'A')), Some(b'A'), k, v)], xc, Some(("Y", &y)), &what),
					1 => h_batch(&mut cx, &mut hs, "Y", &y, &[(db_id(Some(b'A')), Some(b'A'), k, v)], true, Some(("Z", &z)), &what),
					_ => h_batch(&mut cx, &mut hs, "Z", &z, &[(0, None, k, v)], true, Some(("X", &x)), &what),
				};
				if !okb {
					break;
				}
				if i % 10 == 9 {
					cx.outside_read();
				}
			}
			// full dump through the Cx's own handle (default names) - Y's private databases are read
			// key by key above; the shared databases must agree
			{
				let mut items = vec![];
				for db in all_dbs() {
					if let Ok(v) = collect_iter(cx.store().iter(db, kvpair)) {
						for (k, val) in v {
							items.push((db_id(db), k, val));
						}
					}
				}
				for (db, mid) in [(Some(b'P'), db_id(Some(b'P'))), (None, PEER_DEF)] {
					if let Ok(v) = collect_iter(y.iter(db, kvpair)) {
						for (k, val) in v {
							items.push((mid, k, val));
						}
					}
				}
				items.sort_by(|a, b| (a.0, &a.1).cmp(&(b.0, &b.1)));
				let ans = dump_fmt(&items);
				let want = cx.sh.dump();
				if ans != want {
					cx.oracle_fail(format!("handles {}: the environment's contents read through the handles differ from the committed batches", what));
				}
				cx.line("kv obs", &ans);
			}
			summary.push(format!("{}:batches={},resizes={},failed={}", phase, hs.n, hs.grown, hs.failed));
			cx.out.raw(&format!(
				"#STAT handles {} round {}: batches {} through handles X/Y/Z(/W); map {} -> {} ({} resizes); due before the big batch {}; big batch ok {}; failed ops {}",
				phase, round, hs.n, map0, hs.cur_map, hs.grown, due, okb, hs.failed
			));
			cx.finish();
		}
	}
	let mut out = Out::stdout();
	out.raw(&format!("#STAT handles total: {}", summary.join(" ")));
	out.flush();
}

// ---------------------------------------------------------------------------------------------
// mode slowreader: operations that arrive while a resize is PENDING must wait and then succeed,
// however long the transaction that defers the resize lives.  Per window length (quick: 12.5 s;
// thorough also 45 s and 100 s; all scenarios run concurrently, each on its own environment):
//
//   iter   thread R opens a store iterator and keeps it for the whole window; thread W's
//          Store::batch() finds the map above the threshold (resize due -> deferred to the waiter
//          thread, W itself waits at the gate);
//   batch  thread R opens an iterator, calls Store::batch() at the threshold (the resize is
//          requested and deferred behind R's own iterator, R passes the gate as nested), drops
//          the iterator and keeps the UN-COMMITTED batch for the whole window, then commits;
//          W's batch() arrives right after R's.
//
// In three waves (0.4 s after W, in the middle of the window, 1.5 s before its end) four threads
// each issue Store::exists, Store::get_ser, Store::iter (drained) and batch()+put+commit.  In the
// middle of the window R itself does a lookup under its own transaction (nested: must not wait).
// Oracle (#ORACLE-FAIL): every operation returns Ok with the committed value, W's batch commits,
// the map has grown afterwards, nothing returned an error of any kind, nothing stalls (watchdog);
// a resized map must not be seen by a batch() that returned before R released.  Driver lines:
// `kv gate-op <who> <kind> nested=<b> pending=<b> => ok|err:<kind>` (spec: ok), `kv gate-wait …
// => blocked|direct|early|failed` (model: an outside thread waits until the release, a nested one
// does not), the answers as `read-outside` / `begin` `put` `commit` lines, `rz-batch`, `txseq`.
// ---------------------------------------------------------------------------------------------
fn err_kind(e: &Error) -> &'static str {
	match e {
		Error::NotFoundErr(_) => "NotFoundErr",
		Error::LmdbErr(_) => "LmdbErr",
		Error::SerErr(_) => "SerErr",
		Error::FileErr(_) => "FileErr",
		Error::OtherErr(_) => "OtherErr",
	}
}

struct Sl {
	lines: Vec<String>,
	sh: Shadow,
	fails: u64,
	tag: String,
}
impl Sl {
	fn line(&mut self, lhs: &str, rhs: &str) {
		self.lines.push(format!("{} => {}", lhs, rhs));
	}
	fn raw(&mut self, s: &str) {
		self.lines.push(s.to_string());
	}
	fn oracle_fail(&mut self, msg: String) {
		self.fails += 1;
		self.lines.push(format!("#ORACLE-FAIL C18 slowreader {}: {}", self.tag, msg));
	}
	/// one committed batch of puts on the calling thread, with its lines
	fn plain_batch(&mut self, store: &Store, ws: &[(Db, Vec<u8>, Vec<u8>)], recs: &[(Db, Vec<u8>, u64, Vec<u8>)]) {
		let mut b = match store.batch() {
			Ok(b) => b,
			Err(e) => {
				self.oracle_fail(format!("set-up Store::batch failed: {:?}", e));
				self.line("kv begin", "err");
				return;
			}
		};
		self.sh.stack.push(vec![]);
		self.line("kv begin", "ok");
		for (db, k, v) in ws {
			let ans = fmt_unit(b.put(*db, k, v));
			if ans == "ok" {
				self.sh.write((db_id(*db), k.clone()), Some(v.clone()));
			} else {
				self.oracle_fail(format!("set-up put of {} bytes failed", v.len()));
			}
			self.line(&format!("kv put {} {} {}", db_tok(*db), hex(k), valtok(v)), &ans);
		}
		for (db, k, tag, body) in recs {
			let rec = Rec { tag: *tag, body: body.clone() };
			let ans = fmt_unit(b.put_ser(*db, k, &rec));
			if ans == "ok" {
				self.sh.write((db_id(*db), k.clone()), Some(ser::ser_vec(&rec, b.protocol_version()).unwrap()));
			}
			self.line(&format!("kv putser {} {} {} {}", db_tok(*db), hex(k), tag, hex(body)), &ans);
		}
		let ans = fmt_unit(b.commit());
		if ans == "ok" {
			self.sh.commit();
		} else {
			self.sh.stack.pop();
			self.oracle_fail("set-up commit failed".to_string());
		}
		self.line("kv commit", &ans);
	}
}

/// one operation issued at the gate, as its thread saw it
struct GateOp {
	who: String,
	kind: &'static str,
	issued: Instant,
	/// when the call that passes the gate returned (reads: the whole read; batch: `Store::batch()`)
	returned: Instant,
	committed: Option<Instant>,
	/// `ok` | `err:<kind>[@stage]` | `panic`
	res: String,
	/// the formatted answer of a read; the put / commit answers of a batch
	value: String,
	/// W's batch() had not returned when this was issued
	w_waiting: bool,
	key: Vec<u8>,
	val: Vec<u8>,
}

fn gate_op(store: &Store, who: &str, kind: &'static str, key: Vec<u8>, val: Vec<u8>, w_waiting: bool) -> GateOp {
	let issued = Instant::now();
	let mut committed = None;
	let r = std::panic::catch_unwind(std::panic::AssertUnwindSafe(|| -> (String, String, Instant) {
		match kind {
			"exists" => {
				let r = store.exists(Some(b'A'), &key);
				let t = Instant::now();
				match r {
					Ok(b) => ("ok".into(), b.to_string(), t),
					Err(e) => (format!("err:{}", err_kind(&e)), "err".into(), t),
				}
			}
			"get_ser" => {
				let r = store.get_ser::<Rec>(Some(b'A'), &key, None);
				let t = Instant::now();
				match r {
					Ok(o) => ("ok".into(), fmt_rec(Ok(o)), t),
					Err(e) => (format!("err:{}", err_kind(&e)), "err".into(), t),
				}
			}
			"iter" => match store.iter(Some(b'B'), kvpair) {
				Ok(it) => {
					let t = Instant::now();
					let mut v = vec![];
					let mut bad = None;
					for x in it {
						match x {
							Ok(kv) => v.push(kv),
							Err(e) => {
								bad = Some(err_kind(&e));
								break;
							}
						}
					}
					match bad {
						None => ("ok".into(), fmt_items(&v), t),
						Some(k) => (format!("err:{}@next", k), "err".into(), t),
					}
				}
				Err(e) => (format!("err:{}", err_kind(&e)), "err".into(), Instant::now()),
			},
			_ => match store.batch() {
				Ok(mut b) => {
					let t = Instant::now();
					let p = b.put(Some(b'Z'), &key, &val);
					let pk = p.as_ref().err().map(err_kind);
					let c = b.commit();
					committed = Some(Instant::now());
					let ck = c.as_ref().err().map(err_kind);
					let value = format!("{}|{}", fmt_unit(p), fmt_unit(c));
					match (pk, ck) {
						(None, None) => ("ok".into(), value, t),
						(Some(k), _) => (format!("err:{}@put", k), value, t),
						(_, Some(k)) => (format!("err:{}@commit", k), value, t),
					}
				}
				Err(e) => (format!("err:{}@batch", err_kind(&e)), "err|err".into(), Instant::now()),
			},
		}
	}));
	let (res, value, returned) = r.unwrap_or_else(|_| ("panic".to_string(), "panic".to_string(), Instant::now()));
	GateOp { who: who.to_string(), kind, issued, returned, committed, res, value, w_waiting, key, val }
}

struct RRes {
	/// lines before the window / the nested lookup / lines at the release
	head: Vec<(String, String)>,
	tail: Vec<(String, String)>,
	mid: Option<GateOp>,
	t_release: Option<Instant>,
	fails: Vec<String>,
}

fn slow_scenario(dir: String, seed: u64, kind: &'static str, hold_ms: u64) -> Vec<String> {
	global::set_local_chain_type(ChainTypes::AutomatedTesting);
	let mut sl = Sl { lines: vec![], sh: Shadow::default(), fails: 0, tag: format!("{} hold={}ms", kind, hold_ms) };
	let mut rng = Rng::new(seed ^ hold_ms ^ (kind.len() as u64) << 20);
	let store = Arc::new(open_store(&dir));
	let toks: Vec<String> = all_dbs().iter().map(|d| db_tok(*d)).collect();
	sl.line(&format!("kv new [{}]", toks.join(",")), "ok");
	// the targets of the reads
	let tag = 9000 + hold_ms;
	let body = rng.bytes(24);
	let mut ws: Vec<(Db, Vec<u8>, Vec<u8>)> = vec![];
	for i in 0..6u8 {
		ws.push((Some(b'A'), vec![b'k', b'0' + i], rng.bytes(20)));
		ws.push((Some(b'B'), vec![b'i', i], vec![i; 12]));
	}
	sl.plain_batch(&store, &ws, &[(Some(b'A'), b"slow".to_vec(), tag, body.clone())]);
	// fill above the threshold
	let mut n = 0u64;
	loop {
		let m = meta_info(&dir).unwrap_or((1, 0, 0));
		if m.1 * 4096 * 10 > 9 * m.0 || n > 60 {
			break;
		}
		let v = vec![n as u8; 60_000];
		sl.plain_batch(&store, &[(Some(b'Z'), format!("fill{:03}", n).into_bytes(), v)], &[]);
		n += 1;
	}
	let pre = meta_info(&dir).unwrap_or((0, 0, 0));
	sl.line(&format!("kv rz-new {} {}", pre.0, 1_048_576), "ok");
	let used = pre.1 * 4096;
	if used * 10 <= 9 * pre.0 {
		sl.oracle_fail(format!("could not fill the environment above the threshold (used {} of {})", used, pre.0));
	}
	let k1 = vec![b'k', b'1'];
	let want_exists = "true".to_string();
	let want_rec = format!("rec:{}:{}", tag, showval(&body));
	let want_iter = fmt_items(&Shadow::items(&sl.sh.committed, Some(b'B')));
	let rval = rng.bytes(100);

	// ---- thread R: the long-lived transaction
	let (ready_tx, ready_rx) = mpsc::channel::<()>();
	let (rres_tx, rres_rx) = mpsc::channel::<RRes>();
	{
		let store = store.clone();
		let k1 = k1.clone();
		let rval = rval.clone();
		thread::spawn(move || {
			global::set_local_chain_type(ChainTypes::AutomatedTesting);
			let mut rr = RRes { head: vec![], tail: vec![], mid: None, t_release: None, fails: vec![] };
			let r = std::panic::catch_unwind(std::panic::AssertUnwindSafe(|| {
				let hold = Duration::from_millis(hold_ms);
				let mut it = match store.iter(Some(b'B'), kvpair) {
					Ok(it) => it,
					Err(e) => {
						rr.fails.push(format!("R: Store::iter failed: {:?}", e));
						let _ = ready_tx.send(());
						return;
					}
				};
				rr.head.push(("kv it-open t1 66".into(), "ok".into()));
				if kind == "iter" {
					let mut v = vec![];
					if let Some(Ok(kv)) = it.next() {
						v.push(kv);
					}
					rr.head.push(("kv it-next t1 1".into(), fmt_items(&v)));
					let t_ready = Instant::now();
					let _ = ready_tx.send(());
					thread::sleep(hold / 2);
					rr.mid = Some(gate_op(&store, "r", "exists", k1.clone(), vec![], true));
					let el = t_ready.elapsed();
					if el < hold {
						thread::sleep(hold - el);
					}
					let mut v = vec![];
					let mut bad = false;
					for x in &mut it {
						match x {
							Ok(kv) => v.push(kv),
							Err(_) => {
								bad = true;
								break;
							}
						}
					}
					rr.tail.push(("kv it-next t1 1000000".into(), if bad { "err".into() } else { fmt_items(&v) }));
					rr.t_release = Some(Instant::now());
					drop(it);
					rr.tail.push(("kv it-close t1".into(), "ok".into()));
				} else {
					// the batch() call at the threshold: requests the resize, deferred behind R's own
					// iterator; R passes the gate as nested
					let mut b = match store.batch() {
						Ok(b) => b,
						Err(e) => {
							rr.fails.push(format!("R: Store::batch under its own iterator failed: {:?}", e));
							let _ = ready_tx.send(());
							return;
						}
					};
					rr.head.push(("kv begin".into(), "ok".into()));
					drop(it);
					rr.head.push(("kv it-close t1".into(), "ok".into()));
					let ans = fmt_unit(b.put(Some(b'A'), b"rkey", &rval));
					if ans != "ok" {
						rr.fails.push("R: put into the long-lived batch failed".to_string());
					}
					rr.head.push((format!("kv put 65 {} {}", hex(b"rkey"), valtok(&rval)), ans));
					let t_ready = Instant::now();
					let _ = ready_tx.send(());
					thread::sleep(hold / 2);
					// plain-store lookup of the un-committed key on the writer thread: nested, and invisible
					rr.mid = Some(gate_op(&store, "r", "exists", b"rkey".to_vec(), vec![], true));
					let el = t_ready.elapsed();
					if el < hold {
						thread::sleep(hold - el);
					}
					rr.t_release = Some(Instant::now());
					let ans = fmt_unit(b.commit());
					if ans != "ok" {
						rr.fails.push("R: commit of the long-lived batch failed".to_string());
					}
					rr.tail.push(("kv commit".into(), ans));
				}
			}));
			if r.is_err() {
				rr.fails.push("R panicked".to_string());
			}
			let _ = rres_tx.send(rr);
		});
	}
	if ready_rx.recv_timeout(Duration::from_secs(30)).is_err() {
		sl.oracle_fail("the long-lived transaction could not be opened".to_string());
		return sl.lines;
	}

	// ---- thread W and the waves
	let w_done = Arc::new(std::sync::atomic::AtomicBool::new(false));
	let (op_tx, op_rx) = mpsc::channel::<GateOp>();
	let t_w = Instant::now();
	{
		let store = store.clone();
		let w_done = w_done.clone();
		let op_tx = op_tx.clone();
		thread::spawn(move || {
			global::set_local_chain_type(ChainTypes::AutomatedTesting);
			let g = gate_op(&store, "w", "batch", b"wkey".to_vec(), vec![0x57u8; 30_000], false);
			w_done.store(true, std::sync::atomic::Ordering::SeqCst);
			let _ = op_tx.send(g);
		});
	}
	let waves: Vec<u64> = vec![400, hold_ms / 2, hold_ms.saturating_sub(1500).max(600)];
	let kinds: [&'static str; 4] = ["exists", "get_ser", "iter", "batch"];
	let mut expected = 1usize;
	for (wi, at) in waves.iter().enumerate() {
		let el = t_w.elapsed();
		if el < Duration::from_millis(*at) {
			thread::sleep(Duration::from_millis(*at) - el);
		}
		for (ki, kind) in kinds.iter().enumerate() {
			let store = store.clone();
			let op_tx = op_tx.clone();
			let who = format!("x{}.{}", wi, ki);
			let key = match *kind {
				"exists" => k1.clone(),
				"get_ser" => b"slow".to_vec(),
				"iter" => vec![],
				_ => format!("xkey{}", wi).into_bytes(),
			};
			let val = if *kind == "batch" { vec![0x58u8 + wi as u8; 2_000] } else { vec![] };
			let waiting = !w_done.load(std::sync::atomic::Ordering::SeqCst);
			let kind = *kind;
			expected += 1;
			thread::spawn(move || {
				global::set_local_chain_type(ChainTypes::AutomatedTesting);
				let g = gate_op(&store, &who, kind, key, val, waiting);
				let _ = op_tx.send(g);
			});
		}
	}
	drop(op_tx);

	// ---- collect (watchdog: the window plus a minute)
	let deadline = t_w + Duration::from_millis(hold_ms) + Duration::from_secs(60);
	let rr = match rres_rx.recv_timeout(deadline.saturating_duration_since(Instant::now())) {
		Ok(rr) => rr,
		Err(_) => {
			sl.oracle_fail("the thread holding the long-lived transaction never finished".to_string());
			return sl.lines;
		}
	};
	let mut ops: Vec<GateOp> = vec![];
	while ops.len() < expected {
		match op_rx.recv_timeout(deadline.saturating_duration_since(Instant::now()).max(Duration::from_millis(10))) {
			Ok(g) => ops.push(g),
			Err(_) => {
				let got: Vec<String> = ops.iter().map(|g| g.who.clone()).collect();
				sl.oracle_fail(format!(
					"STALL: {} of {} operations issued while the resize was pending have not returned {} s after the long-lived transaction was closed (returned: {})",
					expected - ops.len(), expected, 60, got.join(",")
				));
				break;
			}
		}
	}
	let stalled = ops.len() < expected;
	for f in rr.fails.iter() {
		sl.oracle_fail(f.clone());
	}
	let t_release = rr.t_release.unwrap_or_else(Instant::now);

	// ---- R's lines
	for (l, r) in rr.head.iter() {
		if l == "kv begin" {
			sl.sh.stack.push(vec![]);
			// R's batch() call requested the resize; its own commit leaves the old map in the meta page
			sl.line(&format!("kv rz-batch same=1 other=0 settled=1 used={}", used), "unobserved");
		}
		if l.starts_with("kv put 65") && r == "ok" {
			sl.sh.write((db_id(Some(b'A')), b"rkey".to_vec()), Some(rval.clone()));
		}
		sl.line(l, r);
	}
	let mut waits: Vec<String> = vec![];
	if let Some(g) = rr.mid.as_ref() {
		let ms = (g.returned - g.issued).as_millis();
		let wait = if g.res != "ok" {
			"failed"
		} else if ms < 1000 {
			"direct"
		} else {
			"blocked"
		};
		sl.line(&format!("kv gate-op r {} nested=1 pending=1", g.kind), &g.res);
		sl.line(&format!("kv gate-wait r {} nested=1 pending=1", g.kind), wait);
		let want = if kind == "iter" { "true" } else { "false" };
		if g.res != "ok" {
			sl.oracle_fail(format!("a lookup by the thread that holds the long-lived transaction, in the middle of the window, returned {}", g.res));
		} else if g.value != want {
			sl.oracle_fail(format!("exists({}) on the holder's thread answered {} (committed state: {})", hex(&g.key), g.value, want));
		}
		if wait == "blocked" {
			sl.oracle_fail(format!("the holder's own nested lookup waited {} ms at the gate (a thread inside a transaction must never wait for the resize it defers)", ms));
		}
		sl.line(&format!("kv read-outside r exists 65 {}", hex(&g.key)), &g.value);
		waits.push(format!("r/{}(nested):{}ms", g.kind, ms));
	} else {
		sl.oracle_fail("the holder's nested lookup was not performed".to_string());
	}
	for (l, r) in rr.tail.iter() {
		if l == "kv commit" {
			if r == "ok" {
				sl.sh.commit();
			} else {
				sl.sh.stack.pop();
			}
		}
		if l.starts_with("kv it-next t1 1000000") {
			let all = Shadow::items(&sl.sh.committed, Some(b'B'));
			let want = fmt_items(&all[1.min(all.len())..]);
			if *r != want {
				sl.oracle_fail(format!("the iterator held for {} ms yielded {} at its end but its snapshot has {}", hold_ms, r, want));
			}
		}
		sl.line(l, r);
	}

	// ---- the operations that arrived during the window: reads first, then the batches in commit order
	ops.sort_by(|a, b| a.who.cmp(&b.who));
	let mut batches: Vec<&GateOp> = vec![];
	for g in ops.iter() {
		let pending = g.issued + Duration::from_millis(200) < t_release;
		let ms = (g.returned - g.issued).as_millis();
		let wait = if g.res != "ok" {
			"failed"
		} else if !pending {
			"direct"
		} else if g.returned >= t_release {
			"blocked"
		} else {
			"early"
		};
		sl.line(&format!("kv gate-op {} {} nested=0 pending={}", g.who, g.kind, if pending { 1 } else { 0 }), &g.res);
		sl.line(&format!("kv gate-wait {} {} nested=0 pending={}", g.who, g.kind, if pending { 1 } else { 0 }), wait);
		waits.push(format!("{}/{}:{}ms{}", g.who, g.kind, ms, if g.w_waiting || g.who == "w" { "" } else { "(W already through)" }));
		if g.res != "ok" {
			sl.oracle_fail(format!(
				"{} issued {} ms after W's batch() found the map above the threshold (resize deferred behind a transaction open for {} ms) returned {} after waiting {} ms - operations must wait for the resize, not fail",
				g.kind, (g.issued - t_w).as_millis(), hold_ms, g.res, ms
			));
		}
		match g.kind {
			"exists" => {
				if g.res == "ok" && g.value != want_exists {
					sl.oracle_fail(format!("{} exists answered {} for a committed key", g.who, g.value));
				}
				sl.line(&format!("kv read-outside {} exists 65 {}", g.who, hex(&g.key)), &g.value);
			}
			"get_ser" => {
				if g.res == "ok" && g.value != want_rec {
					sl.oracle_fail(format!("{} get_ser answered {} but {} is committed", g.who, g.value, want_rec));
				}
				sl.line(&format!("kv read-outside {} getrec 65 {}", g.who, hex(&g.key)), &g.value);
			}
			"iter" => {
				if g.res == "ok" && g.value != want_iter {
					sl.oracle_fail(format!("{} iteration yielded {} but {} is committed", g.who, g.value, want_iter));
				}
				sl.line(&format!("kv read-outside {} iter 66", g.who), &g.value);
			}
			_ => batches.push(g),
		}
		if g.kind == "batch" && g.who == "w" && g.res == "ok" && g.returned < t_release {
			sl.oracle_fail(format!(
				"W's Store::batch() returned {} ms BEFORE the long-lived transaction was closed",
				(t_release - g.returned).as_millis()
			));
		}
	}
	batches.sort_by_key(|g| g.committed.unwrap_or(g.returned));
	for g in batches.iter() {
		let mut parts = g.value.split('|');
		let (p, c) = (parts.next().unwrap_or("err"), parts.next().unwrap_or("err"));
		if g.res.ends_with("@batch") || g.res == "panic" {
			// no batch came into being: the failure is on the `gate-op` line
			continue;
		}
		sl.sh.stack.push(vec![]);
		sl.line("kv begin", "ok");
		if p == "ok" {
			sl.sh.write((db_id(Some(b'Z')), g.key.clone()), Some(g.val.clone()));
		}
		sl.line(&format!("kv put 90 {} {}", hex(&g.key), valtok(&g.val)), p);
		if c == "ok" {
			sl.sh.commit();
		} else {
			sl.sh.stack.pop();
		}
		sl.line("kv commit", c);
	}
	// ---- afterwards
	let post = meta_info(&dir).unwrap_or((0, 0, 0));
	if !stalled {
		if post.0 <= pre.0 {
			sl.oracle_fail(format!(
				"usage {} of {} was above the threshold, the resize was deferred behind a transaction open for {} ms, and after everything was closed and {} batches committed the map is still {} bytes",
				used, pre.0, hold_ms, batches.len(), post.0
			));
		}
		let other = if kind == "iter" { 1 } else { 0 };
		sl.line(&format!("kv rz-batch same=0 other={} settled=1 used={}", other, used), &post.0.to_string());
		// the schedule the threads went through: R = 0, W = 1, the others 2..
		let mut seq: Vec<String> = vec!["e0".into(), "q".into()];
		if kind == "batch" {
			seq.extend(["e0".to_string(), "l0".to_string()]);
		}
		seq.extend(["e0".to_string(), "l0".to_string(), "l0".to_string(), "w".to_string()]);
		for i in 0..ops.len() {
			seq.push(format!("e{}", i + 1));
			seq.push(format!("l{}", i + 1));
		}
		if ops.iter().all(|g| g.res == "ok") && rr.fails.is_empty() {
			sl.line(&format!("kv txseq {} {}", ops.len() + 1, seq.join(",")), "completed:resizes=1");
		}
		let ans = fmt_get(&store.get_ser::<Vec<u8>>(Some(b'Z'), b"wkey", None));
		sl.line(&format!("kv read-outside main get 90 {}", hex(b"wkey")), &ans);
		if kind == "batch" {
			let ans = fmt_get(&store.get_ser::<Vec<u8>>(Some(b'A'), b"rkey", None));
			if ans != format!("some:{}", showval(&rval)) {
				sl.oracle_fail(format!("the long-lived batch committed but its key reads {}", ans));
			}
			sl.line(&format!("kv read-outside main get 65 {}", hex(b"rkey")), &ans);
		}
		let ans = dump_store(&store).unwrap_or_else(|_| "err".to_string());
		if ans != sl.sh.dump() {
			sl.oracle_fail("the committed state after the window differs from the committed batches".to_string());
		}
		sl.line("kv obs", &ans);
	}
	sl.raw(&format!(
		"#STAT slowreader {}: map {} -> {}; long-lived transaction open {} ms; {} operations issued during the window, {} failed; waits: {}",
		sl.tag.clone(), pre.0, post.0, hold_ms, ops.len(), ops.iter().filter(|g| g.res != "ok").count(), waits.join(" ")
	));
	sl.lines
}

fn mode_slowreader(work: &str, seed: u64, thorough: bool) {
	let holds: Vec<u64> = match std::env::var("KV_SLOW_HOLD_MS") {
		Ok(s) => s.split(',').filter_map(|x| x.trim().parse().ok()).collect(),
		Err(_) => {
			if thorough {
				vec![12_500, 45_000, 100_000]
			} else {
				vec![12_500]
			}
		}
	};
	let mut handles = vec![];
	for h in holds.iter() {
		for kind in ["iter", "batch"] {
			let dir = format!("{}/slow_{}_{}", work, kind, h);
			let h = *h;
			handles.push((kind, h, thread::spawn(move || slow_scenario(dir, seed, kind, h))));
		}
	}
	let mut out = Out::stdout();
	let mut total = 0usize;
	for (kind, h, jh) in handles {
		match jh.join() {
			Ok(lines) => {
				for l in lines {
					if l.starts_with('#') {
						out.raw(&l);
					} else {
						let (lhs, rhs) = l.split_once(" => ").unwrap_or((l.as_str(), ""));
						out.line(lhs, rhs);
						total += 1;
					}
				}
			}
			Err(_) => out.raw(&format!("#ORACLE-FAIL C18 slowreader {} hold={}ms: the scenario panicked", kind, h)),
		}
	}
	out.raw(&format!("#STAT slowreader total: {} scenarios, windows {:?} ms, {} lines", holds.len() * 2, holds, total));
	out.flush();
}

// ---------------------------------------------------------------------------------------------
// mode newprobe (NOT part of the check; run by hand): `Store::new` on an environment that is
// already open takes an LMDB write transaction WITHOUT the resize gate (Gen/KvGate.lean,
// `ungatedTxnFns`).  A thread creating handles in a loop while a deferred resize is released:
// does the waiter's env.resize() meet an open, uncounted write transaction?
// ---------------------------------------------------------------------------------------------
fn mode_newprobe(work: &str, _seed: u64, _thorough: bool) {
	let rounds: u64 = std::env::var("KV_PROBE_ROUNDS").ok().and_then(|s| s.parse().ok()).unwrap_or(6);
	let mut out = Out::stdout();
	let (mut grown, mut not_grown) = (0u64, 0u64);
	for round in 0..rounds {
		let dir = format!("{}/newprobe{}", work, round);
		let store = Arc::new(open_store(&dir));
		let mut n = 0u64;
		loop {
			let m = meta_info(&dir).unwrap_or((1, 0, 0));
			if m.1 * 4096 * 10 > 9 * m.0 || n > 60 {
				break;
			}
			let mut b = store.batch().unwrap();
			b.put(Some(b'Z'), format!("fill{:03}", n).as_bytes(), &vec![n as u8; 60_000]).unwrap();
			b.commit().unwrap();
			n += 1;
		}
		let pre = meta_info(&dir).unwrap_or((0, 0, 0));
		let it = store.iter(Some(b'Z'), kvpair).unwrap();
		let stop = Arc::new(std::sync::atomic::AtomicBool::new(false));
		let news = {
			let dir = dir.clone();
			let stop = stop.clone();
			thread::spawn(move || {
				global::set_local_chain_type(ChainTypes::AutomatedTesting);
				let (mut ok, mut bad) = (0u64, 0u64);
				while !stop.load(std::sync::atomic::Ordering::SeqCst) {
					match Store::new(&dir, None, None, DBS.to_vec(), None, None) {
						Ok(_) => ok += 1,
						Err(_) => bad += 1,
					}
				}
				(ok, bad)
			})
		};
		let w = {
			let store = store.clone();
			thread::spawn(move || {
				global::set_local_chain_type(ChainTypes::AutomatedTesting);
				let mut b = store.batch().map_err(|e| format!("{:?}", e))?;
				b.put(Some(b'Z'), b"wkey", &vec![7u8; 30_000]).map_err(|e| format!("{:?}", e))?;
				b.commit().map_err(|e| format!("{:?}", e))
			})
		};
		thread::sleep(Duration::from_millis(400));
		drop(it);
		let wres = w.join().unwrap_or(Err("panic".to_string()));
		let post = meta_info(&dir).unwrap_or((0, 0, 0));
		stop.store(true, std::sync::atomic::Ordering::SeqCst);
		let (ok, bad) = news.join().unwrap_or((0, 0));
		if post.0 > pre.0 {
			grown += 1;
		} else {
			not_grown += 1;
		}
		out.raw(&format!(
			"#STAT newprobe round {}: used {} of {}; W's batch after the deferred resize: {:?}; map after W's commit {}; Store::new calls meanwhile: {} ok {} failed",
			round, pre.1 * 4096, pre.0, wres, post.0, ok, bad
		));
		out.flush();
	}
	out.raw(&format!("#STAT newprobe total: deferred resize took effect in {} rounds, did NOT in {} rounds", grown, not_grown));
	out.flush();
}


// ---------------------------------------------------------------------------------------------
// run `migrate`: the one-time migration inside `Store::new` (old single-db environment with
// `p ':' rest` keys -> multi-db environment), its marker, its head-room resize, restarts
// ---------------------------------------------------------------------------------------------
const MIG_DB: &str = "chain";
const MIG_MARKER: &[u8] = b"__grin_migration_complete";

fn mig_open(root: &str, env_name: Option<&str>, prefixes: Vec<u8>, tx: Option<mpsc::Sender<i8>>) -> Result<Store, Error> {
	global::set_local_chain_type(ChainTypes::AutomatedTesting);
	Store::new(root, env_name, Some(MIG_DB), prefixes, None, tx)
}

/// (map size, last page) of the newest meta page of `<envdir>/data.mdb`
fn meta_of(envdir: &std::path::Path) -> Option<(u64, u64)> {
	let mut f = std::fs::File::open(envdir.join("data.mdb")).ok()?;
	let mut buf = vec![0u8; 2 * 4096];
	f.read_exact(&mut buf).ok()?;
	let rd = |o: usize| u64::from_le_bytes(buf[o..o + 8].try_into().unwrap());
	let mut best: Option<(u64, u64, u64)> = None;
	for pg in 0..2 {
		let b = pg * 4096 + 16;
		let magic = u32::from_le_bytes(buf[b..b + 4].try_into().unwrap());
		if magic != 0xBEEFC0DE {
			continue;
		}
		let m = (rd(b + 16), rd(b + 24 + 96), rd(b + 24 + 96 + 8));
		if best.map(|x| m.2 >= x.2).unwrap_or(true) {
			best = Some(m);
		}
	}
	best.map(|m| (m.0, m.1))
}

/// where the migration must put an old record (None = unknown key space: skipped by design)
fn mig_target(k: &[u8]) -> Option<(Db, Vec<u8>)> {
	if k.len() > 1 && k[1] == b':' {
		if DBS.contains(&k[0]) {
			Some((Some(k[0]), k[2..].to_vec()))
		} else {
			None
		}
	} else {
		Some((None, k.to_vec()))
	}
}

/// the process that runs a migrating `Store::new` and dies on a chosen progress message
fn migrate_child(root: &str, kind: &str) {
	let (tx, rx) = mpsc::channel::<i8>();
	let kind = kind.to_string();
	thread::spawn(move || {
		for v in rx.iter() {
			let hit = match kind.as_str() {
				"start" => v == 0,
				"mid" => v > 0 && v < 100,
				"late" => v >= 90 && v < 100,
				"done" => v == 100,
				_ => false,
			};
			if hit {
				unsafe {
					libc::kill(libc::getpid(), libc::SIGKILL);
				}
			}
		}
	});
	let r = mig_open(root, None, DBS.to_vec(), Some(tx));
	// not killed: say so and exit normally
	println!("child-finished {}", r.is_ok());
	drop(r);
}

fn mode_migrate(work: &str, seed: u64, thorough: bool) {
	let mut out = Out::stdout();
	let mut rng = Rng::new(seed ^ 0x6d69_6772);
	let exe = std::env::current_exe().expect("current_exe");
	let toks: Vec<String> = all_dbs().iter().map(|d| db_tok(*d)).collect();
	let mut n_scen = 0u64;
	let mut n_recs = 0u64;
	let mut n_skipped = 0u64;
	let mut n_resized = 0u64;
	let mut n_failed = 0u64;
	let mut n_pre = 0u64;
	let mut crash_points: BTreeMap<String, u64> = BTreeMap::new();
	let mut partial_deletes: BTreeMap<String, u64> = BTreeMap::new();
	let mut oracle_fails = 0u64;
	// (name, record generator kind, crash kind, pre-existing records in the new environment)
	let mut scen: Vec<(&str, &str, Option<&str>, bool)> = vec![
		("edge", "edge", None, false),
		("random", "random", None, false),
		("random-pre", "random", None, true),
		("big", "big", None, false),
		("big", "big", None, false),
		("big-pre", "big", None, true),
		("empty-rest", "bad", None, false),
		("empty-old", "none", None, false),
		("crash-start", "many", Some("start"), false),
		("crash-mid", "many", Some("mid"), true),
		("crash-late", "many", Some("late"), false),
		("crash-done", "many", Some("done"), false),
		("crash-mid-big", "big", Some("mid"), false),
	];
	if thorough {
		for _ in 0..6 {
			scen.push(("random", "random", None, false));
			scen.push(("random-pre", "random", None, true));
			scen.push(("crash-mid", "many", Some("mid"), false));
			scen.push(("crash-done", "many", Some("done"), true));
			scen.push(("big", "big", None, true));
		}
	}
	for (si, (name, gen, crash, pre)) in scen.iter().enumerate() {
		n_scen += 1;
		let root = format!("{}/mig_{}", work, si);
		let stage = format!("{}/mig_{}_stage", work, si);
		let _ = std::fs::remove_dir_all(&root);
		let _ = std::fs::remove_dir_all(&stage);
		// ---- the old environment's records
		let mut recs: BTreeMap<Vec<u8>, Vec<u8>> = BTreeMap::new();
		let small_key = |rng: &mut Rng| -> Vec<u8> {
			let first = *rng.pick(&[b'A', b'B', b'Z', b'Q', b'H', b':', 0u8, 0xffu8]);
			let mut k = vec![first];
			match rng.below(5) {
				0 => {}
				1 => k.push(b':'),
				2 => {
					k.push(b':');
					k.extend({ let n_ = rng.range(1, 12) as usize; rng.bytes(n_) });
				}
				3 => {
					k.push(b';');
					k.extend({ let n_ = rng.range(0, 6) as usize; rng.bytes(n_) });
				}
				_ => {
					k.push(b':');
					k.push(b':');
					k.extend({ let n_ = rng.range(0, 3) as usize; rng.bytes(n_) });
				}
			}
			k
		};
		match *gen {
			"edge" => {
				for k in [
					vec![b'A'],
					vec![b'A', b'B'],
					vec![b'A', b':', b'x'],
					vec![b'A', b':', b':'],
					vec![b'A', b':', b':', b'y'],
					vec![b'B', b':', 0],
					vec![b'B', b':', 0xff, 0xff],
					vec![b'Z', b':', b'A', b':', b'k'],
					vec![b'Q', b':', b'u', b'n', b'k'],
					vec![b':', b':', b'c'],
					vec![b'H'],
					vec![b'x', b'y', b':', b'z'],
					vec![0, b':', 1],
					[b"A:".to_vec(), vec![7u8; 509]].concat(),
					vec![9u8; 511],
				] {
					let v = { let n_ = rng.range(0, 40) as usize; rng.bytes(n_) };
					recs.insert(k, v);
				}
			}
			"random" | "many" | "bad" => {
				let n = if *gen == "many" { rng.range(300, 500) } else { rng.range(20, 90) };
				for _ in 0..n {
					let k = small_key(&mut rng);
					if k.len() == 2 && k[1] == b':' && DBS.contains(&k[0]) {
						continue; // empty rest: only in the `bad` scenario
					}
					let v = if rng.chance(1, 12) { { let b_ = rng.below(256) as u8; let n_ = rng.range(49, 3000) as usize; vec![b_; n_] } } else { { let n_ = rng.range(0, 48) as usize; rng.bytes(n_) } };
					recs.insert(k, v);
				}
				if *gen == "bad" {
					recs.insert(vec![b'B', b':'], vec![1, 2, 3]);
				}
			}
			"big" => {
				let nbig = rng.range(9, 44) as u8;
				for i in 0..nbig {
					let mut k = vec![*rng.pick(&[b'A', b'B', b'Z']), b':'];
					k.extend_from_slice(&[i, i ^ 0x5a]);
					recs.insert(k, vec![i; 48 * 1024 + i as usize]);
				}
				for _ in 0..20 {
					let k = small_key(&mut rng);
					if k.len() == 2 && k[1] == b':' && DBS.contains(&k[0]) {
						continue;
					}
					recs.insert(k, rng.bytes(8));
				}
			}
			_ => {}
		}
		recs.remove(&Vec::<u8>::new());
		n_recs += recs.len() as u64;
		// ---- build it as a real LMDB environment with the database name the migration will ask for
		{
			let st = mig_open(&stage, None, vec![], None).expect("stage store");
			let items: Vec<(&Vec<u8>, &Vec<u8>)> = recs.iter().collect();
			for chunk in items.chunks(if *gen == "big" { 1 } else { 25 }) {
				let mut b = st.batch().expect("stage batch");
				for (k, v) in chunk {
					b.put(None, k, v).expect("stage put");
				}
				b.commit().expect("stage commit");
			}
		}
		out.line(&format!("kv new [{}]", toks.join(",")), "ok");
		// ---- the new environment exists already (and may hold records, which a migration clears)
		{
			let st = mig_open(&root, None, DBS.to_vec(), None).expect("new store");
			if *pre {
				n_pre += 1;
				let mut b = st.batch().expect("batch");
				out.line("kv begin", "ok");
				for _ in 0..rng.range(1, 6) {
					let db = *rng.pick(&all_dbs());
					let k = { let n_ = rng.range(1, 5) as usize; rng.bytes(n_) };
					let v = { let n_ = rng.range(0, 20) as usize; rng.bytes(n_) };
					let r = b.put(db, &k, &v);
					out.line(&format!("kv put {} {} {}", db_tok(db), hex(&k), valtok(&v)), if r.is_ok() { "ok" } else { "err" });
				}
				let r = b.commit();
				out.line("kv commit", if r.is_ok() { "ok" } else { "err" });
				out.line("kv obs", &dump_store(&st).unwrap_or_else(|_| "err".into()));
			}
		}
		let new_env = std::path::Path::new(&root).join("multi_lmdb");
		let old_env = std::path::Path::new(&root).join("lmdb");
		let to_meta = meta_of(&new_env);
		if *gen != "none" {
			std::fs::rename(std::path::Path::new(&stage).join("multi_lmdb"), &old_env).expect("move old env in place");
			let parts: Vec<String> = recs.iter().map(|(k, v)| format!("{}={}", hex(k), valtok(v))).collect();
			out.line(&format!("kv mig_old [{}]", parts.join(",")), "ok");
		}
		let from_meta = meta_of(&old_env);
		let old_backup: Option<std::path::PathBuf> = if *gen != "none" && *gen != "bad" {
			let b = std::path::Path::new(&stage).join("old_copy");
			std::fs::create_dir_all(&b).expect("backup dir");
			for f in ["data.mdb", "lock.mdb"] {
				let _ = std::fs::copy(old_env.join(f), b.join(f));
			}
			Some(b)
		} else {
			None
		};
		// ---- a process that dies inside the migration
		if let Some(kind) = crash {
			let mut child = std::process::Command::new(&exe)
				.args(["migrate-child", &root, kind])
				.stdin(std::process::Stdio::null())
				.stdout(std::process::Stdio::piped())
				.stderr(std::process::Stdio::null())
				.spawn()
				.expect("spawn migrate child");
			let outp = child.wait_with_output().expect("wait");
			let txt = String::from_utf8_lossy(&outp.stdout).to_string();
			let killed = !txt.contains("child-finished");
			// what is on disk now decides which of the model's crash states this is
			let (label, dump) = {
				let st = mig_open(&root, Some("multi_lmdb"), DBS.to_vec(), None).expect("open without migration");
				let marker = st.exists(None, MIG_MARKER).unwrap_or(false);
				let label = if !marker { "afterClear" } else if old_env.exists() { "afterCommit" } else { "afterDelete" };
				(label, dump_store(&st).unwrap_or_else(|_| "err".into()))
			};
			*crash_points.entry(format!("{}:{}{}", kind, label, if killed { "" } else { "(not killed)" })).or_insert(0) += 1;
			out.line(&format!("kv mig_crash {}", label), "ok");
			out.line("kv obs", &dump);
			out.line("kv mig_olddir", if old_env.exists() { "present" } else { "gone" });
		}
		// ---- the (re)start that migrates
		let (ptx, prx) = mpsc::channel::<i8>();
		let res = mig_open(&root, None, DBS.to_vec(), Some(ptx));
		let progress: Vec<i8> = prx.try_iter().collect();
		out.line("kv mig_run", if res.is_ok() { "ok" } else { "err" });
		match res {
			Ok(st) => {
				if let (Some(tm), Some(fm), Some(am)) = (to_meta, from_meta, meta_of(&new_env)) {
					if crash.is_none() && *gen != "none" {
						out.line(&format!("kv mig_size {} {} {} {}", tm.1 * 4096, fm.1 * 4096, 1048576, tm.0), &am.0.to_string());
						if am.0 > tm.0 {
							n_resized += 1;
						}
					}
				}
				let dump = dump_store(&st).unwrap_or_else(|_| "err".into());
				out.line("kv obs", &dump);
				out.line("kv mig_olddir", if old_env.exists() { "present" } else { "gone" });
				// the oracle on the implementation: nothing lost, nothing invented
				if *gen != "none" && !*pre || crash.is_some() || true {
					let mut want: BTreeMap<(u16, Vec<u8>), Vec<u8>> = BTreeMap::new();
					for (k, v) in recs.iter() {
						match mig_target(k) {
							Some((db, kk)) => {
								want.insert((db_id(db), kk), v.clone());
							}
							None => n_skipped += 1,
						}
					}
					if *gen != "none" {
						want.insert((0, MIG_MARKER.to_vec()), b"1".to_vec());
					}
					let mut got: BTreeMap<(u16, Vec<u8>), Vec<u8>> = BTreeMap::new();
					for db in all_dbs() {
						if let Ok(v) = collect_iter(st.iter(db, kvpair)) {
							for (k, val) in v {
								got.insert((db_id(db), k), val);
							}
						}
					}
					for (k, v) in want.iter() {
						match got.get(k) {
							Some(g) if g == v => {}
							Some(_) => {
								oracle_fails += 1;
								out.raw(&format!("#ORACLE-FAIL C18 migration [{}]: record db={} key={} arrived with a different value", name, k.0, hex(&k.1)));
							}
							None => {
								oracle_fails += 1;
								out.raw(&format!("#ORACLE-FAIL C18 migration [{}]: committed record of the old environment lost: db={} key={} ({} old records)", name, k.0, hex(&k.1), recs.len()));
							}
						}
					}
					for k in got.keys() {
						if !want.contains_key(k) && *gen != "none" {
							oracle_fails += 1;
							out.raw(&format!("#ORACLE-FAIL C18 migration [{}]: record db={} key={} is in the new environment but was not in the old one", name, k.0, hex(&k.1)));
						}
					}
					if *gen != "none" && crash.is_none() && (progress.first() != Some(&0) || progress.last() != Some(&100)) {
						oracle_fails += 1;
						out.raw(&format!("#ORACLE-FAIL C18 migration [{}]: progress messages {:?} do not run from 0 to 100", name, progress));
					}
				}
				// the migrated store is an ordinary store: one more batch, then a restart that must not migrate again
				{
					let mut b = st.batch().expect("batch after migration");
					out.line("kv begin", "ok");
					let k = vec![b'n', si as u8];
					let r = b.put(Some(b'A'), &k, b"after");
					out.line(&format!("kv put {} {} {}", db_tok(Some(b'A')), hex(&k), valtok(b"after")), if r.is_ok() { "ok" } else { "err" });
					let r = b.commit();
					out.line("kv commit", if r.is_ok() { "ok" } else { "err" });
				}
				drop(st);
				match mig_open(&root, None, DBS.to_vec(), None) {
					Ok(st) => {
						out.line("kv mig_run", "ok");
						out.line("kv obs", &dump_store(&st).unwrap_or_else(|_| "err".into()));
					}
					Err(_) => out.line("kv mig_run", "err"),
				}
				// a process that died INSIDE `remove_dir_all` of the old directory: the marker is set and
				// the directory is still there with only some of its entries (data.mdb | lock.mdb | none).
				// Rebuilt from a copy of the old environment taken before the migration.
				if let Some(bak) = &old_backup {
					let variants: [(&str, &[&str]); 3] = [("data.mdb only", &["data.mdb"]), ("lock.mdb only", &["lock.mdb"]), ("empty directory", &[])];
					let (vname, files) = variants[si % 3];
					std::fs::create_dir_all(&old_env).expect("recreate old dir");
					for f in files.iter() {
						let _ = std::fs::copy(bak.join(f), old_env.join(f));
					}
					*partial_deletes.entry(vname.to_string()).or_insert(0) += 1;
					if files.contains(&"data.mdb") {
						let parts: Vec<String> = recs.iter().map(|(k, v)| format!("{}={}", hex(k), valtok(v))).collect();
						out.line(&format!("kv mig_old [{}]", parts.join(",")), "ok");
					} else {
						out.line("kv mig_old []", "ok");
					}
					out.line("kv mig_olddir", if old_env.exists() { "present" } else { "gone" });
					match mig_open(&root, None, DBS.to_vec(), None) {
						Ok(st) => {
							out.line("kv mig_run", "ok");
							out.line("kv obs", &dump_store(&st).unwrap_or_else(|_| "err".into()));
						}
						Err(e) => {
							out.line("kv mig_run", "err");
							oracle_fails += 1;
							out.raw(&format!("#ORACLE-FAIL C18 migration [{}]: restart after a crash inside the removal of the old directory ({}) refused: {:?}", name, vname, e));
						}
					}
					out.line("kv mig_olddir", if old_env.exists() { "present" } else { "gone" });
				}
			}
			Err(_) => {
				n_failed += 1;
				// refused: the new environment must be empty, the old one untouched
				let st = mig_open(&root, Some("multi_lmdb"), DBS.to_vec(), None).expect("open without migration");
				out.line("kv obs", &dump_store(&st).unwrap_or_else(|_| "err".into()));
				out.line("kv mig_olddir", if old_env.exists() { "present" } else { "gone" });
			}
		}
		let _ = std::fs::remove_dir_all(&root);
		let _ = std::fs::remove_dir_all(&stage);
	}
	let cp: Vec<String> = crash_points.iter().map(|(k, v)| format!("{}={}", k, v)).collect();
	let pd: Vec<String> = partial_deletes.iter().map(|(k, v)| format!("{}={}", k, v)).collect();
	out.raw(&format!(
		"#STAT [migrate] scenarios={} old records={} (unknown key space, skipped by design: {}) migrations that enlarged the map first={} refused (empty key after the prefix)={} new environment held records before={} processes killed inside Store::new by progress message -> state found on disk: {}; restarts from a half-removed old directory (marker set): {}; oracle failures={}",
		n_scen, n_recs, n_skipped, n_resized, n_failed, n_pre, cp.join(" "), pd.join(" "), oracle_fails
	));
	out.flush();
}


// ---------------------------------------------------------------------------------------------
// `dropprobe` (not part of the check: the child may die): a `DatabaseIterator` handed out by
// `Store::iter` is not tied to the lifetime of the `Store`; what happens when every `Store` of the
// environment is dropped first
// ---------------------------------------------------------------------------------------------
fn dropprobe_child(dir: &str, kind: &str) {
	global::set_local_chain_type(ChainTypes::AutomatedTesting);
	let store = open_store(dir);
	{
		let mut b = store.batch().unwrap();
		for i in 0..5u8 {
			b.put(Some(b'A'), &[b'k', i], &[i; 4]).unwrap();
		}
		b.commit().unwrap();
	}
	let keep = if kind == "second-handle" { Some(open_store(dir)) } else { None };
	let mut it = store.iter(Some(b'A'), kvpair).unwrap();
	println!("step iterator-open");
	drop(store);
	println!("step store-dropped");
	if kind == "reopen-then-drop" {
		// a new `Store` registers the environment afresh (open transaction count 0) while the old
		// iterator's read transaction is still open; dropping the iterator then decrements that count
		let store2 = open_store(dir);
		println!("step second-store-opened");
		let r = catch(std::panic::AssertUnwindSafe(|| drop(it)));
		println!("step iterator-dropped {}", if r.is_ok() { "ok" } else { "PANIC" });
		// grow until a resize is due: every batch() must return
		for i in 0..80u32 {
			println!("step batch {}", i);
			let mut b = store2.batch().unwrap();
			b.put(Some(b'Z'), &i.to_be_bytes(), &vec![7u8; 60_000]).unwrap();
			if b.commit().is_err() {
				println!("step commit-failed {}", i);
				return;
			}
		}
		println!("step grew-through-80-batches");
		return;
	}
	let mut n = 0;
	while let Some(r) = it.next() {
		if r.is_ok() {
			n += 1;
		}
	}
	println!("step iterated {}", n);
	let r = catch(std::panic::AssertUnwindSafe(|| drop(it)));
	println!("step iterator-dropped {}", if r.is_ok() { "ok" } else { "PANIC" });
	drop(keep);
	// is the environment usable afterwards
	let r = catch(std::panic::AssertUnwindSafe(|| {
		let s = open_store(dir);
		let b = s.batch().map(|b| b.commit().is_ok()).unwrap_or(false);
		b
	}));
	println!("step reopen-and-batch {:?}", r.map_err(|_| "PANIC"));
}

fn mode_dropprobe(work: &str) {
	let exe = std::env::current_exe().expect("current_exe");
	let mut out = Out::stdout();
	for kind in ["only-handle", "second-handle", "reopen-then-drop"] {
		let dir = format!("{}/dropprobe_{}", work, kind);
		let mut child = std::process::Command::new(&exe)
			.args(["dropprobe-child", &dir, kind])
			.stdout(std::process::Stdio::piped())
			.spawn()
			.expect("spawn");
		let t0 = Instant::now();
		let mut hung = false;
		loop {
			match child.try_wait() {
				Ok(Some(_)) => break,
				_ => {}
			}
			if t0.elapsed() > Duration::from_secs(40) {
				hung = true;
				let _ = child.kill();
				break;
			}
			thread::sleep(Duration::from_millis(50));
		}
		let o = child.wait_with_output().expect("wait");
		let all = String::from_utf8_lossy(&o.stdout).to_string();
		let lines: Vec<&str> = all.lines().collect();
		let shown: Vec<&str> = if lines.len() > 12 { [&lines[..6], &["..."], &lines[lines.len() - 3..]].concat() } else { lines.clone() };
		out.raw(&format!("#STAT [dropprobe] {}: exit={:?}{} steps: {}", kind, o.status.code(), if hung { " HUNG (killed after 40 s)" } else { "" }, shown.join(" | ")));
	}
	out.flush();
}


// ---------------------------------------------------------------------------------------------
// run `shared`: the one-time migration of ONE store into an environment that ANOTHER Store handle
// (another database name, other key spaces) already uses - as the node opens ChainStore and
// PeerStore under one root.  The head-room computed before the copy has to count what the shared
// environment already holds.
// ---------------------------------------------------------------------------------------------
fn shared_dump(store: &Store, dbs: &[Db]) -> String {
	let mut items = vec![];
	for db in dbs {
		match collect_iter(store.iter(*db, kvpair)) {
			Ok(v) => {
				for (k, val) in v {
					items.push((db_id(*db), k, val));
				}
			}
			Err(_) => return "err".into(),
		}
	}
	dump_fmt(&items)
}

fn mode_shared(work: &str, seed: u64, thorough: bool) {
	const CHUNK: u64 = 1_048_576;
	let mut out = Out::stdout();
	let mut rng = Rng::new(seed ^ 0x5348_4152);
	let first_dbs: Vec<Db> = vec![None, Some(b'A'), Some(b'B')];
	let second_dbs: Vec<Db> = vec![None, Some(b'Z')];
	// how much the first store commits before the second one migrates in (bytes), and the legacy size
	let mut levels: Vec<(u64, u64)> = vec![
		(300_000, 800_000),
		(1_100_000, 800_000),
		(1_400_000, 800_000),
		(2_200_000, 800_000),
		(2_500_000, 800_000),
		(2_650_000, 800_000),
		(2_500_000, 200_000),
		(2_500_000, 1_700_000),
	];
	if thorough {
		for k in 0..10u64 {
			levels.push((200_000 + k * 450_000, 300_000 + (k % 4) * 500_000));
		}
	}
	let (mut n_resized, mut n_cmp, mut oracle_fails) = (0u64, 0u64, 0u64);
	let mut shapes: Vec<String> = vec![];
	for (si, (fill, legacy)) in levels.iter().enumerate() {
		let root = format!("{}/shared_{}", work, si);
		let stage = format!("{}/shared_{}_stage", work, si);
		let _ = std::fs::remove_dir_all(&root);
		let _ = std::fs::remove_dir_all(&stage);
		global::set_local_chain_type(ChainTypes::AutomatedTesting);
		// ---- the first store: its own database name and key spaces, `fill` bytes committed
		let first = Store::new(&root, None, Some("chain"), vec![b'A', b'B'], None, None).expect("first store");
		let mut first_recs: BTreeMap<(u16, Vec<u8>), Vec<u8>> = BTreeMap::new();
		let mut written = 0u64;
		let mut i = 0u32;
		while written < *fill {
			let mut b = first.batch().expect("first batch");
			// one 32 KB record per batch: a batch must fit into the tenth of the map that is free
			// when the resize trigger has not fired yet
			for _ in 0..1 {
				let db = *rng.pick(&first_dbs);
				let k = [b"f".to_vec(), i.to_be_bytes().to_vec()].concat();
				let len = ((*fill - written).min(32_768)).max(1) as usize;
				let v = vec![(i % 251) as u8; len];
				b.put(db, &k, &v).expect("first put");
				first_recs.insert((db_id(db), k), v);
				written += len as u64;
				i += 1;
				if written >= *fill {
					break;
				}
			}
			b.commit().expect("first commit");
		}
		let first_digest = |st: &Store| -> String { hex(&fnv32(shared_dump(st, &first_dbs).as_bytes()).to_be_bytes()) };
		let want_first = {
			let items: Vec<(u16, Vec<u8>, Vec<u8>)> = first_recs.iter().map(|((d, k), v)| (*d, k.clone(), v.clone())).collect();
			hex(&fnv32(dump_fmt(&items).as_bytes()).to_be_bytes())
		};
		out.line("kv new [def,90]", "ok");
		out.line(&format!("kv other_set {}", want_first), "ok");
		out.line("kv other_obs", &first_digest(&first));
		// ---- the legacy environment of the second store
		let mut recs: BTreeMap<Vec<u8>, Vec<u8>> = BTreeMap::new();
		{
			let st = Store::new(&stage, None, Some("peer"), vec![], None, None).expect("stage store");
			let mut w = 0u64;
			let mut j = 0u32;
			while w < *legacy {
				let mut b = st.batch().expect("stage batch");
				let k = if j % 3 == 0 { [b"p".to_vec(), j.to_be_bytes().to_vec()].concat() } else { [b"Z:".to_vec(), j.to_be_bytes().to_vec()].concat() };
				let len = ((*legacy - w).min(32_768)).max(1) as usize;
				let v = vec![(j % 249) as u8; len];
				b.put(None, &k, &v).expect("stage put");
				b.commit().expect("stage commit");
				recs.insert(k, v);
				w += len as u64;
				j += 1;
			}
		}
		let new_env = std::path::Path::new(&root).join("multi_lmdb");
		let old_env = std::path::Path::new(&root).join("peer_old");
		std::fs::rename(std::path::Path::new(&stage).join("multi_lmdb"), &old_env).expect("move legacy env");
		let parts: Vec<String> = recs.iter().map(|(k, v)| format!("{}={}", hex(k), valtok(v))).collect();
		out.line(&format!("kv mig_old [{}]", parts.join(",")), "ok");
		let to_meta = meta_of(&new_env);
		let from_meta = meta_of(&old_env);
		// ---- the second store migrates into the shared environment while the first handle is alive
		let res = Store::new(&root, Some("peer_old"), Some("peer"), vec![b'Z'], None, None);
		out.line("kv mig_run", if res.is_ok() { "ok" } else { "err" });
		let shape = match (to_meta, from_meta, meta_of(&new_env)) {
			(Some(tm), Some(fm), Some(am)) => {
				out.line(&format!("kv mig_size {} {} {} {}", tm.1 * 4096, fm.1 * 4096, CHUNK, tm.0), &am.0.to_string());
				n_cmp += 1;
				if am.0 > tm.0 {
					n_resized += 1;
				}
				format!("shared-env used {} of {} + legacy {} -> map {}", tm.1 * 4096, tm.0, fm.1 * 4096, am.0)
			}
			_ => "no meta".to_string(),
		};
		shapes.push(shape.clone());
		match res {
			Ok(second) => {
				out.line("kv obs", &shared_dump(&second, &second_dbs));
				out.line("kv mig_olddir", if old_env.exists() { "present" } else { "gone" });
				out.line("kv other_obs", &first_digest(&first));
				// nothing lost on either side
				for (k, v) in recs.iter() {
					let (db, kk) = if k.len() > 1 && k[1] == b':' { (Some(k[0]), k[2..].to_vec()) } else { (None, k.clone()) };
					match second.get_ser::<RawVal>(db, &kk, None) {
						Ok(Some(g)) if &g.0 == v => {}
						other => {
							oracle_fails += 1;
							out.raw(&format!("#ORACLE-FAIL C18 shared-environment migration [{}]: record {} of the migrating store reads {:?}", shape, hex(k), other.map(|o| o.map(|x| x.0.len()))));
							break;
						}
					}
				}
				// both keep writing
				for round in 0..3u8 {
					for (who, st, db) in [("first", &first, Some(b'A')), ("second", &second, Some(b'Z'))] {
						let r = st.batch().and_then(|mut b| {
							b.put(db, &[b'w', round, si as u8], &vec![round; 40_000])?;
							b.commit()
						});
						if let Err(e) = r {
							oracle_fails += 1;
							out.raw(&format!("#ORACLE-FAIL C18 shared-environment migration [{}]: the {} store cannot write afterwards (round {}): {:?}", shape, who, round, e));
						}
					}
				}
			}
			Err(e) => {
				oracle_fails += 1;
				out.raw(&format!(
					"#ORACLE-FAIL C18 shared-environment migration refused: first store (db chain, key spaces A,B) committed {} bytes, legacy environment of {} bytes for the second store (db peer, key space Z), {}: Store::new -> {:?}",
					written, legacy, shape, e
				));
				out.line("kv other_obs", &first_digest(&first));
			}
		}
		drop(first);
		let _ = std::fs::remove_dir_all(&root);
		let _ = std::fs::remove_dir_all(&stage);
	}
	out.raw(&format!(
		"#STAT [shared] scenarios={} head-room compared with the model={} migrations that enlarged the shared map first={} oracle failures={}; {}",
		levels.len(), n_cmp, n_resized, oracle_fails, shapes.join("; ")
	));
	out.flush();
}

/// raw bytes as a `Readable` (the whole stored value)
struct RawVal(Vec<u8>);
impl Readable for RawVal {
	fn read<R: Reader>(reader: &mut R) -> Result<RawVal, ser::Error> {
		let mut v = vec![];
		while let Ok(b) = reader.read_u8() {
			v.push(b);
		}
		Ok(RawVal(v))
	}
}


// ---------------------------------------------------------------------------------------------
// run `deferred`: the DEFERRED resize at every step of the growth sequence.  A resize falls due
// while a transaction is open (an iterator of another thread, or the calling thread's own iterator
// and then its batch); the waiter thread resizes after everything is closed; meanwhile threads that
// are allowed through the gate commit MORE data; threads parked at the gate proceed afterwards and
// write more than the old map had room for.  Nothing may fail for lack of space and the map after
// the wait must be at least the planned size and a whole number of chunks (hence pages).
// ---------------------------------------------------------------------------------------------
fn mode_deferred(work: &str, seed: u64, thorough: bool) {
	const CHUNK: u64 = 1_048_576;
	const REC: usize = 32_768;
	let mut out = Out::stdout();
	let mut rng = Rng::new(seed ^ 0x6465_6672);
	let steps = if thorough { 7 } else { 5 };
	let mut variants: Vec<(&str, &str)> = vec![];
	for h in ["other-iter", "self-iter"] {
		for n in ["one", "half", "max"] {
			variants.push((h, n));
		}
	}
	let (mut n_steps, mut n_fail, mut n_hang, mut n_bigger, mut n_during) = (0u64, 0u64, 0u64, 0u64, 0u64);
	let mut seq: Vec<String> = vec![];
	for (vi, (holder, nsel)) in variants.iter().enumerate() {
		let dir = format!("{}/deferred_{}", work, vi);
		let _ = std::fs::remove_dir_all(&dir);
		let store = Arc::new(open_store(&dir));
		let toks: Vec<String> = all_dbs().iter().map(|d| db_tok(*d)).collect();
		out.line(&format!("kv new [{}]", toks.join(",")), "ok");
		let mut key = 0u32;
		let mut hist: Vec<String> = vec![];
		let mut maps: Vec<u64> = vec![];
		for step in 0..steps {
			// ---- 1. ordinary growth up to the trigger
			let mut fill_fail: Option<String> = None;
			loop {
				let m = meta_info(&dir).unwrap_or((CHUNK, 0, 0));
				if m.1 * 4096 * 10 > 9 * m.0 {
					break;
				}
				let r = store.batch().and_then(|mut b| {
					b.put(Some(b'A'), &key.to_be_bytes(), &vec![(key % 251) as u8; REC])?;
					b.commit()
				});
				key += 1;
				if let Err(e) = r {
					fill_fail = Some(format!("{:?}", e));
					break;
				}
			}
			let m = meta_info(&dir).unwrap_or((CHUNK, 0, 0));
			let (map_before, used_before) = (m.0, m.1 * 4096);
			maps.push(map_before);
			hist.push(format!("fill to {} of {}", used_before, map_before));
			if let Some(e) = fill_fail {
				n_fail += 1;
				out.raw(&format!("#ORACLE-FAIL C18 deferred resize [{} {}]: an ordinary single-record batch failed while filling: {} | history: {}", holder, nsel, e, hist.join("; ")));
				break;
			}
			let free = map_before.saturating_sub(used_before);
			let nmax = (free / 45_000).saturating_sub(1).max(1);
			let n_during_wait = match *nsel {
				"one" => 1,
				"half" => (nmax / 2).max(1),
				_ => nmax,
			};
			// what the released batches write together: more than the old map had left
			let big = (map_before * 12 / 100 / REC as u64 + 2) as u32;
			n_steps += 1;
			n_during += n_during_wait;
			let mut fails: Vec<String> = vec![];
			let mut hung = false;
			// ---- 2. the holder, the trigger, the parked batches
			let (t2_cmd, t2_rx) = mpsc::channel::<&'static str>();
			let (t2_ack_tx, t2_ack) = mpsc::channel::<String>();
			let (p_tick_tx, p_tick) = mpsc::channel::<()>();
			let (done_tx, done_rx) = mpsc::channel::<(String, Result<(), String>)>();
			let stop = Arc::new(std::sync::atomic::AtomicBool::new(false));
			let self_iter = *holder == "self-iter";
			let base = key;
			key += n_during_wait as u32 + big + 16;
			let t2 = {
				let store = store.clone();
				let ack = t2_ack_tx.clone();
				thread::spawn(move || {
					global::set_local_chain_type(ChainTypes::AutomatedTesting);
					let it = store.iter(Some(b'B'), kvpair);
					let _ = ack.send("held".into());
					let mut own_batch: Option<Batch<'_>> = None;
					let mut k = base;
					for cmd in t2_rx.iter() {
						match cmd {
							"trigger" => {
								// the calling thread itself holds an iterator: batch() defers the resize and returns
								match store.batch() {
									Ok(b) => {
										own_batch = Some(b);
										let _ = ack.send("ok".into());
									}
									Err(e) => {
										let _ = ack.send(format!("batch() failed: {:?}", e));
									}
								}
							}
							"commit" => {
								let mut res = Ok(());
								for _ in 0..n_during_wait {
									let r = if let Some(b) = own_batch.as_mut() {
										b.put(Some(b'Z'), &k.to_be_bytes(), &vec![7u8; REC])
									} else {
										store.batch().and_then(|mut b| {
											b.put(Some(b'Z'), &k.to_be_bytes(), &vec![7u8; REC])?;
											b.commit()
										})
									};
									k += 1;
									if let Err(e) = r {
										res = Err(format!("{:?}", e));
										break;
									}
								}
								if res.is_ok() {
									if let Some(b) = own_batch.take() {
										res = b.commit().map_err(|e| format!("{:?}", e));
									}
								}
								let _ = ack.send(match res {
									Ok(()) => "ok".into(),
									Err(e) => e,
								});
							}
							_ => break,
						}
					}
					drop(own_batch);
					drop(it);
					let _ = ack.send("released".into());
				})
			};
			let _ = t2_ack.recv_timeout(Duration::from_secs(60));
			// probe: a plain read per tick; it stops ticking when the gate is closed
			let probe = {
				let store = store.clone();
				let stop = stop.clone();
				thread::spawn(move || {
					global::set_local_chain_type(ChainTypes::AutomatedTesting);
					while !stop.load(std::sync::atomic::Ordering::SeqCst) {
						let _ = store.exists(Some(b'A'), b"probe");
						let _ = p_tick_tx.send(());
						thread::sleep(Duration::from_millis(5));
					}
				})
			};
			let spawn_writer = |name: &'static str, first_key: u32, count: u32| {
				let store = store.clone();
				let done = done_tx.clone();
				thread::spawn(move || {
					global::set_local_chain_type(ChainTypes::AutomatedTesting);
					let r = store.batch().and_then(|mut b| {
						for i in 0..count {
							b.put(Some(b'A'), &(first_key + i).to_be_bytes(), &vec![9u8; REC])?;
						}
						b.commit()
					});
					let _ = done.send((name.to_string(), r.map_err(|e| format!("{:?}", e))));
				})
			};
			let mut writers = vec![];
			if self_iter {
				let _ = t2_cmd.send("trigger");
				match t2_ack.recv_timeout(Duration::from_secs(60)) {
					Ok(a) if a == "ok" => {}
					other => fails.push(format!("the batch() of the thread that holds its own iterator: {:?}", other)),
				}
			} else {
				writers.push(spawn_writer("trigger", base + n_during_wait as u32 + 1, big));
			}
			// wait until the gate is observed closed (no probe tick for 300 ms), at most 8 s
			{
				let t0 = Instant::now();
				let mut last = Instant::now();
				while t0.elapsed() < Duration::from_secs(8) {
					match p_tick.recv_timeout(Duration::from_millis(50)) {
						Ok(()) => last = Instant::now(),
						Err(_) => {}
					}
					if last.elapsed() > Duration::from_millis(300) {
						break;
					}
				}
			}
			// parked at the gate
			writers.push(spawn_writer("parked-1", base + n_during_wait as u32 + big + 2, if self_iter { big } else { 3 }));
			writers.push(spawn_writer("parked-2", base + n_during_wait as u32 + big + 2 + big, 2));
			thread::sleep(Duration::from_millis(100));
			// ---- 3. more data is committed during the wait, then everything is closed
			let _ = t2_cmd.send("commit");
			match t2_ack.recv_timeout(Duration::from_secs(120)) {
				Ok(a) if a == "ok" => {}
				Ok(a) => fails.push(format!("commit of {} records of 32 KB during the wait: {}", n_during_wait, a)),
				Err(_) => {
					hung = true;
					fails.push("the thread inside the gate did not finish its commits within 120 s".into());
				}
			}
			let _ = t2_cmd.send("release");
			let _ = t2_ack.recv_timeout(Duration::from_secs(60));
			// ---- 4. the parked batches must get through and succeed
			for _ in 0..writers.len() {
				match done_rx.recv_timeout(Duration::from_secs(120)) {
					Ok((_, Ok(()))) => {}
					Ok((name, Err(e))) => fails.push(format!("batch '{}' released after the wait failed: {}", name, e)),
					Err(_) => {
						hung = true;
						fails.push("a batch parked at the gate did not return within 120 s".into());
						break;
					}
				}
			}
			stop.store(true, std::sync::atomic::Ordering::SeqCst);
			if !hung {
				let _ = t2.join();
				let _ = probe.join();
				for w in writers {
					let _ = w.join();
				}
			}
			let after = meta_info(&dir).unwrap_or((0, 0, 0));
			hist.push(format!(
				"step {}: resize due at map {} used {}, deferred by {}; {} records of 32 KB committed during the wait; released batches write {} records -> map {}",
				step + 1, map_before, used_before, holder, n_during_wait, big, after.0
			));
			if after.0 > map_before {
				n_bigger += 1;
			}
			out.line(
				&format!("kv deferred {} {} {} {} {}", holder, n_during_wait, map_before, used_before, CHUNK),
				&format!("{} {}", after.0, fails.len()),
			);
			if after.0 % 4096 != 0 {
				fails.push(format!("map size {} after the wait is not a multiple of the page size", after.0));
			}
			if !fails.is_empty() {
				n_fail += 1;
				if hung {
					n_hang += 1;
				}
				out.raw(&format!("#ORACLE-FAIL C18 deferred resize [{} {}]: {} | history: {}", holder, nsel, fails.join("; "), hist.join("; ")));
				if hung {
					break;
				}
			}
		}
		seq.push(format!("{}/{}: {}", holder, nsel, maps.iter().map(|m| (m / CHUNK).to_string()).collect::<Vec<_>>().join(">")));
	}
	out.raw(&format!(
		"#STAT [deferred] variants={} growth steps with a deferred resize={} (map larger afterwards: {}) records committed during the waits={} failing steps={} hangs={}; map sizes in MiB at the triggers: {}",
		variants.len(), n_steps, n_bigger, n_during, n_fail, n_hang, seq.join(" | ")
	));
	out.flush();
	if n_hang > 0 {
		std::process::exit(0);
	}
}

// ---------------------------------------------------------------------------------------------
// run `rehandle`: a `Store` handle opened on an environment that is ALREADY registered and in use.
// Handle 1 (thread R) holds a live `Store::iter` iterator - an open read transaction, counted in the
// environment's open-transaction counter - and the map is filled past the resize threshold.  Then
// `Store::new` runs on the same root (same names / database "peer" with other key spaces / two more
// handles one of which is dropped at once / only after the resize has become pending).  Opening a
// handle must leave the environment's gate state (open_txs_count, resizing, resize_checking) alone:
//   * the batch of handle 2 that finds the resize due must WAIT while the reader is open (the
//     resize may not run under an open read transaction) and succeed once it is closed;
//   * a handle opened while the resize is pending must not cancel it (the parked batch stays parked);
//   * closing the reader must not panic / underflow the counter: parked writers of both handles
//     succeed, and further growth through both handles still resizes (a wrapped counter makes the
//     next deferred resize wait for ever - watchdog);
//   * control: without a reader the same batch resizes at once.
// Oracle lines `#ORACLE-FAIL C18 rehandle …`; driver lines `kv rh-trigger …` (waited|direct,
// property-fixed) and `kv rh-map …` (map size after the release, resize model).
// ---------------------------------------------------------------------------------------------
fn mode_rehandle(work: &str, seed: u64, thorough: bool) {
	use std::sync::atomic::{AtomicBool, AtomicU64, Ordering};
	const CHUNK: u64 = 1_048_576;
	const REC: usize = 32_768;
	let mut out = Out::stdout();
	let progress = Arc::new(AtomicU64::new(0));
	let phase = Arc::new(std::sync::Mutex::new(String::new()));
	{
		// watchdog: a wrapped open-transaction counter or a leaked `resizing` flag makes a later
		// Store::batch() wait for ever.  Generous: 120 s without any step.
		let progress = progress.clone();
		let phase = phase.clone();
		thread::spawn(move || {
			let mut last = (0u64, Instant::now());
			loop {
				thread::sleep(Duration::from_millis(500));
				let p = progress.load(Ordering::SeqCst);
				if p != last.0 {
					last = (p, Instant::now());
				} else if last.1.elapsed() > Duration::from_secs(120) {
					println!(
						"\n#ORACLE-FAIL C18 rehandle: no progress for 120 s in {}: Store::batch() does not return (open-transaction counter wrapped / resize flags not released after a handle was opened on the registered environment?)",
						phase.lock().unwrap()
					);
					std::process::exit(0);
				}
			}
		});
	}
	let tick = |p: &Arc<AtomicU64>| {
		p.fetch_add(1, Ordering::SeqCst);
	};
	let variants: Vec<(&str, bool)> = {
		let mut v = vec![("same", true), ("peer", true), ("two-more", true), ("open-while-pending", true), ("same", false), ("peer", false)];
		if thorough {
			v.extend(vec![("same", true), ("peer", true), ("open-while-pending", true), ("two-more", false)]);
		}
		v
	};
	let open2 = |dir: &str, variant: &str| -> Result<Store, Error> {
		global::set_local_chain_type(ChainTypes::AutomatedTesting);
		if variant == "peer" {
			Store::new(dir, None, Some("peer"), vec![b'A', b'P'], None, None)
		} else {
			Store::new(dir, None, None, DBS.to_vec(), None, None)
		}
	};
	let (mut n_cases, mut n_waited, mut n_direct, mut n_fail) = (0u64, 0u64, 0u64, 0u64);
	let mut rng = Rng::new(seed ^ 0x7265_6861);
	for (vi, (variant, reader)) in variants.iter().enumerate() {
		let dir = format!("{}/rehandle_{}", work, vi);
		let _ = std::fs::remove_dir_all(&dir);
		*phase.lock().unwrap() = format!("{} reader={} (fill)", variant, reader);
		let h1 = Arc::new(open_store(&dir));
		let mut fails: Vec<String> = vec![];
		let mut key = 0u32;
		// ---- 1. ordinary growth through handle 1 until the NEXT batch() finds the resize due
		let pre_resizes = rng.below(2);
		let mut seen_resizes = 0u64;
		let mut last_map = meta_info(&dir).map(|m| m.0).unwrap_or(CHUNK);
		loop {
			let m = meta_info(&dir).unwrap_or((CHUNK, 0, 0));
			if m.0 != last_map {
				seen_resizes += 1;
				last_map = m.0;
			}
			if m.1 * 4096 * 10 > 9 * m.0 && seen_resizes >= pre_resizes {
				break;
			}
			key += 1;
			let r = h1.batch().and_then(|mut b| {
				b.put(None, format!("f{:06}", key).as_bytes(), &vec![7u8; REC])?;
				b.commit()
			});
			if let Err(e) = r {
				fails.push(format!("an ordinary single-record batch failed while filling: {:?}", e));
				break;
			}
			tick(&progress);
		}
		let (map0, last0, _) = meta_info(&dir).unwrap_or((CHUNK, 0, 0));
		// ---- 2. the reader: a live store-level iterator on handle 1, on its own thread
		let (r_cmd, r_cmd_rx) = mpsc::channel::<&'static str>();
		let (r_ack_tx, r_ack) = mpsc::channel::<String>();
		let reader_thread = if *reader {
			let h = h1.clone();
			Some(thread::spawn(move || {
				let it = h.iter(None, kvpair);
				let mut it = match it {
					Ok(it) => it,
					Err(e) => {
						let _ = r_ack_tx.send(format!("err:{:?}", e));
						return;
					}
				};
				let first = it.next().map(|r| r.is_ok()).unwrap_or(false);
				let _ = r_ack_tx.send(format!("open:{}", first));
				let _ = r_cmd_rx.recv();
				// closed WITHOUT touching the snapshot again
				drop(it);
				let _ = r_ack_tx.send("closed".to_string());
			}))
		} else {
			None
		};
		if *reader {
			match r_ack.recv_timeout(Duration::from_secs(60)) {
				Ok(a) if a.starts_with("open:true") => {}
				other => fails.push(format!("the reader could not open its iterator: {:?}", other)),
			}
		}
		tick(&progress);
		// ---- 3. the operation under test: Store::new on the registered environment
		*phase.lock().unwrap() = format!("{} reader={} (Store::new on the registered environment)", variant, reader);
		let mut extra: Vec<Store> = vec![];
		let h2 = match if *variant == "open-while-pending" { open2(&dir, "same") } else { open2(&dir, variant) } {
			Ok(s) => Arc::new(s),
			Err(e) => {
				out.raw(&format!("#ORACLE-FAIL C18 rehandle [{} reader={}]: Store::new on an environment in use failed: {:?}", variant, reader, e));
				n_fail += 1;
				continue;
			}
		};
		if *variant == "two-more" {
			// a third handle that goes away again (Drop for Store: stores_count - 1, the environment
			// stays) and a fourth that stays
			match open2(&dir, "peer") {
				Ok(s) => drop(s),
				Err(e) => fails.push(format!("third handle: {:?}", e)),
			}
			match open2(&dir, "same") {
				Ok(s) => extra.push(s),
				Err(e) => fails.push(format!("fourth handle: {:?}", e)),
			}
		}
		tick(&progress);
		// ---- 4. the trigger: a batch through the NEW handle that finds the resize due
		*phase.lock().unwrap() = format!("{} reader={} (trigger batch through the new handle)", variant, reader);
		let entered = Arc::new(AtomicBool::new(false));
		let (w_tx, w_rx) = mpsc::channel::<Result<(), String>>();
		let big = 8usize;
		{
			let h = h2.clone();
			let entered = entered.clone();
			let base = key;
			let trig_db: Db = if *variant == "peer" { Some(b'A') } else { None };
			thread::spawn(move || {
				let r = (|| -> Result<(), Error> {
					let mut b = h.batch()?;
					entered.store(true, Ordering::SeqCst);
					for i in 0..big {
						b.put(trig_db, format!("t{:06}_{}", base, i).as_bytes(), &vec![9u8; REC])?;
					}
					b.commit()
				})();
				let _ = w_tx.send(r.map_err(|e| format!("{:?}", e)));
			});
		}
		let mut trig_res: Option<Result<(), String>> = None;
		let mut early = false;
		if *reader {
			thread::sleep(Duration::from_millis(1500));
			early = entered.load(Ordering::SeqCst);
			if *variant == "open-while-pending" && !early {
				// the resize is pending behind the reader: one more handle is opened NOW
				match open2(&dir, "peer") {
					Ok(s) => extra.push(s),
					Err(e) => fails.push(format!("handle opened while the resize is pending: {:?}", e)),
				}
				thread::sleep(Duration::from_millis(1500));
				if entered.load(Ordering::SeqCst) {
					early = true;
					fails.push("a handle opened while the resize was pending let the parked batch through (pending resize cancelled / flags re-initialised)".to_string());
				}
			}
			// parked writers: small batches through both handles, issued while the gate is closed
			let mut parked = vec![];
			for (pi, h) in [h1.clone(), h2.clone()].into_iter().enumerate() {
				let (p_tx, p_rx) = mpsc::channel::<Result<(), String>>();
				let base = key;
				thread::spawn(move || {
					let r = (|| -> Result<(), Error> {
						let mut b = h.batch()?;
						b.put(Some(b'A'), format!("p{:06}_{}", base, pi).as_bytes(), &[pi as u8; 100])?;
						b.commit()
					})();
					let _ = p_tx.send(r.map_err(|e| format!("{:?}", e)));
				});
				parked.push(p_rx);
			}
			thread::sleep(Duration::from_millis(300));
			if entered.load(Ordering::SeqCst) && !early {
				early = true;
			}
			if early && !fails.iter().any(|f| f.contains("pending")) {
				fails.push(format!(
					"the batch that found the resize due (map {} B, {} B used) did NOT wait: Store::batch() returned while another thread's iterator (read transaction) on the same environment was still open - env.resize may run under an open transaction",
					map0, last0 * 4096
				));
			}
			// release the reader
			*phase.lock().unwrap() = format!("{} reader={} (closing the reader)", variant, reader);
			let _ = r_cmd.send("close");
			match r_ack.recv_timeout(Duration::from_secs(60)) {
				Ok(a) if a == "closed" => {}
				other => fails.push(format!("closing the reader's iterator did not complete: {:?} (panic in TxCounter::drop: counter underflow?)", other)),
			}
			if let Some(t) = reader_thread {
				if t.join().is_err() {
					fails.push("the reader thread panicked while closing its iterator (open-transaction counter underflow?)".to_string());
				}
			}
			tick(&progress);
			*phase.lock().unwrap() = format!("{} reader={} (waiting for the parked batches)", variant, reader);
			match w_rx.recv_timeout(Duration::from_secs(110)) {
				Ok(r) => trig_res = Some(r),
				Err(_) => fails.push("the parked trigger batch did not complete within 110 s after the reader was closed".to_string()),
			}
			tick(&progress);
			for (pi, p) in parked.iter().enumerate() {
				match p.recv_timeout(Duration::from_secs(110)) {
					Ok(Ok(())) => {}
					Ok(Err(e)) => fails.push(format!("parked writer {} failed: {}", pi, e)),
					Err(_) => fails.push(format!("parked writer {} did not complete within 110 s", pi)),
				}
				tick(&progress);
			}
		} else {
			match w_rx.recv_timeout(Duration::from_secs(110)) {
				Ok(r) => trig_res = Some(r),
				Err(_) => fails.push("without any reader the trigger batch did not complete within 110 s".to_string()),
			}
			tick(&progress);
		}
		match &trig_res {
			Some(Ok(())) => {}
			Some(Err(e)) => fails.push(format!("the trigger batch ({} records of {} B through the new handle) failed: {}", big, REC, e)),
			None => {}
		}
		let waited = *reader && !early;
		if waited {
			n_waited += 1;
		} else {
			n_direct += 1;
		}
		let (map1, _, _) = meta_info(&dir).unwrap_or((0, 0, 0));
		out.line(
			&format!("kv rh-trigger {} reader={} used={} map={} chunk={}", variant, if *reader { 1 } else { 0 }, last0 * 4096, map0, CHUNK),
			if waited { "waited" } else { "direct" },
		);
		out.line(
			&format!("kv rh-map {} reader={} used={} map={} chunk={}", variant, if *reader { 1 } else { 0 }, last0 * 4096, map0, CHUNK),
			&map1.to_string(),
		);
		// ---- 5. afterwards: everything is closed; both handles keep growing through two more resizes
		*phase.lock().unwrap() = format!("{} reader={} (further growth through both handles)", variant, reader);
		let mut more = 0u64;
		let mut cur = map1;
		let mut guard = 0u64;
		while more < 2 && guard < 400 && fails.is_empty() {
			guard += 1;
			key += 1;
			let h = if guard % 2 == 0 { &h1 } else { &h2 };
			let r = h.batch().and_then(|mut b| {
				b.put(Some(b'A'), format!("g{:06}", key).as_bytes(), &vec![5u8; REC])?;
				b.commit()
			});
			if let Err(e) = r {
				fails.push(format!("growth after the scenario: a single-record batch failed: {:?}", e));
				break;
			}
			tick(&progress);
			let m = meta_info(&dir).map(|m| m.0).unwrap_or(cur);
			if m != cur {
				more += 1;
				cur = m;
			}
		}
		if fails.is_empty() && more < 2 {
			fails.push(format!("after the scenario the map did not grow any more ({} B after {} more batches)", cur, guard));
		}
		// the trigger's and the parked writers' records are all there, through either handle
		if fails.is_empty() {
			let cnt = |h: &Store, db: Db| -> Result<usize, ()> { collect_iter(h.iter(db, kvpair)).map(|v| v.len()) };
			let a1 = cnt(&h1, Some(b'A'));
			let a2 = cnt(&h2, Some(b'A'));
			if a1 != a2 || a1.is_err() {
				fails.push(format!("key space A read through handle 1 has {:?} records, through the new handle {:?}", a1, a2));
			}
		}
		n_cases += 1;
		if !fails.is_empty() {
			n_fail += 1;
			out.raw(&format!("#ORACLE-FAIL C18 rehandle [{} reader={}]: {}", variant, reader, fails.join("; ")));
		}
		out.flush();
		drop(extra);
		drop(h2);
		drop(h1);
		let _ = std::fs::remove_dir_all(&dir);
	}
	out.raw(&format!(
		"#STAT [rehandle] scenarios={} (handle opened on a registered environment in use: same names / db 'peer' / two more handles one dropped / opened while the resize is pending; with and without a live reader) trigger batches that waited for the reader={} resized at once={} oracle failures={}",
		n_cases, n_waited, n_direct, n_fail
	));
	out.flush();
}


// ---------------------------------------------------------------------------------------------
// run `f32probe`: the f32 arithmetic of `needs_resize` (`size_used as f32 / map_size as f32 > 0.9`,
// `> 65 as f32 / 100.0`).  No store: the expressions are evaluated here exactly as the source writes
// them (RESIZE_PERCENT / RESIZE_MIN_TARGET_PERCENT are private constants of lmdb.rs: 0.9_f32, 65_u128)
// on (a) integer -> f32 conversions at the 24-bit boundary, (b) usage / map pairs around the two
// thresholds for small and very large maps, (c) every pair found by search on which the f32 decision
// and the exact-rational decision DIFFER; the driver answers with the exact f32 model
// (Model/KvF32.lean).  (d) exhaustive: for EVERY map size of 1 .. 2^23 pages (< 32 GiB) the f32
// decision equals the exact one at the two usages next to the threshold (both decisions are
// monotone in the usage) - the theorems about `needs_resize` read the comparison as exact.
// ---------------------------------------------------------------------------------------------
fn f32_gt90(used: u64, map: u64) -> bool {
	const RESIZE_PERCENT: f32 = 0.9;
	used as usize as f32 / map as usize as f32 > RESIZE_PERCENT
}
fn f32_gt65(used: u64, tot: u64) -> bool {
	const RESIZE_MIN_TARGET_PERCENT: u128 = 65;
	used as usize as f32 / tot as usize as f32 > RESIZE_MIN_TARGET_PERCENT as f32 / 100.0
}
/// `needs_resize` with the environment's two numbers as arguments (same statements as lmdb.rs)
fn f32_needs(map_size: u64, size_used: u64, alloc_chunk_size: u64) -> (bool, u64) {
	let resize = f32_gt90(size_used, map_size) || map_size < alloc_chunk_size;
	let new_size = if resize {
		if map_size < alloc_chunk_size {
			alloc_chunk_size
		} else {
			let mut tot = map_size - (map_size % alloc_chunk_size);
			while f32_gt65(size_used, tot) {
				tot += alloc_chunk_size;
			}
			tot
		}
	} else {
		map_size
	};
	(resize, new_size)
}

fn mode_f32probe(seed: u64, thorough: bool) {
	let mut out = Out::stdout();
	let mut rng = Rng::new(seed ^ 0x6633_3270);
	// (a) conversions
	let mut convs: Vec<u64> = vec![0, 1, 2, 3, 65, 100, (1 << 24) - 1, 1 << 24, (1 << 24) + 1, (1 << 24) + 2, (1 << 24) + 3, (1 << 25) + 2, (1 << 25) + 6,
		(1u64 << 53) + 1, u64::MAX, u64::MAX - (1 << 39), (1u64 << 63) + (1 << 39), (1u64 << 63) + (1 << 39) + 1];
	for _ in 0..(if thorough { 1500 } else { 300 }) {
		let bits = rng.range(1, 64);
		convs.push(rng.below(1u64 << bits.min(63)) | (1u64 << (bits - 1)));
	}
	for n in convs.iter() {
		out.line(&format!("kv f32-bits {}", n), &(*n as usize as f32).to_bits().to_string());
	}
	for _ in 0..(if thorough { 1500 } else { 300 }) {
		let (sa, sb) = (rng.range(1, 63), rng.range(1, 63));
		let a = rng.below(1u64 << sa) + 1;
		let b = rng.below(1u64 << sb) + 1;
		out.line(&format!("kv f32-div {} {}", a, b), &(a as usize as f32 / b as usize as f32).to_bits().to_string());
	}
	// (b) around the thresholds: map = k chunks of 1 MiB / 128 MiB, used = whole pages next to 0.9 and 0.65
	let mut n_pairs = 0u64;
	for chunk in [1_048_576u64, 134_217_728u64] {
		for k in (1..=48u64).chain([100, 257, 1000, 4096, 16384, 65535, 65536, 70000, 131072, 1 << 20].into_iter()) {
			let map = chunk.saturating_mul(k);
			let mp = map / 4096;
			for (pct, f) in [(90u64, f32_gt90 as fn(u64, u64) -> bool), (65u64, f32_gt65 as fn(u64, u64) -> bool)] {
				let p0 = mp * pct / 100;
				for d in 0..6u64 {
					let p = (p0 + d).saturating_sub(2);
					out.line(&format!("kv f32-gt {} {} {}", pct, p * 4096, map), &f(p * 4096, map).to_string());
					n_pairs += 1;
				}
			}
			for _ in 0..2 {
				let used = rng.below(map / 4096 + 1) * 4096;
				let r = f32_needs(map, used, chunk);
				out.line(&format!("kv f32-needs {} {} {}", map, used, chunk), &format!("{} {}", r.0, r.1));
			}
		}
	}
	// (c) + (d): exhaustive comparison with the exact decision, map sizes in pages
	let lim: u64 = 1 << 23;
	let top: u64 = if thorough { 3 << 24 } else { (1 << 24) + (1 << 22) };
	let (mut below, mut above, mut first90, mut first65) = (0u64, 0u64, None::<(u64, u64)>, None::<(u64, u64)>);
	let mut shown = 0u64;
	for mp in 1..top {
		for (pct, f) in [(90u64, f32_gt90 as fn(u64, u64) -> bool), (65u64, f32_gt65 as fn(u64, u64) -> bool)] {
			let p0 = mp * pct / 100;
			for p in [p0, p0 + 1] {
				let exact = p * 100 > pct * mp;
				let got = f(p * 4096, mp * 4096);
				if exact != got {
					if mp < lim {
						below += 1;
					} else {
						above += 1;
					}
					if pct == 90 && first90.is_none() {
						first90 = Some((p, mp));
					}
					if pct == 65 && first65.is_none() {
						first65 = Some((p, mp));
					}
					if shown < 400 || (mp % 9973 == 0 && shown < 1200) {
						shown += 1;
						out.line(&format!("kv f32-gt {} {} {}", pct, p * 4096, mp * 4096), &got.to_string());
					}
				}
			}
		}
	}
	if below > 0 {
		out.raw(&format!(
			"#STAT [f32probe] NOTE: {} page-granular (usage, map) pairs below 32 GiB on which the f32 decision of needs_resize differs from the exact one (first: 90 % {:?}, 65 % {:?}) - below 32 GiB the exact-rational reading of the theorems is not the code's",
			below, first90, first65
		));
	}
	out.raw(&format!(
		"#STAT [f32probe] conversions={} threshold pairs={}; exhaustive over map sizes of 1..{} pages with the two usages next to each threshold: f32 decision != exact decision for {} pairs below 2^23 pages (32 GiB) and {} above (first (usage, map) in pages for 0.9: {:?} = just above 64 GiB, for 0.65: {:?} = just above 32 GiB; the f32 result then lags the exact one by less than 6e-9 of the map; {} of them sent to the driver's f32 model)",
		convs.len(), n_pairs, top, below, above, first90, first65, shown
	));
	out.flush();
}

// ---------------------------------------------------------------------------------------------
// run `envkeys`: how `ENV_MAP` keys an environment.  The key is the STRING
// `Path::new(root_path).join("multi_lmdb").to_str()`: another spelling of the same directory (a `.`
// segment, `..`, a doubled separator, a symlink, a relative path) is a different key, so the
// registry does not find the environment and opens it again - which heed refuses inside one process
// (`EnvAlreadyOpened`: it keys by the canonical path).  Outcome per spelling: `shared` (same key: the
// handle sees and shares the registered environment), `refused` (alias of an open environment),
// `separate` (another directory).  After every handle is gone an alias opens the environment afresh.
// The two oracles: an alias must never yield a second live environment on the same files (that
// would be two gate states and two maps on one database), and a shared handle must really share.
// ---------------------------------------------------------------------------------------------
fn mode_envkeys(work: &str, _seed: u64, _thorough: bool) {
	let mut out = Out::stdout();
	let base = format!("{}/envkeys", work);
	let _ = std::fs::remove_dir_all(&base);
	std::fs::create_dir_all(&base).unwrap();
	let root = format!("{}/root", base);
	let other = format!("{}/other", base);
	let link = format!("{}/link", base);
	let key_of = |r: &str| std::path::Path::new(r).join("multi_lmdb").to_str().unwrap().to_string();
	let canon_of = |r: &str| std::fs::canonicalize(std::path::Path::new(r).join("multi_lmdb")).ok();
	global::set_local_chain_type(ChainTypes::AutomatedTesting);
	let h1 = open_store(&root);
	let _ = h1.batch().and_then(|mut b| {
		b.put(None, b"first", b"one")?;
		b.commit()
	});
	let _ = std::os::unix::fs::symlink(&root, &link);
	let mut spellings: Vec<(&str, String)> = vec![
		("same", root.clone()),
		("trailing-slash", format!("{}/", root)),
		("dot-segment", format!("{}/./root", base)),
		("dotdot", format!("{}/root/../root", base)),
		("double-slash", format!("{}//root", base)),
		("symlink", link.clone()),
		("other-directory", other.clone()),
	];
	if let Ok(cwd) = std::env::current_dir() {
		if let Ok(rel) = std::path::Path::new(&root).strip_prefix(&cwd) {
			spellings.push(("relative", rel.to_str().unwrap().to_string()));
		}
	}
	let (mut n_shared, mut n_refused, mut n_separate, mut n_fail) = (0u64, 0u64, 0u64, 0u64);
	for (i, (name, sp)) in spellings.iter().enumerate() {
		let same_key = key_of(sp) == key_of(&root);
		let same_canon = {
			// the directory exists after create_dir_all inside Store::new; compare what the name resolves to
			let _ = std::fs::create_dir_all(std::path::Path::new(sp).join("multi_lmdb"));
			canon_of(sp).is_some() && canon_of(sp) == canon_of(&root)
		};
		let r = Store::new(sp, None, None, DBS.to_vec(), None, None);
		let outcome = match &r {
			Err(_) => "refused",
			Ok(h) => {
				let sees = matches!(h.get_ser::<RawVal>(None, b"first", None), Ok(Some(_)));
				let k = format!("via{}", i);
				let wrote = h
					.batch()
					.and_then(|mut b| {
						b.put(None, k.as_bytes(), b"x")?;
						b.commit()
					})
					.is_ok();
				let back = matches!(h1.get_ser::<RawVal>(None, k.as_bytes(), None), Ok(Some(_)));
				if sees && wrote && back {
					"shared"
				} else if !sees && !back {
					"separate"
				} else {
					"inconsistent"
				}
			}
		};
		match outcome {
			"shared" => n_shared += 1,
			"refused" => n_refused += 1,
			"separate" => n_separate += 1,
			_ => {}
		}
		// oracles
		if outcome == "inconsistent" || (outcome == "shared" && !same_key) || (outcome == "separate" && same_canon) {
			n_fail += 1;
			out.raw(&format!(
				"#ORACLE-FAIL C18 envkeys [{}]: Store::new(\"{}\") while the environment is open as \"{}\": outcome {} (same registry key: {}, same directory: {}) - a second live environment on the same files, or a handle that does not share its environment",
				name, sp, root, outcome, same_key, same_canon
			));
		}
		out.line(
			&format!("kv envkey {} samekey={} samedir={}", name, if same_key { 1 } else { 0 }, if same_canon { 1 } else { 0 }),
			outcome,
		);
		drop(r);
	}
	// every handle gone: the environment is closed and unregistered; an alias opens it afresh and sees the data
	drop(h1);
	let alias = format!("{}/./root", base);
	let mut reopened = "refused";
	for _ in 0..50 {
		match Store::new(&alias, None, None, DBS.to_vec(), None, None) {
			Ok(h) => {
				reopened = if matches!(h.get_ser::<RawVal>(None, b"first", None), Ok(Some(_))) { "reopened" } else { "empty" };
				break;
			}
			Err(_) => thread::sleep(Duration::from_millis(100)),
		}
	}
	if reopened != "reopened" {
		n_fail += 1;
		out.raw(&format!("#ORACLE-FAIL C18 envkeys: after every handle was dropped Store::new on another spelling of the directory: {}", reopened));
	}
	out.line("kv envkey after-close samekey=0 samedir=0", if reopened == "reopened" { "separate" } else { reopened });
	out.raw(&format!(
		"#STAT [envkeys] spellings={} shared={} refused (alias of an open environment: heed EnvAlreadyOpened)={} separate={} oracle failures={}; ENV_MAP is keyed by the path string, heed by the canonical path",
		spellings.len(), n_shared, n_refused, n_separate, n_fail
	));
	out.flush();
}

// ---------------------------------------------------------------------------------------------
// run `seqs`: scripted batches for the named sequences of the API surface, every answer through the
// ordinary protocol lines (spec-compared by the driver): keys that are prefixes of each other, keys
// of 0xFF bytes, the longest legal key, `delete`-then-`get`, `put`-`delete`-`put`, the same through
// child batches (child commit / child drop / parent drop after child commit / depth 3), `exists`
// and `iter` at every point, failed operations (empty key, unregistered database, over-long key)
// followed by further writes and a commit, a typed `get_ser` whose `Readable` fails on the stored
// bytes next to a raw `get_ser` of the same key; for the default database and a named one.
// ---------------------------------------------------------------------------------------------
#[derive(Clone)]
enum Sq {
	Put(Vec<u8>, Vec<u8>),
	PutSer(Vec<u8>, u64, Vec<u8>),
	Del(Vec<u8>),
	Get(Vec<u8>),
	GetRec(Vec<u8>),
	Exists(Vec<u8>),
	Iter,
	BadDbPut,
	Child(Vec<Sq>, bool),
}

fn sq_run(out: &mut Out, b: &mut Batch<'_>, db: Db, steps: &[Sq], n_ops: &mut u64) {
	for st in steps {
		*n_ops += 1;
		match st {
			Sq::Put(k, v) => out.line(&format!("kv put {} {} {}", db_tok(db), hex(k), valtok(v)), &fmt_unit(b.put(db, k, v))),
			Sq::PutSer(k, tag, body) => {
				let rec = Rec { tag: *tag, body: body.clone() };
				out.line(&format!("kv putser {} {} {} {}", db_tok(db), hex(k), tag, hex(body)), &fmt_unit(b.put_ser(db, k, &rec)))
			}
			Sq::Del(k) => out.line(&format!("kv del {} {}", db_tok(db), hex(k)), &fmt_unit(b.delete(db, k))),
			Sq::Get(k) => out.line(&format!("kv get {} {}", db_tok(db), hex(k)), &fmt_get(&b.get_ser::<Vec<u8>>(db, k, None))),
			Sq::GetRec(k) => out.line(&format!("kv getrec {} {}", db_tok(db), hex(k)), &fmt_rec(b.get_ser::<Rec>(db, k, None))),
			Sq::Exists(k) => out.line(&format!("kv exists {} {}", db_tok(db), hex(k)), &fmt_bool(&b.exists(db, k))),
			Sq::Iter => out.line(&format!("kv iter {}", db_tok(db)), &fmt_iter(&collect_iter(b.iter(db, kvpair)))),
			Sq::BadDbPut => out.line(&format!("kv put {} {} {}", db_tok(Some(BAD_DB)), hex(b"k"), valtok(b"v")), &fmt_unit(b.put(Some(BAD_DB), b"k", b"v"))),
			Sq::Child(body, commit) => match b.child() {
				Ok(mut c) => {
					out.line("kv child", "ok");
					sq_run(out, &mut c, db, body, n_ops);
					if *commit {
						out.line("kv commit", &fmt_unit(c.commit()));
					} else {
						drop(c);
						out.line("kv drop", "ok");
					}
				}
				Err(_) => out.line("kv child", "err"),
			},
		}
	}
}

fn mode_seqs(work: &str, _seed: u64, _thorough: bool) {
	let dir = format!("{}/seqs", work);
	let _ = std::fs::remove_dir_all(&dir);
	let store = open_store(&dir);
	let mut out = Out::stdout();
	let toks: Vec<String> = all_dbs().iter().map(|d| db_tok(*d)).collect();
	out.line(&format!("kv new [{}]", toks.join(",")), "ok");
	let a = b"a".to_vec();
	let a0 = vec![b'a', 0];
	let aff = vec![b'a', 0xff];
	let ab = b"ab".to_vec();
	let ff = vec![0xffu8];
	let ffff = vec![0xffu8, 0xff];
	let ff00 = vec![0xffu8, 0];
	let zero = vec![0u8];
	let long = vec![b'z'; 511];
	let toolong = vec![b'y'; 512];
	let empty: Vec<u8> = vec![];
	let v = |s: &str| s.as_bytes().to_vec();
	let every_read = |ks: &[&Vec<u8>]| -> Vec<Sq> {
		let mut r = vec![Sq::Iter];
		for k in ks {
			r.push(Sq::Get((*k).clone()));
			r.push(Sq::Exists((*k).clone()));
		}
		r
	};
	let keys: Vec<&Vec<u8>> = vec![&a, &a0, &aff, &ab, &ff, &ffff, &ff00, &zero, &long];
	let mut scripts: Vec<(&str, Vec<Sq>, bool)> = vec![];
	// 1. prefix-related keys, 0xFF keys, longest key: order and membership
	let mut s1: Vec<Sq> = keys.iter().rev().enumerate().map(|(i, k)| Sq::Put((*k).clone(), vec![i as u8 + 1; 3])).collect();
	s1.extend(every_read(&keys));
	scripts.push(("prefix-keys", s1, true));
	// 2. delete-then-get, put-delete-put in one batch
	let mut s2 = vec![Sq::Del(a.clone()), Sq::Get(a.clone()), Sq::Exists(a.clone()), Sq::Iter, Sq::Put(a.clone(), v("v2")), Sq::Del(a.clone()),
		Sq::Get(a.clone()), Sq::Put(a.clone(), v("v3")), Sq::Get(a.clone()), Sq::Exists(a.clone()), Sq::Del(ff.clone()), Sq::Iter, Sq::Del(ff.clone()), Sq::Get(ff.clone())];
	s2.extend(every_read(&keys));
	scripts.push(("delete-get put-delete-put", s2, true));
	// 3. through child batches: child commit, child drop
	let s3 = vec![
		Sq::Put(ab.clone(), v("p1")),
		Sq::Child(vec![Sq::Get(ab.clone()), Sq::Del(ab.clone()), Sq::Get(ab.clone()), Sq::Exists(ab.clone()), Sq::Iter, Sq::Put(a0.clone(), v("c1"))], true),
		Sq::Get(ab.clone()), Sq::Exists(ab.clone()), Sq::Get(a0.clone()), Sq::Iter,
		Sq::Child(vec![Sq::Put(ab.clone(), v("c2")), Sq::Del(a0.clone()), Sq::Get(ab.clone()), Sq::Iter], false),
		Sq::Get(ab.clone()), Sq::Get(a0.clone()), Sq::Exists(a0.clone()), Sq::Iter,
		Sq::Child(vec![Sq::Put(ab.clone(), v("c3")), Sq::Del(ab.clone()), Sq::Put(ab.clone(), v("c4"))], true),
		Sq::Get(ab.clone()),
	];
	scripts.push(("child commit / child drop", s3, true));
	// 4. depth 3; the parent is dropped after its child committed
	let s4 = vec![
		Sq::Put(zero.clone(), v("t1")),
		Sq::Child(vec![
			Sq::Put(zero.clone(), v("t2")),
			Sq::Child(vec![Sq::Del(zero.clone()), Sq::Get(zero.clone()), Sq::Put(ffff.clone(), v("deep")), Sq::Iter], true),
			Sq::Get(zero.clone()), Sq::Get(ffff.clone()),
		], true),
		Sq::Get(zero.clone()), Sq::Exists(zero.clone()), Sq::Get(ffff.clone()), Sq::Iter,
	];
	scripts.push(("depth 3, then the parent dropped", s4, false));
	let s4b = vec![Sq::Get(zero.clone()), Sq::Get(ffff.clone()), Sq::Iter];
	scripts.push(("after the dropped parent", s4b, true));
	// 5. failed operations, then more writes, then commit
	let s5 = vec![
		Sq::Put(empty.clone(), v("x")), Sq::BadDbPut, Sq::Put(toolong.clone(), v("x")), Sq::Del(empty.clone()), Sq::Get(empty.clone()),
		Sq::Exists(empty.clone()), Sq::Get(toolong.clone()), Sq::Exists(toolong.clone()), Sq::Del(toolong.clone()),
		Sq::Put(aff.clone(), v("after-errors")), Sq::Child(vec![Sq::Put(empty.clone(), v("x")), Sq::Put(ff00.clone(), v("child-after-error"))], true),
		Sq::Get(aff.clone()), Sq::Get(ff00.clone()), Sq::Iter,
	];
	scripts.push(("commit after failed operations", s5, true));
	// 6. a typed read whose Readable fails on the stored bytes
	let s6 = vec![
		Sq::PutSer(a.clone(), 77, v("body")), Sq::GetRec(a.clone()), Sq::Get(a.clone()),
		Sq::Put(ab.clone(), vec![1, 2, 3]), Sq::GetRec(ab.clone()), Sq::Get(ab.clone()), Sq::Exists(ab.clone()),
		Sq::Put(a0.clone(), vec![0, 0, 0, 0, 0, 0, 0, 5, 0xff, 0xff, 0xff, 0xff, 0xff, 0xff, 0xff, 0xff]), Sq::GetRec(a0.clone()),
		Sq::Put(aff.clone(), v("still-writable")), Sq::Get(aff.clone()),
	];
	scripts.push(("typed read that fails to deserialise", s6, true));
	let mut n_ops = 0u64;
	let mut n_batches = 0u64;
	for db in [None, Some(b'A')] {
		for (_name, steps, commit) in scripts.iter() {
			n_batches += 1;
			let mut b = match store.batch() {
				Ok(b) => b,
				Err(_) => {
					out.line("kv begin", "err");
					continue;
				}
			};
			out.line("kv begin", "ok");
			sq_run(&mut out, &mut b, db, steps, &mut n_ops);
			if *commit {
				out.line("kv commit", &fmt_unit(b.commit()));
			} else {
				drop(b);
				out.line("kv drop", "ok");
			}
			let ans = dump_store(&store).unwrap_or_else(|_| "err".to_string());
			out.line("kv obs", &ans);
		}
	}
	out.raw(&format!(
		"#STAT [seqs] scripted batches={} operations={} (prefix-related and 0xFF keys, 511-byte key; delete-get, put-delete-put; child commit / drop, depth 3, parent dropped after child commit; commit after failed operations; typed read that fails) on the default and a named database",
		n_batches, n_ops
	));
	out.flush();
}

// ---------------------------------------------------------------------------------------------
// run `twoenv`: growth through 20+ resizes with interleaved readers, two `Store` handles on one
// environment and a second environment in the same process (`ENV_MAP` holds two entries).  The main
// thread writes batches of 1/24 of the current map alternately through both handles of environment A
// and every fourth batch into environment B (until B has resized 8 times); reader threads (one per environment, on handles of their own)
// keep opening store-level iterators, hold them for a few milliseconds and count.  Oracles: no
// operation fails; a reader's count never goes down and ends at the number of committed records of
// ITS environment; A goes through at least 20 resizes; the map of B changes only through batches
// of B.  Driver: every batch's resize decision (`needs-resize`, from the meta page before it) and
// the map size the meta page shows after it.
// ---------------------------------------------------------------------------------------------
fn mode_twoenv(work: &str, _seed: u64, thorough: bool) {
	use std::sync::atomic::{AtomicBool, AtomicU64, Ordering};
	const CHUNK: u64 = 1_048_576;
	const REC: usize = 32_768;
	let mut out = Out::stdout();
	let dir_a = format!("{}/twoenv_a", work);
	let dir_b = format!("{}/twoenv_b", work);
	let _ = std::fs::remove_dir_all(&dir_a);
	let _ = std::fs::remove_dir_all(&dir_b);
	let a1 = Arc::new(open_store(&dir_a));
	let a2 = Arc::new(open_store(&dir_a));
	let b1 = Arc::new(open_store(&dir_b));
	let stop = Arc::new(AtomicBool::new(false));
	let committed = [Arc::new(AtomicU64::new(0)), Arc::new(AtomicU64::new(0))];
	let mut readers = vec![];
	for (ei, dir) in [dir_a.clone(), dir_b.clone()].into_iter().enumerate() {
		let stop = stop.clone();
		let committed = committed[ei].clone();
		readers.push(thread::spawn(move || -> (u64, u64, u64, Vec<String>) {
			let h = open_store(&dir);
			let (mut rounds, mut last, mut max_held) = (0u64, 0u64, 0u64);
			let mut fails = vec![];
			while !stop.load(Ordering::SeqCst) {
				let lower = committed.load(Ordering::SeqCst);
				match h.iter(None, |k, _v| Ok((k.to_vec(), Vec::<u8>::new()))) {
					Ok(it) => {
						thread::sleep(Duration::from_millis(3));
						let mut n = 0u64;
						let mut bad = false;
						for x in it {
							if x.is_err() {
								bad = true;
							}
							n += 1;
						}
						let upper = committed.load(Ordering::SeqCst);
						if bad {
							fails.push(format!("environment {}: an iterator item was an error", ei));
						}
						if n < last || n < lower || n > upper + 64 {
							fails.push(format!("environment {}: iterator counted {} records (previous count {}, committed before it opened {}, after it ended {})", ei, n, last, lower, upper));
						}
						last = n;
						max_held = max_held.max(n);
					}
					Err(e) => fails.push(format!("environment {}: Store::iter failed: {:?}", ei, e)),
				}
				rounds += 1;
				thread::sleep(Duration::from_millis(2));
			}
			(rounds, last, max_held, fails)
		}));
	}
	let target = if thorough { 24 } else { 20 };
	let (mut res_a, mut res_b, mut n_a, mut n_b) = (0u64, 0u64, 0u64, 0u64);
	let (mut recs_a, mut recs_b) = (0u64, 0u64);
	let mut fails: Vec<String> = vec![];
	let mut i = 0u64;
	let mut map_b_seen = meta_info(&dir_b).map(|m| m.0).unwrap_or(CHUNK);
	while res_a < target && i < 4000 && fails.len() < 5 {
		i += 1;
		let to_b = i % 4 == 0 && res_b < 8;
		let (dir, h, ei) = if to_b { (&dir_b, &b1, 1usize) } else { (&dir_a, if i % 2 == 0 { &a1 } else { &a2 }, 0usize) };
		// environment B must not have moved while only A was written
		let mb = meta_info(&dir_b).map(|m| m.0).unwrap_or(CHUNK);
		if mb != map_b_seen {
			fails.push(format!("the map of environment B changed from {} to {} although only environment A was written", map_b_seen, mb));
			map_b_seen = mb;
		}
		let pre = meta_info(dir).unwrap_or((CHUNK, 0, 0));
		// a batch must fit into the head-room the 90 % threshold leaves (the map grows only in
		// Store::batch(): recorded finding C18-mapfull-oversize-batch): 1/24 of the map, in records of
		// at most 1 MiB
		let total = (pre.0 / 24).max(REC as u64);
		let n_rec = ((total + CHUNK - 1) / CHUNK).max(1);
		let rec_len = (total / n_rec) as usize;
		let val = vec![(i % 251) as u8; rec_len];
		let r = h.batch().and_then(|mut b| {
			for j in 0..n_rec {
				b.put(None, format!("k{:06}_{}", i, j).as_bytes(), &val)?;
			}
			b.commit()
		});
		match r {
			Ok(()) => {
				committed[ei].fetch_add(n_rec, Ordering::SeqCst);
				if to_b {
					recs_b += n_rec;
				} else {
					recs_a += n_rec;
				}
			}
			Err(e) => fails.push(format!("batch {} into environment {} failed: {:?}", i, if to_b { "B" } else { "A" }, e)),
		}
		let post = meta_info(dir).unwrap_or((0, 0, 0));
		out.line(
			&format!("kv needs-resize {} {} {}", pre.0, pre.1 * 4096, CHUNK),
			&format!("{} {}", post.0 != pre.0, post.0),
		);
		if post.0 != pre.0 {
			if to_b {
				res_b += 1;
			} else {
				res_a += 1;
			}
		}
		if to_b {
			n_b += 1;
			map_b_seen = post.0;
		} else {
			n_a += 1;
		}
	}
	thread::sleep(Duration::from_millis(30));
	stop.store(true, Ordering::SeqCst);
	let mut rstat = vec![];
	for (ei, t) in readers.into_iter().enumerate() {
		match t.join() {
			Ok((rounds, last, _max, f)) => {
				fails.extend(f.into_iter().take(3));
				rstat.push(format!("reader {}: {} iterators, last count {}", ei, rounds, last));
			}
			Err(_) => fails.push(format!("reader thread of environment {} panicked", ei)),
		}
	}
	// final counts through the handles that did not write last
	let cnt = |h: &Store| collect_iter(h.iter(None, |k, _v| Ok((k.to_vec(), Vec::<u8>::new())))).map(|v| v.len() as u64).unwrap_or(u64::MAX);
	let (ca1, ca2, cb) = (cnt(&a1), cnt(&a2), cnt(&b1));
	if ca1 != recs_a || ca2 != recs_a || cb != recs_b {
		fails.push(format!("final record counts: A through handle 1 {} / handle 2 {} (expected {}), B {} (expected {})", ca1, ca2, recs_a, cb, recs_b));
	}
	if res_a < target {
		fails.push(format!("environment A went through only {} resizes in {} batches", res_a, i));
	}
	for f in fails.iter() {
		out.raw(&format!("#ORACLE-FAIL C18 twoenv: {}", f));
	}
	out.raw(&format!(
		"#STAT [twoenv] batches A={} (two handles alternating) B={}; resizes A={} B={}; final maps A={} B={}; {}; oracle failures={}",
		n_a, n_b, res_a, res_b,
		meta_info(&dir_a).map(|m| m.0).unwrap_or(0), meta_info(&dir_b).map(|m| m.0).unwrap_or(0),
		rstat.join("; "), fails.len()
	));
	out.flush();
}

fn main() {
	if std::env::var("VERIF_KV_LOUD").is_err() {
		quiet_panics();
	}
	let args: Vec<String> = std::env::args().collect();
	let mode = args.get(1).map(|s| s.as_str()).unwrap_or("prog");
	let seed = seed_from_env();
	let thorough = tier_thorough();
	global::set_local_chain_type(ChainTypes::AutomatedTesting);
	if std::env::var("KV_DEBUG_LOG").is_ok() {
		// debugging aid only: grin's debug log (resize decisions) interleaved on stdout
		grin_util::init_test_logger();
	}
	if mode == "dropprobe-child" {
		dropprobe_child(&args[2], &args[3]);
		return;
	}
	if mode == "migrate-child" {
		migrate_child(&args[2], &args[3]);
		return;
	}
	if mode == "crash-child" {
		let dir = &args[2];
		let kind = &args[3];
		let n: u64 = args[4].parse().unwrap();
		crash_child(dir, kind, n, seed);
		return;
	}
	if mode == "f32probe" {
		mode_f32probe(seed, thorough);
		return;
	}
	let work = std::env::var("VERIF_WORK").expect("VERIF_WORK must name a scratch directory");
	std::fs::create_dir_all(&work).unwrap();
	match mode {
		"prog" => mode_prog(&work, seed, thorough),
		"pages" => mode_pages(&work, seed, thorough),
		"resize" => mode_resize(&work, seed, thorough),
		"crash" => mode_crash(&work, seed, thorough),
		"cstore" => mode_cstore(&work, seed, thorough),
		"frag" => mode_frag(&work, seed, thorough),
		"selfiter" => mode_selfiter(&work, seed, thorough),
		"growth" => mode_growth(&work, seed, thorough),
		"inflight" => mode_inflight(&work, seed, thorough),
		"handles" => mode_handles(&work, seed, thorough),
		"slowreader" => mode_slowreader(&work, seed, thorough),
		"migrate" => mode_migrate(&work, seed, thorough),
		"shared" => mode_shared(&work, seed, thorough),
		"deferred" => mode_deferred(&work, seed, thorough),
		"rehandle" => mode_rehandle(&work, seed, thorough),
		"envkeys" => mode_envkeys(&work, seed, thorough),
		"seqs" => mode_seqs(&work, seed, thorough),
		"twoenv" => mode_twoenv(&work, seed, thorough),
		"dropprobe" => mode_dropprobe(&work),
		"newprobe" => mode_newprobe(&work, seed, thorough),
		_ => {
			eprintln!("unknown mode {}", mode);
			std::process::exit(2);
		}
	}
}
