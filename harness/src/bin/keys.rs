//! C20 correspondence: blinding-factor arithmetic, Identifier / path codec, range-proof message
//! logic (ProofBuilder, LegacyProofBuilder, ViewKey), the opaque crypto contracts by sampling
//! (derive / commit determinism, bulletproof create / verify / rewind), and the transaction /
//! coinbase builder.
//!
//! modes (argv[1]): codec | arith | crypto | build | viewkey | history | seeds | hasher | sigs
use std::convert::TryFrom;
use std::panic::AssertUnwindSafe;

use grin_core::core::committed;
use grin_core::core::transaction::{Error as TxError, Weighting};
use grin_core::core::{
	Block, BlockHeader, FeeFields, KernelFeatures, Output, Transaction, TxKernel,
};
use grin_core::global::{self, ChainTypes};
use grin_core::libtx::proof::{self, LegacyProofBuilder, ProofBuild, ProofBuilder};
use grin_core::libtx::{aggsig, build, reward};
use grin_core::pow::Difficulty;
use grin_keychain::{
	BlindSum, BlindingFactor, ChildNumber, ExtKeychain, ExtKeychainPath, Identifier, Keychain,
	SwitchCommitmentType, ViewKey,
};
use grin_util::secp::key::{SecretKey, ZERO_KEY};
use grin_util::secp::pedersen::{Commitment, ProofMessage};
use grin_util::secp::{self, Secp256k1};
use grin_util::static_secp_instance;
use gvharness::*;

/// secp256k1 group order, big endian
const ORDER: [u8; 32] = [
	0xFF, 0xFF, 0xFF, 0xFF, 0xFF, 0xFF, 0xFF, 0xFF, 0xFF, 0xFF, 0xFF, 0xFF, 0xFF, 0xFF, 0xFF, 0xFE,
	0xBA, 0xAE, 0xDC, 0xE6, 0xAF, 0x48, 0xA0, 0x3B, 0xBF, 0xD2, 0x5E, 0x8C, 0xD0, 0x36, 0x41, 0x41,
];

const BOUNDARY: [u32; 5] = [0, 1, 0x7fff_ffff, 0x8000_0000, 0xffff_ffff];

fn sw_name(s: SwitchCommitmentType) -> &'static str {
	match s {
		SwitchCommitmentType::None => "none",
		SwitchCommitmentType::Regular => "regular",
	}
}

const SWITCHES: [SwitchCommitmentType; 2] =
	[SwitchCommitmentType::None, SwitchCommitmentType::Regular];


// ---------------------------------------------------------------------------------------------
// 256-bit helpers (big endian byte arrays) — only used to *generate* interesting operands
// ---------------------------------------------------------------------------------------------

fn add_small(base: &[u8; 32], k: u64) -> [u8; 32] {
	let mut r = *base;
	let mut carry = k as u128;
	for i in (0..32).rev() {
		let s = r[i] as u128 + (carry & 0xff);
		r[i] = s as u8;
		carry = (carry >> 8) + (s >> 8);
	}
	r
}

fn sub_small(base: &[u8; 32], k: u64) -> [u8; 32] {
	// base - k for small k (base large)
	let mut r = *base;
	let mut borrow = k as i128;
	for i in (0..32).rev() {
		let cur = r[i] as i128 - (borrow & 0xff);
		borrow >>= 8;
		if cur < 0 {
			r[i] = (cur + 256) as u8;
			borrow += 1;
		} else {
			r[i] = cur as u8;
		}
	}
	r
}

fn small(k: u64) -> [u8; 32] {
	add_small(&[0u8; 32], k)
}

fn is_valid_nonzero(b: &[u8; 32]) -> bool {
	*b != [0u8; 32] && b.as_ref() < ORDER.as_ref()
}

/// a scalar operand: mostly random valid, with boundary values
fn gen_scalar(rng: &mut Rng, allow_invalid: bool, allow_zero: bool) -> [u8; 32] {
	let c = rng.below(20);
	let r = match c {
		0 if allow_zero => [0u8; 32],
		1 => small(1),
		2 => small(rng.range(2, 1000)),
		3 => sub_small(&ORDER, 1),
		4 => sub_small(&ORDER, rng.range(2, 1000)),
		5 if allow_invalid => ORDER,
		6 if allow_invalid => add_small(&ORDER, rng.range(1, 1000)),
		7 if allow_invalid => [0xff; 32],
		8 if allow_invalid => {
			// random in [n, 2^256): top 16 bytes ff, rest random and >= the low half of n
			let mut b = [0xffu8; 32];
			for i in 17..32 {
				b[i] = rng.next() as u8;
			}
			b[16] = 0xff;
			b
		}
		_ => {
			let mut b = [0u8; 32];
			for x in b.iter_mut() {
				*x = rng.next() as u8;
			}
			if rng.chance(1, 8) {
				// short scalars (leading zero bytes)
				let z = rng.range(1, 31) as usize;
				for x in b.iter_mut().take(z) {
					*x = 0;
				}
			}
			b
		}
	};
	if !allow_zero && r == [0u8; 32] {
		return small(7);
	}
	if !allow_invalid && r.as_ref() >= ORDER.as_ref() {
		return sub_small(&ORDER, 3);
	}
	r
}

fn negate_via_secp(secp: &Secp256k1, b: &[u8; 32]) -> Option<[u8; 32]> {
	let mut k = SecretKey::from_slice(secp, b).ok()?;
	k.neg_assign(secp).ok()?;
	Some(k.0)
}

fn raw_key(b: &[u8; 32]) -> SecretKey {
	// bypasses SecretKey::from_slice on purpose (the tuple field is public)
	SecretKey(*b)
}

fn sum_res(r: Result<Result<SecretKey, secp::Error>, String>) -> String {
	match r {
		Ok(Ok(k)) => hex(&k.0),
		Ok(Err(_)) => "err".to_string(),
		Err(_) => "panic".to_string(),
	}
}

fn bf_res<E>(r: Result<Result<BlindingFactor, E>, String>) -> String {
	match r {
		Ok(Ok(k)) => hex(k.as_ref()),
		Ok(Err(_)) => "err".to_string(),
		Err(_) => "panic".to_string(),
	}
}

fn keys_list(v: &[[u8; 32]]) -> String {
	let parts: Vec<String> = v.iter().map(|x| hex(x)).collect();
	format!("[{}]", parts.join(","))
}

fn shuffle<T>(rng: &mut Rng, v: &mut Vec<T>) {
	for i in (1..v.len()).rev() {
		let j = rng.below(i as u64 + 1) as usize;
		v.swap(i, j);
	}
}

// ---------------------------------------------------------------------------------------------
// arith
// ---------------------------------------------------------------------------------------------

fn arith(out: &mut Out, rng: &mut Rng, thorough: bool) {
	let secp = Secp256k1::with_caps(secp::ContextFlag::Commit);
	let keychain = ExtKeychain::from_seed(&rng.bytes(32), true).unwrap();
	let n = if thorough { 30000 } else { 3000 };
	let (mut n_ok, mut n_err, mut n_panic, mut n_zero_ops, mut n_invalid_ops) = (0u64, 0u64, 0u64, 0u64, 0u64);
	let mut size_hist = [0u64; 16];

	// --- zero operands in EVERY position (deterministic block): k.add(0), 0.add(k), 0.add(0),
	// k.split(0), 0.split(k), whole.split(part) then add back, sums of lists with the zero key in
	// first / middle / last position and on either side, sums that cancel to zero
	{
		let z = [0u8; 32];
		let mut zero_cases = 0u64;
		let ks: Vec<[u8; 32]> = (0..(if thorough { 40 } else { 12 }))
			.map(|i| match i {
				0 => small(1),
				1 => sub_small(&ORDER, 1),
				2 => small(2),
				_ => gen_scalar(rng, false, false),
			})
			.collect();
		let add_line = |out: &mut Out, a: &[u8; 32], b: &[u8; 32]| -> String {
			let r = bf_res(catch(AssertUnwindSafe(|| BlindingFactor::from_slice(a).add(&BlindingFactor::from_slice(b), &secp))));
			out.line(&format!("keys bfadd {} {}", hex(a), hex(b)), &r);
			r
		};
		let split_line = |out: &mut Out, a: &[u8; 32], b: &[u8; 32]| -> String {
			let r = bf_res(catch(AssertUnwindSafe(|| BlindingFactor::from_slice(a).split(&BlindingFactor::from_slice(b), &secp))));
			out.line(&format!("keys bfsplit {} {}", hex(a), hex(b)), &r);
			r
		};
		let from_hex32 = |h: &str| -> [u8; 32] {
			let mut o = [0u8; 32];
			for i in 0..32 {
				o[i] = u8::from_str_radix(&h[2 * i..2 * i + 2], 16).unwrap();
			}
			o
		};
		let r = add_line(out, &z, &z);
		if r != hex(&z) {
			out.raw(&format!("#ORACLE-FAIL C20 0.add(0) is {} (expected the zero factor)", r));
		}
		let r = split_line(out, &z, &z);
		if r != "err" {
			out.raw(&format!("#ORACLE-FAIL C20 0.split(0) is {} (expected InvalidSecretKey)", r));
		}
		zero_cases += 2;
		for (i, k) in ks.iter().enumerate() {
			// add: zero is neutral on either side
			for (a, b) in [(k, &z), (&z, k)].iter() {
				let r = add_line(out, a, b);
				if r != hex(k) {
					out.raw(&format!("#ORACLE-FAIL C20 adding the zero factor changes the value: {}.add({}) = {}", hex(*a), hex(*b), r));
				}
			}
			// split by zero: the second part is the whole; adding back gives the whole
			let r = split_line(out, k, &z);
			if r != hex(k) {
				out.raw(&format!("#ORACLE-FAIL C20 k.split(0) is {} for k={}", r, hex(k)));
			}
			// split of zero by k: the second part is -k; adding back is an error (zero is not a key)
			let r = split_line(out, &z, k);
			if r.len() == 64 {
				let back = add_line(out, k, &from_hex32(&r));
				if back != "err" {
					out.raw(&format!("#ORACLE-FAIL C20 0.split(k) then add back: expected InvalidSecretKey, got {} (k={})", back, hex(k)));
				}
			}
			// whole.split(part) then add back
			let part = &ks[(i + 1) % ks.len()];
			if part != k {
				let r = split_line(out, k, part);
				if r.len() == 64 {
					let p2 = from_hex32(&r);
					for (a, b) in [(part, &p2), (&p2, part)].iter() {
						let back = add_line(out, a, b);
						if back != hex(k) {
							out.raw(&format!("#ORACLE-FAIL C20 whole.split(part) then add back != whole: whole={} part={} part2={} got={}", hex(k), hex(part), r, back));
						}
					}
				} else {
					out.raw(&format!("#ORACLE-FAIL C20 whole.split(part) failed: whole={} part={} => {}", hex(k), hex(part), r));
				}
			}
			// lists with the zero key in first / middle / last position, on either side
			let a = &ks[(i + 2) % ks.len()];
			let b = &ks[(i + 5) % ks.len()];
			let base = sum_res(catch(AssertUnwindSafe(|| secp.blind_sum(vec![raw_key(k), raw_key(a)], vec![raw_key(b)]))));
			out.line(&format!("keys bsum {} {}", keys_list(&[*k, *a]), keys_list(&[*b])), &base);
			let variants: Vec<(Vec<[u8; 32]>, Vec<[u8; 32]>)> = vec![
				(vec![z, *k, *a], vec![*b]),
				(vec![*k, z, *a], vec![*b]),
				(vec![*k, *a, z], vec![*b]),
				(vec![*k, *a], vec![z, *b]),
				(vec![*k, *a], vec![*b, z]),
				(vec![z, *k, z, *a, z], vec![z, *b, z]),
			];
			for (p, q) in variants {
				let r = sum_res(catch(AssertUnwindSafe(|| secp.blind_sum(p.iter().map(raw_key).collect(), q.iter().map(raw_key).collect()))));
				out.line(&format!("keys bsum {} {}", keys_list(&p), keys_list(&q)), &r);
				zero_cases += 1;
				if r != base {
					out.raw(&format!("#ORACLE-FAIL C20 a zero operand changes a blind sum: pos={} neg={} => {} (without zeros {})", keys_list(&p), keys_list(&q), r, base));
				}
			}
			// sums that are zero: only zeros; k - k with zeros around
			for (p, q) in [(vec![z], vec![]), (vec![z, z], vec![z]), (vec![z, *k], vec![*k, z]), (vec![*k, z], vec![z, *k])].iter() {
				let r = sum_res(catch(AssertUnwindSafe(|| secp.blind_sum(p.iter().map(raw_key).collect(), q.iter().map(raw_key).collect()))));
				out.line(&format!("keys bsum {} {}", keys_list(p), keys_list(q)), &r);
				zero_cases += 1;
				if r != "err" {
					out.raw(&format!("#ORACLE-FAIL C20 a blind sum that is zero must be InvalidSecretKey: pos={} neg={} => {}", keys_list(p), keys_list(q), r));
				}
			}
			// ExtKeychain::blind_sum: zero factors in every position; a sum of factors that is zero
			let orders: Vec<(Vec<[u8; 32]>, Vec<[u8; 32]>)> = vec![
				(vec![z, *k], vec![]),
				(vec![*k, z], vec![]),
				(vec![*k, z, *a], vec![z]),
				(vec![*k], vec![z, *a]),
				(vec![z], vec![z]),
				(vec![*k, z], vec![z, *k]),
			];
			for (p, q) in orders {
				let mut bs = BlindSum::new();
				for x in &p {
					bs = bs.add_blinding_factor(BlindingFactor::from_slice(x));
				}
				for x in &q {
					bs = bs.sub_blinding_factor(BlindingFactor::from_slice(x));
				}
				let r = bf_res(catch(AssertUnwindSafe(|| keychain.blind_sum(&bs))));
				out.line(&format!("keys kbsum [] [] {} {}", keys_list(&p), keys_list(&q)), &r);
				zero_cases += 1;
			}
			// sum_kernel_offsets with zero offsets in every position
			for (p, q) in [(vec![z, *k], vec![z]), (vec![*k, z], vec![]), (vec![z], vec![*k]), (vec![z, z], vec![z])].iter() {
				let r = bf_res(catch(AssertUnwindSafe(|| {
					committed::sum_kernel_offsets(
						p.iter().map(|x| BlindingFactor::from_slice(x)).collect(),
						q.iter().map(|x| BlindingFactor::from_slice(x)).collect(),
					)
				})));
				out.line(&format!("keys koff {} {}", keys_list(p), keys_list(q)), &r);
				zero_cases += 1;
			}
		}
		out.raw(&format!(
			"#STAT arith zero-operand block: keys={} cases with a zero operand (add/split on either side, zero first/middle/last in blind_sum lists on either side, zero sums, keychain sums, kernel offsets)={}",
			ks.len(),
			zero_cases + 5 * ks.len() as u64
		));
	}

	// --- Secp256k1::blind_sum on secret keys (zero key and raw out-of-range keys included)
	for case in 0..n {
		let np = rng.below(7) as usize;
		let nn = rng.below(7) as usize;
		let with_invalid = rng.chance(1, 12);
		let mut pos: Vec<[u8; 32]> = (0..np).map(|_| gen_scalar(rng, with_invalid, true)).collect();
		let mut neg: Vec<[u8; 32]> = (0..nn).map(|_| gen_scalar(rng, with_invalid, true)).collect();
		// engineered cancellations: the sum is 0 mod n
		match case % 10 {
			0 => {
				neg = pos.clone();
				shuffle(rng, &mut neg);
			}
			1 => {
				// a + (n - a) on the positive side
				let a = gen_scalar(rng, false, false);
				if let Some(na) = negate_via_secp(&secp, &a) {
					pos = vec![a, na];
					neg = vec![];
				}
			}
			2 => {
				pos = vec![];
			}
			_ => {}
		}
		size_hist[(pos.len() + neg.len()).min(15)] += 1;
		n_zero_ops += pos.iter().chain(neg.iter()).filter(|x| **x == [0u8; 32]).count() as u64;
		n_invalid_ops += pos
			.iter()
			.chain(neg.iter())
			.filter(|x| x.as_ref() >= ORDER.as_ref())
			.count() as u64;
		let p: Vec<SecretKey> = pos.iter().map(raw_key).collect();
		let q: Vec<SecretKey> = neg.iter().map(raw_key).collect();
		let r = sum_res(catch(AssertUnwindSafe(|| secp.blind_sum(p.clone(), q.clone()))));
		match r.as_str() {
			"err" => n_err += 1,
			"panic" => n_panic += 1,
			_ => n_ok += 1,
		}
		out.line(&format!("keys bsum {} {}", keys_list(&pos), keys_list(&neg)), &r);
		// oracle: order of operands does not matter
		let mut p2 = p.clone();
		let mut q2 = q.clone();
		shuffle(rng, &mut p2);
		shuffle(rng, &mut q2);
		let r2 = sum_res(catch(AssertUnwindSafe(|| secp.blind_sum(p2, q2))));
		if r2 != r {
			out.raw(&format!(
				"#ORACLE-FAIL C20 blind_sum depends on operand order: pos={} neg={} first={} permuted={}",
				keys_list(&pos),
				keys_list(&neg),
				r,
				r2
			));
		}
	}
	out.raw(&format!(
		"#STAT arith bsum cases={} ok={} zero-sum-err={} panic(out-of-range operand)={} zero operands={} out-of-range operands={} operand-count histogram={:?}",
		n, n_ok, n_err, n_panic, n_zero_ops, n_invalid_ops, size_hist
	));

	// --- ExtKeychain::blind_sum with blinding factors (invalid ones are silently dropped) and key ids
	let (mut k_ok, mut k_err) = (0u64, 0u64);
	for case in 0..n {
		let mk = |rng: &mut Rng, m: u64| -> Vec<[u8; 32]> {
			(0..rng.below(m)).map(|_| gen_scalar(rng, true, true)).collect()
		};
		let pos_b = mk(rng, 5);
		let mut neg_b = mk(rng, 5);
		if case % 9 == 0 {
			neg_b = pos_b.clone();
			shuffle(rng, &mut neg_b);
		}
		let mut sum = BlindSum::new();
		let mut pos_k = vec![];
		let mut neg_k = vec![];
		if case % 4 == 0 {
			for side in 0..2 {
				for _ in 0..rng.below(3) {
					let id = rand_id_any(rng);
					let value = rand_amount(rng);
					let sw = *rng.pick(&SWITCHES);
					let mut vp = id.to_value_path(value);
					vp.switch = sw;
					let key = keychain.derive_key(value, &id, sw).unwrap();
					if side == 0 {
						sum = sum.add_key_id(vp);
						pos_k.push(key.0);
					} else {
						sum = sum.sub_key_id(vp);
						neg_k.push(key.0);
					}
				}
			}
		}
		for b in &pos_b {
			sum = sum.add_blinding_factor(BlindingFactor::from_slice(b));
		}
		for b in &neg_b {
			sum = sum.sub_blinding_factor(BlindingFactor::from_slice(b));
		}
		let r = bf_res(catch(AssertUnwindSafe(|| keychain.blind_sum(&sum))));
		if r == "err" {
			k_err += 1
		} else {
			k_ok += 1
		}
		out.line(
			&format!(
				"keys kbsum {} {} {} {}",
				keys_list(&pos_k),
				keys_list(&neg_k),
				keys_list(&pos_b),
				keys_list(&neg_b)
			),
			&r,
		);
	}
	out.raw(&format!("#STAT arith kbsum cases={} ok={} err={}", n, k_ok, k_err));

	// --- BlindingFactor::add / split, sum_kernel_offsets; oracles split_sum and add-then-subtract
	let (mut s_ok, mut s_err, mut a_zero) = (0u64, 0u64, 0u64);
	for case in 0..n {
		let a = gen_scalar(rng, true, true);
		let mut b = gen_scalar(rng, true, true);
		if case % 11 == 0 {
			b = a;
		}
		if case % 13 == 0 && is_valid_nonzero(&a) {
			b = negate_via_secp(&secp, &a).unwrap();
		}
		let fa = BlindingFactor::from_slice(&a);
		let fb = BlindingFactor::from_slice(&b);
		let add = catch(AssertUnwindSafe(|| fa.add(&fb, &secp)));
		let add_s = bf_res(add.clone());
		out.line(&format!("keys bfadd {} {}", hex(&a), hex(&b)), &add_s);
		let split = catch(AssertUnwindSafe(|| fa.split(&fb, &secp)));
		let split_s = bf_res(split.clone());
		out.line(&format!("keys bfsplit {} {}", hex(&a), hex(&b)), &split_s);
		if split_s == "err" {
			s_err += 1
		} else {
			s_ok += 1
		}
		// oracle split_sum: the two parts sum to the whole (add_assign on the raw keys, as in the
		// crate's own unit test); applies when the split succeeded
		if let Ok(Ok(part2)) = &split {
			let k1 = fb.secret_key(&secp).unwrap();
			let k2 = part2.secret_key(&secp).unwrap();
			let mut s = k1.clone();
			let whole = fa.secret_key(&secp).unwrap();
			let added = s.add_assign(&secp, &k2).is_ok();
			// zero special case: the whole is the zero factor, the parts are b and -b, and their sum
			// (zero) is not representable as a secret key: add_assign reports an error
			let okk = if a == [0u8; 32] { !added } else { added && s == whole };
			if !okk {
				out.raw(&format!(
					"#ORACLE-FAIL C20 split parts do not sum to the whole: self={} blind_1={} blind_2={}",
					hex(&a),
					hex(&b),
					hex(part2.as_ref())
				));
			}
			// via BlindingFactor::add: equals the whole unless the whole is the zero factor
			let back = bf_res(catch(AssertUnwindSafe(|| fb.add(part2, &secp))));
			if a == [0u8; 32] {
				a_zero += 1;
				if back != "err" {
					out.raw(&format!("#ORACLE-FAIL C20 split of zero: add(blind_1, blind_2) expected InvalidSecretKey, got {} (blind_1={})", back, hex(&b)));
				}
			} else if back != hex(&a) {
				out.raw(&format!(
					"#ORACLE-FAIL C20 add(blind_1, split(self, blind_1)) != self: self={} blind_1={} got={}",
					hex(&a),
					hex(&b),
					back
				));
			}
		}
		// oracle add_sub_cancel: (a + b) - b = a for valid non-zero a
		if let Ok(Ok(c)) = &add {
			if is_valid_nonzero(&a) && (is_valid_nonzero(&b) || b == [0u8; 32]) {
				let bs = BlindSum::new()
					.add_blinding_factor(c.clone())
					.sub_blinding_factor(fb.clone());
				let back = bf_res(catch(AssertUnwindSafe(|| keychain.blind_sum(&bs))));
				if back != hex(&a) {
					out.raw(&format!(
						"#ORACLE-FAIL C20 (a + b) - b != a: a={} b={} got={}",
						hex(&a),
						hex(&b),
						back
					));
				}
			}
		}
		// sum_kernel_offsets
		let np = rng.below(4) as usize;
		let nn = rng.below(3) as usize;
		let mut pos: Vec<[u8; 32]> = (0..np).map(|_| gen_scalar(rng, case % 7 == 0, true)).collect();
		let neg: Vec<[u8; 32]> = (0..nn).map(|_| gen_scalar(rng, case % 7 == 0, true)).collect();
		if case % 17 == 0 {
			pos = neg.clone();
		}
		let r = bf_res(catch(AssertUnwindSafe(|| {
			committed::sum_kernel_offsets(
				pos.iter().map(|x| BlindingFactor::from_slice(x)).collect(),
				neg.iter().map(|x| BlindingFactor::from_slice(x)).collect(),
			)
		})));
		out.line(&format!("keys koff {} {}", keys_list(&pos), keys_list(&neg)), &r);
	}
	out.raw(&format!(
		"#STAT arith bfadd/bfsplit/koff cases={} split ok={} split err={} splits of the zero factor={}",
		n, s_ok, s_err, a_zero
	));
}

// ---------------------------------------------------------------------------------------------
// identifiers
// ---------------------------------------------------------------------------------------------

fn rand_index(rng: &mut Rng) -> u32 {
	match rng.below(4) {
		0 => *rng.pick(&BOUNDARY),
		1 => rng.below(1000) as u32,
		2 => (rng.next() as u32) & 0x7fff_ffff,
		_ => rng.next() as u32,
	}
}

fn rand_id(rng: &mut Rng, depth: u8) -> Identifier {
	ExtKeychain::derive_key_id(depth, rand_index(rng), rand_index(rng), rand_index(rng), rand_index(rng))
}

/// a depth byte the path cannot have: 5..=255 (boundary values favoured)
fn deep_depth(rng: &mut Rng) -> u8 {
	match rng.below(5) {
		0 => 5,
		1 => 255,
		2 => 6,
		_ => rng.range(5, 255) as u8,
	}
}

fn rand_id_any(rng: &mut Rng) -> Identifier {
	let d = rng.below(5) as u8;
	rand_id(rng, d)
}

fn rand_amount(rng: &mut Rng) -> u64 {
	match rng.below(8) {
		0 => 0,
		1 => 1,
		2 => 1 << 32,
		3 => 1 << 63,
		4 => u64::MAX,
		5 => rng.below(1_000_000),
		_ => rng.next(),
	}
}

fn amount_class(a: u64) -> &'static str {
	match a {
		0 => "0",
		1 => "1",
		x if x == 1 << 32 => "2^32",
		x if x == 1 << 63 => "2^63",
		u64::MAX => "2^64-1",
		_ => "random",
	}
}

fn path_str(p: &ExtKeychainPath) -> String {
	let v: Vec<u64> = p.path.iter().map(|c| u32::from(*c) as u64).collect();
	let flags: String = p
		.path
		.iter()
		.map(|c| if c.is_hardened() { 'h' } else { 'n' })
		.collect();
	format!("{} {} {}", p.depth, nat_list(&v), flags)
}

fn id_ops(out: &mut Out, id: &Identifier) {
	let h = hex(&id.to_bytes());
	out.line(&format!("keys topath {}", h), &path_str(&id.to_path()));
	out.line(
		&format!("keys idrt {}", h),
		&hex(&Identifier::from_path(&id.to_path()).to_bytes()),
	);
	out.line(&format!("keys serpath {}", h), &hex(&id.serialize_path()));
	let r = catch(AssertUnwindSafe(|| id.parent_path()));
	out.line(
		&format!("keys parent {}", h),
		&match r {
			Ok(p) => hex(&p.to_bytes()),
			Err(_) => "panic".to_string(),
		},
	);
	let r = catch(AssertUnwindSafe(|| id.to_path().last_path_index()));
	out.line(
		&format!("keys lastidx {}", h),
		&match r {
			Ok(p) => p.to_string(),
			Err(_) => "panic".to_string(),
		},
	);
	let r = catch(AssertUnwindSafe(|| id.to_bip_32_string()));
	out.line(
		&format!("keys bip32 {}", h),
		&match r {
			Ok(p) => p,
			Err(_) => "panic".to_string(),
		},
	);
}

fn check_str(r: Result<Result<Option<(Identifier, SwitchCommitmentType)>, grin_core::libtx::Error>, String>) -> String {
	match r {
		Ok(Ok(Some((id, sw)))) => format!("some {} {}", hex(&id.to_bytes()), sw_name(sw)),
		Ok(Ok(None)) => "none".to_string(),
		Ok(Err(_)) => "err".to_string(),
		Err(_) => "panic".to_string(),
	}
}

/// message mutations: returns (name, bytes)
fn mutations(rng: &mut Rng, msg: &[u8], depth: u8) -> Vec<(&'static str, Vec<u8>)> {
	let mut v: Vec<(&'static str, Vec<u8>)> = vec![("honest", msg.to_vec())];
	let mut m = msg.to_vec();
	m[0] = rng.range(1, 255) as u8;
	v.push(("reserved", m));
	let mut m = msg.to_vec();
	m[1] = rng.range(1, 255) as u8;
	v.push(("wallet-type", m));
	let mut m = msg.to_vec();
	m[2] ^= 1;
	v.push(("switch-flip", m));
	let mut m = msg.to_vec();
	m[2] = rng.range(2, 255) as u8;
	v.push(("switch-invalid", m));
	let mut m = msg.to_vec();
	m[3] = rng.below(8) as u8;
	v.push(("depth-small", m));
	let mut m = msg.to_vec();
	m[3] = rng.range(5, 255) as u8;
	v.push(("depth-over-4", m));
	// a path byte inside the used prefix / beyond it
	let depth = depth.min(4);
	if depth > 0 {
		let mut m = msg.to_vec();
		let i = 4 + rng.below(4 * depth.min(4) as u64) as usize;
		m[i] ^= 1 << rng.below(8);
		v.push(("path-byte-used", m));
	}
	if depth < 4 {
		let mut m = msg.to_vec();
		let lo = 4 + 4 * depth as usize;
		let i = lo + rng.below((20 - lo) as u64) as usize;
		m[i] ^= 1 << rng.below(8);
		v.push(("path-byte-unused", m));
	}
	let mut m = msg.to_vec();
	m.truncate(rng.below(20) as usize);
	v.push(("short", m));
	let mut m = msg.to_vec();
	let extra = rng.range(1, 12) as usize;
	m.extend(rng.bytes(extra));
	v.push(("long", m));
	v.push(("random20", rng.bytes(20)));
	v
}

fn codec(out: &mut Out, rng: &mut Rng, thorough: bool) {
	let secp = Secp256k1::with_caps(secp::ContextFlag::Commit);
	// (a) ChildNumber / switch tags
	for v in 0..=255u32 {
		let r = match SwitchCommitmentType::try_from(v as u8) {
			Ok(s) => sw_name(s).to_string(),
			Err(_) => "err".to_string(),
		};
		out.line(&format!("keys sw_from {}", v), &r);
	}
	for s in SWITCHES.iter() {
		out.line(&format!("keys sw_to {}", sw_name(*s)), &u8::from(*s).to_string());
	}
	let mut idxs: Vec<u32> = BOUNDARY.to_vec();
	idxs.extend_from_slice(&[2, 0x7fff_fffe, 0x8000_0001, 0xffff_fffe, 0x0100_0000, 0x00ff_ffff]);
	for _ in 0..(if thorough { 5000 } else { 500 }) {
		idxs.push(rng.next() as u32);
	}
	for i in &idxs {
		let c = ChildNumber::from(*i);
		let s = match c {
			ChildNumber::Normal { index } => format!("n {}", index),
			ChildNumber::Hardened { index } => format!("h {}", index),
		};
		out.line(&format!("keys child {}", i), &format!("{} {}", s, u32::from(c)));
	}

	// (b) identifiers: every depth 0..=4 with every combination of boundary indices; depth bytes > 4
	let mut n_ids = 0u64;
	let mut depth_hist = [0u64; 8];
	let mut ids: Vec<Identifier> = vec![];
	for depth in 0..=4u8 {
		for a in BOUNDARY.iter() {
			for b in BOUNDARY.iter() {
				for c in BOUNDARY.iter() {
					for d in BOUNDARY.iter() {
						let take = thorough || rng.chance(1, 4);
						let id = ExtKeychain::derive_key_id(depth, *a, *b, *c, *d);
						out.line(
							&format!("keys frompath {} {}", depth, nat_list(&[*a as u64, *b as u64, *c as u64, *d as u64])),
							&hex(&id.to_bytes()),
						);
						if take {
							ids.push(id);
						}
					}
				}
			}
		}
	}
	for _ in 0..(if thorough { 8000 } else { 1200 }) {
		let depth = match rng.below(10) {
			0 => rng.range(5, 255) as u8,
			1 => 5,
			2 => 255,
			_ => rng.below(5) as u8,
		};
		let (a, b, c, d) = (rand_index(rng), rand_index(rng), rand_index(rng), rand_index(rng));
		let id = ExtKeychain::derive_key_id(depth, a, b, c, d);
		out.line(
			&format!("keys frompath {} {}", depth, nat_list(&[a as u64, b as u64, c as u64, d as u64])),
			&hex(&id.to_bytes()),
		);
		ids.push(id);
	}
	// raw byte identifiers (Identifier::from_bytes pads / truncates), incl. from_hex
	for _ in 0..(if thorough { 3000 } else { 500 }) {
		let len = match rng.below(4) {
			0 => 17,
			1 => rng.below(17) as usize,
			_ => rng.below(40) as usize,
		};
		let b = rng.bytes(len);
		let id = Identifier::from_bytes(&b);
		out.line(&format!("keys frombytes {}", hex(&b)), &hex(&id.to_bytes()));
		if len % 2 == 0 || true {
			let id2 = Identifier::from_hex(&hex(&b).replace("-", "")).unwrap();
			if id2 != id {
				out.raw(&format!("#ORACLE-FAIL C20 Identifier::from_hex differs from from_bytes on {}", hex(&b)));
			}
		}
		ids.push(id);
	}
	out.line("keys frombytes -", &hex(&Identifier::zero().to_bytes()));
	out.line("keys rootid", &hex(&ExtKeychain::root_key_id().to_bytes()));
	for id in &ids {
		n_ids += 1;
		depth_hist[(id.to_bytes()[0] as usize).min(7)] += 1;
		id_ops(out, id);
		// from_serialized_path with every len class and short slices
		let ser = id.serialize_path();
		let len = match rng.below(3) {
			0 => id.to_bytes()[0],
			1 => rng.below(6) as u8,
			_ => rng.next() as u8,
		};
		let mut p = ser.to_vec();
		match rng.below(6) {
			0 => p.truncate(rng.below(16) as usize),
			1 => {
				let extra = rng.range(1, 8) as usize;
				p.extend(rng.bytes(extra))
			}
			_ => {}
		}
		let r = catch(AssertUnwindSafe(|| Identifier::from_serialized_path(len, &p)));
		out.line(
			&format!("keys fromser {} {}", len, hex(&p)),
			&match r {
				Ok(i) => hex(&i.to_bytes()),
				Err(_) => "panic".to_string(),
			},
		);
	}
	// the path STRUCT with a depth above 4 (public field, `ExtKeychainPath::new`): last_path_index
	// still indexes out of bounds; through an Identifier the depth is clamped
	for d in [0u8, 1, 4, 5, 6, 200, 255].iter() {
		let (a, b, c, e) = (rand_index(rng), rand_index(rng), rand_index(rng), rand_index(rng));
		let r = catch(AssertUnwindSafe(|| ExtKeychainPath::new(*d, a, b, c, e).last_path_index()));
		out.line(
			&format!("keys pathlastidx {} {}", d, nat_list(&[a as u64, b as u64, c as u64, e as u64])),
			&match r {
				Ok(x) => x.to_string(),
				Err(_) => "panic".to_string(),
			},
		);
	}
	out.raw(&format!(
		"#STAT codec identifiers={} depth-byte histogram (0,1,2,3,4,5,6,>=7)={:?}",
		n_ids, depth_hist
	));

	// (c) proof messages and check_output (byte logic + commitment comparison) on honest and mutated messages
	let n_kc = if thorough { 6 } else { 2 };
	let per_kc = if thorough { 1500 } else { 350 };
	let mut res_hist: std::collections::BTreeMap<String, u64> = Default::default();
	let mut mut_hist: std::collections::BTreeMap<String, u64> = Default::default();
	for kci in 0..n_kc {
		let keychain = if kci % 2 == 0 {
			ExtKeychain::from_seed(&rng.bytes(32), kci % 4 == 0).unwrap()
		} else {
			ExtKeychain::from_random_seed(true).unwrap()
		};
		let nb = ProofBuilder::new(&keychain);
		let lb = LegacyProofBuilder::new(&keychain);
		let mut hasher = keychain.hasher();
		let is_test = kci % 4 == 0 || kci % 2 == 1;
		let vk0 = ViewKey::create(&keychain, keychain.master.clone(), &mut hasher, is_test).unwrap();
		for case in 0..per_kc {
			// every 8th case: a depth byte 5..=255 (behaves as depth 4 since the repair cb1f5b25f)
			let depth = if case % 8 == 7 { deep_depth(rng) } else { (case % 5) as u8 };
			let id = if case % 3 == 0 {
				// mostly-normal small indices so that the view key can follow the path
				ExtKeychain::derive_key_id(depth, rng.below(20) as u32, rng.below(1 << 16) as u32, rng.below(3) as u32, rng.below(2) as u32)
			} else {
				rand_id(rng, depth)
			};
			let idh = hex(&id.to_bytes());
			let amount = rand_amount(rng);
			for sw in SWITCHES.iter() {
				let commit = keychain.commit(amount, &id, *sw).unwrap();
				let m_new = nb.proof_message(&secp, &id, *sw).unwrap();
				let m_leg = lb.proof_message(&secp, &id, *sw).unwrap();
				out.line(&format!("keys msg new {} {}", idh, sw_name(*sw)), &hex(m_new.as_bytes()));
				out.line(&format!("keys msg legacy {} {}", idh, sw_name(*sw)), &hex(m_leg.as_bytes()));
				// child view key along the first path component when it is a normal index
				let c0 = id.to_path().path[0];
				let vk1 = if c0.is_normal() {
					vk0.ckd_pub(&secp, &mut hasher, c0).ok()
				} else {
					None
				};
				let vk1_other = vk0
					.ckd_pub(&secp, &mut hasher, ChildNumber::from_normal_idx(12345))
					.unwrap();
				for (kind, base) in [("new", &m_new), ("legacy", &m_leg)].iter() {
					let muts = if case % 4 == 0 || *kind == "legacy" && case % 2 == 0 {
						mutations(rng, base.as_bytes(), depth)
					} else {
						vec![("honest", base.as_bytes().to_vec())]
					};
					for (mname, m) in muts {
						*mut_hist.entry(format!("{}:{}", kind, mname)).or_insert(0) += 1;
						let pm = ProofMessage::from_bytes(&m);
						let r = if *kind == "new" {
							check_str(catch(AssertUnwindSafe(|| nb.check_output(&secp, &commit, amount, pm.clone()))))
						} else {
							check_str(catch(AssertUnwindSafe(|| lb.check_output(&secp, &commit, amount, pm.clone()))))
						};
						*res_hist
							.entry(format!("{}:{}", kind, r.split(' ').next().unwrap()))
							.or_insert(0) += 1;
						out.line(
							&format!("keys check {} {} {} {} {}", kind, hex(&m), idh, sw_name(*sw), amount),
							&r,
						);
						if *kind == "new" {
							// view keys read the same message format
							let r = check_str(catch(AssertUnwindSafe(|| vk0.check_output(&secp, &commit, amount, pm.clone()))));
							*res_hist
								.entry(format!("view0:{}", r.split(' ').next().unwrap()))
								.or_insert(0) += 1;
							out.line(
								&format!("keys vcheck 0 0 {} {} {} {}", hex(&m), idh, sw_name(*sw), amount),
								&r,
							);
							if let Some(vk1) = &vk1 {
								let r = check_str(catch(AssertUnwindSafe(|| vk1.check_output(&secp, &commit, amount, pm.clone()))));
								*res_hist
									.entry(format!("view1:{}", r.split(' ').next().unwrap()))
									.or_insert(0) += 1;
								out.line(
									&format!(
										"keys vcheck 1 {} {} {} {} {}",
										u32::from(c0),
										hex(&m),
										idh,
										sw_name(*sw),
										amount
									),
									&r,
								);
							}
							if mname == "honest" && case % 7 == 0 {
								let r = check_str(catch(AssertUnwindSafe(|| vk1_other.check_output(&secp, &commit, amount, pm.clone()))));
								out.line(
									&format!("keys vcheck 1 12345 {} {} {} {}", hex(&m), idh, sw_name(*sw), amount),
									&r,
								);
							}
						}
					}
				}
			}
		}
	}
	out.raw(&format!("#STAT codec check_output result histogram={:?}", res_hist));
	out.raw(&format!("#STAT codec message mutation histogram={:?}", mut_hist));
}

// ---------------------------------------------------------------------------------------------
// crypto contracts by sampling
// ---------------------------------------------------------------------------------------------

fn rewind_str(
	r: Result<Result<Option<(u64, Identifier, SwitchCommitmentType)>, grin_core::libtx::Error>, String>,
) -> String {
	match r {
		Ok(Ok(Some((a, id, sw)))) => format!("some {} {} {}", hex(&id.to_bytes()), sw_name(sw), a),
		Ok(Ok(None)) => "none".to_string(),
		Ok(Err(_)) => "err".to_string(),
		Err(_) => "panic".to_string(),
	}
}

fn crypto(out: &mut Out, rng: &mut Rng, thorough: bool) {
	let n_seeds = if thorough { 12 } else { 4 };
	let per_seed = if thorough { 150 } else { 60 };
	let secp_v = Secp256k1::with_caps(secp::ContextFlag::Commit);
	let mut stat: std::collections::BTreeMap<String, u64> = Default::default();
	let mut bump = |k: String| {
		*stat.entry(k).or_insert(0) += 1;
	};
	let mut proofs = 0u64;
	for si in 0..n_seeds {
		let seed = rng.bytes(if si % 3 == 2 { 16 } else { 32 });
		let is_test = si % 2 == 0;
		let keychain = if si % 4 == 3 {
			ExtKeychain::from_random_seed(true).unwrap()
		} else {
			ExtKeychain::from_seed(&seed, is_test).unwrap()
		};
		let is_test = if si % 4 == 3 { true } else { is_test };
		// an independent instance from the same seed: derivation is a function of the seed
		let keychain_again = if si % 4 == 3 {
			keychain.clone()
		} else {
			ExtKeychain::from_seed(&seed, is_test).unwrap()
		};
		let other = ExtKeychain::from_seed(&rng.bytes(32), is_test).unwrap();
		let nb = ProofBuilder::new(&keychain);
		let nb2 = ProofBuilder::new(&keychain_again);
		let lb = LegacyProofBuilder::new(&keychain);
		let onb = ProofBuilder::new(&other);
		let olb = LegacyProofBuilder::new(&other);
		let mut hasher = keychain.hasher();
		let vk0 = ViewKey::create(&keychain, keychain.master.clone(), &mut hasher, is_test).unwrap();
		let mut ohasher = other.hasher();
		let ovk0 = ViewKey::create(&other, other.master.clone(), &mut ohasher, is_test).unwrap();
		for case in 0..per_seed {
			let depth = if case % 9 == 8 { deep_depth(rng) } else { (case % 5) as u8 };
			let id = match case % 4 {
				0 => ExtKeychain::derive_key_id(depth, rng.below(10) as u32, rng.below(1 << 16) as u32, rng.below(4) as u32, rng.below(2) as u32),
				1 => ExtKeychain::derive_key_id(depth, *rng.pick(&BOUNDARY), *rng.pick(&BOUNDARY), *rng.pick(&BOUNDARY), *rng.pick(&BOUNDARY)),
				_ => rand_id(rng, depth),
			};
			let idh = hex(&id.to_bytes());
			let amount = match case % 7 {
				0 => 0,
				1 => 1,
				2 => 1 << 32,
				3 => 1 << 63,
				4 => u64::MAX,
				_ => rng.next(),
			};
			let sw = SWITCHES[(case / 5 % 2) as usize];
			bump(format!("depth={}", if depth > 4 { "5..255".to_string() } else { depth.to_string() }));
			bump(format!("amount={}", amount_class(amount)));
			bump(format!("switch={}", sw_name(sw)));
			let tag = format!("seed#{} id={} sw={} amount={}", si, idh, sw_name(sw), amount);

			// determinism of derivation and commitment (twice, and from a second keychain instance)
			let k1 = keychain.derive_key(amount, &id, sw).unwrap();
			let k2 = keychain.derive_key(amount, &id, sw).unwrap();
			let k3 = keychain_again.derive_key(amount, &id, sw).unwrap();
			if k1 != k2 || k1 != k3 {
				out.raw(&format!("#ORACLE-FAIL C20 derive_key not deterministic: {}", tag));
			}
			let c1 = keychain.commit(amount, &id, sw).unwrap();
			let c2 = keychain.commit(amount, &id, sw).unwrap();
			let c3 = keychain_again.commit(amount, &id, sw).unwrap();
			if c1 != c2 || c1 != c3 {
				out.raw(&format!("#ORACLE-FAIL C20 commit not deterministic: {}", tag));
			}
			// commit is the commitment to (amount, derived key)
			if secp_v.commit(amount, k1.clone()).unwrap() != c1 {
				out.raw(&format!("#ORACLE-FAIL C20 commit != secp.commit(amount, derive_key): {}", tag));
			}
			// components beyond `depth` are not key material (model: keyEquiv)
			if depth < 4 {
				let mut b = id.to_bytes();
				let lo = 1 + 4 * depth as usize;
				let i = lo + rng.below((17 - lo) as u64) as usize;
				b[i] ^= 0x10;
				let id2 = Identifier::from_bytes(&b);
				let same = keychain.derive_key(amount, &id2, sw).unwrap() == k1;
				out.line(
					&format!("keys samekey {} {} {} {}", idh, sw_name(sw), hex(&b), sw_name(sw)),
					&same.to_string(),
				);
			}
			// a different identifier / switch / seed gives a different key (sampled injectivity)
			{
				let id2 = rand_id_any(rng);
				let sw2 = *rng.pick(&SWITCHES);
				let same = keychain.derive_key(amount, &id2, sw2).unwrap() == k1;
				out.line(
					&format!("keys samekey {} {} {} {}", idh, sw_name(sw), hex(&id2.to_bytes()), sw_name(sw2)),
					&same.to_string(),
				);
				if other.derive_key(amount, &id, sw).unwrap() == k1 {
					out.raw(&format!("#ORACLE-FAIL C20 two seeds derive the same key: {}", tag));
				}
			}

			// proofs: both builder generations
			for kind in ["new", "legacy"].iter() {
				let is_new = *kind == "new";
				bump(format!("builder={}", kind));
				let proof = if is_new {
					proof::create(&keychain, &nb, amount, &id, sw, c1, None)
				} else {
					proof::create(&keychain, &lb, amount, &id, sw, c1, None)
				}
				.unwrap();
				proofs += 1;
				let v = proof::verify(&secp_v, c1, proof, None).is_ok();
				out.line(
					&format!("keys verify {} {} {} {}", kind, idh, sw_name(sw), amount),
					&v.to_string(),
				);
				// deterministic proof (nonces are derived, not random)
				if case % 6 == 0 {
					let proof2 = if is_new {
						proof::create(&keychain_again, &nb2, amount, &id, sw, c1, None)
					} else {
						proof::create(&keychain, &lb, amount, &id, sw, c1, None)
					}
					.unwrap();
					proofs += 1;
					if proof2.bytes().to_vec() != proof.bytes().to_vec() {
						out.raw(&format!("#ORACLE-FAIL C20 proof::create not deterministic ({}): {}", kind, tag));
					}
				}
				// a proof does not verify against another commitment
				if case % 5 == 0 {
					let cx = keychain.commit(amount ^ 1, &id, sw).unwrap();
					if proof::verify(&secp_v, cx, proof, None).is_ok() {
						out.raw(&format!("#ORACLE-FAIL C20 range proof verifies for a different commitment ({}): {}", kind, tag));
					}
				}
				// rewind with the same builder
				let r = if is_new {
					rewind_str(catch(AssertUnwindSafe(|| proof::rewind(&secp_v, &nb, c1, None, proof))))
				} else {
					rewind_str(catch(AssertUnwindSafe(|| proof::rewind(&secp_v, &lb, c1, None, proof))))
				};
				bump(format!("rewind {}:{}", kind, r.split(' ').next().unwrap()));
				out.line(
					&format!("keys rewind {} {} {} {}", kind, idh, sw_name(sw), amount),
					&r,
				);
				if !is_new && r == "none" {
					bump("legacy builder does not recover (depth != 3 or switch None)".to_string());
				}
				// rewind with another seed recovers nothing
				let r = if is_new {
					rewind_str(catch(AssertUnwindSafe(|| proof::rewind(&secp_v, &onb, c1, None, proof))))
				} else {
					rewind_str(catch(AssertUnwindSafe(|| proof::rewind(&secp_v, &olb, c1, None, proof))))
				};
				out.line(
					&format!("keys rewind_other {} {} {} {}", kind, idh, sw_name(sw), amount),
					&r,
				);
				// the wrong builder generation of the same seed recovers nothing either
				let r = if is_new {
					rewind_str(catch(AssertUnwindSafe(|| proof::rewind(&secp_v, &lb, c1, None, proof))))
				} else {
					rewind_str(catch(AssertUnwindSafe(|| proof::rewind(&secp_v, &nb, c1, None, proof))))
				};
				out.line(
					&format!("keys rewind_other {}-by-other-generation {} {} {}", kind, idh, sw_name(sw), amount),
					&r,
				);
				if is_new {
					// matching view key / view key of another seed
					let r = rewind_str(catch(AssertUnwindSafe(|| proof::rewind(&secp_v, &vk0, c1, None, proof))));
					bump(format!("rewind view:{}", r.split(' ').next().unwrap()));
					out.line(
						&format!("keys rewind view {} {} {}", idh, sw_name(sw), amount),
						&r,
					);
					let r = rewind_str(catch(AssertUnwindSafe(|| proof::rewind(&secp_v, &ovk0, c1, None, proof))));
					out.line(
						&format!("keys rewind_other view {} {} {}", idh, sw_name(sw), amount),
						&r,
					);
				}
				// a corrupted proof: does not verify; rewinding never yields a wrong answer
				if case % 3 == 0 {
					let mut bad = proof;
					let i = rng.below(bad.plen as u64) as usize;
					bad.proof[i] ^= 1 << rng.below(8);
					// not part of C20 (and not always true: the encoding has unused bits, see the
					// `malleable` mode) — recorded as a statistic only
					if proof::verify(&secp_v, c1, bad, None).is_ok() {
						bump(format!("bit-flipped proof still verifies (byte {})", i));
					} else {
						bump("bit-flipped proofs rejected".to_string());
					}
				}
			}
		}
	}
	// ---- proof-builder corners: the root key (depth 0, all-zero path: with switch None the 20-byte
	// proof message is ALL ZERO and is a valid message), depth 0 / 1 / 2 / 3 with non-zero unused
	// words, depth 3 with a non-zero 4th word (the legacy builder drops depth and switch), all-zero
	// words at depth 3 and 4; amounts 0, 1, 2^64-1; both switch modes; both builder generations and
	// the root view key; the same seed must recover exactly what the builder's message logic says,
	// another seed / the other generation / another seed's view key must recover nothing
	{
		let mut corner_stat: std::collections::BTreeMap<String, u64> = Default::default();
		let mut zero_msgs = 0u64;
		for ci in 0..(if thorough { 3 } else { 1 }) {
			let seed = rng.bytes(32);
			let is_test = ci == 0;
			let keychain = ExtKeychain::from_seed(&seed, is_test).unwrap();
			let other = ExtKeychain::from_seed(&rng.bytes(32), is_test).unwrap();
			let nb = ProofBuilder::new(&keychain);
			let lb = LegacyProofBuilder::new(&keychain);
			let onb = ProofBuilder::new(&other);
			let olb = LegacyProofBuilder::new(&other);
			let mut hasher = keychain.hasher();
			let vk0 = ViewKey::create(&keychain, keychain.master.clone(), &mut hasher, is_test).unwrap();
			let mut ohasher = other.hasher();
			let ovk0 = ViewKey::create(&other, other.master.clone(), &mut ohasher, is_test).unwrap();
			let ids: Vec<Identifier> = vec![
				ExtKeychain::root_key_id(),
				ExtKeychain::derive_key_id(0, 1, 2, 3, 4),
				ExtKeychain::derive_key_id(0, 0, 0, 0, 0xffff_ffff),
				ExtKeychain::derive_key_id(1, 7, 0, 0, 0),
				ExtKeychain::derive_key_id(1, 7, 5, 6, 7),
				ExtKeychain::derive_key_id(2, 7, 8, 0, 0),
				ExtKeychain::derive_key_id(2, 7, 8, 9, 1),
				ExtKeychain::derive_key_id(3, 1, 2, 3, 0),
				ExtKeychain::derive_key_id(3, 1, 2, 3, 5),
				ExtKeychain::derive_key_id(3, 1, 2, 3, 0xffff_ffff),
				ExtKeychain::derive_key_id(3, 0, 0, 0, 0),
				ExtKeychain::derive_key_id(3, 0, 0, 0, 9),
				ExtKeychain::derive_key_id(4, 0, 0, 0, 0),
				ExtKeychain::derive_key_id(4, 1, 2, 3, 4),
			];
			for id in &ids {
				let idh = hex(&id.to_bytes());
				for sw in SWITCHES.iter() {
					let m_new = nb.proof_message(keychain.secp(), id, *sw).unwrap();
					let m_leg = lb.proof_message(keychain.secp(), id, *sw).unwrap();
					out.line(&format!("keys msg new {} {}", idh, sw_name(*sw)), &hex(m_new.as_bytes()));
					out.line(&format!("keys msg legacy {} {}", idh, sw_name(*sw)), &hex(m_leg.as_bytes()));
					if m_new.as_bytes().iter().all(|b| *b == 0) {
						zero_msgs += 1;
					}
					for amount in [0u64, 1, u64::MAX].iter() {
						let c1 = keychain.commit(*amount, id, *sw).unwrap();
						for kind in ["new", "legacy"].iter() {
							let is_new = *kind == "new";
							let proof = match catch(AssertUnwindSafe(|| if is_new {
								proof::create(&keychain, &nb, *amount, id, *sw, c1, None)
							} else {
								proof::create(&keychain, &lb, *amount, id, *sw, c1, None)
							})) {
								Ok(Ok(p)) => p,
								other => {
									out.raw(&format!("#ORACLE-FAIL C20 corners: proof::create ({}) fails for id={} sw={} amount={}: {:?}", kind, idh, sw_name(*sw), amount, other.map(|r| r.map(|_| ()))));
									continue;
								}
							};
							proofs += 1;
							let v = proof::verify(&secp_v, c1, proof, None).is_ok();
							out.line(&format!("keys verify {} {} {} {}", kind, idh, sw_name(*sw), amount), &v.to_string());
							let r = if is_new {
								rewind_str(catch(AssertUnwindSafe(|| proof::rewind(&secp_v, &nb, c1, None, proof))))
							} else {
								rewind_str(catch(AssertUnwindSafe(|| proof::rewind(&secp_v, &lb, c1, None, proof))))
							};
							*corner_stat.entry(format!("{} depth={} sw={}: {}", kind, id.to_bytes()[0], sw_name(*sw), r.split(' ').next().unwrap())).or_insert(0) += 1;
							out.line(&format!("keys rewind {} {} {} {}", kind, idh, sw_name(*sw), amount), &r);
							let r = if is_new {
								rewind_str(catch(AssertUnwindSafe(|| proof::rewind(&secp_v, &onb, c1, None, proof))))
							} else {
								rewind_str(catch(AssertUnwindSafe(|| proof::rewind(&secp_v, &olb, c1, None, proof))))
							};
							out.line(&format!("keys rewind_other {} {} {} {}", kind, idh, sw_name(*sw), amount), &r);
							let r = if is_new {
								rewind_str(catch(AssertUnwindSafe(|| proof::rewind(&secp_v, &lb, c1, None, proof))))
							} else {
								rewind_str(catch(AssertUnwindSafe(|| proof::rewind(&secp_v, &nb, c1, None, proof))))
							};
							out.line(&format!("keys rewind_other {}-by-other-generation {} {} {}", kind, idh, sw_name(*sw), amount), &r);
							if is_new {
								let r = rewind_str(catch(AssertUnwindSafe(|| proof::rewind(&secp_v, &vk0, c1, None, proof))));
								*corner_stat.entry(format!("view depth={} sw={} amount={}: {}", id.to_bytes()[0], sw_name(*sw), amount_class(*amount), r.split(' ').next().unwrap())).or_insert(0) += 1;
								out.line(&format!("keys rewind view {} {} {}", idh, sw_name(*sw), amount), &r);
								let r = rewind_str(catch(AssertUnwindSafe(|| proof::rewind(&secp_v, &ovk0, c1, None, proof))));
								out.line(&format!("keys rewind_other view {} {} {}", idh, sw_name(*sw), amount), &r);
							}
						}
					}
				}
			}
		}
		out.raw(&format!("#STAT crypto corners: all-zero proof messages (root key, switch None) seen={}; outcomes {:?}", zero_msgs, corner_stat));
	}
	out.raw(&format!("#STAT crypto seeds={} cases={} bulletproofs created={}", n_seeds, n_seeds * per_seed, proofs));
	out.raw(&format!("#STAT crypto distribution={:?}", stat));

	// depth > 4 identifiers: constructible through the public API; derive_key indexed out of bounds
	// before the repair cb1f5b25f (recorded finding C20-depth-gt4-panic, now `fixed`): the probe line
	// below is printed under the same condition as before, i.e. only if the panic is back
	let keychain = ExtKeychain::from_seed(&rng.bytes(32), true).unwrap();
	let mut probes = 0;
	for depth in [5u8, 6, 17, 255].iter() {
		let id = ExtKeychain::derive_key_id(*depth, 1, 2, 3, 4);
		let r = catch(AssertUnwindSafe(|| keychain.derive_key(5, &id, SwitchCommitmentType::Regular)));
		let s = match r {
			Ok(Ok(_)) => "ok",
			Ok(Err(_)) => "err",
			Err(_) => "panic",
		};
		out.line(&format!("keys derive_depth {}", hex(&id.to_bytes())), s);
		if s == "panic" {
			probes += 1;
		}
	}
	if probes > 0 {
		out.raw("#KNOWN-PROBE C20 depth>4: ExtKeychain::derive_key / commit panic (index out of bounds in path[i]) for an Identifier whose depth byte is > 4, e.g. ExtKeychain::derive_key_id(5,1,2,3,4) or Identifier::from_hex; parent_path / last_path_index / to_bip_32_string panic the same way");
	}
	out.raw("#KNOWN-PROBE C20 legacy-builder: LegacyProofBuilder rewinds only outputs with depth 3 and SwitchCommitmentType::Regular (message carries neither depth nor switch); other depths / switch None rewind to None with the same seed");
	out.raw("#KNOWN-PROBE C20 view-key-zero-amount: ViewKey rewind of a zero-value output returns Err (ViewKey::commit calls secp.commit_value(0), which fails: 0*H is the point at infinity), also for SwitchCommitmentType::None");
	out.raw("#KNOWN-PROBE C20 view-key-regular: ViewKey rewind of a Regular switch-commitment output returns Err(SwitchCommitment) (ViewKey::commit not implemented for Regular); hardened path components rewind to None");
}

// ---------------------------------------------------------------------------------------------
// builder
// ---------------------------------------------------------------------------------------------

fn validate_str(r: Result<(), TxError>) -> String {
	match r {
		Ok(()) => "ok".to_string(),
		Err(TxError::CutThrough) => "cutthrough".to_string(),
		Err(TxError::KernelSumMismatch) => "sum".to_string(),
		Err(TxError::Committed(committed::Error::KernelSumMismatch)) => "sum".to_string(),
		Err(_) => "other".to_string(),
	}
}

fn builder(out: &mut Out, rng: &mut Rng, thorough: bool) {
	global::set_local_chain_type(ChainTypes::AutomatedTesting);
	global::set_local_nrd_enabled(true);
	let n_cases = if thorough { 500 } else { 120 };
	let mut stat: std::collections::BTreeMap<String, u64> = Default::default();
	let mut proofs = 0u64;
	let mut dup_probe = 0u64;
	let mut keychain = ExtKeychain::from_seed(&rng.bytes(32), true).unwrap();
	for case in 0..n_cases {
		if case % 10 == 0 {
			keychain = if case % 20 == 0 {
				ExtKeychain::from_seed(&rng.bytes(32), true).unwrap()
			} else {
				ExtKeychain::from_random_seed(true).unwrap()
			};
		}
		let secp = keychain.secp();
		let legacy = case % 5 == 4;
		let n_in = if rng.chance(1, 8) { 0 } else { rng.range(1, 3) as usize };
		let n_out = rng.below(4) as usize;
		let class = match case % 8 {
			5 => "unbalanced",
			6 => "duplicate",
			7 => "spend-own-output",
			_ => "balanced",
		};
		// outputs first, then inputs whose values make the sum balance
		let fee: u64 = match rng.below(5) {
			0 => 0,
			1 => 1,
			2 => (1u64 << 40) - 1,
			_ => rng.below(1_000_000),
		};
		let mut outs: Vec<(u64, Identifier)> = (0..n_out)
			.map(|_| {
				let v = match rng.below(6) {
					0 => 0,
					1 => 1,
					2 => 1 << 32,
					_ => rng.below(1 << 50),
				};
				(v, rand_id_any(rng))
			})
			.collect();
		let total: u64 = outs.iter().map(|x| x.0).sum::<u64>() + fee;
		let mut ins: Vec<(u64, Identifier)> = vec![];
		if n_in == 0 {
			// nothing to spend: only balanced when total is 0
		} else {
			let mut left = total;
			for i in 0..n_in {
				let v = if i + 1 == n_in { left } else { rng.below(left + 1) };
				left -= v;
				ins.push((v, rand_id_any(rng)));
			}
		}
		match class {
			"unbalanced" => {
				if let Some(x) = ins.first_mut() {
					x.0 += rng.range(1, 1000);
				} else {
					outs.push((rng.range(1, 1000), rand_id(rng, 2)));
				}
			}
			"duplicate" => {
				// the same (value, key id) handed in twice, values still balancing as a multiset
				if let Some(x) = ins.first().cloned() {
					ins.push(x.clone());
					outs.push((x.0, rand_id(rng, 3)));
				}
			}
			"spend-own-output" => {
				if let Some(x) = outs.first().cloned() {
					ins.push(x);
				}
			}
			_ => {}
		}
		let balanced_nat = ins.iter().map(|x| x.0 as u128).sum::<u128>()
			== outs.iter().map(|x| x.0 as u128).sum::<u128>() + fee as u128;
		// steps in a random interleaving
		#[derive(Clone)]
		enum S {
			I(u64, Identifier),
			O(u64, Identifier),
			X([u8; 32]),
		}
		let mut steps: Vec<S> = ins.iter().map(|x| S::I(x.0, x.1.clone())).collect();
		steps.extend(outs.iter().map(|x| S::O(x.0, x.1.clone())));
		let with_excess = case % 6 == 3;
		if with_excess {
			steps.push(S::X(gen_scalar(rng, false, true)));
		}
		shuffle(rng, &mut steps);
		let sw = SwitchCommitmentType::Regular;
		let step_strs: Vec<String> = steps
			.iter()
			.map(|s| match s {
				S::I(v, id) => format!("i:{}:{}", v, hex(&keychain.derive_key(*v, id, sw).unwrap().0)),
				S::O(v, id) => format!("o:{}:{}", v, hex(&keychain.derive_key(*v, id, sw).unwrap().0)),
				S::X(b) => format!("x:{}", hex(b)),
			})
			.collect();
		let steps_s = format!("[{}]", step_strs.join(","));
		// distinct as commitments (two identifiers of depth 0, say, are the same key)
		let distinct = {
			let mut v: Vec<&String> = step_strs.iter().filter(|s| !s.starts_with("x:")).map(|s| s).collect();
			let mut w: Vec<String> = v.drain(..).map(|s| s[2..].to_string()).collect();
			w.sort();
			let n0 = w.len();
			w.dedup();
			w.len() == n0
		};
		let features = match case % 3 {
			0 if fee > 0 => KernelFeatures::HeightLocked {
				fee: FeeFields::new(0, fee).unwrap(),
				lock_height: rng.below(1000),
			},
			// a no-recent-duplicate kernel (the feature flag is switched on for this thread): its
			// signature message covers the relative height
			1 if fee > 0 => KernelFeatures::NoRecentDuplicate {
				fee: FeeFields::new(0, fee).unwrap(),
				relative_height: grin_core::core::NRDRelativeHeight::try_from(rng.range(1, 10080) as u16).unwrap(),
			},
			_ => KernelFeatures::Plain {
				fee: if fee == 0 { FeeFields::zero() } else { FeeFields::new(0, fee).unwrap() },
			},
		};
		let excess = gen_scalar(rng, false, false);
		*stat.entry(format!("kernel={}", match features { KernelFeatures::Plain { .. } => "plain", KernelFeatures::HeightLocked { .. } => "height-locked", KernelFeatures::NoRecentDuplicate { .. } => "nrd", _ => "other" })).or_insert(0) += 1;
		*stat.entry(format!("class={}", class)).or_insert(0) += 1;
		*stat.entry(format!("inputs={}", ins.len())).or_insert(0) += 1;
		*stat.entry(format!("outputs={}", outs.len())).or_insert(0) += 1;
		*stat.entry(format!("builder={}", if legacy { "legacy" } else { "new" })).or_insert(0) += 1;
		*stat.entry(format!("fee={}", if fee == 0 { "0" } else if fee == (1 << 40) - 1 { "2^40-1" } else { "other" })).or_insert(0) += 1;
		proofs += 2 * outs.len() as u64;

		macro_rules! with_builder {
			($b:ident, $body:expr) => {
				if legacy {
					let $b = LegacyProofBuilder::new(&keychain);
					$body
				} else {
					let $b = ProofBuilder::new(&keychain);
					$body
				}
			};
		}
		macro_rules! elems {
			() => {
				steps
					.iter()
					.map(|s| match s {
						S::I(v, id) => build::input(*v, id.clone()),
						S::O(v, id) => build::output(*v, id.clone()),
						S::X(b) => build::with_excess(BlindingFactor::from_slice(b)),
					})
					.collect::<Vec<_>>()
			};
		}

		// (1) transaction_with_kernel with a known excess: offset compared with the model
		let r = with_builder!(b, {
			let mut kernel = TxKernel::with_features(features);
			let msg = kernel.msg_to_sign().unwrap();
			let ex = BlindingFactor::from_slice(&excess);
			let skey = ex.secret_key(secp).unwrap();
			kernel.excess = secp.commit(0, skey).unwrap();
			let pubkey = kernel.excess.to_pubkey(secp).unwrap();
			kernel.excess_sig = aggsig::sign_with_blinding(secp, &msg, &ex, Some(&pubkey)).unwrap();
			if kernel.verify().is_err() {
				out.raw(&format!("#ORACLE-FAIL C20 kernel signature made with the excess does not verify: excess={}", hex(&excess)));
			}
			catch(AssertUnwindSafe(|| build::transaction_with_kernel(&elems!(), kernel, ex, &keychain, &b)))
		});
		let res = match r {
			Ok(Ok(tx)) => {
				let v = validate_str(tx.validate(Weighting::AsTransaction));
				let kv = tx.kernels().iter().all(|k| k.verify().is_ok());
				if !kv {
					out.raw(&format!("#ORACLE-FAIL C20 kernel signature of a built tx does not verify: steps={}", steps_s));
				}
				for o in tx.outputs() {
					if o.verify_proof().is_err() {
						out.raw(&format!("#ORACLE-FAIL C20 range proof of a built output does not verify: steps={}", steps_s));
					}
				}
				*stat.entry(format!("validate={}", v)).or_insert(0) += 1;
				if class == "duplicate" && balanced_nat && v == "sum" {
					dup_probe += 1;
				}
				format!("{} {} {} {}", hex(tx.offset.as_ref()), tx.inputs().len(), tx.outputs().len(), v)
			}
			Ok(Err(_)) => {
				*stat.entry("builder-error".to_string()).or_insert(0) += 1;
				"err".to_string()
			}
			Err(_) => "panic".to_string(),
		};
		out.line(&format!("keys build {} {} {}", fee, hex(&excess), steps_s), &res);

		// (2) build::transaction (random excess inside): the property's oracle — a transaction
		// assembled from distinct keys whose values balance always validates
		let r = with_builder!(b, catch(AssertUnwindSafe(|| build::transaction(features, &elems!(), &keychain, &b))));
		match r {
			Ok(Ok(tx)) => {
				let v = validate_str(tx.validate(Weighting::AsTransaction));
				let degenerate = ins.is_empty() && outs.is_empty();
				if class == "balanced" && balanced_nat && distinct && !with_excess && !degenerate && v != "ok" {
					out.raw(&format!(
						"#ORACLE-FAIL C20 build::transaction of balanced distinct elements does not validate ({}): fee={} steps={}",
						v, fee, steps_s
					));
				}
				if !tx.kernels().iter().all(|k| k.verify().is_ok()) {
					out.raw(&format!("#ORACLE-FAIL C20 kernel signature does not verify: fee={} steps={}", fee, steps_s));
				}
				out.line(
					&format!("keys buildv {} {}", fee, steps_s),
					&format!("{} {} {}", tx.inputs().len(), tx.outputs().len(), v),
				);
			}
			Ok(Err(_)) => out.line(&format!("keys buildv {} {}", fee, steps_s), "err"),
			Err(_) => out.line(&format!("keys buildv {} {}", fee, steps_s), "panic"),
		}

		// (3) partial_transaction on top of an empty tx: returned blind sum compared with the model
		if case % 2 == 0 {
			let r = with_builder!(b, catch(AssertUnwindSafe(|| build::partial_transaction(Transaction::empty(), &elems!(), &keychain, &b))));
			proofs += outs.len() as u64;
			let s = match r {
				Ok(Ok((tx, sum))) => format!("{} {} {}", hex(sum.as_ref()), tx.inputs().len(), tx.outputs().len()),
				Ok(Err(_)) => "err".to_string(),
				Err(_) => "panic".to_string(),
			};
			out.line(&format!("keys partial {}", steps_s), &s);
		}
	}

	// coinbase: reward::output → output proof, kernel signature, Block::verify_coinbase
	let n_cb = if thorough { 120 } else { 40 };
	let mut cb_ok = 0;
	for case in 0..n_cb {
		let keychain = ExtKeychain::from_seed(&rng.bytes(32), true).unwrap();
		let id = rand_id(rng, (case % 5) as u8);
		let fees = match case % 6 {
			0 => 0,
			1 => 1,
			2 => u64::MAX,
			3 => u64::MAX - 60_000_000_000,
			// around the 40-bit fee field of a single kernel (a block's fees are a u64 sum and may exceed it)
			4 => [(1u64 << 40) - 1, 1 << 40, (1 << 40) + 1, u64::MAX - 60_000_000_000 + 1, u64::MAX - 60_000_000_000 - 1, 15 << 40][(case / 6) % 6],
			_ => rng.below(1 << 40),
		};
		let legacy = case % 4 == 3;
		let r = if legacy {
			reward::output(&keychain, &LegacyProofBuilder::new(&keychain), &id, fees, case % 2 == 0)
		} else {
			reward::output(&keychain, &ProofBuilder::new(&keychain), &id, fees, case % 2 == 0)
		};
		proofs += 1;
		let (o, k): (Output, TxKernel) = match r {
			Ok(x) => x,
			Err(e) => {
				out.raw(&format!("#ORACLE-FAIL C20 reward::output failed: id={} fees={} err={:?}", hex(&id.to_bytes()), fees, e));
				continue;
			}
		};
		let value = grin_core::consensus::reward(fees);
		let key = keychain.derive_key(value, &id, SwitchCommitmentType::Regular).unwrap();
		let proof_ok = o.verify_proof().is_ok();
		let sig_ok = k.verify().is_ok();
		// excess = out - reward*H  must be the commitment to (0, key)
		let sum_ok = {
			let secp = static_secp_instance();
			let secp = secp.lock();
			let over = secp.commit_value(value).unwrap();
			let ex = secp.commit_sum(vec![o.commitment()], vec![over]).unwrap();
			let direct: Commitment = secp.commit(0, key.clone()).unwrap();
			ex == k.excess && direct == k.excess
		};
		// block level (fees of an empty block are 0, so only then verify_coinbase can hold)
		let blk = if fees == 0 {
			let prev = BlockHeader::default();
			match Block::new(&prev, &[], Difficulty::min_dma(), (o.clone(), k.clone())) {
				Ok(b) => {
					if b.verify_coinbase().is_ok() {
						"block-ok"
					} else {
						"block-bad"
					}
				}
				Err(_) => "block-err",
			}
		} else {
			"block-skip"
		};
		if proof_ok && sig_ok && sum_ok && blk != "block-bad" && blk != "block-err" {
			cb_ok += 1;
		} else {
			out.raw(&format!(
				"#ORACLE-FAIL C20 coinbase does not verify: id={} fees={} proof={} sig={} sum={} {}",
				hex(&id.to_bytes()),
				fees,
				proof_ok,
				sig_ok,
				sum_ok,
				blk
			));
		}
		out.line(
			&format!("keys coinbase {}", fees),
			&format!("{} {} {} {} {}", value, proof_ok, sig_ok, sum_ok, blk),
		);
		// the same call once more: commitment, range proof (its nonces are functions of the keychain
		// and the commitment) and excess are the same; the kernel signature is the same exactly in
		// test_mode (fixed nonce), a fresh nonce otherwise
		if case % 3 == 0 {
			let tm = case % 2 == 0;
			let again = if legacy {
				reward::output(&keychain, &LegacyProofBuilder::new(&keychain), &id, fees, tm)
			} else {
				reward::output(&keychain, &ProofBuilder::new(&keychain), &id, fees, tm)
			};
			proofs += 1;
			let s = match again {
				Ok((o2, k2)) => format!(
					"{} {} {} {}",
					o2.commitment() == o.commitment() && o2.features() == o.features(),
					o2.proof_bytes() == o.proof_bytes(),
					k2.excess == k.excess && k2.features == k.features,
					k2.excess_sig == k.excess_sig
				),
				Err(_) => "err".to_string(),
			};
			let want = format!("true true true {}", tm);
			if s != want {
				out.raw(&format!("#ORACLE-FAIL C20 reward::output called twice with the same arguments (test_mode={}) differs: id={} fees={} got [{}] want [{}]", tm, hex(&id.to_bytes()), fees, s, want));
			}
			out.line(&format!("keys cbdet {} {}", fees, tm), &s);
		}
	}
	if dup_probe > 0 {
		out.raw(&format!("#KNOWN-PROBE C20 duplicate-element: build::input/output handed the same (value, key id) twice: the body keeps the element once (with_input/with_output drop duplicates) but the BlindSum counts its key twice, so the built transaction fails validate with KernelSumMismatch although the values balance as a multiset ({} cases this run)", dup_probe));
	}
	out.raw(&format!("#STAT build cases={} coinbase cases={} coinbase ok={} bulletproofs created~{}", n_cases, n_cb, cb_ok, proofs));
	out.raw(&format!("#STAT build distribution={:?}", stat));
}

// ---------------------------------------------------------------------------------------------
// view keys made from a privately derived child (any depth, hardened account words)
// ---------------------------------------------------------------------------------------------

fn hardened_word(rng: &mut Rng) -> u32 {
	match rng.below(5) {
		0 => 0x8000_0000,
		1 => 0x8000_0000 + rng.range(1, 20) as u32,
		2 => 0xffff_ffff,
		3 => 0x8000_0000 | (rng.next() as u32),
		_ => 0x8000_0001,
	}
}

fn normal_word(rng: &mut Rng) -> u32 {
	match rng.below(5) {
		0 => 0,
		1 => rng.range(1, 20) as u32,
		2 => 0x7fff_ffff,
		3 => (rng.next() as u32) & 0x7fff_ffff,
		_ => 1,
	}
}

fn word_flags(w: &[u32]) -> String {
	w.iter().map(|x| if x & 0x8000_0000 != 0 { 'h' } else { 'n' }).collect()
}

/// identifier of depth `words.len()` whose unused trailing words are arbitrary (they are carried in
/// the message and must come back unchanged, but are not key material)
fn id_from_words(rng: &mut Rng, words: &[u32]) -> Identifier {
	let mut w = [0u32; 4];
	for i in 0..4 {
		w[i] = if i < words.len() {
			words[i]
		} else {
			match rng.below(3) {
				0 => 0,
				1 => rng.next() as u32,
				_ => hardened_word(rng),
			}
		};
	}
	ExtKeychain::derive_key_id(words.len() as u8, w[0], w[1], w[2], w[3])
}

fn viewkey(out: &mut Out, rng: &mut Rng, thorough: bool) {
	let secp = Secp256k1::with_caps(secp::ContextFlag::Commit);
	let n_seeds = if thorough { 4 } else { 2 };
	let mut stat: std::collections::BTreeMap<String, u64> = Default::default();
	macro_rules! bump {
		($k:expr) => {
			*stat.entry($k).or_insert(0) += 1
		};
	}
	let (mut n_check, mut n_rewind, mut proofs, mut known_zero, mut known_regular) = (0u64, 0u64, 0u64, 0u64, 0u64);
	for si in 0..n_seeds {
		let seed = rng.bytes(32);
		let is_test = si % 2 == 0;
		let keychain = ExtKeychain::from_seed(&seed, is_test).unwrap();
		let other = ExtKeychain::from_seed(&rng.bytes(32), is_test).unwrap();
		let nb = ProofBuilder::new(&keychain);
		// view-key paths: depth 0..=4, every hardened/normal pattern (depth 4: the view key of one
		// single output key - nothing can follow; quick tier: every second pattern)
		let mut vk_paths: Vec<Vec<u32>> = vec![vec![]];
		for d in 1..=4usize {
			for pat in 0..(1u32 << d) {
				if d == 4 && !thorough && pat % 2 == 1 {
					continue;
				}
				let reps = if d == 1 { 3 } else { 1 };
				for _ in 0..reps {
					let p: Vec<u32> = (0..d)
						.map(|i| if pat & (1 << i) != 0 { hardened_word(rng) } else { normal_word(rng) })
						.collect();
					vk_paths.push(p);
				}
			}
		}
		// the account of the property text: m/0'
		vk_paths.push(vec![0x8000_0000]);
		for vkp in &vk_paths {
			let d = vkp.len();
			let mut hasher = keychain.hasher();
			let cnums: Vec<ChildNumber> = vkp.iter().map(|w| ChildNumber::from(*w)).collect();
			let ext = keychain.master.derive_priv(keychain.secp(), &mut hasher, &cnums).unwrap();
			let vk = ViewKey::create(&keychain, ext, &mut hasher, is_test).unwrap();
			let vks = nat_list(&vkp.iter().map(|x| *x as u64).collect::<Vec<_>>());
			let exp_child = cnums.last().cloned().unwrap_or(ChildNumber::from_normal_idx(0));
			if vk.depth as usize != d || vk.child_number != exp_child {
				out.raw(&format!(
					"#ORACLE-FAIL C20 ViewKey::create from the private key at {} has depth {} child {:?}",
					vks, vk.depth, vk.child_number
				));
			}
			bump!(format!("vk depth={}", d));
			bump!(format!("vk words={}", if d == 0 { "root".to_string() } else { word_flags(vkp) }));
			for rem in 0..=(4 - d) {
				// (class, words of the identifier)
				let mut cases: Vec<(&'static str, Vec<u32>)> = vec![];
				let r: Vec<u32> = (0..rem).map(|_| normal_word(rng)).collect();
				let mut full = vkp.clone();
				full.extend(&r);
				cases.push(("covered", full.clone()));
				if full.len() == 4 {
					// the same path named by an identifier whose depth byte is 5..=255: behaves as depth 4
					// (repair cb1f5b25f) and comes back with depth byte 4
					cases.push(("covered-deep-depth-byte", full.clone()));
				}
				if rem > 0 {
					// a hardened step below the view key
					let mut w = full.clone();
					let j = d + rng.below(rem as u64) as usize;
					w[j] = match rng.below(3) {
						0 => w[j] | 0x8000_0000,
						_ => hardened_word(rng),
					};
					cases.push(("hardened-below", w));
				}
				if d > 0 {
					// another account: the last word of the view key's path differs
					let mut w = full.clone();
					w[d - 1] = match rng.below(3) {
						0 => w[d - 1] ^ 0x8000_0000, // 0' vs 0
						1 => w[d - 1] ^ 1,
						_ => {
							let x = rng.next() as u32;
							if x == w[d - 1] {
								x ^ 2
							} else {
								x
							}
						}
					};
					cases.push(("other-account", w));
					if rem == 0 || rng.chance(1, 2) {
						// shorter than the view key: a proper prefix of its path
						let k = rng.below(d as u64) as usize;
						cases.push(("shorter", vkp[..k].to_vec()));
					}
				}
				if d > 1 {
					// another branch that ends in the same child number (only the key comparison tells)
					let mut w = full.clone();
					let j = rng.below(d as u64 - 1) as usize;
					w[j] = match rng.below(2) {
						0 => w[j] ^ 0x8000_0000,
						_ => w[j] ^ (1 << rng.below(31)),
					};
					cases.push(("other-branch-same-child", w));
				}
				for (class, words) in cases {
					let id = if class == "covered-deep-depth-byte" {
						ExtKeychain::derive_key_id(deep_depth(rng), words[0], words[1], words[2], words[3])
					} else {
						id_from_words(rng, &words)
					};
					let idh = hex(&id.to_bytes());
					// what a covering view key must give back: the identifier, depth byte clamped to 4
					let exp_idh = if class == "covered-deep-depth-byte" {
						hex(&ExtKeychain::derive_key_id(4, words[0], words[1], words[2], words[3]).to_bytes())
					} else {
						idh.clone()
					};
					let covered = class.starts_with("covered");
					let amounts: Vec<u64> = if covered {
						vec![0, u64::MAX, 1, rng.next(), 1 << 63]
					} else {
						vec![u64::MAX, *rng.pick(&[0u64, 1, 1 << 32]), rng.next()]
					};
					for (ai, amount) in amounts.iter().enumerate() {
						let amount = *amount;
						let sws: &[SwitchCommitmentType] = if ai % 3 == 2 { &SWITCHES } else { &SWITCHES[..1] };
						for sw in sws {
							let sw = *sw;
							bump!(format!("class={}", class));
							bump!(format!("rem={}", rem));
							bump!(format!("amount={}", amount_class(amount)));
							bump!(format!("switch={}", sw_name(sw)));
							let commit = keychain.commit(amount, &id, sw).unwrap();
							let msg = nb.proof_message(&secp, &id, sw).unwrap();
							let tag = format!(
								"seed={} vk=m/{:?} id={} (words {:?}) class={} sw={} amount={}",
								hex(&seed), vkp, idh, words, class, sw_name(sw), amount
							);
							// (1) check_output directly, on the honest message and (sampled) mutations
							let muts = if rng.chance(1, 6) {
								mutations(rng, msg.as_bytes(), words.len() as u8)
							} else {
								vec![("honest", msg.as_bytes().to_vec())]
							};
							for (mname, m) in muts {
								let pm = ProofMessage::from_bytes(&m);
								let r = check_str(catch(AssertUnwindSafe(|| vk.check_output(&secp, &commit, amount, pm.clone()))));
								n_check += 1;
								out.line(
									&format!("keys vkcheck {} {} {} {} {}", vks, hex(&m), idh, sw_name(sw), amount),
									&r,
								);
								if r == "panic" {
									out.raw(&format!("#ORACLE-FAIL C20 ViewKey::check_output panicked: {} msg={}", tag, hex(&m)));
								}
								if mname != "honest" {
									bump!(format!("mutated message:{}", r.split(' ').next().unwrap()));
									continue;
								}
								bump!(format!("check {}:{}", class, r.split(' ').next().unwrap()));
								let exact = format!("some {} none", exp_idh);
								if covered {
									if sw == SwitchCommitmentType::None && amount != 0 {
										if r != exact {
											out.raw(&format!("#ORACLE-FAIL C20 matching view key does not recover the output (check_output => {}): {}", r, tag));
										}
									} else if r == "err" {
										if amount == 0 {
											known_zero += 1
										} else {
											known_regular += 1
										}
									} else if r != exact {
										out.raw(&format!("#ORACLE-FAIL C20 view key returns a wrong answer (check_output => {}): {}", r, tag));
									}
								} else if r.starts_with("some") {
									out.raw(&format!("#ORACLE-FAIL C20 view key recovers an output it must not cover (check_output => {}): {}", r, tag));
								}
							}
							// the same identifier committed by another seed is never recovered
							if ai == 1 {
								let c2 = other.commit(amount, &id, sw).unwrap();
								let r = check_str(catch(AssertUnwindSafe(|| vk.check_output(&secp, &c2, amount, msg.clone()))));
								bump!(format!("check other-seed:{}", r.split(' ').next().unwrap()));
								if r.starts_with("some") {
									out.raw(&format!("#ORACLE-FAIL C20 view key recovers an output of another seed: {}", tag));
								}
							}
							// (2) through a real bulletproof: proof::create with ProofBuilder, proof::rewind with the view key
							let do_rewind = if thorough {
								covered || rng.chance(1, 2)
							} else {
								(covered && (ai == 1 || rng.chance(1, if ai == 0 { 2 } else { 4 })))
									|| (!covered && rng.chance(1, 6))
							};
							if do_rewind {
								let proof = proof::create(&keychain, &nb, amount, &id, sw, commit, None).unwrap();
								proofs += 1;
								let r = rewind_str(catch(AssertUnwindSafe(|| proof::rewind(&secp, &vk, commit, None, proof))));
								n_rewind += 1;
								bump!(format!("rewind {}:{}", class, r.split(' ').next().unwrap()));
								out.line(&format!("keys vkrewind {} {} {} {}", vks, idh, sw_name(sw), amount), &r);
								let exact = format!("some {} none {}", exp_idh, amount);
								if r == "panic" {
									out.raw(&format!("#ORACLE-FAIL C20 proof::rewind with a view key panicked: {}", tag));
								} else if covered {
									if sw == SwitchCommitmentType::None && amount != 0 {
										if r != exact {
											out.raw(&format!("#ORACLE-FAIL C20 matching view key does not rewind to exactly (amount, path, None) (=> {}): {}", r, tag));
										}
									} else if r != "err" && r != exact {
										out.raw(&format!("#ORACLE-FAIL C20 view key rewinds to a wrong answer (=> {}): {}", r, tag));
									}
								} else if r.starts_with("some") {
									out.raw(&format!("#ORACLE-FAIL C20 view key rewinds an output it must not cover (=> {}): {}", r, tag));
								}
							}
						}
					}
				}
			}
		}
	}
	out.raw(&format!(
		"#STAT viewkey seeds={} check_output calls={} rewinds through real bulletproofs={} bulletproofs created={}",
		n_seeds, n_check, n_rewind, proofs
	));
	out.raw(&format!("#STAT viewkey distribution={:?}", stat));
	if known_zero > 0 {
		out.raw(&format!("#KNOWN-PROBE C20 view-key-zero-amount: a view key that covers the output (any depth, hardened account) returns Err for a zero-value output (ViewKey::commit calls secp.commit_value(0)); {} cases this run", known_zero));
	}
	if known_regular > 0 {
		out.raw(&format!("#KNOWN-PROBE C20 view-key-regular: a view key that covers the output returns Err(SwitchCommitment) for a Regular switch-commitment output; {} cases this run", known_regular));
	}
}

// ---------------------------------------------------------------------------------------------
// determinism across the history of a keychain instance (and of its clones)
// ---------------------------------------------------------------------------------------------

fn history(out: &mut Out, rng: &mut Rng, thorough: bool) {
	global::set_local_chain_type(ChainTypes::AutomatedTesting);
	let secp = Secp256k1::with_caps(secp::ContextFlag::Commit);
	let n_seeds = if thorough { 4 } else { 2 };
	let mut stat: std::collections::BTreeMap<String, u64> = Default::default();
	macro_rules! bump {
		($k:expr) => {
			*stat.entry($k).or_insert(0) += 1
		};
	}
	let (mut n_cmp, mut n_same, mut proofs) = (0u64, 0u64, 0u64);
	for si in 0..n_seeds {
		let seed = rng.bytes(if si % 3 == 2 { 16 } else { 32 });
		let is_test = si % 2 == 0;
		let fresh = || ExtKeychain::from_seed(&seed, is_test).unwrap();
		// families of identifiers that share their 16 path bytes and differ in the depth byte only
		let mut families: Vec<[u32; 4]> = vec![[7, 0, 0, 0], [0, 0, 0, 0], [0x8000_0000, 0, 0, 0], [7, 7, 7, 7]];
		for _ in 0..(if thorough { 3 } else { 1 }) {
			families.push([rand_index(rng), rand_index(rng), rand_index(rng), rand_index(rng)]);
		}
		for (fi, w) in families.iter().enumerate() {
			let ids: Vec<Identifier> = (0..=4u8).map(|d| ExtKeychain::derive_key_id(d, w[0], w[1], w[2], w[3])).collect();
			bump!(format!("family={}", match fi { 0 => "m/7 m/7/0 ..", 1 => "root m/0 m/0/0 ..", 2 => "m/0' m/0'/0 ..", 3 => "m/7/7/7/7 prefixes", _ => "random words" }));
			let amount = match fi % 4 {
				0 => 0,
				1 => u64::MAX,
				2 => 1,
				_ => rng.next(),
			};
			// reference values: one brand-new keychain per question, nothing derived before
			struct Ref {
				key: [Vec<u8>; 2],
				commit: [Vec<u8>; 2],
				proof: Vec<u8>,
				reward: (Vec<u8>, Vec<u8>, Vec<u8>, Vec<u8>),
			}
			let mut refs: Vec<Ref> = vec![];
			for id in &ids {
				let mut key: [Vec<u8>; 2] = [vec![], vec![]];
				let mut commit: [Vec<u8>; 2] = [vec![], vec![]];
				for (k, sw) in SWITCHES.iter().enumerate() {
					key[k] = fresh().derive_key(amount, id, *sw).unwrap().0.to_vec();
					commit[k] = fresh().commit(amount, id, *sw).unwrap().0.to_vec();
				}
				let kc = fresh();
				let c = kc.commit(amount, id, SwitchCommitmentType::Regular).unwrap();
				let proof = proof::create(&kc, &ProofBuilder::new(&kc), amount, id, SwitchCommitmentType::Regular, c, None).unwrap();
				let kc = fresh();
				let (o, k) = reward::output(&kc, &ProofBuilder::new(&kc), id, amount % 1000, true).unwrap();
				proofs += 2;
				refs.push(Ref {
					key,
					commit,
					proof: proof.bytes().to_vec(),
					reward: (
						o.commitment().0.to_vec(),
						o.proof_bytes().to_vec(),
						k.excess.0.to_vec(),
						ser_sig(&k),
					),
				});
			}
			// distinct depths give distinct keys although the path bytes are equal
			for a in 0..5usize {
				for b in (a + 1)..5 {
					if (a + b + fi) % 3 == 0 {
						out.line(
							&format!("keys samekey {} none {} none", hex(&ids[a].to_bytes()), hex(&ids[b].to_bytes())),
							&(refs[a].key[0] == refs[b].key[0]).to_string(),
						);
					}
				}
			}
			// orders in which one instance is asked
			let mut orders: Vec<(&'static str, Vec<usize>)> = vec![
				("ascending-depth", vec![0, 1, 2, 3, 4]),
				("descending-depth", vec![4, 3, 2, 1, 0]),
			];
			for _ in 0..(if thorough { 3 } else { 1 }) {
				let mut o: Vec<usize> = (0..5).collect();
				shuffle(rng, &mut o);
				// ask some identifiers twice
				let extra = o[rng.below(5) as usize];
				o.push(extra);
				orders.push(("shuffled", o));
			}
			for (oname, order) in &orders {
				bump!(format!("order={}", oname));
				let inst = fresh();
				let before = inst.clone();
				let builder = ProofBuilder::new(&inst);
				for (step, &i) in order.iter().enumerate() {
					let id = &ids[i];
					let idh = hex(&id.to_bytes());
					let mut cmp = |kind: &str, sw: SwitchCommitmentType, same: bool, detail: String| {
						n_cmp += 1;
						if same {
							n_same += 1;
						}
						out.line(
							&format!("keys hist {} seed{}:{}#{} {} {} {}", kind, si, oname, step, idh, sw_name(sw), amount),
							if same { "same" } else { "differs" },
						);
						if !same {
							out.raw(&format!(
								"#ORACLE-FAIL C20 {} depends on what the keychain instance derived before: seed={} is_test={} order={:?} (indices into depths 0..4 of words {:?}) step={} id={} sw={} amount={} {}",
								kind, hex(&seed), is_test, order, w, step, idh, sw_name(sw), amount, detail
							));
						}
					};
					for (k, sw) in SWITCHES.iter().enumerate() {
						let got = inst.derive_key(amount, id, *sw).unwrap().0.to_vec();
						cmp("derive", *sw, got == refs[i].key[k], format!("got={} fresh={}", hex(&got), hex(&refs[i].key[k])));
						let got = inst.commit(amount, id, *sw).unwrap().0.to_vec();
						cmp("commit", *sw, got == refs[i].commit[k], format!("got={} fresh={}", hex(&got), hex(&refs[i].commit[k])));
					}
					// proof creation, reward::output and rewind on the used instance (sampled: they are slow)
					if thorough || step % 3 == 0 {
						let sw = SwitchCommitmentType::Regular;
						let c = inst.commit(amount, id, sw).unwrap();
						let proof = proof::create(&inst, &builder, amount, id, sw, c, None).unwrap();
						proofs += 1;
						cmp("proof", sw, proof.bytes().to_vec() == refs[i].proof, String::new());
						let rw = rewind_str(catch(AssertUnwindSafe(|| proof::rewind(&secp, &builder, c, None, proof))));
						cmp("rewind", sw, rw == format!("some {} regular {}", idh, amount), format!("rewind={}", rw));
						// a builder made from a clone taken after the history, and one from a fresh keychain
						let cl = inst.clone();
						let rw2 = rewind_str(catch(AssertUnwindSafe(|| proof::rewind(&secp, &ProofBuilder::new(&cl), c, None, proof))));
						let fk = fresh();
						let rw3 = rewind_str(catch(AssertUnwindSafe(|| proof::rewind(&secp, &ProofBuilder::new(&fk), c, None, proof))));
						cmp("rewind-clone-fresh", sw, rw2 == rw && rw3 == rw, format!("clone={} fresh={}", rw2, rw3));
						let (o, k) = reward::output(&inst, &builder, id, amount % 1000, true).unwrap();
						proofs += 1;
						let got = (o.commitment().0.to_vec(), o.proof_bytes().to_vec(), k.excess.0.to_vec(), ser_sig(&k));
						cmp("reward", sw, got == refs[i].reward, String::new());
					}
				}
				// clones: one taken before anything was derived, one after
				let after = inst.clone();
				for (cname, cl) in [("clone-before", &before), ("clone-after", &after)].iter() {
					for (pos, &i) in order.iter().rev().enumerate() {
						for (k, sw) in SWITCHES.iter().enumerate() {
							let got_k = cl.derive_key(amount, &ids[i], *sw).unwrap().0.to_vec();
							let got_c = cl.commit(amount, &ids[i], *sw).unwrap().0.to_vec();
							let same = got_k == refs[i].key[k] && got_c == refs[i].commit[k];
							n_cmp += 1;
							if same {
								n_same += 1;
							}
							out.line(
								&format!("keys hist {} seed{}:{}#{} {} {} {}", cname, si, oname, pos, hex(&ids[i].to_bytes()), sw_name(*sw), amount),
								if same { "same" } else { "differs" },
							);
							if !same {
								out.raw(&format!(
									"#ORACLE-FAIL C20 derive_key/commit on a {} of a used keychain differs from a fresh keychain: seed={} is_test={} order={:?} words={:?} id={} sw={} amount={}",
									cname, hex(&seed), is_test, order, w, hex(&ids[i].to_bytes()), sw_name(*sw), amount
								));
							}
						}
					}
				}
			}
		}
	}
	out.raw(&format!(
		"#STAT history seeds={} comparisons={} same={} bulletproofs created={}",
		n_seeds, n_cmp, n_same, proofs
	));
	out.raw(&format!("#STAT history distribution={:?}", stat));
}

fn ser_sig(k: &TxKernel) -> Vec<u8> {
	grin_core::ser::ser_vec(k, grin_core::ser::ProtocolVersion(2)).unwrap()
}

// ---------------------------------------------------------------------------------------------
// seeds of every length; pairs of seeds with a long common prefix
// ---------------------------------------------------------------------------------------------

fn seeds(out: &mut Out, rng: &mut Rng, thorough: bool) {
	let secp = Secp256k1::with_caps(secp::ContextFlag::Commit);
	let mut stat: std::collections::BTreeMap<String, u64> = Default::default();
	macro_rules! bump {
		($k:expr) => {
			*stat.entry($k).or_insert(0) += 1
		};
	}
	let mut proofs = 0u64;
	let lengths: [usize; 9] = [16, 32, 33, 63, 64, 65, 96, 128, 255];
	// (name, seed A, seed B)
	let mut pairs: Vec<(String, Vec<u8>, Vec<u8>)> = vec![];
	// every length: a keychain exists, rewinds its own output; two random seeds of that length differ
	for len in lengths.iter() {
		let a = rng.bytes(*len);
		let ok = ExtKeychain::from_seed(&a, true).is_ok() && ExtKeychain::from_seed(&a, false).is_ok();
		out.line(&format!("keys seedlen {}", len), if ok { "ok" } else { "err" });
		if !ok {
			out.raw(&format!("#ORACLE-FAIL C20 ExtKeychain::from_seed fails for a seed of {} bytes: {}", len, hex(&a)));
			continue;
		}
		let b = rng.bytes(*len);
		pairs.push((format!("random-len{}", len), a, b));
	}
	// common prefix of p bytes, differing only in the tail
	for p in [16usize, 32, 63, 64, 65, 95].iter() {
		let prefix = rng.bytes(*p);
		// same length, only the last byte differs
		let mut a = prefix.clone();
		let mut b = prefix.clone();
		let x = rng.next() as u8;
		a.push(x);
		b.push(x ^ (1 << rng.below(8)));
		pairs.push((format!("prefix{}-last-byte", p), a, b));
		// one seed is a strict prefix of the other (zero byte / random tail appended)
		let a = prefix.clone();
		let mut b = prefix.clone();
		b.push(0);
		if *p >= 16 {
			pairs.push((format!("prefix{}-strict-prefix-plus-zero", p), a.clone(), b));
		}
		let mut b = prefix.clone();
		let extra = rng.range(1, 40) as usize;
		b.extend(rng.bytes(extra));
		pairs.push((format!("prefix{}-strict-prefix-plus-tail", p), a, b));
		// long different tails after the common prefix
		let mut a = prefix.clone();
		let mut b = prefix.clone();
		a.extend(rng.bytes(32));
		b.extend(rng.bytes(32));
		pairs.push((format!("prefix{}-tails", p), a, b));
	}
	// the symmetric case: only the first byte differs
	for len in [16usize, 32, 64, 65, 96, 255].iter() {
		let a = rng.bytes(*len);
		let mut b = a.clone();
		b[0] ^= 1 << rng.below(8);
		pairs.push((format!("first-byte-len{}", len), a, b));
	}
	// only a middle byte / only the last bit
	for len in [33usize, 64, 128].iter() {
		let a = rng.bytes(*len);
		let mut b = a.clone();
		b[*len / 2] ^= 0x80;
		pairs.push((format!("middle-byte-len{}", len), a, b));
	}
	for (pi, (name, sa, sb)) in pairs.iter().enumerate() {
		let is_test = pi % 2 == 0;
		let (ka, kb) = match (ExtKeychain::from_seed(sa, is_test), ExtKeychain::from_seed(sb, is_test)) {
			(Ok(a), Ok(b)) => (a, b),
			_ => {
				out.raw(&format!("#ORACLE-FAIL C20 from_seed failed: {} / {}", hex(sa), hex(sb)));
				continue;
			}
		};
		bump!(format!("pair={}", name.split("-len").next().unwrap().to_string()));
		bump!(format!("lenA={}", sa.len()));
		let tag = format!("{} A={} B={}", name, hex(sa), hex(sb));
		let lhs = |what: &str| format!("keys seedpair {} {} {} {}", what, sa.len(), sb.len(), name);
		let cmp_tag = tag.clone();
		let cmp = move |out: &mut Out, what: &str, same: bool| {
			out.line(&lhs(what), if same { "same" } else { "differ" });
			if same {
				out.raw(&format!("#ORACLE-FAIL C20 two different seeds give the same {}: {}", what, cmp_tag));
			}
		};
		cmp(out, "master", ka.master.secret_key == kb.master.secret_key);
		cmp(out, "chaincode", ka.master.chain_code == kb.master.chain_code);
		cmp(out, "rootpub", ka.public_root_key() == kb.public_root_key());
		// an identifier of depth 3 with small normal words: every builder generation and the root
		// view key can recover it (legacy: Regular only)
		let ids: Vec<Identifier> = if thorough {
			vec![ExtKeychain::derive_key_id(3, rng.below(9) as u32, rng.below(9) as u32, rng.below(9) as u32, 0), rand_id(rng, 3), rand_id_any(rng)]
		} else {
			vec![ExtKeychain::derive_key_id(3, rng.below(9) as u32, rng.below(9) as u32, rng.below(9) as u32, 0)]
		};
		let nb_a = ProofBuilder::new(&ka);
		let lb_a = LegacyProofBuilder::new(&ka);
		let nb_b = ProofBuilder::new(&kb);
		let lb_b = LegacyProofBuilder::new(&kb);
		let mut ha = ka.hasher();
		let mut hb = kb.hasher();
		let vk_a = ViewKey::create(&ka, ka.master.clone(), &mut ha, is_test).unwrap();
		let vk_b = ViewKey::create(&kb, kb.master.clone(), &mut hb, is_test).unwrap();
		for (ii, id) in ids.iter().enumerate() {
			let idh = hex(&id.to_bytes());
			let amount = match (pi + ii) % 4 {
				0 => u64::MAX,
				1 => 1,
				2 => 1 << 63,
				_ => rng.next() | 1,
			};
			for sw in SWITCHES.iter() {
				let ca = ka.commit(amount, id, *sw).unwrap();
				let cb = kb.commit(amount, id, *sw).unwrap();
				cmp(out, &format!("commit-{}", sw_name(*sw)), ca == cb);
				cmp(out, &format!("key-{}", sw_name(*sw)), ka.derive_key(amount, id, *sw).unwrap() == kb.derive_key(amount, id, *sw).unwrap());
				// rewind nonces for the SAME commitment
				let na = nb_a.rewind_nonce(&secp, &ca).unwrap();
				let nbb = nb_b.rewind_nonce(&secp, &ca).unwrap();
				cmp(out, &format!("nonce-new-{}", sw_name(*sw)), na == nbb);
				let la = lb_a.rewind_nonce(&secp, &ca).unwrap();
				let lbn = lb_b.rewind_nonce(&secp, &ca).unwrap();
				cmp(out, &format!("nonce-legacy-{}", sw_name(*sw)), la == lbn);
				let va = vk_a.rewind_nonce(&secp, &ca).unwrap();
				let vb = vk_b.rewind_nonce(&secp, &ca).unwrap();
				cmp(out, &format!("nonce-view-{}", sw_name(*sw)), va == vb);
				for kind in ["new", "legacy"].iter() {
					let is_new = *kind == "new";
					let proof = if is_new {
						proof::create(&ka, &nb_a, amount, id, *sw, ca, None)
					} else {
						proof::create(&ka, &lb_a, amount, id, *sw, ca, None)
					}
					.unwrap();
					proofs += 1;
					bump!(format!("proofs {} {}", kind, sw_name(*sw)));
					// the seed rewinds its own
					let own = if is_new {
						rewind_str(catch(AssertUnwindSafe(|| proof::rewind(&secp, &nb_a, ca, None, proof))))
					} else {
						rewind_str(catch(AssertUnwindSafe(|| proof::rewind(&secp, &lb_a, ca, None, proof))))
					};
					out.line(&format!("keys rewind {} {} {} {}", kind, idh, sw_name(*sw), amount), &own);
					bump!(format!("own {}:{}", kind, own.split(' ').next().unwrap()));
					let must_recover = is_new || (id.to_bytes()[0] == 3 && *sw == SwitchCommitmentType::Regular);
					if must_recover && own != format!("some {} {} {}", idh, sw_name(*sw), amount) {
						out.raw(&format!("#ORACLE-FAIL C20 a seed of {} bytes does not rewind its own output ({} builder => {}): id={} sw={} amount={} seed={}", sa.len(), kind, own, idh, sw_name(*sw), amount, hex(sa)));
					}
					if is_new {
						let r = rewind_str(catch(AssertUnwindSafe(|| proof::rewind(&secp, &vk_a, ca, None, proof))));
						out.line(&format!("keys rewind view {} {} {}", idh, sw_name(*sw), amount), &r);
						bump!(format!("own view:{}", r.split(' ').next().unwrap()));
					}
					// the other seed recovers nothing: both builder generations and the view key
					let others: [(&str, String); 3] = [
						("new", rewind_str(catch(AssertUnwindSafe(|| proof::rewind(&secp, &nb_b, ca, None, proof))))),
						("legacy", rewind_str(catch(AssertUnwindSafe(|| proof::rewind(&secp, &lb_b, ca, None, proof))))),
						("view", rewind_str(catch(AssertUnwindSafe(|| proof::rewind(&secp, &vk_b, ca, None, proof))))),
					];
					for (who, r) in others.iter() {
						out.line(
							&format!("keys rewind_other {}-proof-by-{}-of-other-seed {} {} {} {} {}", kind, who, name, sa.len(), idh, sw_name(*sw), amount),
							r,
						);
						bump!(format!("other {}:{}", who, r.split(' ').next().unwrap()));
						if r != "none" {
							out.raw(&format!(
								"#ORACLE-FAIL C20 an output built under one seed is rewound by the {} of another seed (=> {}): proof builder={} id={} sw={} amount={} {}",
								who, r, kind, idh, sw_name(*sw), amount, tag
							));
						}
					}
				}
			}
		}
	}
	out.raw(&format!("#STAT seeds lengths={:?} pairs={} bulletproofs created={}", lengths, pairs.len(), proofs));
	out.raw(&format!("#STAT seeds distribution={:?}", stat));
}

// ---------------------------------------------------------------------------------------------
// sigs: Keychain::sign / sign_with_blinding, mask_master_key, and the aggsig functions
// (single signer, signer by key id, 2..4-party partial signatures)
// ---------------------------------------------------------------------------------------------

fn sig_scalar(rng: &mut Rng, secp: &Secp256k1) -> SecretKey {
	loop {
		if let Ok(k) = SecretKey::from_slice(secp, &rng.bytes(32)) {
			return k;
		}
	}
}

/// one observation: `keys sig <variant> <n>` => true | false | err.  Variants starting with `ok-`
/// are fixed by the property (a signature made with a key verifies under that key; masking twice
/// restores the keychain): spec comparison.  `bad-` variants are the negative controls (another
/// key, another message, a missing / foreign partial signature): they must NOT verify.
fn sig_line(out: &mut Out, stats: &mut std::collections::BTreeMap<String, (u64, u64)>, variant: &str, n: u64, r: Result<bool, String>) {
	let rs = match &r {
		Ok(true) => "true".to_string(),
		Ok(false) => "false".to_string(),
		Err(_) => "err".to_string(),
	};
	out.line(&format!("keys sig {} {}", variant, n), &rs);
	let e = stats.entry(variant.to_string()).or_insert((0, 0));
	e.0 += 1;
	let want = if variant.starts_with("ok-") { "true" } else { "false" };
	if rs != want {
		e.1 += 1;
		let what = if variant.starts_with("ok-") { "an honest signature / restored key does not verify" } else { "a signature verifies under the wrong key / message / signer set" };
		out.raw(&format!("#ORACLE-FAIL C20 sigs {} case {}: {}: got {} ({:?})", variant, n, what, rs, r.err()));
	}
}

fn sigs(out: &mut Out, rng: &mut Rng, thorough: bool) {
	use grin_util::secp::key::PublicKey;
	use grin_util::secp::Message;
	let mut stats: std::collections::BTreeMap<String, (u64, u64)> = std::collections::BTreeMap::new();
	let nseeds = if thorough { 6 } else { 2 };
	let ncase = if thorough { 400 } else { 120 };
	let mut n = 0u64;
	for _ in 0..nseeds {
		let seed = rng.bytes(32);
		let kc = ExtKeychain::from_seed(&seed, false).unwrap();
		let secp = kc.secp();
		for _ in 0..ncase {
			n += 1;
			let msg = Message::from_slice(&rng.bytes(32)).unwrap();
			let msg2 = Message::from_slice(&rng.bytes(32)).unwrap();
			let id = if rng.chance(1, 9) { Identifier::from_bytes(&{ let mut b = rand_id(rng, 4).to_bytes().to_vec(); b[0] = deep_depth(rng); b }) } else { rand_id_any(rng) };
			// another KEY, not just another identifier: the key is named by the depth and the first
			// `depth` words only (unused trailing words and a depth byte above 4 do not matter)
			let used = |i: &Identifier| -> Vec<u8> {
				let b = i.to_bytes();
				let d = std::cmp::min(b[0], 4) as usize;
				let mut v = vec![d as u8];
				v.extend_from_slice(&b[1..1 + 4 * d]);
				v
			};
			let id2 = loop {
				let x = rand_id_any(rng);
				if used(&x) != used(&id) {
					break x;
				}
			};
			let amount = rand_amount(rng);
			let sw = *rng.pick(&SWITCHES);
			// ---- Keychain::sign: ECDSA with the derived key
			{
				let sk = kc.derive_key(amount, &id, sw).unwrap();
				let pk = PublicKey::from_secret_key(secp, &sk).unwrap();
				let sk2 = kc.derive_key(amount, &id2, sw).unwrap();
				let pk2 = PublicKey::from_secret_key(secp, &sk2).unwrap();
				match kc.sign(&msg, amount, &id, sw) {
					Ok(sig) => {
						sig_line(out, &mut stats, "ok-ksign-own-key", n, Ok(secp.verify(&msg, &sig, &pk).is_ok()));
						sig_line(out, &mut stats, "ok-ksign-deterministic", n, kc.sign(&msg, amount, &id, sw).map(|s2| s2 == sig).map_err(|e| format!("{:?}", e)));
						sig_line(out, &mut stats, "bad-ksign-other-id", n, Ok(secp.verify(&msg, &sig, &pk2).is_ok()));
						sig_line(out, &mut stats, "bad-ksign-other-msg", n, Ok(secp.verify(&msg2, &sig, &pk).is_ok()));
						// the other switch mode names another key (Regular tweaks the derived key)
						let osw = if sw == SwitchCommitmentType::None { SwitchCommitmentType::Regular } else { SwitchCommitmentType::None };
						let osk = kc.derive_key(amount, &id, osw).unwrap();
						let opk = PublicKey::from_secret_key(secp, &osk).unwrap();
						sig_line(out, &mut stats, "bad-ksign-other-switch", n, Ok(secp.verify(&msg, &sig, &opk).is_ok()));
					}
					Err(e) => sig_line(out, &mut stats, "ok-ksign-own-key", n, Err(format!("{:?}", e))),
				}
				// sign_with_blinding: the blinding factor is the key
				let bf = BlindingFactor::from_secret_key(sk.clone());
				match kc.sign_with_blinding(&msg, &bf) {
					Ok(sig) => {
						sig_line(out, &mut stats, "ok-ksign-blinding", n, Ok(secp.verify(&msg, &sig, &pk).is_ok()));
						sig_line(out, &mut stats, "ok-ksign-blinding-is-sign", n, kc.sign(&msg, amount, &id, sw).map(|s2| s2 == sig).map_err(|e| format!("{:?}", e)));
					}
					Err(e) => sig_line(out, &mut stats, "ok-ksign-blinding", n, Err(format!("{:?}", e))),
				}
				if n % 16 == 0 {
					// the zero blinding factor: BlindingFactor::secret_key hands out ZERO_KEY and
					// Secp256k1::sign asserts on it -> a panic, not an Err (observation, see report)
					let z = catch(AssertUnwindSafe(|| kc.sign_with_blinding(&msg, &BlindingFactor::zero()).is_ok()));
					let r = match z {
						Ok(true) => "true",
						Ok(false) => "err",
						Err(_) => "panic",
					};
					out.line(&format!("keys sigzero ksign-blinding {}", n), r);
					let za = catch(AssertUnwindSafe(|| aggsig::sign_with_blinding(secp, &msg, &BlindingFactor::zero(), None).is_ok()));
					let r = match za {
						Ok(true) => "true",
						Ok(false) => "err",
						Err(_) => "panic",
					};
					out.line(&format!("keys sigzero aggsig-blinding {}", n), r);
				}
			}
			// ---- mask_master_key: byte-wise XOR of the master secret; twice = identity
			if n % 4 == 0 {
				let mask = sig_scalar(rng, secp);
				let mut m = kc.clone();
				let before = m.master.secret_key.0;
				m.mask_master_key(&mask).unwrap();
				out.line(&format!("keys mask {} {}", hex(&before), hex(&mask.0)), &hex(&m.master.secret_key.0));
				let masked_differs = m.master.secret_key.0 != before;
				m.mask_master_key(&mask).unwrap();
				let restored = m.master.secret_key.0 == before
					&& m.derive_key(amount, &id, sw).ok().map(|k| k.0) == kc.derive_key(amount, &id, sw).ok().map(|k| k.0)
					&& m.commit(amount, &id, sw).ok() == kc.commit(amount, &id, sw).ok();
				sig_line(out, &mut stats, "ok-mask-twice-restores", n, Ok(restored && masked_differs));
			}
			// ---- aggsig, one signer
			{
				let sk = sig_scalar(rng, secp);
				let pk = PublicKey::from_secret_key(secp, &sk).unwrap();
				let other = PublicKey::from_secret_key(secp, &sig_scalar(rng, secp)).unwrap();
				let nonce = sig_scalar(rng, secp);
				let with_nonce = rng.chance(1, 2);
				match aggsig::sign_single(secp, &msg, &sk, if with_nonce { Some(&nonce) } else { None }, Some(&pk)) {
					Ok(sig) => {
						sig_line(out, &mut stats, "ok-single", n, Ok(aggsig::verify_single(secp, &sig, &msg, None, &pk, Some(&pk), false)));
						sig_line(out, &mut stats, "ok-single-completed", n, Ok(aggsig::verify_completed_sig(secp, &sig, &pk, Some(&pk), &msg).is_ok()));
						sig_line(out, &mut stats, "bad-single-other-key", n, Ok(aggsig::verify_single(secp, &sig, &msg, None, &other, Some(&other), false)));
						sig_line(out, &mut stats, "bad-single-other-msg", n, Ok(aggsig::verify_single(secp, &sig, &msg2, None, &pk, Some(&pk), false)));
						sig_line(out, &mut stats, "bad-single-other-sum", n, Ok(aggsig::verify_single(secp, &sig, &msg, None, &pk, Some(&other), false)));
						// batch of honest signatures, and the same batch with one message exchanged
						let sk_b = sig_scalar(rng, secp);
						let pk_b = PublicKey::from_secret_key(secp, &sk_b).unwrap();
						let sig_b = aggsig::sign_single(secp, &msg2, &sk_b, None, Some(&pk_b)).unwrap();
						sig_line(out, &mut stats, "ok-batch", n, Ok(aggsig::verify_batch(secp, &vec![sig.clone(), sig_b.clone()], &vec![msg.clone(), msg2.clone()], &vec![pk.clone(), pk_b.clone()])));
						sig_line(out, &mut stats, "bad-batch-swapped-msgs", n, Ok(aggsig::verify_batch(secp, &vec![sig.clone(), sig_b.clone()], &vec![msg2.clone(), msg.clone()], &vec![pk.clone(), pk_b.clone()])));
					}
					Err(e) => sig_line(out, &mut stats, "ok-single", n, Err(format!("{:?}", e))),
				}
				// the optional arguments: no pubkey_sum at all (signer and verifier must agree on it),
				// a nonce from create_secnonce
				match aggsig::sign_single(secp, &msg, &sk, None, None) {
					Ok(sig) => {
						sig_line(out, &mut stats, "ok-single-no-sum", n, Ok(aggsig::verify_single(secp, &sig, &msg, None, &pk, None, false)));
						sig_line(out, &mut stats, "bad-single-sum-only-at-verify", n, Ok(aggsig::verify_single(secp, &sig, &msg, None, &pk, Some(&pk), false)));
					}
					Err(e) => sig_line(out, &mut stats, "ok-single-no-sum", n, Err(format!("{:?}", e))),
				}
				match (aggsig::create_secnonce(secp), aggsig::create_secnonce(secp)) {
					(Ok(n1), Ok(n2)) => {
						sig_line(out, &mut stats, "ok-secnonce-fresh", n, Ok(n1 != n2 && SecretKey::from_slice(secp, &n1.0).is_ok() && SecretKey::from_slice(secp, &n2.0).is_ok()));
						match aggsig::sign_single(secp, &msg, &sk, Some(&n1), Some(&pk)) {
							Ok(sig) => {
								sig_line(out, &mut stats, "ok-secnonce-signs", n, Ok(aggsig::verify_single(secp, &sig, &msg, None, &pk, Some(&pk), false)));
								// a supplied nonce makes the signature a function of (msg, key, nonce)
								sig_line(out, &mut stats, "ok-secnonce-deterministic", n, aggsig::sign_single(secp, &msg, &sk, Some(&n1), Some(&pk)).map(|s2| s2 == sig).map_err(|e| format!("{:?}", e)));
								sig_line(out, &mut stats, "bad-secnonce-other-nonce-same-sig", n, aggsig::sign_single(secp, &msg, &sk, Some(&n2), Some(&pk)).map(|s2| s2 == sig).map_err(|e| format!("{:?}", e)));
							}
							Err(e) => sig_line(out, &mut stats, "ok-secnonce-signs", n, Err(format!("{:?}", e))),
						}
					}
					(a, b) => sig_line(out, &mut stats, "ok-secnonce-fresh", n, Err(format!("{:?} {:?}", a.err(), b.err()))),
				}
				// sign_with_blinding (the transaction builder's call) and sign_from_key_id (reward::output's)
				let bf = BlindingFactor::from_secret_key(sk.clone());
				let excess = secp.commit(0, sk.clone()).unwrap();
				match aggsig::sign_with_blinding(secp, &msg, &bf, Some(&pk)) {
					Ok(sig) => {
						sig_line(out, &mut stats, "ok-blinding-from-commit", n, Ok(aggsig::verify_single_from_commit(secp, &sig, &msg, &excess).is_ok()));
						let oc = secp.commit(0, sig_scalar(rng, secp)).unwrap();
						sig_line(out, &mut stats, "bad-blinding-other-commit", n, Ok(aggsig::verify_single_from_commit(secp, &sig, &msg, &oc).is_ok()));
					}
					Err(e) => sig_line(out, &mut stats, "ok-blinding-from-commit", n, Err(format!("{:?}", e))),
				}
				let dk = kc.derive_key(amount, &id, SwitchCommitmentType::Regular).unwrap();
				let dcommit = secp.commit(0, dk.clone()).unwrap();
				let dpk = PublicKey::from_secret_key(secp, &dk).unwrap();
				match aggsig::sign_from_key_id(secp, &kc, &msg, amount, &id, None, Some(&dpk)) {
					Ok(sig) => {
						sig_line(out, &mut stats, "ok-keyid-from-commit", n, Ok(aggsig::verify_single_from_commit(secp, &sig, &msg, &dcommit).is_ok()));
						let k2 = kc.derive_key(amount, &id2, SwitchCommitmentType::Regular).unwrap();
						let c2 = secp.commit(0, k2).unwrap();
						sig_line(out, &mut stats, "bad-keyid-other-id", n, Ok(aggsig::verify_single_from_commit(secp, &sig, &msg, &c2).is_ok()));
					}
					Err(e) => sig_line(out, &mut stats, "ok-keyid-from-commit", n, Err(format!("{:?}", e))),
				}
				// reward::output's test_mode path: the fixed nonce [1; 32] -> the same signature twice;
				// and the call without a key sum (verified without one)
				let test_nonce = SecretKey::from_slice(secp, &[1; 32]).unwrap();
				match (
					aggsig::sign_from_key_id(secp, &kc, &msg, amount, &id, Some(&test_nonce), Some(&dpk)),
					aggsig::sign_from_key_id(secp, &kc, &msg, amount, &id, Some(&test_nonce), Some(&dpk)),
				) {
					(Ok(s1), Ok(s2)) => {
						sig_line(out, &mut stats, "ok-keyid-test-nonce-deterministic", n, Ok(s1 == s2));
						sig_line(out, &mut stats, "ok-keyid-test-nonce-from-commit", n, Ok(aggsig::verify_single_from_commit(secp, &s1, &msg, &dcommit).is_ok()));
					}
					(a, b) => sig_line(out, &mut stats, "ok-keyid-test-nonce-deterministic", n, Err(format!("{:?} {:?}", a.err(), b.err()))),
				}
				match aggsig::sign_from_key_id(secp, &kc, &msg, amount, &id, None, None) {
					Ok(sig) => {
						sig_line(out, &mut stats, "ok-keyid-no-sum", n, Ok(aggsig::verify_single(secp, &sig, &msg, None, &dpk, None, false)));
						sig_line(out, &mut stats, "bad-keyid-no-sum-from-commit", n, Ok(aggsig::verify_single_from_commit(secp, &sig, &msg, &dcommit).is_ok()));
					}
					Err(e) => sig_line(out, &mut stats, "ok-keyid-no-sum", n, Err(format!("{:?}", e))),
				}
			}
			// ---- aggsig, 2..4 parties
			if n % 2 == 0 {
				let parties = rng.range(2, 4) as usize;
				let sks: Vec<SecretKey> = (0..parties).map(|_| sig_scalar(rng, secp)).collect();
				// every second multi-party case draws the nonces with aggsig::create_secnonce (public
				// nonce with a quadratic-residue y: what subtract_signature is specified for), the others
				// are arbitrary scalars
				let api_nonces = n % 4 == 0;
				let nonces: Vec<SecretKey> = (0..parties).map(|_| if api_nonces { aggsig::create_secnonce(secp).unwrap() } else { sig_scalar(rng, secp) }).collect();
				let pks: Vec<PublicKey> = sks.iter().map(|k| PublicKey::from_secret_key(secp, k).unwrap()).collect();
				let pns: Vec<PublicKey> = nonces.iter().map(|k| PublicKey::from_secret_key(secp, k).unwrap()).collect();
				let pk_sum = PublicKey::from_combination(secp, pks.iter().collect()).unwrap();
				let pn_sum = PublicKey::from_combination(secp, pns.iter().collect()).unwrap();
				let parts: Vec<Result<secp::Signature, String>> = (0..parties)
					.map(|i| aggsig::calculate_partial_sig(secp, &sks[i], &nonces[i], &pn_sum, Some(&pk_sum), &msg).map_err(|e| format!("{:?}", e)))
					.collect();
				if let Some(Err(e)) = parts.iter().find(|p| p.is_err()) {
					sig_line(out, &mut stats, "ok-partial", n, Err(e.clone()));
				} else {
					let parts: Vec<secp::Signature> = parts.into_iter().map(|p| p.unwrap()).collect();
					let all_ok = (0..parties).all(|i| aggsig::verify_partial_sig(secp, &parts[i], &pn_sum, &pks[i], Some(&pk_sum), &msg).is_ok());
					sig_line(out, &mut stats, "ok-partial", n, Ok(all_ok));
					sig_line(out, &mut stats, "bad-partial-other-signer", n, Ok(aggsig::verify_partial_sig(secp, &parts[0], &pn_sum, &pks[1], Some(&pk_sum), &msg).is_ok()));
					sig_line(out, &mut stats, "bad-partial-other-msg", n, Ok(aggsig::verify_partial_sig(secp, &parts[0], &pn_sum, &pks[0], Some(&pk_sum), &msg2).is_ok()));
					// the order in which the partial signatures are added does not matter
					let mut order: Vec<usize> = (0..parties).collect();
					for i in (1..order.len()).rev() {
						let j = rng.below(i as u64 + 1) as usize;
						order.swap(i, j);
					}
					let fin = aggsig::add_signatures(secp, parts.iter().collect(), &pn_sum);
					let fin_p = aggsig::add_signatures(secp, order.iter().map(|i| &parts[*i]).collect(), &pn_sum);
					match (fin, fin_p) {
						(Ok(f), Ok(fp)) => {
							sig_line(out, &mut stats, "ok-completed", n, Ok(aggsig::verify_completed_sig(secp, &f, &pk_sum, Some(&pk_sum), &msg).is_ok()));
							sig_line(out, &mut stats, "ok-completed-any-order", n, Ok(f == fp));
							sig_line(out, &mut stats, "bad-completed-other-msg", n, Ok(aggsig::verify_completed_sig(secp, &f, &pk_sum, Some(&pk_sum), &msg2).is_ok()));
							sig_line(out, &mut stats, "bad-completed-one-key", n, Ok(aggsig::verify_completed_sig(secp, &f, &pks[0], Some(&pk_sum), &msg).is_ok()));
							// one partial signature left out
							if let Ok(short) = aggsig::add_signatures(secp, parts[1..].iter().collect(), &pn_sum) {
								sig_line(out, &mut stats, "bad-completed-missing-partial", n, Ok(aggsig::verify_completed_sig(secp, &short, &pk_sum, Some(&pk_sum), &msg).is_ok()));
							}
							// subtract_signature: completed - partial[0] is the sum of the other partial
							// signatures (s values subtract mod n, the public nonce is the difference of
							// the nonces; the library may hand back two candidates because a signature
							// stores only the x coordinate of its nonce)
							match aggsig::subtract_signature(secp, &f, &parts[0]) {
								Ok((c1, c2)) => {
									let cands: Vec<secp::Signature> = std::iter::once(c1).chain(c2.into_iter()).collect();
									let rest_pk = if parties == 2 { pks[1].clone() } else { PublicKey::from_combination(secp, pks[1..].iter().collect()).unwrap() };
									stats.entry(format!("subtract candidates={} parties={} nonces={}", cands.len(), parties, if api_nonces { "create_secnonce" } else { "arbitrary" })).or_insert((0, 0)).0 += 1;
									let s_part = |s: &secp::Signature| -> Vec<u8> { s.to_raw_data()[32..].to_vec() };
									// the s half is fixed by the arithmetic: s(completed) - s(partial 0) = Σ s(others)
									let want_s = aggsig::add_signatures(secp, parts[1..].iter().collect(), &pn_sum).map(|x| s_part(&x));
									sig_line(out, &mut stats, "ok-subtract-s-is-rest-sum", n, want_s.map(|w| cands.iter().all(|c| s_part(c) == w)).map_err(|e| format!("{:?}", e)));
									if parties == 2 && api_nonces {
										sig_line(out, &mut stats, "ok-subtract-gives-other-partial", n, Ok(cands.iter().any(|c| *c == parts[1])));
										sig_line(out, &mut stats, "ok-subtract-verifies-as-partial", n, Ok(cands.iter().any(|c| aggsig::verify_partial_sig(secp, c, &pn_sum, &rest_pk, Some(&pk_sum), &msg).is_ok())));
										sig_line(out, &mut stats, "bad-subtract-other-signer", n, Ok(cands.iter().any(|c| aggsig::verify_partial_sig(secp, c, &pn_sum, &pks[0], Some(&pk_sum), &msg).is_ok())));
									}
									// adding the subtracted partial back restores the completed signature
									let back: Vec<bool> = cands.iter().map(|c| aggsig::add_signatures(secp, vec![c, &parts[0]], &pn_sum).map(|x| x == f).unwrap_or(false)).collect();
									sig_line(out, &mut stats, "ok-subtract-then-add-restores", n, Ok(back.iter().any(|b| *b)));
								}
								// with nonces of the API the subtraction never fails; with arbitrary nonces (a
								// public nonce whose y is not a quadratic residue) the library may refuse
								// (two parties: the remainder's nonce is the other party's own nonce, a
								// quadratic-residue point; with three or more parties the remaining nonce SUM need
								// not have a quadratic-residue y in either sign and the library refuses about a
								// quarter of the honest signatures - recorded as an observation, STAT only)
								Err(e) if api_nonces && parties == 2 => sig_line(out, &mut stats, "ok-subtract-s-is-rest-sum", n, Err(format!("{:?}", e))),
								Err(_) => stats.entry(format!("subtract refused (SigSubtractionFailure) parties={} nonces={}", parties, if api_nonces { "create_secnonce" } else { "arbitrary" })).or_insert((0, 0)).0 += 1,
							}
						}
						(a, b) => sig_line(out, &mut stats, "ok-completed", n, Err(format!("{:?} {:?}", a.err(), b.err()))),
					}
				}
			}
		}
	}
	// sign_with_blinding on chosen blinding factors: signs / Err / PANIC with the exact condition
	// (zero factor: ExtKeychain::sign_with_blinding panics, aggsig::sign_with_blinding signs; bytes
	// that are no scalar: Err in both)
	{
		use grin_util::secp::Message;
		let kc = ExtKeychain::from_seed(&rng.bytes(32), true).unwrap();
		let secp = kc.secp();
		let mut vals: Vec<[u8; 32]> = vec![[0u8; 32], small(1), small(2), sub_small(&ORDER, 1), ORDER, add_small(&ORDER, 1), [0xffu8; 32]];
		for _ in 0..(if thorough { 40 } else { 10 }) {
			vals.push(gen_scalar(rng, true, true));
		}
		let mut hist: std::collections::BTreeMap<String, u64> = Default::default();
		for v in vals {
			let msg = Message::from_slice(&rng.bytes(32)).unwrap();
			let bf = BlindingFactor::from_slice(&v);
			let show = |r: Result<bool, String>| match r {
				Ok(true) => "ok",
				Ok(false) => "err",
				Err(_) => "panic",
			};
			let a = show(catch(AssertUnwindSafe(|| kc.sign_with_blinding(&msg, &bf).is_ok())));
			let b = show(catch(AssertUnwindSafe(|| aggsig::sign_with_blinding(secp, &msg, &bf, None).is_ok())));
			*hist.entry(format!("keychain={} aggsig={}", a, b)).or_insert(0) += 1;
			out.line(&format!("keys signb keychain {}", hex(&v)), a);
			out.line(&format!("keys signb aggsig {}", hex(&v)), b);
		}
		out.raw(&format!("#STAT sigs sign_with_blinding outcomes: {:?}", hist));
	}
	for (k, (cnt, bad)) in &stats {
		out.raw(&format!("#STAT sigs {}: {} cases, {} against the rule", k, cnt, bad));
	}
}

// ---------------------------------------------------------------------------------------------
// exchange: element lists with initial_tx / with_excess (the tx_build_exchange shape), every
// permutation of the list
// ---------------------------------------------------------------------------------------------

fn all_perms(n: usize) -> Vec<Vec<usize>> {
	fn go(cur: &mut Vec<usize>, used: &mut Vec<bool>, n: usize, out: &mut Vec<Vec<usize>>) {
		if cur.len() == n {
			out.push(cur.clone());
			return;
		}
		for i in 0..n {
			if !used[i] {
				used[i] = true;
				cur.push(i);
				go(cur, used, n, out);
				cur.pop();
				used[i] = false;
			}
		}
	}
	let mut out = vec![];
	go(&mut vec![], &mut vec![false; n], n, &mut out);
	out
}

#[derive(Clone)]
enum XE {
	I(u64, Identifier),
	C(u64, Identifier),
	O(u64, Identifier),
	X([u8; 32]),
	T(Transaction, String),
}

fn exchange(out: &mut Out, rng: &mut Rng, thorough: bool) {
	global::set_local_chain_type(ChainTypes::AutomatedTesting);
	// (measured: ~0.1 s per built order; 80 thorough cases are about 2400 orders, 6 to 7 minutes)
	let n_cases = if thorough { 80 } else { 27 };
	let sw = SwitchCommitmentType::Regular;
	let mut stat: std::collections::BTreeMap<String, u64> = Default::default();
	let mut perms_run = 0u64;
	let mut five_done = 0u32;
	for case in 0..n_cases {
		let keychain = ExtKeychain::from_seed(&rng.bytes(32), true).unwrap();
		let secp = keychain.secp();
		let legacy = case % 2 == 1;
		macro_rules! with_builder {
			($b:ident, $body:expr) => {
				if legacy {
					let $b = LegacyProofBuilder::new(&keychain);
					$body
				} else {
					let $b = ProofBuilder::new(&keychain);
					$body
				}
			};
		}
		let tok = |c: char, v: u64, id: &Identifier| format!("{}:{}:{}", c, v, hex(&keychain.derive_key(v, id, sw).unwrap().0));
		let mut table: std::collections::HashMap<Vec<u8>, String> = Default::default();
		let mut note = |v: u64, id: &Identifier, table: &mut std::collections::HashMap<Vec<u8>, String>| {
			let c = keychain.commit(v, id, sw).unwrap();
			table.insert(c.0.to_vec(), format!("{}:{}", v, hex(&keychain.derive_key(v, id, sw).unwrap().0)));
		};
		// ---- party A: inputs (and sometimes change) -> partial_transaction -> (tx0, blind0)
		let class = match case % 9 {
			// an additional with_excess that must not change anything: the zero factor (handed to
			// secp.blind_sum as ZERO_KEY) and 32 bytes that are no scalar (silently dropped)
			4 => "zero-excess",
			5 => "invalid-excess",
			6 => "forgot-excess",
			7 => "extra-excess",
			8 => "two-initial",
			_ => "honest",
		};
		let n_a_in = rng.range(1, 2) as usize;
		let n_a_out = rng.below(2) as usize;
		let a_ins: Vec<(u64, Identifier)> = (0..n_a_in).map(|i| (rng.range(1000, 1 << 40), ExtKeychain::derive_key_id(3, 1, case as u32, i as u32, 0))).collect();
		let a_total: u64 = a_ins.iter().map(|x| x.0).sum();
		let a_outs: Vec<(u64, Identifier)> = (0..n_a_out).map(|i| (rng.range(1, a_total / 4), ExtKeychain::derive_key_id(3, 2, case as u32, i as u32, 0))).collect();
		let a_left = a_total - a_outs.iter().map(|x| x.0).sum::<u64>();
		let mut a_elems_s: Vec<String> = vec![];
		for (v, id) in &a_ins {
			note(*v, id, &mut table);
			a_elems_s.push(tok('i', *v, id));
		}
		for (v, id) in &a_outs {
			note(*v, id, &mut table);
			a_elems_s.push(tok('o', *v, id));
		}
		let a_res = with_builder!(b, {
			let mut el: Vec<Box<build::Append<ExtKeychain, _>>> = vec![];
			for (v, id) in &a_ins {
				el.push(build::input(*v, id.clone()));
			}
			for (v, id) in &a_outs {
				el.push(build::output(*v, id.clone()));
			}
			catch(AssertUnwindSafe(|| build::partial_transaction(Transaction::empty(), &el, &keychain, &b)))
		});
		let (tx0, blind0) = match a_res {
			Ok(Ok(x)) => x,
			other => {
				out.raw(&format!("#ORACLE-FAIL C20 exchange: partial_transaction of the sender's elements [{}] fails: {:?}", a_elems_s.join(","), other.map(|r| r.map(|_| ()))));
				continue;
			}
		};
		// every second case the first party hands over a FINISHED transaction (build::transaction: its
		// own kernel and a non-zero offset) instead of the partial one: same body, and the second party's
		// transaction_with_kernel must ASSIGN its offset, not add to the one that is there
		let finished = case % 2 == 0;
		let tx0 = if finished {
			let r = with_builder!(b, {
				let mut el: Vec<Box<build::Append<ExtKeychain, _>>> = vec![];
				for (v, id) in &a_ins {
					el.push(build::input(*v, id.clone()));
				}
				for (v, id) in &a_outs {
					el.push(build::output(*v, id.clone()));
				}
				build::transaction(KernelFeatures::Plain { fee: FeeFields::new(0, 7).unwrap() }, &el, &keychain, &b)
			});
			match r {
				Ok(t) => {
					if t.offset.is_zero() || t.inputs().len() != tx0.inputs().len() || t.outputs() != tx0.outputs() {
						out.raw(&format!("#ORACLE-FAIL C20 exchange: build::transaction of the sender's elements has a zero offset or another body than partial_transaction, case {}", case));
					}
					t
				}
				Err(e) => {
					out.raw(&format!("#ORACLE-FAIL C20 exchange: build::transaction of the sender's elements fails: {:?}", e));
					continue;
				}
			}
		} else {
			tx0
		};
		*stat.entry(format!("initial tx={}", if finished { "finished (non-zero offset)" } else { "partial (zero offset)" })).or_insert(0) += 1;
		let t_tok = format!("T;f:{};{}", hex(tx0.offset.as_ref()), a_elems_s.join(";"));
		// ---- party B's list: initial_tx(tx0), with_excess(blind0), own inputs / outputs
		let fee = rng.range(1, 500);
		let n_b_in = if rng.chance(1, 3) { 1 } else { 0 };
		let b_ins: Vec<(u64, Identifier, bool)> = (0..n_b_in).map(|i| (rng.range(1, 1 << 30), ExtKeychain::derive_key_id(3, 3, case as u32, i as u32, 0), rng.chance(1, 2))).collect();
		let avail = a_left + b_ins.iter().map(|x| x.0).sum::<u64>() - fee;
		let big = case % 6 == 5;
		let n_b_out = if big { 2 } else { 1 };
		let mut b_outs: Vec<(u64, Identifier)> = vec![];
		let mut left = avail;
		for i in 0..n_b_out {
			let v = if i + 1 == n_b_out { left } else { rng.range(1, left - 1) };
			left -= v;
			b_outs.push((v, ExtKeychain::derive_key_id(3, 4, case as u32, i as u32, 0)));
		}
		let mut elems: Vec<XE> = vec![XE::T(tx0.clone(), t_tok.clone())];
		let mut b0 = [0u8; 32];
		b0.copy_from_slice(blind0.as_ref());
		if class != "forgot-excess" {
			elems.push(XE::X(b0));
		}
		if class == "extra-excess" {
			elems.push(XE::X(gen_scalar(rng, false, false)));
		}
		if class == "zero-excess" {
			elems.push(XE::X([0u8; 32]));
		}
		if class == "invalid-excess" {
			let mut b = [0xffu8; 32];
			b[31] = rng.next() as u8;
			elems.push(XE::X(b));
		}
		if class == "two-initial" {
			elems.push(XE::T(Transaction::empty(), "T".to_string()));
		}
		for (v, id, cb) in &b_ins {
			note(*v, id, &mut table);
			elems.push(if *cb { XE::C(*v, id.clone()) } else { XE::I(*v, id.clone()) });
		}
		for (v, id) in &b_outs {
			note(*v, id, &mut table);
			elems.push(XE::O(*v, id.clone()));
		}
		*stat.entry(format!("class={}", class)).or_insert(0) += 1;
		*stat.entry(format!("elements={}", elems.len())).or_insert(0) += 1;
		*stat.entry(format!("builder={}", if legacy { "legacy" } else { "new" })).or_insert(0) += 1;
		// every permutation for lists of up to 5 elements (quick tier: up to 4 elements and the first
		// 5-element list; 24 random permutations for the other long lists)
		let all = elems.len() <= 4 || (elems.len() == 5 && (thorough || five_done == 0));
		if elems.len() == 5 && all {
			five_done += 1;
		}
		let perms: Vec<Vec<usize>> = if all {
			all_perms(elems.len())
		} else {
			(0..(if thorough { 60 } else { 24 }))
				.map(|_| {
					let mut p: Vec<usize> = (0..elems.len()).collect();
					shuffle(rng, &mut p);
					p
				})
				.collect()
		};
		let features = KernelFeatures::Plain { fee: FeeFields::new(0, fee).unwrap() };
		let excess = gen_scalar(rng, false, false);
		let ex = BlindingFactor::from_slice(&excess);
		let mut kernel = TxKernel::with_features(features);
		let msg = kernel.msg_to_sign().unwrap();
		let skey = ex.secret_key(secp).unwrap();
		kernel.excess = secp.commit(0, skey).unwrap();
		let pubkey = kernel.excess.to_pubkey(secp).unwrap();
		kernel.excess_sig = aggsig::sign_with_blinding(secp, &msg, &ex, Some(&pubkey)).unwrap();
		let body_str = |tx: &Transaction| -> (String, String) {
			let name = |c: &Commitment| table.get(&c.0.to_vec()).cloned().unwrap_or_else(|| format!("?{}", hex(&c.0)));
			let ins: Vec<grin_core::core::CommitWrapper> = tx.inputs().into();
			let mut i: Vec<String> = ins.iter().map(|c| name(&c.commitment())).collect();
			let mut o: Vec<String> = tx.outputs().iter().map(|x| name(&x.commitment())).collect();
			i.sort();
			o.sort();
			(format!("[{}]", i.join(",")), format!("[{}]", o.join(",")))
		};
		// across the permutations of this list
		let mut offsets: std::collections::BTreeSet<String> = Default::default();
		let mut sums: std::collections::BTreeSet<String> = Default::default();
		let mut good_bodies: std::collections::BTreeSet<String> = Default::default();
		for (pi, p) in perms.iter().enumerate() {
			perms_run += 1;
			let order: Vec<&XE> = p.iter().map(|i| &elems[*i]).collect();
			let steps_s = format!(
				"[{}]",
				order
					.iter()
					.map(|e| match e {
						XE::I(v, id) => tok('i', *v, id),
						XE::C(v, id) => tok('c', *v, id),
						XE::O(v, id) => tok('o', *v, id),
						XE::X(b) => format!("x:{}", hex(b)),
						XE::T(_, t) => t.clone(),
					})
					.collect::<Vec<_>>()
					.join(",")
			);
			// every input / output element stands behind the last initial_tx
			let last_t = order.iter().rposition(|e| matches!(e, XE::T(..))).unwrap();
			let well_ordered = order[..last_t].iter().all(|e| matches!(e, XE::X(_) | XE::T(..)))
				&& matches!(order[last_t], XE::T(_, t) if t != "T");
			macro_rules! mk {
				($b:ident) => {
					order
						.iter()
						.map(|e| match e {
							XE::I(v, id) => build::input(*v, id.clone()),
							XE::C(v, id) => build::coinbase_input(*v, id.clone()),
							XE::O(v, id) => build::output(*v, id.clone()),
							XE::X(b) => build::with_excess(BlindingFactor::from_slice(b)),
							XE::T(t, _) => build::initial_tx(t.clone()),
						})
						.collect::<Vec<Box<build::Append<ExtKeychain, _>>>>()
				};
			}
			let r = with_builder!(b, {
				let el = mk!(b);
				catch(AssertUnwindSafe(|| build::transaction_with_kernel(&el, kernel.clone(), ex.clone(), &keychain, &b)))
			});
			let res = match r {
				Ok(Ok(tx)) => {
					let v = validate_str(tx.validate(Weighting::AsTransaction));
					let (bi, bo) = body_str(&tx);
					offsets.insert(hex(tx.offset.as_ref()));
					*stat.entry(format!("{} {}: validate={}", class, if well_ordered { "elements-after-initial_tx" } else { "elements-before-initial_tx" }, v)).or_insert(0) += 1;
					if well_ordered {
						good_bodies.insert(format!("{} {}", bi, bo));
						if (class == "honest" || class == "zero-excess" || class == "invalid-excess") && v != "ok" {
							out.raw(&format!("#ORACLE-FAIL C20 exchange: the transaction built from initial_tx + with_excess(blind sum) + own elements does not validate ({}) in the order {} (fee {})", v, steps_s, fee));
						}
					}
					format!("{} {} {} {}", hex(tx.offset.as_ref()), bi, bo, v)
				}
				Ok(Err(_)) => "err".to_string(),
				Err(_) => "panic".to_string(),
			};
			out.line(&format!("keys xbuild {} {} {}", fee, hex(&excess), steps_s), &res);
			if pi % 4 == 0 {
				let r = with_builder!(b, {
					let el = mk!(b);
					catch(AssertUnwindSafe(|| build::partial_transaction(Transaction::empty(), &el, &keychain, &b)))
				});
				let s = match r {
					Ok(Ok((tx, sum))) => {
						sums.insert(hex(sum.as_ref()));
						let (bi, bo) = body_str(&tx);
						format!("{} {} {} {}", hex(sum.as_ref()), bi, bo, hex(tx.offset.as_ref()))
					}
					Ok(Err(_)) => "err".to_string(),
					Err(_) => "panic".to_string(),
				};
				out.line(&format!("keys xpartial {}", steps_s), &s);
			}
		}
		// partial_transaction on a NON-EMPTY base transaction: the base is where the fold starts, the
		// elements (everything but the first initial_tx) are handed over in a few orders; an
		// initial_tx among them (class two-initial) replaces the base as well
		{
			let rest: Vec<&XE> = elems[1..].iter().collect();
			let n_orders = if thorough { 4 } else { 2 };
			let mut base_sums: std::collections::BTreeSet<String> = Default::default();
			for oi in 0..n_orders {
				let mut p: Vec<usize> = (0..rest.len()).collect();
				if oi > 0 {
					shuffle(rng, &mut p);
				}
				let order: Vec<&XE> = p.iter().map(|i| rest[*i]).collect();
				let steps_s = format!(
					"[{}]",
					order
						.iter()
						.map(|e| match e {
							XE::I(v, id) => tok('i', *v, id),
							XE::C(v, id) => tok('c', *v, id),
							XE::O(v, id) => tok('o', *v, id),
							XE::X(b) => format!("x:{}", hex(b)),
							XE::T(_, t) => t.clone(),
						})
						.collect::<Vec<_>>()
						.join(",")
				);
				macro_rules! mkb {
					($b:ident) => {
						order
							.iter()
							.map(|e| match e {
								XE::I(v, id) => build::input(*v, id.clone()),
								XE::C(v, id) => build::coinbase_input(*v, id.clone()),
								XE::O(v, id) => build::output(*v, id.clone()),
								XE::X(b) => build::with_excess(BlindingFactor::from_slice(b)),
								XE::T(t, _) => build::initial_tx(t.clone()),
							})
							.collect::<Vec<Box<build::Append<ExtKeychain, _>>>>()
					};
				}
				let r = with_builder!(b, {
					let el = mkb!(b);
					catch(AssertUnwindSafe(|| build::partial_transaction(tx0.clone(), &el, &keychain, &b)))
				});
				let s = match r {
					Ok(Ok((tx, sum))) => {
						base_sums.insert(hex(sum.as_ref()));
						let (bi, bo) = body_str(&tx);
						format!("{} {} {} {}", hex(sum.as_ref()), bi, bo, hex(tx.offset.as_ref()))
					}
					Ok(Err(_)) => "err".to_string(),
					Err(_) => "panic".to_string(),
				};
				*stat.entry(format!("partial on a base: {}", if s == "err" || s == "panic" { s.as_str() } else { "ok" })).or_insert(0) += 1;
				out.line(&format!("keys xpartialb {} {}", t_tok, steps_s), &s);
			}
			if base_sums.len() > 1 {
				out.raw(&format!("#ORACLE-FAIL C20 exchange: the blinding sum partial_transaction returns on a non-empty base depends on the order of the element list ({} different sums), case {}", base_sums.len(), case));
			}
		}
		// the sums do not depend on the order of the elements
		if offsets.len() > 1 {
			out.raw(&format!("#ORACLE-FAIL C20 exchange: the offset of the built transaction depends on the order of the element list: {} different offsets over {} permutations of [{}] (fee {}, excess {})", offsets.len(), perms.len(), elems.iter().map(|e| match e { XE::I(v, id) => tok('i', *v, id), XE::C(v, id) => tok('c', *v, id), XE::O(v, id) => tok('o', *v, id), XE::X(b) => format!("x:{}", hex(b)), XE::T(_, t) => t.clone() }).collect::<Vec<_>>().join(","), fee, hex(&excess)));
		}
		if sums.len() > 1 {
			out.raw(&format!("#ORACLE-FAIL C20 exchange: the blinding sum partial_transaction returns depends on the order of the element list ({} different sums), case {}", sums.len(), case));
		}
		if good_bodies.len() > 1 {
			out.raw(&format!("#ORACLE-FAIL C20 exchange: the body of the built transaction differs between orders that keep all inputs / outputs behind initial_tx, case {}", case));
		}
	}
	out.raw(&format!("#STAT exchange: cases={} permutations run={} distribution={:?}", n_cases, perms_run, stat));
}

// ---------------------------------------------------------------------------------------------
// nonces: the rewind / private nonces of the three proof builders, byte for byte; Identifier from a
// public key; BlindingFactor::from_slice / from_hex on slices of any length
// ---------------------------------------------------------------------------------------------

/// a `BIP32Hasher` that behaves like `BIP32GrinHasher` and records the HMAC key it was last
/// initialised with and the bytes appended since
#[derive(Clone)]
struct RecHasher {
	inner: grin_keychain::extkey_bip32::BIP32GrinHasher,
	key: Vec<u8>,
	data: Vec<u8>,
}
impl grin_keychain::extkey_bip32::BIP32Hasher for RecHasher {
	fn network_priv(&self) -> [u8; 4] {
		self.inner.network_priv()
	}
	fn network_pub(&self) -> [u8; 4] {
		self.inner.network_pub()
	}
	fn master_seed() -> [u8; 12] {
		grin_keychain::extkey_bip32::BIP32GrinHasher::master_seed()
	}
	fn init_sha512(&mut self, seed: &[u8]) {
		self.key = seed.to_vec();
		self.data.clear();
		self.inner.init_sha512(seed)
	}
	fn append_sha512(&mut self, value: &[u8]) {
		self.data.extend_from_slice(value);
		self.inner.append_sha512(value)
	}
	fn result_sha512(&mut self) -> [u8; 64] {
		self.inner.result_sha512()
	}
	fn sha_256(&self, input: &[u8]) -> [u8; 32] {
		self.inner.sha_256(input)
	}
	fn ripemd_160(&self, input: &[u8]) -> [u8; 20] {
		self.inner.ripemd_160(input)
	}
}

fn nonces(out: &mut Out, rng: &mut Rng, thorough: bool) {
	use grin_keychain::extkey_bip32::BIP32GrinHasher;
	use grin_util::secp::key::PublicKey;
	let nseeds = if thorough { 12 } else { 4 };
	let ncommits = if thorough { 150 } else { 50 };
	let mut stat: std::collections::BTreeMap<String, u64> = Default::default();
	for si in 0..nseeds {
		let seed_len = [32usize, 16, 64, 33][si % 4];
		let is_test = si % 2 == 0;
		let kc = ExtKeychain::from_seed(&rng.bytes(seed_len), is_test).unwrap();
		let secp = kc.secp();
		let root = ExtKeychain::root_key_id();
		let pub_root = kc.public_root_key().serialize_vec(secp, true).to_vec();
		let priv_root = kc.derive_key(0, &root, SwitchCommitmentType::None).unwrap().0.to_vec();
		let legacy_root = kc.derive_key(0, &root, SwitchCommitmentType::Regular).unwrap().0.to_vec();
		let pb = ProofBuilder::new(&kc);
		let lb = LegacyProofBuilder::new(&kc);
		let mut hasher = BIP32GrinHasher::new(is_test);
		let vk = ViewKey::create(&kc, kc.master.clone(), &mut hasher, is_test).unwrap();
		// the view key's rewind hash: stored at creation, the associated function, and (by the
		// nonce lines below) what ProofBuilder::new computed
		out.line(&format!("keys rewindhash {}", hex(&pub_root)), &hex(&vk.rewind_hash));
		out.line(&format!("keys rewindhash {}", hex(&pub_root)), &hex(&ViewKey::rewind_hash(secp, kc.public_root_key())));
		for ci in 0..ncommits {
			// the nonce is a hash of the 33 commitment BYTES: real commitments of this keychain and
			// byte strings that are no curve points at all
			let commit = match ci % 5 {
				0 => Commitment::from_vec(rng.bytes(33)),
				1 => Commitment::from_vec(vec![[0u8, 0xff, 0x08, 0x09][(ci / 5) % 4]; 33]),
				_ => kc.commit(rand_amount(rng), &rand_id_any(rng), *rng.pick(&SWITCHES)).unwrap(),
			};
			let show = |r: Result<Result<SecretKey, grin_core::libtx::Error>, String>| -> String {
				match r {
					Ok(Ok(k)) => hex(&k.0),
					Ok(Err(_)) => "err".to_string(),
					Err(_) => "panic".to_string(),
				}
			};
			let args = format!("{} {} {} {}", hex(&pub_root), hex(&priv_root), hex(&legacy_root), hex(&commit.0));
			let a = show(catch(AssertUnwindSafe(|| pb.rewind_nonce(secp, &commit))));
			let b = show(catch(AssertUnwindSafe(|| pb.private_nonce(secp, &commit))));
			let c = show(catch(AssertUnwindSafe(|| lb.rewind_nonce(secp, &commit))));
			let d = show(catch(AssertUnwindSafe(|| lb.private_nonce(secp, &commit))));
			let e = show(catch(AssertUnwindSafe(|| ProofBuild::rewind_nonce(&vk, secp, &commit))));
			out.line(&format!("keys nonce new-rewind {}", args), &a);
			out.line(&format!("keys nonce new-private {}", args), &b);
			out.line(&format!("keys nonce legacy-rewind {}", args), &c);
			out.line(&format!("keys nonce legacy-private {}", args), &d);
			out.line(&format!("keys nonce view-rewind {}", args), &e);
			*stat.entry("commitments".to_string()).or_insert(0) += 1;
			// what the rewind theorems rest on: the view key and the new builder share the rewind
			// nonce; the two nonces of the new builder differ; the legacy builder has one nonce
			if a != e {
				out.raw(&format!("#ORACLE-FAIL C20 nonces: the root view key and the ProofBuilder of the same keychain compute different rewind nonces for commitment {} ({} vs {})", hex(&commit.0), e, a));
			}
			if a == b {
				out.raw(&format!("#ORACLE-FAIL C20 nonces: ProofBuilder's rewind nonce equals its private nonce for commitment {}", hex(&commit.0)));
			}
			if c != d {
				out.raw(&format!("#ORACLE-FAIL C20 nonces: LegacyProofBuilder's two nonces differ for commitment {}", hex(&commit.0)));
			}
		}
		// Identifier::from_pubkey / from_secret_key: a 17-byte blake2b digest of the compressed key
		for _ in 0..(if thorough { 60 } else { 20 }) {
			let sk = sig_scalar(rng, secp);
			let pk = PublicKey::from_secret_key(secp, &sk).unwrap();
			let ser = pk.serialize_vec(secp, true).to_vec();
			out.line(&format!("keys idpub {}", hex(&ser)), &hex(&Identifier::from_pubkey(secp, &pk).to_bytes()));
			out.line(&format!("keys idpub {}", hex(&ser)), &Identifier::from_secret_key(secp, &sk).map(|i| hex(&i.to_bytes())).unwrap_or_else(|_| "err".to_string()));
			*stat.entry("identifiers from public keys".to_string()).or_insert(0) += 1;
		}
	}
	// proof::create / verify / rewind with EXTRA DATA committed into the range proof (the builder and
	// reward::output always pass None): the proof verifies and rewinds with the same extra data only
	{
		let mut xs: std::collections::BTreeMap<String, (u64, u64)> = Default::default();
		let kc = ExtKeychain::from_seed(&rng.bytes(32), true).unwrap();
		let secp = kc.secp();
		let n_x = if thorough { 40 } else { 12 };
		for n in 0..n_x {
			let n = n as u64;
			let legacy = n % 3 == 2;
			let amount = rand_amount(rng);
			// legacy: only depth 3 / Regular comes back (recorded finding), keep to that
			let id = if legacy { rand_id(rng, 3) } else { rand_id(rng, (n % 5) as u8) };
			let sw = if legacy { SwitchCommitmentType::Regular } else { *rng.pick(&SWITCHES) };
			let commit = kc.commit(amount, &id, sw).unwrap();
			let other_commit = kc.commit(amount ^ 1, &id, sw).unwrap();
			let e_len = [1usize, 20, 32, 64, 0, 7][(n % 6) as usize];
			let extra = rng.bytes(e_len);
			let mut extra2 = extra.clone();
			if extra2.is_empty() {
				extra2.push(0);
			} else {
				let l = extra2.len();
				extra2[l - 1] ^= 1;
			}
			macro_rules! run {
				($b:expr) => {{
					let b = $b;
					let p = proof::create(&kc, &b, amount, &id, sw, commit, Some(extra.clone())).unwrap();
					let p_plain = proof::create(&kc, &b, amount, &id, sw, commit, None).unwrap();
					// the commitment ARGUMENT of create is not read (it is recomputed from amount / id / switch)
					let p_bogus = proof::create(&kc, &b, amount, &id, sw, other_commit, Some(extra.clone())).unwrap();
					sig_line(out, &mut xs, "ok-extra-create-ignores-commit-argument", n, Ok(p_bogus.proof[..] == p.proof[..] && p_bogus.plen == p.plen));
					sig_line(out, &mut xs, "ok-extra-verify-same", n, Ok(proof::verify(secp, commit, p, Some(extra.clone())).is_ok()));
					sig_line(out, &mut xs, "bad-extra-verify-without", n, Ok(proof::verify(secp, commit, p, None).is_ok()));
					sig_line(out, &mut xs, "bad-extra-verify-other", n, Ok(proof::verify(secp, commit, p, Some(extra2.clone())).is_ok()));
					sig_line(out, &mut xs, "ok-extra-plain-verify-without", n, Ok(proof::verify(secp, commit, p_plain, None).is_ok()));
					// an EMPTY extra-data vector: Some(vec![]) - what does the library make of it?
					if !extra.is_empty() {
						sig_line(out, &mut xs, "bad-extra-plain-verify-with", n, Ok(proof::verify(secp, commit, p_plain, Some(extra.clone())).is_ok()));
					}
					let want = Some((amount, id.clone(), sw));
					sig_line(out, &mut xs, "ok-extra-rewind-same", n, proof::rewind(secp, &b, commit, Some(extra.clone()), p).map(|r| r == want).map_err(|e| format!("{:?}", e)));
					sig_line(out, &mut xs, "ok-extra-plain-rewind-without", n, proof::rewind(secp, &b, commit, None, p_plain).map(|r| r == want).map_err(|e| format!("{:?}", e)));
					if !extra.is_empty() {
						sig_line(out, &mut xs, "bad-extra-rewind-without", n, proof::rewind(secp, &b, commit, None, p).map(|r| r.is_some()).map_err(|e| format!("{:?}", e)));
					}
					sig_line(out, &mut xs, "bad-extra-rewind-other", n, proof::rewind(secp, &b, commit, Some(extra2.clone()), p).map(|r| r.is_some()).map_err(|e| format!("{:?}", e)));
				}};
			}
			if legacy {
				run!(LegacyProofBuilder::new(&kc));
			} else {
				run!(ProofBuilder::new(&kc));
			}
		}
		for (k, (cnt, bad)) in &xs {
			out.raw(&format!("#STAT nonces extra-data {}: {} cases, {} against the rule", k, cnt, bad));
		}
	}
	// Keychain::from_mnemonic (how a wallet's keychain is really made): the keychain of
	// from_mnemonic(words, extension) IS the keychain of from_seed(to_seed(words, extension)); the
	// words round-trip through the entropy; another extension word, a changed word or a wrong
	// number of words never give the same keychain
	{
		use grin_keychain::mnemonic;
		let mut ms: std::collections::BTreeMap<String, (u64, u64)> = Default::default();
		let n_m = if thorough { 60 } else { 15 };
		for n in 0..n_m {
			let n = n as u64;
			let elen = [16usize, 20, 24, 28, 32][(n % 5) as usize];
			let entropy = match n {
				0 => vec![0u8; elen],
				1 => vec![0xffu8; elen],
				_ => rng.bytes(elen),
			};
			let words = match mnemonic::from_entropy(&entropy) {
				Ok(w) => w,
				Err(e) => {
					sig_line(out, &mut ms, "ok-mnemonic-roundtrip", n, Err(format!("{:?}", e)));
					continue;
				}
			};
			sig_line(out, &mut ms, "ok-mnemonic-roundtrip", n, mnemonic::to_entropy(&words).map(|e| e == entropy).map_err(|e| format!("{:?}", e)));
			sig_line(out, &mut ms, "ok-mnemonic-word-count", n, Ok(words.split_whitespace().count() == elen * 3 / 4));
			let ext = ["", "TREZOR", "a", "correct horse"][(n % 4) as usize];
			let is_test = n % 2 == 0;
			let id = rand_id_any(rng);
			let amount = rand_amount(rng);
			let sw = *rng.pick(&SWITCHES);
			let via_seed = mnemonic::to_seed(&words, ext).map_err(|e| format!("{:?}", e)).and_then(|seed| ExtKeychain::from_seed(&seed, is_test).map_err(|e| format!("{:?}", e)));
			let via_mn = ExtKeychain::from_mnemonic(&words, ext, is_test).map_err(|e| format!("{:?}", e));
			match (via_seed, via_mn) {
				(Ok(a), Ok(b)) => {
					sig_line(out, &mut ms, "ok-mnemonic-keychain-is-seed-keychain", n, Ok(a.master.secret_key == b.master.secret_key && a.master.chain_code == b.master.chain_code && a.derive_key(amount, &id, sw).ok() == b.derive_key(amount, &id, sw).ok() && a.commit(amount, &id, sw).ok() == b.commit(amount, &id, sw).ok()));
					// another extension word
					let other = ExtKeychain::from_mnemonic(&words, &format!("{}x", ext), is_test);
					sig_line(out, &mut ms, "bad-mnemonic-other-extension-same-master", n, Ok(other.map(|o| o.master.secret_key == b.master.secret_key).unwrap_or(false)));
					// extra white space between the words is not part of the words, but IS part of the
					// PBKDF2 input (to_seed hashes the string as given): recorded as an observation
					let spaced = words.replace(' ', "  ");
					let sp = ExtKeychain::from_mnemonic(&spaced, ext, is_test);
					let key = format!("mnemonic with doubled spaces: {}", match &sp { Ok(k) if k.master.secret_key == b.master.secret_key => "same keychain", Ok(_) => "accepted, ANOTHER keychain", Err(_) => "refused" });
					ms.entry(key).or_insert((0, 0)).0 += 1;
					// one word replaced by its neighbour in the word list
					let mut ws: Vec<String> = words.split_whitespace().map(|x| x.to_string()).collect();
					let wi = rng.below(ws.len() as u64) as usize;
					let idx = mnemonic::search(&ws[wi]).unwrap();
					let repl = mnemonic::from_entropy(&{
						// the word with index idx ^ 1, taken from the first word of a mnemonic whose
						// first 11 bits are that index
						let j = idx ^ 1;
						let mut e = vec![0u8; 16];
						e[0] = (j >> 3) as u8;
						e[1] = ((j & 7) << 5) as u8;
						e
					})
					.unwrap();
					ws[wi] = repl.split_whitespace().next().unwrap().to_string();
					let changed = ws.join(" ");
					let ch = ExtKeychain::from_mnemonic(&changed, ext, is_test);
					sig_line(out, &mut ms, "bad-mnemonic-changed-word-same-master", n, Ok(ch.map(|o| o.master.secret_key == b.master.secret_key).unwrap_or(false)));
					// a word too few
					let short: Vec<&str> = words.split_whitespace().skip(1).collect();
					sig_line(out, &mut ms, "bad-mnemonic-one-word-short-accepted", n, Ok(ExtKeychain::from_mnemonic(&short.join(" "), ext, is_test).is_ok()));
					sig_line(out, &mut ms, "bad-mnemonic-unknown-word-accepted", n, Ok(ExtKeychain::from_mnemonic(&format!("{} zzzz", short.join(" ")), ext, is_test).is_ok()));
				}
				(a, b) => sig_line(out, &mut ms, "ok-mnemonic-keychain-is-seed-keychain", n, Err(format!("{:?} {:?}", a.err(), b.err()))),
			}
		}
		for (k, (cnt, bad)) in &ms {
			out.raw(&format!("#STAT nonces mnemonic {}: {} cases, {} against the rule", k, cnt, bad));
		}
	}
	// child numbers at the 2^31 boundary: the index constructors (assert: panic from 2^31 on), and the
	// children of one parent named by the words around the boundary are pairwise different keys
	{
		use grin_keychain::extkey_bip32::BIP32GrinHasher;
		let idxs: [u32; 9] = [0, 1, 0x7fff_fffe, 0x7fff_ffff, 0x8000_0000, 0x8000_0001, 0xffff_fffe, 0xffff_ffff, rng.next() as u32];
		for i in idxs {
			for hardened in [false, true] {
				let r = catch(AssertUnwindSafe(|| if hardened { ChildNumber::from_hardened_idx(i) } else { ChildNumber::from_normal_idx(i) }));
				let s = match r {
					Ok(c) => format!("ok:{}:{}", u32::from(c), if c.is_hardened() { "hardened" } else { "normal" }),
					Err(_) => "panic".to_string(),
				};
				out.line(&format!("keys cnidx {} {}", if hardened { "hardened" } else { "normal" }, i), &s);
			}
		}
		let kc = ExtKeychain::from_seed(&rng.bytes(32), true).unwrap();
		let secp = kc.secp();
		let parent = kc.master.ckd_priv(secp, &mut BIP32GrinHasher::new(true), ChildNumber::from(rng.next() as u32)).unwrap();
		let words: [u32; 8] = [0, 1, 0x7fff_fffe, 0x7fff_ffff, 0x8000_0000, 0x8000_0001, 0xffff_fffe, 0xffff_ffff];
		let kids: Vec<[u8; 32]> = words.iter().map(|w| parent.ckd_priv(secp, &mut BIP32GrinHasher::new(true), ChildNumber::from(*w)).unwrap().secret_key.0).collect();
		for a in 0..words.len() {
			for b in 0..words.len() {
				let again = parent.ckd_priv(secp, &mut BIP32GrinHasher::new(true), ChildNumber::from(words[b])).unwrap().secret_key.0;
				out.line(&format!("keys ckdsame {} {}", words[a], words[b]), if kids[a] == again { "same" } else { "differs" });
			}
		}
	}
	// what ckd_priv / ckd_pub / new_master feed the HMAC, observed with a recording hasher: key and
	// message, for words around 2^31 and random ones, at several depths; and the child must be the
	// one the plain hasher gives
	{
		use grin_keychain::extkey_bip32::{BIP32GrinHasher, BIP32Hasher, ExtendedPrivKey, ExtendedPubKey};
		use grin_util::secp::key::PublicKey;
		let secp = Secp256k1::with_caps(secp::ContextFlag::Commit);
		let n_par = if thorough { 12 } else { 4 };
		for pi in 0..n_par {
			let seed = rng.bytes([16usize, 32, 64, 40][pi % 4]);
			let mut rh = RecHasher { inner: BIP32GrinHasher::new(pi % 2 == 0), key: vec![], data: vec![] };
			let master = ExtendedPrivKey::new_master(&secp, &mut rh, &seed).unwrap();
			out.line(&format!("keys mastermsg {}", hex(&seed)), &format!("{} {}", hex(&rh.key), hex(&rh.data)));
			// a parent at depth 0..3
			let mut parent = master.clone();
			for _ in 0..(pi % 4) {
				parent = parent.ckd_priv(&secp, &mut BIP32GrinHasher::new(true), ChildNumber::from(rng.next() as u32)).unwrap();
			}
			let ppub = PublicKey::from_secret_key(&secp, &parent.secret_key).unwrap().serialize_vec(&secp, true).to_vec();
			let xpub = ExtendedPubKey::from_private(&secp, &parent, &mut BIP32GrinHasher::new(true));
			let mut words: Vec<u32> = vec![0, 1, 0x7fff_ffff, 0x8000_0000, 0x8000_0001, 0xffff_ffff];
			for _ in 0..4 {
				words.push(rng.next() as u32);
			}
			for w in words {
				let cn = ChildNumber::from(w);
				let args = format!("{} {} {} {}", w, hex(&parent.chain_code[..]), hex(&parent.secret_key.0), hex(&ppub));
				let child = parent.ckd_priv(&secp, &mut rh, cn);
				out.line(&format!("keys ckdmsg priv {}", args), &format!("{} {}", hex(&rh.key), hex(&rh.data)));
				// the recording hasher changes nothing
				let plain = parent.ckd_priv(&secp, &mut BIP32GrinHasher::new(true), cn);
				if child.as_ref().ok().map(|c| c.secret_key.0) != plain.as_ref().ok().map(|c| c.secret_key.0) {
					out.raw(&format!("#ORACLE-FAIL C20 nonces: ckd_priv with the recording hasher gives another child than with the plain one (word {})", w));
				}
				rh.key.clear();
				rh.data.clear();
				let r = xpub.ckd_pub(&secp, &mut rh, cn);
				let s = match r {
					Ok(_) => format!("{} {}", hex(&rh.key), hex(&rh.data)),
					Err(_) => "err".to_string(),
				};
				out.line(&format!("keys ckdmsg pub {}", args), &s);
			}
		}
	}
	// BlindingFactor::from_slice / from_hex / from_secret_key on 0..40 bytes
	for len in 0..=40usize {
		for rep in 0..(if thorough { 6 } else { 2 }) {
			let data = if rep == 0 { vec![0xabu8; len] } else { rng.bytes(len) };
			let h = if data.is_empty() { "-".to_string() } else { hex(&data) };
			out.line(&format!("keys bfslice {}", h), &hex(BlindingFactor::from_slice(&data).as_ref()));
			// (the line protocol's hex() prints `-` for the empty string; from_hex gets the real text)
			let hs: String = data.iter().map(|b| format!("{:02x}", b)).collect();
			let fh = BlindingFactor::from_hex(&hs).map(|b| hex(b.as_ref())).unwrap_or_else(|_| "err".to_string());
			out.line(&format!("keys bfslice {}", h), &fh);
			*stat.entry(format!("from_slice length {}", if len < 32 { "<32" } else if len == 32 { "=32" } else { ">32" })).or_insert(0) += 1;
		}
	}
	out.raw(&format!("#STAT nonces: {:?}", stat));
}

// ---------------------------------------------------------------------------------------------
// mnemonic: BIP39 bit packing (keychain/src/mnemonic.rs) against the model, words as indexes
// ---------------------------------------------------------------------------------------------

fn mnemonic_run(out: &mut Out, rng: &mut Rng, thorough: bool) {
	use grin_keychain::mnemonic;
	let mut stat: std::collections::BTreeMap<String, u64> = Default::default();
	let err_s = |e: &mnemonic::Error| -> String {
		match e {
			mnemonic::Error::BadWord(_) => "err:BadWord".to_string(),
			mnemonic::Error::BadChecksum(given, actual) => format!("err:BadChecksum({},{})", given, actual),
			mnemonic::Error::InvalidLength(n) => format!("err:InvalidLength({})", n),
		}
	};
	// a word list as indexes (an unknown word is printed as 2048); the implementation gets the words
	let word_of = |i: u16| -> String { mnemonic::WORDS[i as usize].clone() };
	let to_line = |out: &mut Out, stat: &mut std::collections::BTreeMap<String, u64>, idx: &[u16], what: &str| {
		let words: Vec<String> = idx.iter().map(|i| if *i >= 2048 { "zzzzzz".to_string() } else { word_of(*i) }).collect();
		let r = catch(AssertUnwindSafe(|| mnemonic::to_entropy(&words.join(" "))));
		let s = match r {
			Ok(Ok(e)) => hex(&e),
			Ok(Err(e)) => err_s(&e),
			Err(_) => "panic".to_string(),
		};
		let kind = if s.starts_with("err:BadChecksum") { "BadChecksum" } else if s.starts_with("err:") { &s[4..s.find('(').unwrap_or(s.len())] } else if s == "panic" { "panic" } else { "ok" };
		*stat.entry(format!("to_entropy {}: {}", what, kind)).or_insert(0) += 1;
		out.line(&format!("keys mnto {}", nat_list(&idx.iter().map(|x| *x as u64).collect::<Vec<_>>())), &s);
	};
	let reps = if thorough { 1500 } else { 200 };
	for len in 0..=40usize {
		let valid = [16usize, 20, 24, 28, 32].contains(&len);
		for rep in 0..(if valid { reps } else { 2 }) {
			let entropy: Vec<u8> = match rep {
				0 => vec![0u8; len],
				1 => vec![0xffu8; len],
				2 => (0..len).map(|i| if i == 0 { 0x80 } else { 0 }).collect(),
				3 => (0..len).map(|i| if i + 1 == len { 1 } else { 0 }).collect(),
				_ => rng.bytes(len),
			};
			let r = catch(AssertUnwindSafe(|| mnemonic::from_entropy(&entropy)));
			let (s, idx): (String, Option<Vec<u16>>) = match r {
				Ok(Ok(m)) => {
					let idx: Vec<u16> = m.split_whitespace().map(|w| mnemonic::search(w).unwrap()).collect();
					(nat_list(&idx.iter().map(|x| *x as u64).collect::<Vec<_>>()), Some(idx))
				}
				Ok(Err(e)) => (err_s(&e), None),
				Err(_) => ("panic".to_string(), None),
			};
			*stat.entry(format!("from_entropy {}: {}", if valid { format!("{} bytes", len) } else { "of another length (0..40)".to_string() }, if idx.is_some() { "ok" } else { "refused" })).or_insert(0) += 1;
			out.line(&format!("keys mnfrom {}", hex(&entropy)), &s);
			let idx = match idx {
				Some(i) => i,
				None => continue,
			};
			// back
			to_line(out, &mut stat, &idx, "honest");
			let n = idx.len();
			let cs = n / 3;
			// a checksum bit of the last word flipped: always refused
			let mut c = idx.clone();
			c[n - 1] ^= 1 << rng.below(cs as u64);
			to_line(out, &mut stat, &c, "checksum bit flipped");
			if rep % 3 == 0 {
				// a data bit flipped somewhere (accepted when the checksum bits happen to agree)
				let mut c = idx.clone();
				let wi = rng.below(n as u64) as usize;
				let lo = if wi == n - 1 { cs as u64 } else { 0 };
				c[wi] ^= 1 << rng.range(lo, 10);
				to_line(out, &mut stat, &c, "data bit flipped");
				// two words exchanged
				let mut c = idx.clone();
				c.swap(0, n - 1);
				to_line(out, &mut stat, &c, "first and last word exchanged");
				// a word too few / too many, an unknown word (the length is looked at first)
				to_line(out, &mut stat, &idx[1..], "one word short");
				let mut c = idx.clone();
				c.push(idx[0]);
				to_line(out, &mut stat, &c, "one word more");
				let mut c = idx.clone();
				c[rng.below(n as u64) as usize] = 2048;
				to_line(out, &mut stat, &c, "unknown word");
				let mut c = idx[1..].to_vec();
				c[0] = 2048;
				to_line(out, &mut stat, &c, "unknown word and one word short");
			}
		}
	}
	to_line(out, &mut stat, &[], "no word");
	out.raw(&format!("#STAT mnemonic: {:?}", stat));
}

// ---------------------------------------------------------------------------------------------
// one hasher object reused across consecutive derivations
// ---------------------------------------------------------------------------------------------

fn hasher(out: &mut Out, rng: &mut Rng, thorough: bool) {
	use grin_keychain::extkey_bip32::{BIP32GrinHasher, ExtendedPrivKey, ExtendedPubKey};
	let secp = Secp256k1::with_caps(secp::ContextFlag::Commit);
	let mut stat: std::collections::BTreeMap<String, u64> = Default::default();
	macro_rules! bump {
		($k:expr) => {
			*stat.entry($k).or_insert(0) += 1
		};
	}
	let n_seeds = if thorough { 6 } else { 2 };
	let (mut n_cmp, mut n_same, mut proofs) = (0u64, 0u64, 0u64);
	for si in 0..n_seeds {
		let seed = rng.bytes(if si % 2 == 0 { 32 } else { 64 });
		let is_test = si % 2 == 0;
		let keychain = ExtKeychain::from_seed(&seed, is_test).unwrap();
		let fresh = || BIP32GrinHasher::new(is_test);
		let mut cmp = |out: &mut Out, what: &str, detail: String, same: bool| {
			n_cmp += 1;
			if same {
				n_same += 1;
			}
			out.line(&format!("keys hasher {} seed{} {}", what, si, detail), if same { "same" } else { "differs" });
			if !same {
				out.raw(&format!(
					"#ORACLE-FAIL C20 a derivation depends on what the hasher object was used for before: {} {} (seed={} is_test={})",
					what, detail, hex(&seed), is_test
				));
			}
		};
		// (a) new_master twice on one hasher; on the keychain's own hasher after it derived something
		let mut h = fresh();
		let m1 = ExtendedPrivKey::new_master(&secp, &mut h, &seed).unwrap();
		let m2 = ExtendedPrivKey::new_master(&secp, &mut h, &seed).unwrap();
		cmp(out, "master-twice", "first".to_string(), m1 == keychain.master);
		cmp(out, "master-twice", "second".to_string(), m2 == keychain.master);
		let _ = keychain.derive_key(5, &ExtKeychain::derive_key_id(3, 1, 2, 3, 0), SwitchCommitmentType::Regular).unwrap();
		let mut hk = keychain.hasher();
		let _ = keychain.master.ckd_priv(&secp, &mut hk, ChildNumber::from(77)).unwrap();
		let m3 = ExtendedPrivKey::new_master(&secp, &mut hk, &seed).unwrap();
		cmp(out, "master-on-used-keychain-hasher", "-".to_string(), m3 == keychain.master);
		// another seed in between must not leak into the next master
		let other_seed = rng.bytes(32);
		let _ = ExtendedPrivKey::new_master(&secp, &mut hk, &other_seed).unwrap();
		let m4 = ExtendedPrivKey::new_master(&secp, &mut hk, &seed).unwrap();
		cmp(out, "master-after-other-seed", "-".to_string(), m4 == keychain.master);
		// (b) siblings from one parent with ONE hasher: m/a, m/b, m/a again, hardened ones, then deeper
		let a = 10u32 + rng.below(5) as u32;
		let words: Vec<u32> = vec![a, a + 1, a, 0x8000_0000 | a, a + 1, 0x8000_0000 | a, 0, 0x7fff_ffff, 0xffff_ffff, a];
		let mut h = fresh();
		// the hasher is first used for the master key
		let parent = ExtendedPrivKey::new_master(&secp, &mut h, &seed).unwrap();
		let mut first_of: std::collections::BTreeMap<u32, Vec<u8>> = Default::default();
		for (k, w) in words.iter().enumerate() {
			let cn = ChildNumber::from(*w);
			let reused = parent.ckd_priv(&secp, &mut h, cn).unwrap();
			let mut fh = fresh();
			let with_fresh = parent.ckd_priv(&secp, &mut fh, cn).unwrap();
			cmp(out, "ckd_priv-sibling-vs-fresh-hasher", format!("#{} m/{}", k, w), reused == with_fresh);
			let via_keychain = keychain.derive_key(7, &ExtKeychain::derive_key_id(1, *w, 0, 0, 0), SwitchCommitmentType::None).unwrap();
			cmp(out, "ckd_priv-sibling-vs-ExtKeychain", format!("#{} m/{}", k, w), reused.secret_key == via_keychain);
			if let Some(prev) = first_of.get(w) {
				cmp(out, "ckd_priv-same-index-again", format!("#{} m/{}", k, w), *prev == reused.secret_key.0.to_vec());
			}
			first_of.insert(*w, reused.secret_key.0.to_vec());
			bump!(format!("sibling {}", if w & 0x8000_0000 != 0 { "hardened" } else { "normal" }));
			// one level deeper with the same hasher object
			let cn2 = ChildNumber::from(rng.below(50) as u32);
			let deep = reused.ckd_priv(&secp, &mut h, cn2).unwrap();
			let via = keychain.derive_key(7, &ExtKeychain::derive_key_id(2, *w, u32::from(cn2), 0, 0), SwitchCommitmentType::None).unwrap();
			cmp(out, "ckd_priv-grandchild-vs-ExtKeychain", format!("#{} m/{}/{}", k, w, u32::from(cn2)), deep.secret_key == via);
			// public derivation with the same hasher object (normal words only)
			if w & 0x8000_0000 == 0 {
				let ppub = ExtendedPubKey::from_private(&secp, &parent, &mut h);
				let cpub = ppub.ckd_pub(&secp, &mut h, cn).unwrap();
				let want = ExtendedPubKey::from_private(&secp, &with_fresh, &mut fresh());
				cmp(out, "ckd_pub-vs-pub-of-private-child", format!("#{} m/{}", k, w), cpub.public_key == want.public_key && cpub.chain_code == want.chain_code);
			}
		}
		// derive_priv of a whole path with the used hasher
		for _ in 0..(if thorough { 20 } else { 6 }) {
			let d = rng.range(1, 4) as usize;
			let ws: Vec<u32> = (0..4).map(|i| if i < d { rand_index(rng) } else { 0 }).collect();
			let cns: Vec<ChildNumber> = ws[..d].iter().map(|w| ChildNumber::from(*w)).collect();
			let k = parent.derive_priv(&secp, &mut h, &cns).unwrap();
			let via = keychain.derive_key(3, &ExtKeychain::derive_key_id(d as u8, ws[0], ws[1], ws[2], ws[3]), SwitchCommitmentType::None).unwrap();
			cmp(out, "derive_priv-vs-ExtKeychain", format!("depth {} {:?}", d, &ws[..d]), k.secret_key == via);
		}
		// (c) child view keys derived one after another with ONE hasher; each recovers exactly its own outputs
		let mut hv = fresh();
		let _ = ExtendedPrivKey::new_master(&secp, &mut hv, &other_seed).unwrap();
		let vk0 = ViewKey::create(&keychain, keychain.master.clone(), &mut hv, is_test).unwrap();
		let vk0_fresh = ViewKey::create(&keychain, keychain.master.clone(), &mut fresh(), is_test).unwrap();
		cmp(out, "viewkey-create-vs-fresh-hasher", "root".to_string(), vk0 == vk0_fresh);
		let accts: Vec<u32> = vec![a, a + 1, a, a + 2];
		let mut vks: Vec<(u32, ViewKey)> = vec![];
		for (k, w) in accts.iter().enumerate() {
			let cn = ChildNumber::from(*w);
			let child = vk0.ckd_pub(&secp, &mut hv, cn).unwrap();
			let child_fresh = vk0_fresh.ckd_pub(&secp, &mut fresh(), cn).unwrap();
			cmp(out, "viewkey-ckd_pub-vs-fresh-hasher", format!("#{} m/{}", k, w), child == child_fresh);
			// and against the view key made from the privately derived child
			let mut hp = fresh();
			let ext = keychain.master.ckd_priv(&secp, &mut hp, cn).unwrap();
			let from_priv = ViewKey::create(&keychain, ext, &mut hp, is_test).unwrap();
			cmp(out, "viewkey-ckd_pub-vs-create-from-private-child", format!("#{} m/{}", k, w), child == from_priv);
			// a grandchild with the same hasher object
			let g = child.ckd_pub(&secp, &mut hv, ChildNumber::from(3)).unwrap();
			let g_fresh = child_fresh.ckd_pub(&secp, &mut fresh(), ChildNumber::from(3)).unwrap();
			cmp(out, "viewkey-grandchild-vs-fresh-hasher", format!("#{} m/{}/3", k, w), g == g_fresh);
			vks.push((*w, child));
		}
		// outputs under each account; every child view key against every output
		let nb = ProofBuilder::new(&keychain);
		let mut outs_made: Vec<(u32, Identifier, u64, Commitment, grin_util::secp::pedersen::RangeProof)> = vec![];
		for w in [a, a + 1, a + 2].iter() {
			let id = ExtKeychain::derive_key_id(3, *w, rng.below(9) as u32, rng.below(9) as u32, rng.next() as u32);
			let amount = 1 + rng.below(1 << 40);
			let c = keychain.commit(amount, &id, SwitchCommitmentType::None).unwrap();
			let p = proof::create(&keychain, &nb, amount, &id, SwitchCommitmentType::None, c, None).unwrap();
			proofs += 1;
			outs_made.push((*w, id, amount, c, p));
		}
		for (vw, vk) in &vks {
			for (ow, id, amount, c, p) in &outs_made {
				let r = rewind_str(catch(AssertUnwindSafe(|| proof::rewind(&secp, vk, *c, None, *p))));
				let idh = hex(&id.to_bytes());
				out.line(&format!("keys vkrewind [{}] {} none {}", vw, idh, amount), &r);
				bump!(format!("child view key on {} account:{}", if vw == ow { "its own" } else { "another" }, r.split(' ').next().unwrap()));
				let want = if vw == ow { format!("some {} none {}", idh, amount) } else { "none".to_string() };
				if r != want {
					out.raw(&format!(
						"#ORACLE-FAIL C20 a child view key derived with a reused hasher does not recover exactly its own outputs: view key m/{} output m/{}/.. id={} amount={} => {} (expected {})",
						vw, ow, idh, amount, r, want
					));
				}
			}
		}
	}
	out.raw(&format!("#STAT hasher seeds={} comparisons={} same={} bulletproofs created={}", n_seeds, n_cmp, n_same, proofs));
	out.raw(&format!("#STAT hasher distribution={:?}", stat));
}

/// diagnostic (not part of the check): which single-bit flips of a bulletproof still verify
fn malleable(out: &mut Out, rng: &mut Rng) {
	let secp_v = Secp256k1::with_caps(secp::ContextFlag::Commit);
	let keychain = ExtKeychain::from_seed(&rng.bytes(32), true).unwrap();
	let nb = ProofBuilder::new(&keychain);
	let id = ExtKeychain::derive_key_id(3, 1, 2, 3, 0);
	let sw = SwitchCommitmentType::Regular;
	let amount = 123456789u64;
	let c = keychain.commit(amount, &id, sw).unwrap();
	let proof = proof::create(&keychain, &nb, amount, &id, sw, c, None).unwrap();
	let mut hits = vec![];
	for i in 0..proof.plen {
		for bit in 0..8 {
			let mut bad = proof;
			bad.proof[i] ^= 1 << bit;
			if proof::verify(&secp_v, c, bad, None).is_ok() {
				let rw = rewind_str(catch(AssertUnwindSafe(|| proof::rewind(&secp_v, &nb, c, None, bad))));
				hits.push(format!("byte{}:bit{}:rewind={}", i, bit, rw.split(' ').next().unwrap().to_string()));
			}
		}
	}
	out.raw(&format!("#STAT malleable plen={} single-bit flips that still verify: {:?}", proof.plen, hits));
}

fn main() {
	let mode = std::env::args().nth(1).unwrap_or_else(|| "codec".to_string());
	if mode == "zeropanic" {
		// diagnostic only (not part of a check): the panic of sign_with_blinding(zero) with the
		// default panic hook, so that message, location and (RUST_BACKTRACE=1) backtrace are printed
		let kc = ExtKeychain::from_seed(&[7u8; 32], false).unwrap();
		let msg = secp::Message::from_slice(&[1u8; 32]).unwrap();
		let r = kc.sign_with_blinding(&msg, &BlindingFactor::zero());
		println!("returned {:?}", r.is_ok());
		return;
	}
	quiet_panics();
	global::set_local_chain_type(ChainTypes::AutomatedTesting);
	let mut rng = Rng::new(seed_from_env() ^ (mode.len() as u64 * 0x9e37 + mode.as_bytes()[0] as u64));
	let thorough = tier_thorough();
	let mut out = Out::stdout();
	match mode.as_str() {
		"codec" => codec(&mut out, &mut rng, thorough),
		"arith" => arith(&mut out, &mut rng, thorough),
		"crypto" => crypto(&mut out, &mut rng, thorough),
		"build" => builder(&mut out, &mut rng, thorough),
		"viewkey" => viewkey(&mut out, &mut rng, thorough),
		"history" => history(&mut out, &mut rng, thorough),
		"seeds" => seeds(&mut out, &mut rng, thorough),
		"hasher" => hasher(&mut out, &mut rng, thorough),
		"sigs" => sigs(&mut out, &mut rng, thorough),
		"exchange" => exchange(&mut out, &mut rng, thorough),
		"nonces" => nonces(&mut out, &mut rng, thorough),
		"mnemonic" => mnemonic_run(&mut out, &mut rng, thorough),
		"malleable" => malleable(&mut out, &mut rng),
		_ => {
			eprintln!("unknown mode {}", mode);
			std::process::exit(2);
		}
	}
	out.flush();
	let _ = ZERO_KEY;
}
