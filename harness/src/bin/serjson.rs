//! JSON (serde) forms of the transaction types (properties C10 / C11): field codecs of
//! core/src/libtx/secp_ser.rs against the model (lean/GrinVerif/Model/SerJson.lean, `ser jhex` / `ser jnum`
//! lines), and whole objects (Transaction, TransactionBody, TxKernel, Output, Input, Inputs,
//! KernelFeatures, FeeFields) with the oracle evaluated on the implementation:
//!   from_str(to_string(x)) re-serialises to the identical string and to the identical binary encoding,
//!   identity hashes of kernels / outputs are the same after the JSON round trip,
//!   NO mutated JSON text makes a reader panic (`#ORACLE-FAIL C11`).
//!
//!   serjson            registered run (incl. proof strings of 676, 677, 1000, 5000 bytes: refused since
//!                      repair dd4fd942d of the recorded finding C11-rangeproof-json-overlong-panics)
//!   serjson probe      prints what the reader does with 675 / 676 / 1000 bytes (#STAT only)

use grin_core::core::hash::Hashed;
use grin_core::core::{
	FeeFields, Input, Inputs, KernelFeatures, NRDRelativeHeight, Output, OutputFeatures, Transaction,
	TransactionBody, TxKernel,
};
use grin_core::libtx::secp_ser;
use grin_core::ser::{self, ProtocolVersion};
use grin_keychain::BlindingFactor;
use grin_util::secp::pedersen::{Commitment, RangeProof};
use grin_util::secp::Signature;
use gvharness::*;
use serde_json::Value;
use std::collections::BTreeMap;
use std::panic::AssertUnwindSafe;

struct Cx {
	out: Out,
	rng: Rng,
	stats: BTreeMap<String, u64>,
	fails: u64,
}

impl Cx {
	fn stat(&mut self, k: &str) {
		*self.stats.entry(k.to_string()).or_insert(0) += 1;
	}
	fn fail(&mut self, prop: &str, text: String) {
		self.fails += 1;
		if self.fails <= 40 {
			self.out.raw(&format!("#ORACLE-FAIL {} {}", prop, text));
		}
	}
}

fn lit(s: &str) -> String {
	serde_json::to_string(s).unwrap_or_else(|_| "\"\"".to_string())
}

fn valid_compact(b: &[u8]) -> bool {
	let secp = grin_util::static_secp_instance();
	let secp = secp.lock();
	Signature::from_compact(&secp, b).is_ok()
}

/// one field-codec line: `ser jhex <kind> <utf-8 bytes of the string> [<sig validity>]`
fn field_line(cx: &mut Cx, kind: &str, s: &str) {
	let j = lit(s);
	let res: Result<Result<Vec<u8>, ()>, String> = match kind {
		"commit" => catch(AssertUnwindSafe(|| {
			secp_ser::commitment_from_hex(&mut serde_json::Deserializer::from_str(&j)).map(|c: Commitment| c.0.to_vec()).map_err(|_| ())
		})),
		"blind" => catch(AssertUnwindSafe(|| {
			secp_ser::blind_from_hex(&mut serde_json::Deserializer::from_str(&j)).map(|b: BlindingFactor| b.as_ref().to_vec()).map_err(|_| ())
		})),
		"proof" => catch(AssertUnwindSafe(|| {
			secp_ser::rangeproof_from_hex(&mut serde_json::Deserializer::from_str(&j)).map(|p: RangeProof| p.proof[..p.plen].to_vec()).map_err(|_| ())
		})),
		_ => catch(AssertUnwindSafe(|| {
			secp_ser::sig_serde::deserialize(&mut serde_json::Deserializer::from_str(&j))
				.map(|sg: Signature| {
					let secp = grin_util::static_secp_instance();
					let secp = secp.lock();
					sg.serialize_compact(&secp).to_vec()
				})
				.map_err(|_| ())
		})),
	};
	let flag = if kind == "sig" {
		// validity of the first 64 decoded bytes, asked of the implementation separately
		let v = grin_util::from_hex(s).ok().filter(|b| b.len() >= 64).map(|b| valid_compact(&b[..64])).unwrap_or(false);
		format!(" {}", if v { 1 } else { 0 })
	} else {
		String::new()
	};
	let lhs = format!("ser jhex {} {}{}", kind, hex(s.as_bytes()), flag);
	match res {
		Ok(Ok(b)) => {
			cx.out.line(&lhs, &format!("ok {}", hex(&b)));
			cx.stat(&format!("field {} ok", kind));
		}
		Ok(Err(())) => {
			cx.out.line(&lhs, "err");
			cx.stat(&format!("field {} err", kind));
		}
		Err(m) => {
			cx.out.line(&lhs, "panic");
			let tag = if kind == "proof" { "rangeproof-json-overlong-panics: " } else { "" };
			cx.fail("C11", format!("{}JSON field reader `{}` panicked ({}) on the string with UTF-8 bytes {}", tag, kind, m.replace('\n', " "), if s.len() > 200 { format!("{}… ({} bytes)", hex(&s.as_bytes()[..200]), s.len()) } else { hex(s.as_bytes()) }));
		}
	}
}

fn num_line(cx: &mut Cx, s: &str) {
	let j = lit(s);
	let r = catch(AssertUnwindSafe(|| serde_json::from_str::<FeeFields>(&j).map(|f| u64::from(f)).map_err(|_| ())));
	let lhs = format!("ser jnum {}", hex(s.as_bytes()));
	match r {
		Ok(Ok(n)) => cx.out.line(&lhs, &format!("ok {}", n)),
		Ok(Err(())) => cx.out.line(&lhs, "err"),
		Err(m) => {
			cx.out.line(&lhs, "panic");
			cx.fail("C11", format!("FeeFields JSON reader panicked ({}) on {}", m.replace('\n', " "), j));
		}
	}
	cx.stat("field fee");
}

const ODD_STRINGS: [&str; 22] = [
	"", "0", "0x", "0x0x00", " 00 ", "\t0a\n", "zz", "0g", "+f", "-1", "+f+f", "€a", "a€", "é", "00€", "\u{a0}00\u{2003}", "0X00", "00 00",
	"0x0", "００", "\u{0}\u{0}", "ＦＦ",
];

fn hex_of(b: &[u8], upper: bool) -> String {
	let h = hex(b);
	if h == "-" {
		String::new()
	} else if upper {
		h.to_uppercase()
	} else {
		h
	}
}

fn fields(cx: &mut Cx, max_proof: usize) {
	for kind in ["commit", "blind", "proof", "sig"].iter() {
		for s in ODD_STRINGS.iter() {
			field_line(cx, kind, s);
		}
		let lens: Vec<usize> = match *kind {
			"commit" => vec![0, 1, 32, 33, 34, 66, 200],
			"blind" => vec![0, 1, 31, 32, 33, 64],
			"proof" => vec![0, 1, 100, 674, 675, 676, 677, 1000, 5000].into_iter().filter(|l| *l <= max_proof).collect(),
			_ => vec![0, 1, 63, 64, 65, 128],
		};
		for l in lens {
			for rep in 0..6 {
				let mut b = cx.rng.bytes(l);
				if *kind == "sig" && rep == 0 && l >= 64 {
					for x in b.iter_mut().take(64) {
						*x = 0xff;
					}
				}
				if *kind == "sig" && rep == 1 && l >= 64 {
					for x in b.iter_mut().take(64) {
						*x = 0;
					}
				}
				let h = hex_of(&b, rep == 2);
				field_line(cx, kind, &h);
				if rep == 3 {
					field_line(cx, kind, &format!("0x{}", h));
					field_line(cx, kind, &format!("  {}\n", h));
					if !h.is_empty() {
						field_line(cx, kind, &h[..h.len() - 1]);
						let mut m = h.clone();
						m.replace_range(0..1, "g");
						field_line(cx, kind, &m);
						let mut m = h.clone();
						m.push('€');
						field_line(cx, kind, &m);
					}
				}
			}
		}
	}
	for s in ["0", "1", "+7", "-1", "", "+", "18446744073709551615", "18446744073709551616", "00012", "1e3", "1.0", " 1", "1 ", "0x10", "٣", "99999999999999999999999", "1099511627775", "1099511627776"].iter() {
		num_line(cx, s);
	}
	for _ in 0..60 {
		let n = cx.rng.next() >> cx.rng.below(64);
		num_line(cx, &format!("{}", n));
	}
}

// ---------------------------------------------------------------------------------------------
// whole objects

fn commit(rng: &mut Rng) -> Commitment {
	let mut c = [0u8; 33];
	c.copy_from_slice(&rng.bytes(33));
	c[0] = 8 + (c[0] & 1);
	Commitment(c)
}

fn sig(rng: &mut Rng) -> Signature {
	let secp = grin_util::static_secp_instance();
	let secp = secp.lock();
	loop {
		let mut b = rng.bytes(64);
		b[0] &= 0x7f;
		b[32] &= 0x7f;
		if let Ok(s) = Signature::from_compact(&secp, &b) {
			return s;
		}
	}
}

fn features(rng: &mut Rng, k: u64) -> KernelFeatures {
	let fee = FeeFields::new(rng.below(4), 1 + rng.below(1 << 39)).unwrap_or_else(|_| FeeFields::zero());
	match k % 4 {
		0 => KernelFeatures::Plain { fee },
		1 => KernelFeatures::Coinbase,
		2 => KernelFeatures::HeightLocked { fee, lock_height: rng.next() >> rng.below(64) },
		_ => KernelFeatures::NoRecentDuplicate { fee, relative_height: NRDRelativeHeight::new(1 + rng.below(10080)).unwrap() },
	}
}

fn gen_tx(rng: &mut Rng, ni: usize, no: usize, nk: usize, commit_only: bool) -> Transaction {
	let ins: Vec<Input> = (0..ni).map(|i| Input::new(if i % 3 == 0 { OutputFeatures::Coinbase } else { OutputFeatures::Plain }, commit(rng))).collect();
	let inputs = if commit_only { Inputs::CommitOnly(ins.iter().map(|i| i.into()).collect()) } else { Inputs::FeaturesAndCommit(ins) };
	let outs: Vec<Output> = (0..no)
		.map(|i| {
			let mut p = [0u8; 675];
			p.copy_from_slice(&rng.bytes(675));
			Output::new(if i % 4 == 0 { OutputFeatures::Coinbase } else { OutputFeatures::Plain }, commit(rng), RangeProof { proof: p, plen: 675 })
		})
		.collect();
	let kerns: Vec<TxKernel> = (0..nk).map(|k| TxKernel { features: features(rng, k as u64), excess: commit(rng), excess_sig: sig(rng) }).collect();
	let mut b32 = [0u8; 32];
	b32.copy_from_slice(&rng.bytes(32));
	Transaction { offset: BlindingFactor::from_slice(&b32), body: TransactionBody { inputs, outputs: outs, kernels: kerns } }
}

fn bin(tx: &Transaction, v: u32) -> Result<Vec<u8>, String> {
	catch(AssertUnwindSafe(|| ser::ser_vec(tx, ProtocolVersion(v)))).and_then(|r| r.map_err(|e| format!("{:?}", e)))
}

fn roundtrip(cx: &mut Cx, tx: &Transaction) -> Option<String> {
	let j = match catch(AssertUnwindSafe(|| serde_json::to_string(tx))) {
		Ok(Ok(j)) => j,
		other => {
			cx.fail("C10", format!("Transaction cannot be written as JSON: {:?}", other.map(|r| r.map_err(|e| e.to_string()))));
			return None;
		}
	};
	match catch(AssertUnwindSafe(|| serde_json::from_str::<Transaction>(&j))) {
		Ok(Ok(t2)) => {
			let j2 = serde_json::to_string(&t2).unwrap_or_default();
			if j2 != j {
				cx.fail("C10", format!("Transaction JSON round trip re-serialises differently: {} -> {}", j, j2));
			}
			let commit_only = matches!(tx.body.inputs, Inputs::CommitOnly(_));
			let v = if commit_only { 3 } else { 2 };
			let empty_inputs = tx.body.inputs.len() == 0;
			if !empty_inputs && bin(tx, v) != bin(&t2, v) {
				cx.fail("C10", format!("Transaction after a JSON round trip has another binary encoding at version {}: {}", v, j));
			}
			for (a, b) in tx.body.kernels.iter().zip(t2.body.kernels.iter()) {
				if a.hash() != b.hash() {
					cx.fail("C10", format!("kernel hash differs after a JSON round trip: {}", j));
				}
			}
			for (a, b) in tx.body.outputs.iter().zip(t2.body.outputs.iter()) {
				if a.identifier().hash() != b.identifier().hash() || a.proof.hash() != b.proof.hash() {
					cx.fail("C10", format!("output hash differs after a JSON round trip: {}", j));
				}
			}
			if t2.body.kernels.len() != tx.body.kernels.len() || t2.body.outputs.len() != tx.body.outputs.len() || t2.body.inputs.len() != tx.body.inputs.len() {
				cx.fail("C10", format!("Transaction JSON round trip changes the number of entries: {}", j));
			}
			cx.stat(&format!("object roundtrip ok ({})", if commit_only { "commit-only" } else { "features-and-commit" }));
		}
		Ok(Err(e)) => cx.fail("C10", format!("Transaction does not read back from its own JSON ({}): {}", e, j)),
		Err(m) => cx.fail("C11", format!("Transaction JSON reader panicked ({}) on its own output {}", m.replace('\n', " "), j)),
	}
	Some(j)
}

/// all mutants of `v` with ONE leaf / field changed
fn mutants(v: &Value, path_is_proof: bool, out: &mut Vec<Value>, rebuild: &dyn Fn(Value) -> Value) {
	match v {
		Value::String(s) => {
			let mut alts: Vec<Value> = ODD_STRINGS.iter().map(|x| Value::String(x.to_string())).collect();
			if s.len() >= 2 {
				alts.push(Value::String(s[..s.len() - 1].to_string()));
				alts.push(Value::String(format!("{}€", &s[..s.len() - 2])));
				alts.push(Value::String(s[..s.len() / 2].to_string()));
				let _ = path_is_proof;
				alts.push(Value::String(format!("{}{}", s, s)));
				alts.push(Value::String("ab".repeat(5000)));
			}
			alts.push(Value::Null);
			alts.push(serde_json::json!(12));
			alts.push(serde_json::json!([1, 2]));
			alts.push(serde_json::json!({"a": 1}));
			for a in alts {
				out.push(rebuild(a));
			}
		}
		Value::Number(_) => {
			for a in [
				serde_json::json!(-1),
				serde_json::json!(0),
				serde_json::json!(18446744073709551615u64),
				serde_json::json!(1.5),
				serde_json::json!(1e300),
				serde_json::json!("18446744073709551616"),
				serde_json::json!("12"),
				serde_json::json!("-3"),
				serde_json::json!("€"),
				Value::Null,
				serde_json::json!(true),
				serde_json::json!([]),
			] {
				out.push(rebuild(a));
			}
		}
		Value::Array(items) => {
			for (i, it) in items.iter().enumerate() {
				let items2 = items.clone();
				mutants(it, path_is_proof, out, &|nv| {
					let mut c = items2.clone();
					c[i] = nv;
					rebuild(Value::Array(c))
				});
			}
			out.push(rebuild(Value::Array(vec![])));
			out.push(rebuild(Value::Null));
			out.push(rebuild(serde_json::json!("x")));
			if let Some(f) = items.first() {
				let mut c = items.clone();
				c.push(f.clone());
				out.push(rebuild(Value::Array(c)));
				out.push(rebuild(Value::Array(vec![f.clone(), Value::Null])));
			}
		}
		Value::Object(m) => {
			for (k, it) in m.iter() {
				let m2 = m.clone();
				let key = k.clone();
				mutants(it, k == "proof", out, &|nv| {
					let mut c = m2.clone();
					c.insert(key.clone(), nv);
					rebuild(Value::Object(c))
				});
				let mut c = m.clone();
				c.remove(k);
				out.push(rebuild(Value::Object(c)));
				let mut c = m.clone();
				c.insert(format!("{}_", k), it.clone());
				out.push(rebuild(Value::Object(c)));
			}
			out.push(rebuild(Value::Object(serde_json::Map::new())));
			out.push(rebuild(serde_json::json!({"Unknown": {}})));
			out.push(rebuild(serde_json::json!("Coinbase")));
			out.push(rebuild(serde_json::json!("Plain")));
		}
		_ => {}
	}
}

fn objects(cx: &mut Cx, thorough: bool) {
	let shapes: Vec<(usize, usize, usize, bool)> = vec![(0, 0, 0, false), (1, 1, 1, false), (2, 2, 4, false), (2, 1, 4, true), (0, 1, 1, true), (3, 2, 1, false)];
	let reps = if thorough { 12 } else { 3 };
	for (ni, no, nk, co) in shapes {
		for rep in 0..reps {
			let tx = gen_tx(&mut cx.rng, ni, no, nk, co);
			let j = match roundtrip(cx, &tx) {
				Some(j) => j,
				None => continue,
			};
			if rep > 0 && !thorough {
				continue;
			}
			let v: Value = match serde_json::from_str(&j) {
				Ok(v) => v,
				Err(_) => continue,
			};
			let mut ms = vec![];
			mutants(&v, false, &mut ms, &|x| x);
			for m in ms {
				let text = m.to_string();
				match catch(AssertUnwindSafe(|| serde_json::from_str::<Transaction>(&text).map(|t| bin(&t, 3).is_ok()))) {
					Ok(Ok(_)) => cx.stat("mutant accepted"),
					Ok(Err(_)) => cx.stat("mutant refused"),
					Err(msg) => cx.fail("C11", format!("Transaction JSON reader panicked ({}) on {}", msg.replace('\n', " "), if text.len() > 3000 { format!("{}… ({} bytes)", &text[..3000], text.len()) } else { text.clone() })),
				}
			}
			// duplicate keys and raw text damage (the proof string is never made longer)
			for (from, to) in [("\"offset\":", "\"offset\":\"00\",\"offset\":"), ("\"body\":", "\"body\":{},\"body\":"), ("\"fee\":", "\"fee\":1,\"fee\":"), ("{", "{{"), ("}", ""), (":", "::"), ("\"", "'")] {
				let text = j.replacen(from, to, 1);
				if let Err(msg) = catch(AssertUnwindSafe(|| serde_json::from_str::<Transaction>(&text).is_ok())) {
					cx.fail("C11", format!("Transaction JSON reader panicked ({}) on damaged text ({} -> {})", msg.replace('\n', " "), from, to));
				}
				cx.stat("text damage");
			}
		}
	}
	// parts on their own
	for k in 0..8u64 {
		let f = features(&mut cx.rng, k);
		let j = serde_json::to_string(&f).unwrap_or_default();
		match catch(AssertUnwindSafe(|| serde_json::from_str::<KernelFeatures>(&j))) {
			Ok(Ok(f2)) if f2 == f && serde_json::to_string(&f2).unwrap_or_default() == j => cx.stat("KernelFeatures roundtrip ok"),
			other => cx.fail("C10", format!("KernelFeatures JSON round trip fails on {}: {:?}", j, other.map(|r| r.map_err(|e| e.to_string())))),
		}
	}
	for raw in [0u64, 1, (1 << 40) - 1, 1 << 40, u64::MAX] {
		// FeeFields on its own is written as a STRING and read from a string or a number
		for text in [format!("\"{}\"", raw), format!("{}", raw)] {
			match catch(AssertUnwindSafe(|| serde_json::from_str::<FeeFields>(&text).map(u64::from))) {
				Ok(Ok(n)) if n == raw => cx.stat("FeeFields read ok"),
				other => cx.fail("C10", format!("FeeFields does not read {} back as {}: {:?}", text, raw, other.map(|r| r.map_err(|e| e.to_string())))),
			}
		}
	}
}

/// regression probe of the repaired defect C11-rangeproof-json-overlong-panics: whole Transaction JSON
/// texts whose output proof string decodes to 676, 677, 1000, 5000 bytes must be REFUSED, not panic
fn overlong_proofs(cx: &mut Cx) {
	for extra in [1usize, 2, 325, 4325] {
		for shape in [(0usize, 1usize, 1usize), (2, 3, 2)] {
			let tx = gen_tx(&mut cx.rng, shape.0, shape.1, shape.2, false);
			let j = serde_json::to_string(&tx).unwrap_or_default();
			let last = tx.body.outputs.len() - 1;
			let good = hex(&tx.body.outputs[last].proof.proof[..]);
			let text = j.replace(&good, &format!("{}{}", good, "5a".repeat(extra)));
			match catch(AssertUnwindSafe(|| serde_json::from_str::<Transaction>(&text).is_ok())) {
				Ok(false) => cx.stat("overlong proof in a Transaction refused"),
				Ok(true) => cx.fail("C11", format!("rangeproof-json-overlong: a Transaction JSON whose output proof string has {} bytes was ACCEPTED", 675 + extra)),
				Err(m) => cx.fail("C11", format!("rangeproof-json-overlong-panics: Transaction JSON reader panicked ({}) on an output proof string of {} bytes", m.replace('\n', " "), 675 + extra)),
			}
		}
	}
}

fn probe(cx: &mut Cx) {
	for l in [675usize, 676, 1000] {
		let s = "00".repeat(l);
		let j = lit(&s);
		let r = catch(AssertUnwindSafe(|| secp_ser::rangeproof_from_hex(&mut serde_json::Deserializer::from_str(&j)).is_ok()));
		cx.out.raw(&format!("#STAT probe rangeproof_from_hex on {} bytes: {:?}", l, r.map_err(|m| format!("PANIC {}", m.replace('\n', " ")))));
	}
	let tx = gen_tx(&mut cx.rng, 0, 1, 1, false);
	let j = serde_json::to_string(&tx).unwrap_or_default();
	let good = hex(&tx.body.outputs[0].proof.proof[..]);
	let text = j.replace(&good, &format!("{}00", good));
	let r = catch(AssertUnwindSafe(|| serde_json::from_str::<Transaction>(&text).is_ok()));
	cx.out.raw(&format!("#STAT probe Transaction JSON whose output proof string has 676 bytes: {:?}", r.map_err(|m| format!("PANIC {}", m.replace('\n', " ")))));
}

fn main() {
	quiet_panics();
	grin_core::global::set_local_chain_type(grin_core::global::ChainTypes::AutomatedTesting);
	grin_core::global::set_local_nrd_enabled(true);
	let args: Vec<String> = std::env::args().collect();
	let mut cx = Cx { out: Out::stdout(), rng: Rng::new(seed_from_env() ^ 0x150a), stats: BTreeMap::new(), fails: 0 };
	if args.get(1).map(|s| s.as_str()) == Some("probe") {
		probe(&mut cx);
	} else {
		fields(&mut cx, usize::MAX);
		overlong_proofs(&mut cx);
		objects(&mut cx, tier_thorough());
	}
	let stats = std::mem::take(&mut cx.stats);
	for (k, v) in stats {
		cx.out.raw(&format!("#STAT {} = {}", k, v));
	}
	cx.out.raw(&format!("#STAT oracle failures = {}", cx.fails));
	cx.out.flush();
}
