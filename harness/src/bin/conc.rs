//! C17 — concurrent use of ONE real `Chain`: fixed multisets of operations on 2–8 threads
//! (block deliveries from several "peers" incl. competing forks and duplicates, header-first
//! deliveries, `sync_block_headers`, `validate_tx` (plain and NRD = write-lock path),
//! `get_unspent`, `get_header_by_height`, `get_header_for_output`, `get_kernel_height`, head
//! readers, a view reader holding `txhashset.read()`, `set_txhashset_roots` on a template block,
//! `segmenter()` + segment generation, `compact()`, `validate(true)`), with seeded perturbation
//! (yield / short sleeps / spins chosen by the PRNG between ops) and a watchdog.
//!
//! Oracles evaluated here on the implementation (`#ORACLE-FAIL C17 …`):
//!   * no thread panics, the threads finish (watchdog);
//!   * every head a reader sees names a stored block, total difficulty of successively seen
//!     heads never decreases;
//!   * under `txhashset.read()` the MMR roots/sizes are those of the LMDB head header (data read
//!     under one view is mutually consistent);
//!   * `validate(true)` succeeds whenever it runs, `validate(false)` succeeds at the end;
//!   * a valid block is never rejected for a reason other than "already known" (or "orphan"
//!     once compaction has pruned its parent);
//!   * final (head, header head, unspent set, MMR roots) = those of a twin chain fed the same
//!     blocks sequentially (the final head being the unique max-work block, every sequential
//!     order gives that state).
//! Lines for the Lean driver: the block tree and the twin's sequential deliveries go through
//! the `chain` domain (the chain model predicts the twin, and `chain obs <twin> => <state of
//! the concurrently used chain>` is the final-state comparison); `conc opclass` ties the ops
//! driven here to the regenerated lock table; `conc sim` replays the per-thread op sequences
//! on the model's transition system.
//!
//! Run `txcount` (own section below): the open-transaction counter of store/src/lmdb.rs under
//! simultaneous use by many reader threads and a writer, followed by forced map resizes under a
//! watchdog (`conc txcount … => completed`; model: Model/TxCount.lean).
use grin_chain::{Chain, Options};
use grin_core::core::hash::{Hash, Hashed};
use grin_core::core::pmmr::segment::SegmentIdentifier;
use grin_core::core::{Block, BlockHeader, KernelFeatures, Transaction};
use grin_keychain::Identifier;
use grin_util::secp::pedersen::Commitment;
use gvharness::chainkit::*;
use gvharness::*;
use std::collections::{BTreeMap, HashMap};
use std::panic::AssertUnwindSafe;
use std::sync::atomic::{AtomicBool, AtomicUsize, Ordering};
use std::sync::{mpsc, Arc, Mutex};
use std::time::{Duration, Instant};

const MATURITY: u64 = 3;

#[derive(Clone, Debug)]
enum Op {
	Deliver(usize),
	Header(usize),
	SyncHeaders(Vec<usize>),
	ValidateTx(usize),
	GetUnspent(usize),
	HeaderByHeight(u64),
	HeaderForOutput(usize),
	KernelHeight(usize),
	ReadHead,
	View,
	SetRoots(usize),
	Segmenter,
	Compact,
	ValidateFast,
	/// `get_merkle_proof(output, header of a delivered block)`: a READ-ONLY extension under the write
	/// locks that rewinds the whole txhashset to another block (possibly on a losing fork) and must
	/// leave no trace (`View` / `HeaderView` of the other threads are the oracle)
	MerkleProof(usize, usize),
	/// `get_locator_hashes(tip of a delivered block, heights)`: read-only HEADER extension rewound to a
	/// fork tip; every hash answered must be the ancestor of that block at that height
	Locator(usize),
	/// a reader holding `header_pmmr.read()`: the header MMR must be that of the LMDB header head
	HeaderView,
	/// `verify_coinbase_maturity(tx.inputs())` (read-lock path, or the write-lock path when the header
	/// chain is on another fork than the body)
	CoinbaseMaturity(usize),
	/// `validate_inputs(tx.inputs())`
	ValidateInputs(usize),
	/// `unspent_outputs_by_pmmr_index` + `get_last_n_output` + `get_last_n_rangeproof` (one view each)
	PmmrIndex(u64),
	/// `get_output_pos` then `get_unspent_output_at`
	OutputPos(usize),
	/// `block_height_range_to_pmmr_indices`
	HeightRange(u64),
	/// `fork_point()`
	ForkPoint,
	/// `is_orphan` + `orphans_len`
	OrphanInfo(usize),
	/// `process_block` of a block of the malformed stream: must be refused, must leave no trace
	DeliverInvalid(usize),
	/// not a chain op: a second `Store` handle on the chain's LMDB environment (as the peer store has)
	/// commits a value of 48 KiB, pushing the environment over its resize threshold again and again
	/// while the chain ops (NRD validate_tx: extending_readonly with nested reads, …) run
	Fill(u64),
}

impl Op {
	/// the `pub fn`s of `impl Chain` this op calls, in order (names of the lock table)
	fn table_ops(&self) -> Vec<&'static str> {
		match self {
			Op::Deliver(_) => vec!["process_block"],
			Op::Header(_) => vec!["process_block_header"],
			Op::SyncHeaders(_) => vec!["header_head", "sync_block_headers"],
			Op::ValidateTx(_) => vec!["validate_tx"],
			Op::GetUnspent(_) => vec!["get_unspent"],
			Op::HeaderByHeight(_) => vec!["get_header_by_height"],
			Op::HeaderForOutput(_) => vec!["get_header_for_output"],
			Op::KernelHeight(_) => vec!["get_kernel_height"],
			Op::ReadHead => vec!["head", "get_block", "head_header"],
			// the view reader takes txhashset.read() itself (through Chain::txhashset()); while it
			// holds it, it only makes lock-free calls
			Op::View => vec!["txhashset", "get_last_n_kernel"],
			Op::SetRoots(_) => vec!["set_txhashset_roots"],
			Op::Segmenter => vec!["segmenter", "Segmenter::kernel_segment", "Segmenter::output_segment"],
			Op::Compact => vec!["compact"],
			Op::ValidateFast => vec!["validate"],
			Op::MerkleProof(_, _) => vec!["get_merkle_proof"],
			Op::Locator(_) => vec!["get_locator_hashes"],
			// like `View`: takes header_pmmr.read() itself (through Chain::header_pmmr()); lock-free calls inside
			Op::HeaderView => vec!["header_pmmr", "header_head"],
			Op::CoinbaseMaturity(_) => vec!["verify_coinbase_maturity"],
			Op::ValidateInputs(_) => vec!["validate_inputs"],
			Op::PmmrIndex(_) => vec!["unspent_outputs_by_pmmr_index", "get_last_n_output", "get_last_n_rangeproof"],
			Op::OutputPos(_) => vec!["get_output_pos", "get_unspent_output_at"],
			Op::HeightRange(_) => vec!["block_height_range_to_pmmr_indices"],
			Op::ForkPoint => vec!["fork_point"],
			Op::OrphanInfo(_) => vec!["is_orphan", "orphans_len"],
			Op::DeliverInvalid(_) => vec!["process_block"],
			Op::Fill(_) => vec![],
		}
	}
	fn kind(&self) -> &'static str {
		match self {
			Op::Deliver(_) => "deliver",
			Op::Header(_) => "header",
			Op::SyncHeaders(_) => "sync_headers",
			Op::ValidateTx(_) => "validate_tx",
			Op::GetUnspent(_) => "get_unspent",
			Op::HeaderByHeight(_) => "get_header_by_height",
			Op::HeaderForOutput(_) => "get_header_for_output",
			Op::KernelHeight(_) => "get_kernel_height",
			Op::ReadHead => "read_head",
			Op::View => "view",
			Op::SetRoots(_) => "set_txhashset_roots",
			Op::Segmenter => "segmenter",
			Op::Compact => "compact",
			Op::ValidateFast => "validate_fast",
			Op::MerkleProof(_, _) => "get_merkle_proof",
			Op::Locator(_) => "get_locator_hashes",
			Op::HeaderView => "header_view",
			Op::CoinbaseMaturity(_) => "verify_coinbase_maturity",
			Op::ValidateInputs(_) => "validate_inputs",
			Op::PmmrIndex(_) => "pmmr_index",
			Op::OutputPos(_) => "output_pos",
			Op::HeightRange(_) => "height_range",
			Op::ForkPoint => "fork_point",
			Op::OrphanInfo(_) => "orphan_info",
			Op::DeliverInvalid(_) => "deliver_invalid",
			Op::Fill(_) => "fill_db",
		}
	}
}

/// everything the worker threads need, plain data
struct Scenario {
	blocks: Vec<Block>,
	parent: Vec<Option<usize>>,
	by_hash: HashMap<Hash, usize>,
	commits: Vec<Commitment>,
	kernels: Vec<Commitment>,
	txs: Vec<Transaction>,
	templates: Vec<Block>,
	/// the malformed stream: (kind, block that must be refused)
	invalid: Vec<(String, Block)>,
	max_height: u64,
	out_ids: Vec<grin_core::core::OutputIdentifier>,
	commit_set: std::collections::HashSet<Commitment>,
	/// per block: the outputs unspent in the state of that block (for get_merkle_proof pairs that exist)
	unspent_at: Vec<Vec<usize>>,
	heights: Vec<u64>,
	hashes: Vec<Hash>,
}

#[derive(Default)]
struct ThreadLog {
	results: BTreeMap<String, u64>,
	fails: Vec<String>,
	heads: Vec<(Hash, u64)>,
	perturb: [u64; 5],
	height_mismatch: u64,
}

struct Shared {
	chain: Chain,
	sc: Arc<Scenario>,
	/// set once compaction has really pruned (then `Orphan` is a legitimate answer for old blocks)
	compacted: AtomicBool,
	/// second handle on the chain's environment (long runs)
	filler: Option<grin_store::Store>,
	in_flight: Vec<AtomicUsize>,
	arrivals: AtomicUsize,
	completed: AtomicUsize,
}

fn state_after(kit: &Kit, st: &BTreeMap<usize, (u64, bool)>, b: &Block) -> BTreeMap<usize, (u64, bool)> {
	let mut s = st.clone();
	let ins: Vec<grin_core::core::CommitWrapper> = b.inputs().into();
	for i in ins {
		if let Some(id) = kit.by_commit.get(&i.commitment()) {
			s.remove(id);
		}
	}
	for o in b.outputs() {
		if let Some(id) = kit.by_commit.get(&o.commitment()) {
			s.insert(*id, (b.header.height, o.is_coinbase()));
		}
	}
	s
}

struct Builder {
	kit: Kit,
	states: BTreeMap<usize, BTreeMap<usize, (u64, bool)>>,
	stats: BTreeMap<String, u64>,
	/// outputs the random transactions must not spend (kept for a steered block)
	reserved: std::collections::BTreeSet<usize>,
}

impl Builder {
	fn spendable(&self, parent: usize, h: u64) -> Vec<usize> {
		self.states[&parent]
			.iter()
			.filter(|(o, (c, cb))| (!*cb || h >= *c + MATURITY) && !self.reserved.contains(*o))
			.map(|(o, _)| *o)
			.collect()
	}
	fn specs(&mut self, rng: &mut Rng, parent: usize, h: u64, max_tx: u64) -> Vec<TxSpec> {
		let mut avail = self.spendable(parent, h);
		let mut specs = vec![];
		for _ in 0..rng.below(max_tx + 1) {
			if avail.is_empty() {
				break;
			}
			let i = rng.below(avail.len() as u64) as usize;
			let o = avail.swap_remove(i);
			let v = self.kit.outs[o].value;
			if v < 20 {
				continue;
			}
			let fee = rng.range(1, 3);
			if rng.chance(1, 2) {
				let a = rng.range(1, v - fee - 1);
				specs.push(TxSpec { inputs: vec![o], outputs: vec![(a, None), (v - fee - a, None)], kernel: KSpec::Plain(fee) });
				*self.stats.entry("tx:split".into()).or_insert(0) += 1;
			} else {
				specs.push(TxSpec { inputs: vec![o], outputs: vec![(v - fee, None)], kernel: KSpec::Plain(fee) });
				*self.stats.entry("tx:move".into()).or_insert(0) += 1;
			}
		}
		specs
	}
	fn add(&mut self, rng: &mut Rng, parent: usize, diff: u64, max_tx: u64) -> Option<usize> {
		let h = self.kit.blks[parent].height + 1;
		let specs = self.specs(rng, parent, h, max_tx);
		match self.kit.new_block(parent, diff, &specs) {
			Ok(id) => {
				let st = state_after(&self.kit, &self.states[&parent], &self.kit.blks[id].block);
				self.states.insert(id, st);
				Some(id)
			}
			Err(e) => {
				*self.stats.entry(format!("generator:{}", e)).or_insert(0) += 1;
				None
			}
		}
	}
}

fn path_to(kit: &Kit, mut id: usize) -> Vec<usize> {
	let mut p = vec![];
	while id != 0 {
		p.push(id);
		id = kit.blks[id].parent.unwrap();
	}
	p.reverse();
	p
}

fn perturb(rng: &mut Rng, log: &mut ThreadLog, sh: &Shared, n: usize, slow: bool) {
	if slow && rng.chance(1, 2) {
		// readers / services of the long scenario: spread the fixed multiset over the deliverers' lifetime
		std::thread::sleep(Duration::from_micros(rng.range(500, 4000)));
	}
	match rng.below(9) {
		0 | 1 => {
			log.perturb[0] += 1;
		}
		2 => {
			// soft rendezvous: wait (bounded) until n arrivals have been counted since ours, so that
			// several threads enter their next op at the same instant
			let my = sh.arrivals.fetch_add(1, Ordering::SeqCst);
			let target = (my / n + 1) * n;
			let t0 = Instant::now();
			while sh.arrivals.load(Ordering::SeqCst) < target && t0.elapsed() < Duration::from_micros(600) {
				std::hint::spin_loop();
			}
			log.perturb[4] += 1;
		}
		3 | 4 => {
			std::thread::yield_now();
			log.perturb[1] += 1;
		}
		5 | 6 => {
			std::thread::sleep(Duration::from_micros(rng.range(5, 400)));
			log.perturb[2] += 1;
		}
		_ => {
			let n = rng.range(100, 20000);
			let mut x = 0u64;
			for i in 0..n {
				x = x.wrapping_add(i).rotate_left(3);
			}
			std::hint::black_box(x);
			log.perturb[3] += 1;
		}
	}
}

fn cls<T>(r: &Result<T, grin_chain::Error>) -> String {
	match r {
		Ok(_) => "ok".into(),
		Err(e) => format!("err:{}", error_class(e)),
	}
}

fn exec(sh: &Shared, op: &Op, log: &mut ThreadLog, tid: usize) {
	let c = &sh.chain;
	let sc = &sh.sc;
	let note = |log: &mut ThreadLog, k: String| {
		*log.results.entry(k).or_insert(0) += 1;
	};
	match op {
		Op::Deliver(i) => {
			let r = c.process_block(sc.blocks[*i].clone(), Options::SKIP_POW);
			let k = match &r {
				Ok(Some(_)) => "ok:head".to_string(),
				Ok(None) => "ok:fork".to_string(),
				Err(e) => format!("err:{}", error_class(e)),
			};
			let allowed = k.starts_with("ok") || k == "err:Unfit" || (k == "err:Orphan" && sh.compacted.load(Ordering::SeqCst));
			if !allowed {
				log.fails.push(format!("valid block b{} rejected under concurrency: {} (thread {})", i, k, tid));
			}
			note(log, format!("deliver:{}", k));
		}
		Op::Header(i) => {
			let r = c.process_block_header(&sc.blocks[*i].header, Options::SKIP_POW);
			let k = cls(&r);
			if !(k == "ok" || k == "err:Unfit" || k == "err:Orphan") {
				log.fails.push(format!("valid header b{} rejected under concurrency: {} (thread {})", i, k, tid));
			}
			note(log, format!("header:{}", k));
		}
		Op::SyncHeaders(ids) => {
			let hs: Vec<BlockHeader> = ids.iter().map(|i| sc.blocks[*i].header.clone()).collect();
			let k = match c.header_head() {
				Ok(sync_head) => cls(&c.sync_block_headers(&hs, sync_head, Options::SKIP_POW)),
				Err(e) => format!("err:{}", error_class(&e)),
			};
			note(log, format!("sync_headers:{}", k));
		}
		Op::ValidateTx(i) => {
			let k = cls(&c.validate_tx(&sc.txs[*i]));
			note(log, format!("validate_tx:{}", k));
		}
		Op::GetUnspent(i) => {
			let k = match c.get_unspent(sc.commits[*i]) {
				Ok(Some(_)) => "unspent".to_string(),
				Ok(None) => "none".to_string(),
				Err(e) => format!("err:{}", error_class(&e)),
			};
			if k.starts_with("err") {
				log.fails.push(format!("get_unspent(o{}) failed under concurrency: {}", i, k));
			}
			note(log, format!("get_unspent:{}", k));
		}
		Op::HeaderByHeight(h) => {
			let r = c.get_header_by_height(*h);
			if let Ok(hd) = &r {
				if hd.height != *h {
					log.fails.push(format!("get_header_by_height({}) returned a header of height {}", h, hd.height));
				}
			}
			note(log, format!("get_header_by_height:{}", cls(&r)));
		}
		Op::HeaderForOutput(i) => {
			let r = c.get_header_for_output(sc.commits[*i]);
			note(log, format!("get_header_for_output:{}", cls(&r)));
		}
		Op::KernelHeight(i) => {
			let r = c.get_kernel_height(&sc.kernels[*i], None, None);
			let k = match &r {
				Ok(Some(_)) => "found".to_string(),
				Ok(None) => "none".to_string(),
				Err(e) => format!("err:{}", error_class(e)),
			};
			note(log, format!("get_kernel_height:{}", k));
		}
		Op::ReadHead => match c.head() {
			Ok(tip) => {
				let stored = c.get_block(&tip.last_block_h).is_ok();
				if !stored {
					log.fails.push(format!(
						"reported head {} (height {}) does not name a stored block (thread {})",
						tip.last_block_h, tip.height, tid
					));
				}
				let td = tip.total_difficulty.to_num();
				if let Some((ph, ptd)) = log.heads.last() {
					if td < *ptd {
						log.fails.push(format!(
							"total difficulty of successively observed heads decreased: {} ({}) then {} ({}) (thread {})",
							ph, ptd, tip.last_block_h, td, tid
						));
					}
				}
				if log.heads.last().map(|x| x.0) != Some(tip.last_block_h) {
					log.heads.push((tip.last_block_h, td));
				}
				// not an oracle (two separate LMDB snapshots): how often do they differ?
				if let Ok(hh) = c.head_header() {
					if hh.hash() != tip.last_block_h {
						log.height_mismatch += 1;
					}
				}
				note(log, "read_head:ok".into());
			}
			Err(e) => {
				log.fails.push(format!("head() failed: {}", error_class(&e)));
			}
		},
		Op::View => {
			// one view: hold txhashset.read(); no batch.commit() of chain.rs can happen meanwhile
			let ts = c.txhashset();
			let g = ts.read();
			let hh = c.head_header();
			let roots = g.roots();
			match (hh, roots) {
				(Ok(hh), Ok(roots)) => {
					if hh.height > 0 {
						let ok = roots.kernel_root == hh.kernel_root
							&& roots.rproof_root == hh.range_proof_root
							&& roots.output_root(&hh) == hh.output_root
							&& g.kernel_mmr_size() == hh.kernel_mmr_size
							&& g.output_mmr_size() == hh.output_mmr_size;
						if !ok {
							log.fails.push(format!(
								"view under txhashset.read(): MMR state is not that of the LMDB head header {} @ {} (kernel size {} vs {}, output size {} vs {}) (thread {})",
								hh.hash(), hh.height, g.kernel_mmr_size(), hh.kernel_mmr_size, g.output_mmr_size(), hh.output_mmr_size, tid
							));
						}
					}
					let _ = g.last_n_kernel(2);
					note(log, "view:ok".into());
				}
				(a, b) => {
					log.fails.push(format!("view: head_header {:?} roots {:?}", a.is_ok(), b.is_ok()));
				}
			}
		}
		Op::SetRoots(i) => {
			let mut b = sc.templates[*i].clone();
			let k = cls(&c.set_txhashset_roots(&mut b));
			note(log, format!("set_txhashset_roots:{}", k));
		}
		Op::Segmenter => match c.segmenter() {
			Ok(seg) => {
				note(log, "segmenter:ok".into());
				let id = SegmentIdentifier { height: 3, idx: 0 };
				let k = match seg.kernel_segment(id) {
					Ok(_) => "ok".to_string(),
					Err(e) => format!("err:{}", error_class(&e)),
				};
				note(log, format!("kernel_segment:{}", k));
				let k = match seg.output_segment(id) {
					Ok(_) => "ok".to_string(),
					Err(e) => format!("err:{}", error_class(&e)),
				};
				note(log, format!("output_segment:{}", k));
			}
			Err(e) => note(log, format!("segmenter:err:{}", error_class(&e))),
		},
		Op::Compact => {
			let tail_before = c.tail().map(|t| t.height).unwrap_or(0);
			let r = c.compact();
			let tail_after = c.tail().map(|t| t.height).unwrap_or(0);
			// (the tail moves 0 -> 1 when the first block is processed: that is not compaction)
			if tail_after > tail_before.max(1) {
				sh.compacted.store(true, Ordering::SeqCst);
				note(log, "compact:pruned".into());
			}
			if r.is_err() {
				log.fails.push(format!("compact() failed under concurrency: {}", cls(&r)));
			}
			note(log, format!("compact:{}", cls(&r)));
		}
		Op::Fill(i) => {
			if let Some(f) = &sh.filler {
				// Session 9 (lead's report: `MDB_MAP_FULL` from this op in one of two concurrent checks under
				// heavy CPU load).  Analysis: `Store::batch()` decides about the resize BEFORE and OUTSIDE the
				// LMDB writer mutex (`maybe_resize(); Batch::new()`: check, then `env.write_txn()`), and a
				// thread whose `start_resize_checking()` CAS fails skips the check altogether.  Several
				// writers that are not serialised by anything else can all pass the check just below the
				// 90 % threshold (test-mode map 1-3 MiB: a margin of 100-300 KiB), queue on the writer mutex
				// and write 48 KiB + copy-on-write overhead each: the last ones get MDB_MAP_FULL.  In grin
				// every committing batch on the chain's environment is taken under txhashset.write()
				// (Props/C17 `table_commits_under_ts_write`; the one exception writes 40 bytes), so the
				// chain's writers ARE serialised and each `batch()` sees all earlier commits; the unserialised
				// second writer was a construction of this harness, not of grin (the peer store is another
				// environment).  The filler now does what every writer of the table does - it write-locks
				// `txhashset` (through the Arc) around its batch - and a MDB_MAP_FULL answer (an Err, neither a
				// deadlock nor a panic nor uncommitted state: outside C17; resize liveness is C18's) is counted
				// and retried once: the retry's `batch()` sees the map above the threshold and must resize.
				let ts = c.txhashset();
				let _serial = ts.write();
				let put = || -> Result<(), grin_store::Error> {
					let mut b = f.batch()?;
					b.put(None, format!("fill{:03}-{:05}", tid, i).as_bytes(), &vec![*i as u8; 48 * 1024])?;
					b.commit()
				};
				let mut r = put();
				if let Err(e) = &r {
					if format!("{:?}", e).contains("MDB_MAP_FULL") {
						note(log, "fill_db:map_full_retried".into());
						r = put();
					}
				}
				match r {
					Ok(()) => note(log, "fill_db:ok".into()),
					Err(e) => {
						log.fails.push(format!("a 48 KiB batch of the second store handle on the chain's environment failed, serialised under txhashset.write() and retried after MDB_MAP_FULL (thread {}): {:?}", tid, e));
						note(log, "fill_db:err".into());
					}
				}
			}
		}
		Op::ValidateFast => {
			let r = c.validate(true);
			if r.is_err() {
				log.fails.push(format!("validate(fast) failed mid-run: {} (thread {})", cls(&r), tid));
			}
			note(log, format!("validate_fast:{}", cls(&r)));
		}
		Op::MerkleProof(o, b) => {
			let out_id = sc.out_ids[*o];
			let r = c.get_merkle_proof(out_id, &sc.blocks[*b].header);
			note(log, format!("get_merkle_proof:{}", cls(&r)));
		}
		Op::Locator(b) => {
			let hdr = &sc.blocks[*b].header;
			// heights h, h-1, h-2, h-4, ... , 0 and one beyond the tip
			let mut heights: Vec<u64> = vec![hdr.height + 1, hdr.height];
			let mut step = 1u64;
			let mut cur = hdr.height;
			while cur > 0 {
				cur = cur.saturating_sub(step);
				heights.push(cur);
				step *= 2;
			}
			let r = c.get_locator_hashes(grin_chain::Tip::from_header(hdr), &heights);
			if let Ok(hashes) = &r {
				// expected: the ancestors of block b (the height beyond its tip has no entry)
				let mut anc: BTreeMap<u64, Hash> = BTreeMap::new();
				let mut x = Some(*b);
				while let Some(i) = x {
					anc.insert(sc.blocks[i].header.height, sc.blocks[i].hash());
					x = sc.parent[i];
				}
				let expect: Vec<Hash> = heights.iter().filter_map(|h| anc.get(h).cloned()).collect();
				if *hashes != expect {
					log.fails.push(format!(
						"get_locator_hashes(tip b{} at height {}, heights {:?}) answered {} hashes {:?}, the ancestors of that block are {:?} (thread {})",
						b, hdr.height, heights, hashes.len(), hashes, expect, tid
					));
				}
			}
			note(log, format!("get_locator_hashes:{}", cls(&r)));
		}
		Op::HeaderView => {
			// one view of the header MMR (header_pmmr.read() held inside): its head is the db header head
			// and every height up to it maps to the ancestor of the header head in the generated tree
			match strong_header_view(c, &sc.by_hash, &sc.parent, &sc.heights, &sc.hashes) {
				None => note(log, "header_view:ok".into()),
				Some(m) => log.fails.push(format!("{} (thread {})", m, tid)),
			}
		}
		Op::CoinbaseMaturity(i) => {
			let r = c.verify_coinbase_maturity(&sc.txs[*i].inputs());
			note(log, format!("verify_coinbase_maturity:{}", cls(&r)));
		}
		Op::ValidateInputs(i) => {
			let r = c.validate_inputs(&sc.txs[*i].inputs());
			note(log, format!("validate_inputs:{}", cls(&r)));
		}
		Op::PmmrIndex(start) => {
			let r = c.unspent_outputs_by_pmmr_index(*start, 64, None);
			match &r {
				Ok((last, _, outs)) => {
					// read under ONE txhashset.read(): outputs and range proofs must pair up, and every
					// output returned is one the builder created
					for o in outs {
						if !sc.commit_set.contains(&o.commitment()) {
							log.fails.push(format!("unspent_outputs_by_pmmr_index({}) returned an output nobody created: {:?} (thread {})", start, o.commitment(), tid));
						}
					}
					if !outs.is_empty() && *last < *start {
						log.fails.push(format!("unspent_outputs_by_pmmr_index({}) last index {} below the start (thread {})", start, last, tid));
					}
				}
				Err(e) => log.fails.push(format!("unspent_outputs_by_pmmr_index({}) failed under one txhashset.read(): {} (thread {})", start, error_class(e), tid)),
			}
			let lo = c.get_last_n_output(4);
			let lr = c.get_last_n_rangeproof(4);
			for (_, id) in &lo {
				if !sc.commit_set.contains(&id.commitment()) {
					log.fails.push(format!("get_last_n_output returned an output nobody created: {:?} (thread {})", id.commitment(), tid));
				}
			}
			note(log, format!("pmmr_index:{}:last_n={}/{}", cls(&r), lo.len().min(4), lr.len().min(4)));
		}
		Op::OutputPos(i) => {
			let r = c.get_output_pos(&sc.commits[*i]);
			let k = match &r {
				Ok(pos) => match c.get_unspent_output_at(pos.saturating_sub(1)) {
					Ok(_) => "pos:at:ok".to_string(),
					Err(e) => format!("pos:at:err:{}", error_class(&e)),
				},
				Err(e) => format!("err:{}", error_class(e)),
			};
			note(log, format!("output_pos:{}", k));
		}
		Op::HeightRange(h) => {
			let r = c.block_height_range_to_pmmr_indices(*h, None);
			note(log, format!("height_range:{}", cls(&r)));
		}
		Op::ForkPoint => {
			let r = c.fork_point();
			if let Ok(fp) = &r {
				// the fork point is a block of the body chain: stored (unless compaction removed it)
				if fp.height > 0 && !sh.compacted.load(Ordering::SeqCst) && c.get_block(&fp.hash()).is_err() && !sh.compacted.load(Ordering::SeqCst) {
					log.fails.push(format!("fork_point() names block {} @ {} which is not stored (thread {})", fp.hash(), fp.height, tid));
				}
			}
			note(log, format!("fork_point:{}", cls(&r)));
		}
		Op::DeliverInvalid(i) => {
			let (kind, blk) = &sc.invalid[*i];
			let r = c.process_block(blk.clone(), Options::SKIP_POW);
			match &r {
				Ok(_) => log.fails.push(format!("a block of the malformed stream ({}, height {}, on {}) was ACCEPTED under concurrency (thread {})", kind, blk.header.height, blk.header.prev_hash, tid)),
				Err(e) => note(log, format!("deliver_invalid:{}:{}", kind, error_class(e))),
			}
		}
		Op::OrphanInfo(b) => {
			let is = c.is_orphan(&sc.blocks[*b].hash());
			let n = c.orphans_len();
			if n > grin_chain::MAX_ORPHAN_SIZE + 1 {
				log.fails.push(format!("orphans_len() = {} above MAX_ORPHAN_SIZE (thread {})", n, tid));
			}
			note(log, format!("orphan_info:is_orphan={}", is));
		}
	}
}

/// (output, block) for `get_merkle_proof`: mostly an output that is unspent in the state of that block
fn merkle_pair(rng: &mut Rng, sc: &Scenario) -> Op {
	let b = rng.range(1, sc.blocks.len() as u64 - 1) as usize;
	let us = &sc.unspent_at[b];
	if !us.is_empty() && rng.chance(4, 5) {
		Op::MerkleProof(us[rng.below(us.len() as u64) as usize], b)
	} else {
		Op::MerkleProof(rng.below(sc.commits.len() as u64) as usize, b)
	}
}

fn is_descendant(sc: &Scenario, mut b: usize, anc: usize) -> bool {
	loop {
		if b == anc {
			return true;
		}
		match sc.parent[b] {
			Some(p) => b = p,
			None => return false,
		}
	}
}

struct RunCfg {
	run: usize,
	/// thread counts of the concurrent runs made on this tree (one fresh subject chain each)
	threads: Vec<usize>,
	long: bool,
	/// bias the readers towards `get_kernel_height` (a third of their ops): the op that, before the
	/// fix in /repo (get_header_for_kernel_index looping for ever under header_pmmr.read() when a reorg
	/// shrank the kernel MMR between its two steps), wedged the chain; it is in every mix anyway
	kernel_height: bool,
}

fn run(out: &mut Out, rng: &mut Rng, work: &str, cfg: &RunCfg, stats: &mut BTreeMap<String, u64>) {
	let run = cfg.run;
	let t_build = Instant::now();
	out.raw("chain reset");
	let kit = Kit::new(&format!("{}/builder{}", work, run));
	let mut b = Builder { kit, states: BTreeMap::new(), stats: BTreeMap::new(), reserved: Default::default() };
	let mut s0 = BTreeMap::new();
	s0.insert(0usize, (0u64, true));
	b.states.insert(0, s0);

	// --- tree: trunk + competing forks near the tip, all leaf works distinct
	// `long` runs are steered (see `cross_compaction_reorg`): the trunk tip T is the only block at
	// height 81 (the first height at which compact() acts: the body tail is at height 1 from the
	// first block on, and compact() waits for tail + horizon 20 + 60), it spends outputs B created before height 31 whose
	// sibling leaves A were spent at height 31 (all far behind the horizon 81 - 20); two more blocks
	// are built but not delivered in the concurrent phase: X, heavier than T on T's parent and not
	// spending the B's, and Y on X spending them.
	let steer = cfg.long;
	let trunk_len = if steer { 81 } else { rng.range(9, 15) };
	let max_tx = if cfg.long { 1 } else { 3 };
	let mut trunk = vec![0usize];
	let mut tip = 0usize;
	let mut pairs: Vec<(usize, usize)> = vec![]; // (A spent early, B spent by T)
	let body_len = if steer { trunk_len - 1 } else { trunk_len };
	for i in 0..body_len {
		let d = rng.range(1, 5);
		if steer && i == 30 {
			// pick sibling leaf pairs among the outputs unspent now
			let st = b.states[&tip].clone();
			let h = b.kit.blks[tip].height + 1;
			let mut by_leaf: BTreeMap<u64, usize> = BTreeMap::new();
			for o in st.keys() {
				if let Ok(Some((_, pos))) = b.kit.builder().get_unspent(b.kit.outs[*o].commit) {
					if let Some(ix) = grin_core::core::pmmr::pmmr_leaf_to_insertion_index(pos.pos - 1) {
						by_leaf.insert(ix, *o);
					}
				}
			}
			let spendable_now = |o: usize| {
				let (c, cb) = st[&o];
				(!cb || h >= c + MATURITY) && b.kit.outs[o].value >= 20
			};
			for (ix, o) in by_leaf.iter() {
				if ix % 2 != 0 || pairs.len() >= 3 {
					continue;
				}
				if let Some(o2) = by_leaf.get(&(ix + 1)) {
					if b.kit.outs[*o].value < 20 || b.kit.outs[*o2].value < 20 {
						continue;
					}
					match (spendable_now(*o), spendable_now(*o2)) {
						(true, true) => pairs.push(if rng.chance(1, 2) { (*o, *o2) } else { (*o2, *o) }),
						(true, false) => pairs.push((*o, *o2)),
						(false, true) => pairs.push((*o2, *o)),
						_ => {}
					}
				}
			}
			let specs: Vec<TxSpec> = pairs
				.iter()
				.map(|(a, _)| TxSpec { inputs: vec![*a], outputs: vec![(b.kit.outs[*a].value - 2, None)], kernel: KSpec::Plain(2) })
				.collect();
			match b.kit.new_block(tip, d, &specs) {
				Ok(id) => {
					let st2 = state_after(&b.kit, &b.states[&tip], &b.kit.blks[id].block);
					b.states.insert(id, st2);
					tip = id;
					trunk.push(id);
					for (_, bb) in pairs.iter() {
						b.reserved.insert(*bb);
					}
					continue;
				}
				Err(e) => {
					*b.stats.entry(format!("generator:steer-A:{}", e)).or_insert(0) += 1;
					pairs.clear();
				}
			}
		}
		if let Some(id) = b.add(rng, tip, d, max_tx) {
			tip = id;
			trunk.push(id);
		}
	}
	let nforks = rng.range(2, 4) as usize;
	let mut leaves = if steer { vec![] } else { vec![tip] };
	for _ in 0..nforks {
		let back = rng.range(1, 6).min(trunk.len() as u64 - 1) as usize;
		let start = trunk[trunk.len() - 1 - back];
		// steered: no fork block at or above T's height
		let depth = if steer { rng.range(1, 6).min(back as u64) } else { rng.range(1, 6) };
		let mut t = start;
		for _ in 0..depth {
			let d = rng.range(1, 7);
			match b.add(rng, t, d, 2) {
				Some(id) => t = id,
				None => break,
			}
		}
		if t != start {
			leaves.push(t);
		}
	}
	// steered: T last among the delivered blocks, heavier than every fork leaf; then X and Y
	let mut xreorg: Option<(usize, usize, usize, Vec<usize>)> = None; // (T, X, Y, the B outputs)
	if steer {
		let parent = tip;
		let maxw = leaves.iter().map(|l| b.kit.blks[*l].work).max().unwrap_or(0).max(b.kit.blks[parent].work);
		let d_t = maxw - b.kit.blks[parent].work + rng.range(1, 3);
		let bs: Vec<usize> = pairs.iter().map(|p| p.1).collect();
		let spend_bs = |b: &Builder| -> Vec<TxSpec> {
			bs.iter()
				.map(|o| TxSpec { inputs: vec![*o], outputs: vec![(b.kit.outs[*o].value - 2, None)], kernel: KSpec::Plain(2) })
				.collect()
		};
		let specs = spend_bs(&b);
		let t_id = match b.kit.new_block(parent, d_t, &specs) {
			Ok(id) => id,
			Err(e) => panic!("steered head block could not be built: {}", e),
		};
		let st2 = state_after(&b.kit, &b.states[&parent], &b.kit.blks[t_id].block);
		b.states.insert(t_id, st2);
		trunk.push(t_id);
		tip = t_id;
		leaves.push(t_id);
		if !bs.is_empty() {
			// X: heavier, same height, does not touch the B's (still reserved); Y spends them on X
			let d_x = d_t + rng.range(1, 4);
			let x_id = b.add(rng, parent, d_x, 1);
			if let Some(x_id) = x_id {
				let specs = spend_bs(&b);
				match b.kit.new_block(x_id, rng.range(1, 4), &specs) {
					Ok(y_id) => {
						let st3 = state_after(&b.kit, &b.states[&x_id], &b.kit.blks[y_id].block);
						b.states.insert(y_id, st3);
						xreorg = Some((t_id, x_id, y_id, bs.clone()));
					}
					Err(e) => {
						*b.stats.entry(format!("generator:steer-Y:{}", e)).or_insert(0) += 1;
					}
				}
			}
		}
		*b.stats.entry(format!("steer:sibling-pairs={}", pairs.len())).or_insert(0) += 1;
		if xreorg.is_none() {
			*b.stats.entry("steer:FAILED-no-cross-compaction-reorg-scenario".into()).or_insert(0) += 1;
		}
	}
	// make the maximum total work unique (ties are resolved first-seen = order dependent)
	while !steer {
		let maxw = leaves.iter().map(|l| b.kit.blks[*l].work).max().unwrap();
		let w: Vec<usize> = leaves.iter().cloned().filter(|l| b.kit.blks[*l].work == maxw).collect();
		if w.len() == 1 {
			break;
		}
		let l = w[rng.below(w.len() as u64) as usize];
		match b.add(rng, l, 1, 1) {
			Some(id) => {
				let pos = leaves.iter().position(|x| *x == l).unwrap();
				leaves[pos] = id;
			}
			None => break,
		}
	}
	let _ = tip;
	// non-steered runs: a fork G1-G2-G3 kept back for the out-of-order pattern (`orphan_pattern`):
	// rooted two blocks below the best leaf, G1 and G2 carry no more work than the best leaf, G3 more
	let mut gfork: Option<[usize; 3]> = None;
	if !steer {
		let best0 = *leaves.iter().max_by_key(|l| b.kit.blks[**l].work).unwrap();
		let p1 = b.kit.blks[best0].parent;
		let root = p1.and_then(|p| b.kit.blks[p].parent);
		if let Some(root) = root {
			let wb = b.kit.blks[best0].work;
			if let Some(g1) = b.add(rng, root, 1, 2) {
				if let Some(g2) = b.add(rng, g1, 1, 2) {
					let d3 = wb - b.kit.blks[g2].work + rng.range(1, 3);
					if let Some(g3) = b.add(rng, g2, d3, 2) {
						if b.kit.blks[g1].work <= wb && b.kit.blks[g2].work <= wb && b.kit.blks[g3].work > wb {
							gfork = Some([g1, g2, g3]);
						}
					}
				}
			}
		}
		if gfork.is_none() {
			*b.stats.entry("steer:FAILED-no-orphan-pattern".into()).or_insert(0) += 1;
		}
	}
	// --- the malformed stream: blocks that must be REFUSED, built on blocks well below the maximum
	// work (their headers pass the header stage and are kept as fork headers: with less work than the
	// final best block they never end up as header head).  Not recorded in the tree (the twin and the
	// chain model never see them); kind A: double spend (spends again what its parent spent); kind B: a
	// block that applies but carries a wrong kernel root (refused after the whole extension was built:
	// the deepest rollback path of txhashset::extending)
	let mut invalid: Vec<(String, Block)> = vec![];
	{
		let maxw = leaves.iter().map(|l| b.kit.blks[*l].work).max().unwrap();
		// (not on the blocks kept back for the post-join patterns: their children would sit in the orphan pool)
		let kept_from = match (&xreorg, &gfork) {
			(Some((t, x, _, _)), _) => (*t).min(*x),
			(None, Some(g)) => g[0],
			_ => b.kit.blks.len(),
		};
		let cands: Vec<usize> = (1..kept_from.min(b.kit.blks.len())).filter(|i| b.kit.blks[*i].work + 2 < maxw && b.states.contains_key(i)).collect();
		for _ in 0..6 {
			if cands.is_empty() {
				break;
			}
			let p = cands[rng.below(cands.len() as u64) as usize];
			if rng.chance(1, 2) {
				// A: an output the parent block itself spent
				if let Some(pp) = b.kit.blks[p].parent {
					let spent: Vec<usize> = b.states[&pp].keys().cloned().filter(|o| !b.states[&p].contains_key(o) && b.kit.outs[*o].value >= 5).collect();
					if let Some(o) = spent.first() {
						let v = b.kit.outs[*o].value;
						if let Ok(tx) = b.kit.build_tx(&TxSpec { inputs: vec![*o], outputs: vec![(v - 1, None)], kernel: KSpec::Plain(1) }) {
							if let Ok(blk) = b.kit.assemble(p, 1, &[tx], 0) {
								invalid.push(("double-spend".into(), blk));
							}
						}
					}
				}
			} else if let Ok(mut blk) = b.kit.assemble(p, 1, &[], 0) {
				blk.header.kernel_root = blk.header.output_root;
				invalid.push(("wrong-kernel-root".into(), blk));
			}
		}
		*b.stats.entry(format!("malformed-stream:blocks-built={}", invalid.len())).or_insert(0) += 1;
	}
	let kit = &b.kit;
	let nblk = kit.blks.len();
	// blocks delivered in the concurrent phase: all but the ones kept back (the last ones built)
	let n1 = match (&xreorg, &gfork) {
		(Some((_, x, y, _)), _) => {
			assert!(*x == nblk - 2 && *y == nblk - 1);
			*x
		}
		(None, Some(g)) => {
			assert!(g[0] == nblk - 3 && g[2] == nblk - 1);
			g[0]
		}
		_ => {
			// a failed attempt may have left blocks behind: they are simply never delivered
			let mut k = nblk;
			while k > 1 && !leaves.iter().any(|l| path_to(kit, *l).contains(&(k - 1))) {
				k -= 1;
			}
			k
		}
	};
	let best = *leaves.iter().max_by_key(|l| kit.blks[**l].work).unwrap();

	// --- transactions to validate (built on the best leaf's state, never included in a block):
	// plain spends of mature / immature / already spent outputs, and NRD kernels (write-lock path)
	let mut txs: Vec<Transaction> = vec![];
	{
		let h = kit.blks[best].height + 1;
		let st = &b.states[&best];
		let mut cands: Vec<usize> = st.keys().cloned().collect();
		// plus some outputs that are spent on the best path (validate_tx must say so)
		cands.extend((0..kit.outs.len()).filter(|o| !st.contains_key(o)).take(4));
		for (n, o) in cands.iter().enumerate().take(10) {
			let rec = &kit.outs[*o];
			if rec.value < 20 {
				continue;
			}
			let ins: Vec<(u64, Identifier, bool)> = vec![(rec.value, rec.key_id.clone(), rec.coinbase)];
			let key = grin_keychain::ExtKeychainPath::new(3, (run * 100 + n) as u32, 0, 0, 0).to_identifier();
			let outs = vec![(rec.value - 2, key)];
			let feat = if n % 3 == 2 {
				KernelFeatures::NoRecentDuplicate {
					fee: 2u32.into(),
					relative_height: grin_core::core::NRDRelativeHeight::new(2).unwrap(),
				}
			} else if n % 3 == 1 {
				KernelFeatures::HeightLocked { fee: 2u32.into(), lock_height: h }
			} else {
				KernelFeatures::Plain { fee: 2u32.into() }
			};
			if let Ok(tx) = make_tx(&kit.kc, &ins, &outs, feat) {
				txs.push(tx);
			}
		}
	}
	// --- block templates: assembled on the best leaf and on another leaf, roots left to the subject
	let mut templates = vec![];
	let mut tmpl_parents: Vec<usize> = leaves.iter().cloned().take(2).collect();
	tmpl_parents.push(trunk[trunk.len() / 2]);
	for l in tmpl_parents.iter() {
		let prev = kit.blks[*l].block.header.clone();
		let key_id = grin_keychain::ExtKeychainPath::new(4, (run * 10) as u32 + templates.len() as u32, 0, 0, 0).to_identifier();
		if let Ok(rw) = grin_core::libtx::reward::output(&kit.kc, &grin_core::libtx::ProofBuilder::new(&kit.kc), &key_id, 0, false) {
			if let Ok(mut t) = Block::new(&prev, &[], grin_core::pow::Difficulty::from_num(1), rw) {
				t.header.timestamp = prev.timestamp + chrono::Duration::seconds(60);
				t.header.pow.total_difficulty = prev.total_difficulty() + grin_core::pow::Difficulty::from_num(1);
				templates.push(t);
			}
		}
	}

	// --- describe the tree for the chain model
	for l in kit.out_lines(0) {
		out.raw(&l);
	}
	for id in 0..nblk {
		out.raw(&kit.blk_line(id));
	}

	let templates_commits: Vec<Commitment> = templates.iter().flat_map(|t| t.outputs().iter().map(|o| o.commitment()).collect::<Vec<_>>()).collect();
	let mut kernels = vec![];
	for r in &kit.blks {
		for k in r.block.kernels() {
			kernels.push(k.excess);
		}
	}
	let sc = Arc::new(Scenario {
		blocks: kit.blks.iter().map(|r| r.block.clone()).collect(),
		parent: kit.blks.iter().map(|r| r.parent).collect(),
		by_hash: kit.by_hash.clone(),
		commits: kit.outs.iter().map(|o| o.commit).collect(),
		kernels,
		txs,
		templates,
		invalid,
		max_height: kit.blks.iter().map(|r| r.height).max().unwrap(),
		out_ids: kit
			.outs
			.iter()
			.map(|o| grin_core::core::OutputIdentifier::new(if o.coinbase { grin_core::core::OutputFeatures::Coinbase } else { grin_core::core::OutputFeatures::Plain }, &o.commit))
			.collect(),
		heights: kit.blks.iter().map(|r| r.height).collect(),
		hashes: kit.blks.iter().map(|r| r.block.hash()).collect(),
		unspent_at: (0..kit.blks.len()).map(|i| b.states.get(&i).map(|m| m.keys().cloned().collect()).unwrap_or_default()).collect(),
		commit_set: {
			let mut set: std::collections::HashSet<Commitment> = std::collections::HashSet::new();
			for r in &kit.blks {
				for o in r.block.outputs() {
					set.insert(o.commitment());
				}
			}
			for t in &templates_commits {
				set.insert(*t);
			}
			set
		},
	});

	// --- sequential twin: same blocks, creation order (parents first), one thread
	let twin_name = format!("cw{}", run);
	let twin = Subject::new(&format!("{}/twin{}", work, run), &kit.genesis);
	out.raw(&format!("chain new {}", twin_name));
	for id in 1..n1 {
		let r = twin.deliver_block(&kit.blks[id].block);
		out.line(&format!("chain deliver {} b{}", twin_name, id), &r);
	}
	let twin_obs = twin.obs(kit);
	out.line(&format!("chain obs {}", twin_name), &twin_obs);
	let twin_roots = twin.roots();
	// the twin (never compacted) lives on for the cross-compaction reorg
	let twin_keep = if xreorg.is_some() || gfork.is_some() { Some(twin) } else { None };
	let mut xr_results: Vec<XrResult> = vec![];
	let mut op_results: Vec<(usize, String, String)> = vec![];
	if std::env::var("VERIF_DEBUG").is_ok() {
		eprintln!("run {} build+twin {:?}", run, t_build.elapsed());
	}

	for &nthreads in &cfg.threads {
		// --- per-thread programs
		let n = nthreads;
		let ndeliver = if n <= 2 { n } else { (n * 2 / 3).max(2) };
		let mut progs: Vec<Vec<Op>> = vec![vec![]; n];
		// every leaf's path is delivered by some thread (parents first); extra deliverers repeat a random leaf
		let mut assign: Vec<Vec<usize>> = vec![vec![]; ndeliver];
		for (i, l) in leaves.iter().enumerate() {
			assign[i % ndeliver].push(*l);
		}
		for a in assign.iter_mut() {
			if a.is_empty() {
				a.push(leaves[rng.below(leaves.len() as u64) as usize]);
			}
		}
		let nreads_per_deliver = if cfg.long { 1 } else { 3 };
		let with_kh = cfg.kernel_height;
		let rand_read = |rng: &mut Rng, sc: &Scenario| -> Op {
			if with_kh && rng.chance(1, 3) {
				return Op::KernelHeight(rng.below(sc.kernels.len() as u64) as usize);
			}
			match rng.below(22) {
				0 | 1 => Op::ReadHead,
				2 | 3 => Op::View,
				4 | 5 => Op::GetUnspent(rng.below(sc.commits.len() as u64) as usize),
				6 => Op::HeaderByHeight(rng.below(sc.max_height + 2)),
				7 => Op::HeaderForOutput(rng.below(sc.commits.len() as u64) as usize),
				8 => Op::KernelHeight(rng.below(sc.kernels.len() as u64) as usize),
				9 | 10 if !sc.txs.is_empty() => Op::ValidateTx(rng.below(sc.txs.len() as u64) as usize),
				12 | 13 => Op::HeaderView,
				14 => Op::Locator(rng.range(1, sc.blocks.len() as u64 - 1) as usize),
				15 => merkle_pair(rng, sc),
				16 if !sc.txs.is_empty() => {
					if rng.chance(1, 2) {
						Op::CoinbaseMaturity(rng.below(sc.txs.len() as u64) as usize)
					} else {
						Op::ValidateInputs(rng.below(sc.txs.len() as u64) as usize)
					}
				}
				17 => Op::PmmrIndex(rng.range(1, 40)),
				18 => Op::OutputPos(rng.below(sc.commits.len() as u64) as usize),
				19 => Op::HeightRange(rng.below(sc.max_height + 1)),
				20 => {
					if rng.chance(1, 2) {
						Op::ForkPoint
					} else {
						Op::OrphanInfo(rng.range(1, sc.blocks.len() as u64 - 1) as usize)
					}
				}
				_ => Op::ReadHead,
			}
		};
		for (t, ls) in assign.iter().enumerate() {
			let mut done: Vec<usize> = vec![];
			for l in ls {
				let path = path_to(kit, *l);
				// one deliverer announces its headers first through sync_block_headers chunks
				if t == 1 && !cfg.long {
					for ch in path.chunks(4) {
						progs[t].push(Op::SyncHeaders(ch.to_vec()));
					}
				}
				for id in path {
					if done.contains(&id) && !rng.chance(1, 8) {
						continue;
					}
					if rng.chance(1, 4) {
						progs[t].push(Op::Header(id));
					}
					progs[t].push(Op::Deliver(id));
					done.push(id);
					if rng.chance(1, 6) {
						progs[t].push(Op::Deliver(id)); // duplicate
					}
					if rng.chance(1, nreads_per_deliver + 1) {
						let op = rand_read(rng, &sc);
						progs[t].push(op);
					}
					if !sc.invalid.is_empty() && rng.chance(1, 7) {
						progs[t].push(Op::DeliverInvalid(rng.below(sc.invalid.len() as u64) as usize));
					}
				}
			}
		}
		if let Some((t_id, _, _, _)) = &xreorg {
			// the thread that delivers T compacts right after it: the first moment compact() acts
			// (head height 81) is with T - which spends the old outputs B - as head, other threads
			// still running
			for (t, ls) in assign.iter().enumerate() {
				if ls.contains(t_id) {
					progs[t].push(Op::Deliver(*t_id));
					progs[t].push(Op::Compact);
					progs[t].push(Op::ReadHead);
					break;
				}
			}
		}
		let total_deliver: usize = progs.iter().map(|p| p.len()).max().unwrap_or(10);
		for t in ndeliver..n {
			let nops = (total_deliver * 2).max(40).min(if cfg.long { 260 } else { 160 });
			let service = t == n - 1; // the last thread is the "services" thread
			for _ in 0..nops {
				let op = if service {
					match rng.below(14) {
						0 | 1 if !sc.templates.is_empty() => Op::SetRoots(rng.below(sc.templates.len() as u64) as usize),
						2 => Op::Segmenter,
						3 | 4 => Op::Compact,
						5 => Op::ValidateFast,
						6 | 7 if !sc.txs.is_empty() => Op::ValidateTx(rng.below(sc.txs.len() as u64) as usize),
						8 | 9 if cfg.long => Op::Fill(rng.below(100_000)),
						10 => merkle_pair(rng, &sc),
						11 => Op::Locator(rng.range(1, sc.blocks.len() as u64 - 1) as usize),
						12 if !sc.invalid.is_empty() => Op::DeliverInvalid(rng.below(sc.invalid.len() as u64) as usize),
						_ => rand_read(rng, &sc),
					}
				} else if cfg.long && rng.chance(1, 10) {
					Op::Fill(rng.below(100_000))
				} else {
					rand_read(rng, &sc)
				};
				progs[t].push(op);
			}
		}
		if n <= 2 {
			// no dedicated service thread: sprinkle the service ops over the deliverers
			for t in 0..n {
				for _ in 0..6 {
					let op = match rng.below(6) {
						0 if !sc.templates.is_empty() => Op::SetRoots(0),
						1 => Op::Segmenter,
						2 => Op::Compact,
						3 => Op::ValidateFast,
						_ => rand_read(rng, &sc),
					};
					let pos = rng.below(progs[t].len() as u64 + 1) as usize;
					progs[t].insert(pos, op);
				}
			}
		}

		// --- run
		let subject_dir = format!("{}/subject{}_{}", work, run, n);
		let _ = std::fs::remove_dir_all(&subject_dir);
		let chain = init_chain(&subject_dir, kit.genesis.clone()).unwrap();
		let filler = if cfg.long {
			Some(grin_store::Store::new(&subject_dir, None, Some("filler"), vec![], None, None).expect("second store handle"))
		} else {
			None
		};
		let map_before = lmdb_meta(&subject_dir).map(|m| m.0).unwrap_or(0);
		let shared = Arc::new(Shared {
			chain,
			filler,
			sc: sc.clone(),
			compacted: AtomicBool::new(false),
			in_flight: (0..n).map(|_| AtomicUsize::new(usize::MAX)).collect(),
		arrivals: AtomicUsize::new(0),
			completed: AtomicUsize::new(0),
		});
		let progs = Arc::new(progs);
		let logs: Arc<Vec<Mutex<ThreadLog>>> = Arc::new((0..n).map(|_| Mutex::new(ThreadLog::default())).collect());
		let slow_readers = cfg.long;
		let (txc, rxc) = mpsc::channel::<usize>();
		let start_gate = Arc::new(AtomicBool::new(false));
		let t0 = Instant::now();
		let mut handles = vec![];
		for t in 0..n {
			let sh = shared.clone();
			let progs = progs.clone();
			let logs = logs.clone();
			let txc = txc.clone();
			let gate = start_gate.clone();
			let mut trng = Rng::new(rng.next() ^ (t as u64 * 0x9E37));
			handles.push(std::thread::spawn(move || {
				setup_globals();
				while !gate.load(Ordering::Acquire) {
					std::hint::spin_loop();
				}
				let mut log = ThreadLog::default();
				for (i, op) in progs[t].iter().enumerate() {
					perturb(&mut trng, &mut log, &sh, n, slow_readers && t >= ndeliver);
					sh.in_flight[t].store(i, Ordering::SeqCst);
					let r = std::panic::catch_unwind(AssertUnwindSafe(|| exec(&sh, op, &mut log, t)));
					if let Err(e) = r {
						let msg = if let Some(s) = e.downcast_ref::<&str>() {
							s.to_string()
						} else if let Some(s) = e.downcast_ref::<String>() {
							s.clone()
						} else {
							"?".to_string()
						};
						log.fails.push(format!("panic in thread {} during op #{} {:?}: {}", t, i, op, msg));
					}
					sh.completed.fetch_add(1, Ordering::SeqCst);
				}
				sh.in_flight[t].store(usize::MAX, Ordering::SeqCst);
				*logs[t].lock().unwrap() = log;
				let _ = txc.send(t);
			}));
		}
		drop(txc);
		start_gate.store(true, Ordering::Release);
		// watchdog: a hang = no op completed anywhere for `stall` (and the threads not finished)
		let stall = Duration::from_secs(if tier_thorough() { 90 } else { 30 });
		let mut finished = 0;
		let mut last_progress = (shared.completed.load(Ordering::SeqCst), Instant::now());
		while finished < n {
			match rxc.recv_timeout(Duration::from_millis(500)) {
				Ok(_) => finished += 1,
				Err(_) => {
					let c = shared.completed.load(Ordering::SeqCst);
					if c != last_progress.0 {
						last_progress = (c, Instant::now());
						continue;
					}
					if last_progress.1.elapsed() < stall {
						continue;
					}
					let inflight: Vec<String> = (0..n)
						.filter_map(|t| {
							let i = shared.in_flight[t].load(Ordering::SeqCst);
							if i == usize::MAX {
								None
							} else {
								Some(format!("t{}:#{}:{:?}", t, i, progs[t][i]))
							}
						})
						.collect();
					let kh = inflight.iter().any(|x| x.contains("KernelHeight"));
					let head = "#ORACLE-FAIL C17";
					out.raw(&format!(
						"{} deadlock-or-hang run={} seed={} threads={} no op completed for {:?}: ops in flight [{}]",
						head,
						run,
						seed_from_env(),
						n,
						stall,
						inflight.join(" ; ")
					));
					out.raw(&format!("#STAT hang:{}=1", if kh { "with-get_kernel_height-in-flight" } else { "other" }));
					for (k, v) in stats.iter() {
						out.raw(&format!("#STAT {}={}", k, v));
					}
					out.flush();
					std::process::exit(0);
				}
			}
		}
		for h in handles {
			let _ = h.join();
		}
		let wall = t0.elapsed();
		if std::env::var("VERIF_DEBUG").is_ok() {
			eprintln!("run {} threads {} build {:?} concurrent {:?}", run, n, t_build.elapsed(), wall);
		}

		// --- collect
		let mut head_changes = 0u64;
		let mut reorgs = 0u64;
		for t in 0..n {
			let log = logs[t].lock().unwrap();
			for f in &log.fails {
				out.raw(&format!("#ORACLE-FAIL C17 run={} seed={} threads={}: {}", run, seed_from_env(), n, f));
			}
			for (k, v) in &log.results {
				*stats.entry(format!("result:{}", k)).or_insert(0) += v;
			}
			for (i, nm) in ["none", "yield", "sleep", "spin", "rendezvous"].iter().enumerate() {
				*stats.entry(format!("perturb:{}", nm)).or_insert(0) += log.perturb[i];
			}
			*stats.entry("reader:head!=head_header(two snapshots)".into()).or_insert(0) += log.height_mismatch;
			for w in log.heads.windows(2) {
				head_changes += 1;
				let (a, b2) = (sc.by_hash.get(&w[0].0), sc.by_hash.get(&w[1].0));
				if let (Some(a), Some(b2)) = (a, b2) {
					if !is_descendant(&sc, *b2, *a) {
						reorgs += 1;
					}
				}
			}
		}
		*stats.entry("observed:head-changes-seen-by-readers".into()).or_insert(0) += head_changes;
		*stats.entry("observed:reorgs-seen-by-readers".into()).or_insert(0) += reorgs;
		for p in progs.iter() {
			for op in p {
				*stats.entry(format!("ops:{}", op.kind())).or_insert(0) += 1;
			}
		}
		*stats.entry(format!("runs:threads={}", n)).or_insert(0) += 1;
		*stats.entry("runs:wall_ms".into()).or_insert(0) += wall.as_millis() as u64;
		for (k, v) in &b.stats {
			*stats.entry(k.clone()).or_insert(0) += v;
		}
		if shared.compacted.load(Ordering::SeqCst) {
			*stats.entry("runs:with-real-compaction-concurrent".into()).or_insert(0) += 1;
		}
		if cfg.long {
			let map_after = lmdb_meta(&subject_dir).map(|m| m.0).unwrap_or(0);
			*stats.entry(format!("fill:chain-env-map-chunks {}->{}", map_before / 1_048_576, map_after / 1_048_576)).or_insert(0) += 1;
		}

		// --- final state
		let subj = Subject { dir: subject_dir.clone(), chain: None, genesis: kit.genesis.clone() };
		let c = &shared.chain;
		let v = c.validate(false);
		if v.is_err() {
			out.raw(&format!("#ORACLE-FAIL C17 run={} seed={} threads={}: validate(false) failed after the concurrent run: {}", run, seed_from_env(), n, cls(&v)));
		}
		let head = c.head().unwrap();
		let hhead = c.header_head().unwrap();
		let mut u = vec![];
		for o in &kit.outs {
			if let Ok(Some(_)) = c.get_unspent(o.commit) {
				u.push(format!("o{}", o.id));
			}
		}
		let subj_obs = format!("head={} hhead={} utxo=[{}]", kit.bid(&head.last_block_h), kit.bid(&hhead.last_block_h), u.join(","));
		let subj_roots = {
			let ts = c.txhashset();
			let ts = ts.read();
			let r = ts.roots().unwrap();
			format!("{}:{}:{}:{}", hex(&r.output_roots.pmmr_root.as_bytes()[..8]), hex(&r.output_roots.bitmap_root.as_bytes()[..8]), hex(&r.rproof_root.as_bytes()[..8]), hex(&r.kernel_root.as_bytes()[..8]))
		};
		drop(subj);
		if kit.bid(&head.last_block_h) != format!("b{}", best) {
			out.raw(&format!(
				"#ORACLE-FAIL C17 run={} seed={} threads={}: final head {} is not the unique max-work delivered block b{}",
				run, seed_from_env(), n, kit.bid(&head.last_block_h), best
			));
		}

		// the final-state comparison: the concurrently used chain must be in the state the model
		// predicts for the sequentially fed twin
		out.line(&format!("chain obs {}", twin_name), &subj_obs);
		if twin_obs != subj_obs {
			out.raw(&format!(
				"#ORACLE-FAIL C17 run={} seed={} threads={}: final state differs from the sequentially fed twin: concurrent {} / sequential {}",
				run, seed_from_env(), n, subj_obs, twin_obs
			));
		}
		if twin_roots != subj_roots {
			out.raw(&format!(
				"#ORACLE-FAIL C17 run={} seed={} threads={}: final MMR roots differ from the sequentially fed twin: {} / {}",
				run, seed_from_env(), n, subj_roots, twin_roots
			));
		}

		if let Some((t_id, x_id, y_id, bs)) = &xreorg {
			let r = cross_compaction_reorg(out, &shared, kit, *t_id, *x_id, *y_id, bs, run, n, stats);
			xr_results.push(r);
		}
		if let Some(g) = &gfork {
			let (o, r) = orphan_pattern(out, &shared, kit, *g, best, run, n, stats);
			op_results.push((n, o, r));
		}
		if std::env::var("VERIF_DEBUG").is_ok() {
			eprintln!("run {} total {:?}", run, t_build.elapsed());
		}
		// --- the model's transition system on the op sequences really run
		let progs_s: Vec<String> = progs
			.iter()
			.map(|p| p.iter().flat_map(|op| op.table_ops()).collect::<Vec<_>>().join("+"))
			.collect();
		out.line(&format!("conc sim seed={} progs={}", rng.below(1 << 30), progs_s.join(",")), "finished");
		out.flush();
		// --- restart of the compacted node: the segmenter cache is empty, `segmenter()` has to rewind
		// from the head to the archive header using the full blocks the compaction kept
		if xreorg.is_some() {
			let mut sh = Some(shared);
			let mut inner = None;
			for _ in 0..100 {
				match Arc::try_unwrap(sh.take().unwrap()) {
					Ok(x) => {
						inner = Some(x);
						break;
					}
					Err(a) => {
						sh = Some(a);
						std::thread::sleep(Duration::from_millis(10));
					}
				}
			}
			match inner {
				Some(x) => {
					drop(x);
					let tag = format!("#ORACLE-FAIL C17 run={} seed={} threads={}: restart-after-compaction:", run, seed_from_env(), n);
					match std::panic::catch_unwind(AssertUnwindSafe(|| init_chain(&subject_dir, kit.genesis.clone()))) {
						Ok(Ok(c2)) => {
							let stored = restart_checks(out, &c2, kit, &tag, stats);
							if let Some(xr) = xr_results.last_mut() {
								xr.stored = stored;
							}
						}
						Ok(Err(e)) => out.raw(&format!("{} the compacted node does not restart: {}", tag, error_class(&e))),
						Err(_) => out.raw(&format!("{} Chain::init of the compacted node panicked", tag)),
					}
				}
				None => {
					*stats.entry("restart:SKIPPED chain still shared".into()).or_insert(0) += 1;
				}
			}
		} else {
			// --- every concurrently used node is closed and REOPENED: what the threads left in the db and
			// in the MMR files must be a state Chain::init accepts, with a header MMR that follows the
			// header head, and it must still be the state observed before the restart
			let before = {
				let c = &shared.chain;
				let (h, hh) = (c.head().unwrap(), c.header_head().unwrap());
				format!("head={} hhead={}", kit.bid(&h.last_block_h), kit.bid(&hh.last_block_h))
			};
			let (heights, hashes) = (sc.heights.clone(), sc.hashes.clone());
			let tag = format!("#ORACLE-FAIL C17 run={} seed={} threads={}: restart-after-concurrent-run:", run, seed_from_env(), n);
			if let Some(m) = strong_header_view(&shared.chain, &sc.by_hash, &sc.parent, &heights, &hashes) {
				out.raw(&format!("{} before the restart: {}", tag, m));
			}
			let mut sh = Some(shared);
			let mut inner = None;
			for _ in 0..100 {
				match Arc::try_unwrap(sh.take().unwrap()) {
					Ok(x) => {
						inner = Some(x);
						break;
					}
					Err(a) => {
						sh = Some(a);
						std::thread::sleep(Duration::from_millis(10));
					}
				}
			}
			match inner {
				Some(x) => {
					drop(x);
					match std::panic::catch_unwind(AssertUnwindSafe(|| init_chain(&subject_dir, kit.genesis.clone()))) {
						Ok(Ok(c2)) => {
							if let Some(m) = strong_header_view(&c2, &sc.by_hash, &sc.parent, &heights, &hashes) {
								out.raw(&format!("{} after the restart: {}", tag, m));
							}
							if let Err(e) = c2.validate(true) {
								out.raw(&format!("{} validate(fast) fails after the restart: {}", tag, error_class(&e)));
							}
							let (h, hh) = (c2.head().unwrap(), c2.header_head().unwrap());
							let after = format!("head={} hhead={}", kit.bid(&h.last_block_h), kit.bid(&hh.last_block_h));
							if after != before {
								out.raw(&format!("{} the node was at [{}] before the restart and is at [{}] after it", tag, before, after));
							}
							*stats.entry("restart:mix-node-reopened".into()).or_insert(0) += 1;
						}
						Ok(Err(e)) => out.raw(&format!("{} the node does not restart after the concurrent run (it was at [{}]): {}", tag, before, error_class(&e))),
						Err(_) => out.raw(&format!("{} Chain::init panicked after the concurrent run", tag)),
					}
				}
				None => {
					*stats.entry("restart:SKIPPED chain still shared".into()).or_insert(0) += 1;
				}
			}
		}
	}

	// --- the twin gets the same extra blocks sequentially, never having compacted
	if let (Some(g), Some(twin)) = (&gfork, twin_keep.as_ref()) {
		// the reference node gets the fork in order
		for id in g.iter() {
			let r = twin.deliver_block(&kit.blks[*id].block);
			out.line(&format!("chain deliver {} b{}", twin_name, id), &r);
		}
		let obs_g = twin.obs(kit);
		out.line(&format!("chain obs {}", twin_name), &obs_g);
		let roots_g = twin.roots();
		for (n, o, r) in op_results.iter() {
			out.line(&format!("chain obs {}", twin_name), o);
			if *o != obs_g || *r != roots_g {
				out.raw(&format!(
					"#ORACLE-FAIL C17 run={} seed={} threads={}: orphan-pattern: after the fork b{}-b{}-b{} was delivered out of order (header of the first block, then its descendants, then the first block) the state differs from the reference node fed in order: {} roots {} / reference {} roots {}",
					run, seed_from_env(), n, g[0], g[1], g[2], o, r, obs_g, roots_g
				));
			}
		}
		*stats.entry("orphan-pattern:twin-compared".into()).or_insert(0) += op_results.len() as u64;
		out.flush();
	}
	if let (Some((t_id, x_id, y_id, bs)), Some(twin)) = (&xreorg, twin_keep) {
		let r = twin.deliver_block(&kit.blks[*t_id].block);
		out.line(&format!("chain deliver {} b{}", twin_name, t_id), &r);
		let r = twin.deliver_block(&kit.blks[*x_id].block);
		out.line(&format!("chain deliver {} b{}", twin_name, x_id), &r);
		let obs_x = twin.obs(kit);
		out.line(&format!("chain obs {}", twin_name), &obs_x);
		let roots_x = twin.roots();
		let proofs_x: Vec<String> = bs
			.iter()
			.map(|o| match twin.c().get_merkle_proof_for_pos(kit.outs[*o].commit) {
				Ok(p) => hex(&grin_core::ser::ser_vec(&p, grin_core::ser::ProtocolVersion(1)).unwrap_or_default()),
				Err(e) => format!("err:{}", error_class(&e)),
			})
			.collect();
		for xr in xr_results.iter() {
			// the concurrently used, compacted chain after the one-block reorg across the compaction head
			out.line(&format!("chain obs {}", twin_name), &xr.obs_x);
			if xr.obs_x != obs_x || xr.roots_x != roots_x {
				out.raw(&format!(
					"#ORACLE-FAIL C17 run={} seed={} threads={}: after compaction at head b{} and the one-block reorg to b{} the state differs from the twin that never compacted: {} roots {} / twin {} roots {}",
					run, seed_from_env(), xr.threads, t_id, x_id, xr.obs_x, xr.roots_x, obs_x, roots_x
				));
			}
			if xr.proofs_x != proofs_x {
				out.raw(&format!(
					"#ORACLE-FAIL C17 run={} seed={} threads={}: Merkle proofs of the outputs unspent again after the reorg across the compaction head differ from the twin's: {:?} / twin {:?}",
					run, seed_from_env(), xr.threads, xr.proofs_x.iter().map(|p| &p[..p.len().min(24)]).collect::<Vec<_>>(), proofs_x.iter().map(|p| &p[..p.len().min(24)]).collect::<Vec<_>>()
				));
			}
		}
		let r = twin.deliver_block(&kit.blks[*y_id].block);
		out.line(&format!("chain deliver {} b{}", twin_name, y_id), &r);
		let obs_y = twin.obs(kit);
		out.line(&format!("chain obs {}", twin_name), &obs_y);
		let roots_y = twin.roots();
		for xr in xr_results.iter() {
			out.line(&format!("chain obs {}", twin_name), &xr.obs_y);
			if xr.obs_y != obs_y || xr.roots_y != roots_y {
				out.raw(&format!(
					"#ORACLE-FAIL C17 run={} seed={} threads={}: after the block b{} spending the restored outputs the state differs from the twin that never compacted: {} roots {} / twin {} roots {}",
					run, seed_from_env(), xr.threads, y_id, xr.obs_y, xr.roots_y, obs_y, roots_y
				));
			}
		}
		*stats.entry("xreorg:twin-compared".into()).or_insert(0) += xr_results.len() as u64;
		// the twin compacts now, single-threaded, nothing else running: the set of full blocks it
		// keeps is what a sequential compaction of the same chain keeps
		match std::panic::catch_unwind(AssertUnwindSafe(|| twin.c().compact())) {
			Ok(Ok(())) => {
				let tw: Vec<bool> = kit.blks.iter().map(|r| twin.c().get_block(&r.block.hash()).is_ok()).collect();
				let kept = tw.iter().filter(|x| **x).count();
				*stats.entry(format!("stored:twin-keeps {} of {} blocks, tail {}", kept, tw.len(), twin.c().tail().map(|t| t.height).unwrap_or(0))).or_insert(0) += 1;
				for xr in xr_results.iter() {
					if xr.stored.is_empty() {
						continue;
					}
					let diff: Vec<String> = (0..tw.len())
						.filter(|i| tw[*i] != xr.stored[*i])
						.map(|i| format!("b{}(height {}, {})", i, kit.blks[i].height, if tw[i] { "missing in the concurrently compacted node" } else { "kept only by the concurrently compacted node" }))
						.collect();
					if !diff.is_empty() {
						out.raw(&format!(
							"#ORACLE-FAIL C17 run={} seed={} threads={}: the set of stored full blocks after concurrent compaction differs from what a sequential compaction of the same chain keeps: {}",
							run, seed_from_env(), xr.threads, diff.join(", ")
						));
					} else {
						*stats.entry("stored:same-set-as-sequential-compaction".into()).or_insert(0) += 1;
					}
				}
			}
			Ok(Err(e)) => out.raw(&format!("#STAT stored:twin compaction failed: {}", error_class(&e))),
			Err(_) => out.raw("#STAT stored:twin compaction panicked"),
		}
		out.flush();
	}
}


/// C17, final state equals a sequential ordering when a competing fork arrives out of order from
/// several peer threads.  After the concurrent phase (head = `best`): (A) one peer announces the
/// HEADER of the first fork block G1 (header first); (B) two peers concurrently deliver the
/// descendants - one G2 then G3, the other duplicates of them - which are pooled as orphans (their
/// parent block is missing); (C) two peers concurrently deliver the full block G1, whose work does
/// not exceed the head's, so it does not become head, while a third peer reads; the pooled
/// descendants carry more work than the head.  Afterwards the orphan pool must be empty, the head
/// must be the fork tip G3 and `validate` must pass; the caller compares with the reference node
/// that got G1, G2, G3 in order.  Returns (observation, roots).
#[allow(clippy::too_many_arguments)]
fn orphan_pattern(out: &mut Out, shared: &Arc<Shared>, kit: &Kit, g: [usize; 3], best: usize, run: usize, n: usize, stats: &mut BTreeMap<String, u64>) -> (String, String) {
	let c = &shared.chain;
	let tag = format!("#ORACLE-FAIL C17 run={} seed={} threads={}: orphan-pattern:", run, seed_from_env(), n);
	let head0 = c.head().unwrap();
	if kit.bid(&head0.last_block_h) != format!("b{}", best) {
		out.raw(&format!("{} head before the pattern is {} not b{}", tag, kit.bid(&head0.last_block_h), best));
	}
	let pool0 = c.orphans_len();
	*stats.entry(format!("orphan-pattern:pool-before={}", pool0)).or_insert(0) += 1;
	// what one peer thread does; every call under catch_unwind
	#[derive(Clone)]
	enum P {
		Hdr(usize),
		Blk(usize),
		Read,
	}
	let run_stage = |out: &mut Out, stage: &str, progs: Vec<Vec<P>>| -> Vec<Vec<String>> {
		let k = progs.len();
		let gate = Arc::new(std::sync::Barrier::new(k));
		let (txc, rxc) = mpsc::channel::<(usize, Vec<String>)>();
		for (i, prog) in progs.into_iter().enumerate() {
			let sh = shared.clone();
			let gate = gate.clone();
			let txc = txc.clone();
			let blocks: Vec<(P, Option<Block>)> = prog
				.iter()
				.map(|p| match p {
					P::Hdr(id) | P::Blk(id) => (p.clone(), Some(kit.blks[*id].block.clone())),
					P::Read => (p.clone(), None),
				})
				.collect();
			std::thread::spawn(move || {
				setup_globals();
				gate.wait();
				let mut res = vec![];
				for (p, blk) in blocks {
					let r = std::panic::catch_unwind(AssertUnwindSafe(|| match (&p, blk) {
						(P::Hdr(_), Some(b)) => cls(&sh.chain.process_block_header(&b.header, Options::SKIP_POW)),
						(P::Blk(_), Some(b)) => match sh.chain.process_block(b, Options::SKIP_POW) {
							Ok(Some(_)) => "ok:head".to_string(),
							Ok(None) => "ok:fork".to_string(),
							Err(e) => format!("err:{}", error_class(&e)),
						},
						_ => {
							// the usual reader invariants: the head names a stored block, roots match under one view
							let h = sh.chain.head().unwrap();
							let stored = sh.chain.get_block(&h.last_block_h).is_ok();
							let hh = sh.chain.head_header().map(|x| x.height).unwrap_or(0);
							if stored && hh >= h.height {
								"read:ok".to_string()
							} else {
								format!("read:BAD head {} stored={} head_header height {}", h.height, stored, hh)
							}
						}
					}));
					res.push(match r {
						Ok(s) => s,
						Err(e) => format!(
							"panic:{}",
							if let Some(s) = e.downcast_ref::<&str>() {
								s.to_string()
							} else if let Some(s) = e.downcast_ref::<String>() {
								s.clone()
							} else {
								"?".to_string()
							}
						),
					});
				}
				let _ = txc.send((i, res));
			});
		}
		drop(txc);
		let mut all = vec![vec![]; k];
		for _ in 0..k {
			match rxc.recv_timeout(Duration::from_secs(30)) {
				Ok((i, r)) => all[i] = r,
				Err(_) => {
					out.raw(&format!("{} stage {} does not return (30 s)", tag, stage));
					out.flush();
					std::process::exit(0);
				}
			}
		}
		for (i, rs) in all.iter().enumerate() {
			for r in rs {
				if r.starts_with("panic:") || r.starts_with("read:BAD") {
					out.raw(&format!("{} stage {} peer {}: {}", tag, stage, i, r));
				}
			}
		}
		all
	};
	// (A) header first
	let a = run_stage(out, "A(header of the first fork block)", vec![vec![P::Hdr(g[0])]]);
	if a[0][0] != "ok" {
		out.raw(&format!("{} the header of b{} was answered {}", tag, g[0], a[0][0]));
	}
	// (B) the descendants before the block itself: pooled
	let bres = run_stage(
		out,
		"B(descendants before their parent)",
		vec![vec![P::Blk(g[1]), P::Blk(g[2])], vec![P::Read, P::Blk(g[1]), P::Blk(g[2]), P::Read]],
	);
	if bres[0] != vec!["err:Orphan".to_string(), "err:Orphan".to_string()] {
		out.raw(&format!("{} the descendants b{}, b{} delivered before their parent were answered {:?} (expected Orphan twice)", tag, g[1], g[2], bres[0]));
	}
	for r in bres[1].iter() {
		*stats.entry(format!("orphan-pattern:second-peer:{}", r)).or_insert(0) += 1;
	}
	let pooled: Vec<bool> = g[1..].iter().map(|id| c.is_orphan(&kit.blks[*id].block.hash())).collect();
	if pooled != vec![true, true] {
		out.raw(&format!("{} after stage B the orphan pool holds b{}: {}, b{}: {}", tag, g[1], pooled[0], g[2], pooled[1]));
	}
	let head_b = c.head().unwrap();
	if head_b.last_block_h != head0.last_block_h {
		out.raw(&format!("{} the head moved to {} while the fork's first block is still missing", tag, kit.bid(&head_b.last_block_h)));
	}
	// (C) the first fork block, from two peers at once, a third one reading
	let cres = run_stage(
		out,
		"C(the first fork block)",
		vec![vec![P::Blk(g[0])], vec![P::Blk(g[0])], vec![P::Read, P::Read, P::Read]],
	);
	for r in cres[0].iter().chain(cres[1].iter()) {
		*stats.entry(format!("orphan-pattern:first-block:{}", r)).or_insert(0) += 1;
		if !(r == "ok:fork" || r == "err:Unfit") {
			out.raw(&format!("{} the first fork block b{} (work {} <= head work {}) was answered {}", tag, g[0], kit.blks[g[0]].work, kit.blks[best].work, r));
		}
	}
	if !cres[0].iter().chain(cres[1].iter()).any(|r| r == "ok:fork") {
		out.raw(&format!("{} neither peer's delivery of b{} was accepted as a fork block: {:?} {:?}", tag, g[0], cres[0], cres[1]));
	}
	// --- afterwards
	let pool = c.orphans_len();
	let head = c.head().unwrap();
	if pool != 0 {
		out.raw(&format!(
			"{} the orphan pool still holds {} block(s) (b{} pooled: {}, b{} pooled: {}) after their parent b{} was accepted; head {}",
			tag, pool, g[1], c.is_orphan(&kit.blks[g[1]].block.hash()), g[2], c.is_orphan(&kit.blks[g[2]].block.hash()), g[0], kit.bid(&head.last_block_h)
		));
	}
	if kit.bid(&head.last_block_h) != format!("b{}", g[2]) {
		out.raw(&format!(
			"{} head is {} (work {}) but the fork tip b{} carries more work ({}): the pooled descendants were not applied",
			tag, kit.bid(&head.last_block_h), head.total_difficulty.to_num(), g[2], kit.blks[g[2]].work
		));
	}
	// (full validation of the same tree was done at the end of the concurrent phase; the three
	// blocks added here are verified when they are processed: the fast mode - sums, roots, MMR
	// consistency - is what can depend on the arrival order; full mode in the thorough tier)
	let fast = !tier_thorough();
	match std::panic::catch_unwind(AssertUnwindSafe(|| c.validate(fast))) {
		Ok(Ok(())) => {}
		Ok(Err(e)) => out.raw(&format!("{} validate({}) fails: {}", tag, fast, error_class(&e))),
		Err(_) => out.raw(&format!("{} validate({}) panicked", tag, fast)),
	}
	*stats.entry("orphan-pattern:runs".into()).or_insert(0) += 1;
	*stats.entry(format!("orphan-pattern:pool-after={}", pool)).or_insert(0) += 1;
	(chain_obs(c, kit), chain_roots(c))
}


/// validate a kernel segment against `header`
fn kernel_segment_ok(sg: &grin_chain::txhashset::Segmenter, header: &BlockHeader, id: SegmentIdentifier) -> Result<(), String> {
	match sg.kernel_segment(id) {
		Ok(seg) => seg.validate(header.kernel_mmr_size, None, header.kernel_root).map_err(|e| format!("{:?}", e)),
		Err(e) => Err(format!("not served: {}", error_class(&e))),
	}
}

/// C17 "serving state" after concurrent compaction (head = T, height 81; archive header = height
/// 60, strictly older than head - cut_through_horizon = 61): (a) from three threads at once
/// `segmenter()` must answer with the archive header and serve a bitmap and kernel segments that
/// validate against its roots; (b) every full block above the archive header on the head's chain
/// must still be in the store.
fn serve_state_checks(out: &mut Out, shared: &Arc<Shared>, kit: &Kit, t_id: usize, tag: &str, stats: &mut BTreeMap<String, u64>) {
	let c = &shared.chain;
	let ah = match c.txhashset_archive_header() {
		Ok(h) => h,
		Err(e) => {
			out.raw(&format!("{} txhashset_archive_header() fails after compaction: {}", tag, error_class(&e)));
			return;
		}
	};
	let head = c.head().unwrap();
	let horizon = head.height.saturating_sub(grin_core::global::cut_through_horizon() as u64);
	*stats.entry(format!("serve:archive-height={} head={} horizon={}", ah.height, head.height, horizon)).or_insert(0) += 1;
	if ah.height >= horizon {
		out.raw(&format!("#STAT serve:WARNING archive header {} is not older than the horizon {}", ah.height, horizon));
	}
	let (txc, rxc) = mpsc::channel::<Vec<String>>();
	let gate = Arc::new(std::sync::Barrier::new(3));
	for i in 0..3u64 {
		let sh = shared.clone();
		let txc = txc.clone();
		let gate = gate.clone();
		let ah = ah.clone();
		std::thread::spawn(move || {
			setup_globals();
			gate.wait();
			let r = std::panic::catch_unwind(AssertUnwindSafe(|| {
				let mut bad = vec![];
				match sh.chain.segmenter() {
					Ok(sg) => {
						if sg.header().hash() != ah.hash() {
							bad.push(format!("segmenter().header() is at height {} ({}), the archive header is at {} ({})", sg.header().height, sg.header().hash(), ah.height, ah.hash()));
						}
						if let Err(e) = bitmap_segment_ok(&sg, &ah) {
							bad.push(format!("the bitmap segment served does not validate against the archive header: {}", e));
						}
						for id in [SegmentIdentifier { height: 4, idx: i }, SegmentIdentifier { height: 2, idx: 0 }] {
							if let Err(e) = kernel_segment_ok(&sg, &ah, id) {
								bad.push(format!("the kernel segment ({},{}) served does not validate against the archive header: {}", id.height, id.idx, e));
							}
						}
					}
					Err(e) => bad.push(format!("segmenter() fails: {}", error_class(&e))),
				}
				bad
			}));
			let _ = txc.send(match r {
				Ok(b) => b,
				Err(_) => vec!["segmenter() / segment generation panicked".to_string()],
			});
		});
	}
	drop(txc);
	for _ in 0..3 {
		match rxc.recv_timeout(Duration::from_secs(30)) {
			Ok(bad) => {
				for b in bad {
					out.raw(&format!("{} serving state after concurrent compaction: {}", tag, b));
				}
			}
			Err(_) => {
				out.raw(&format!("{} segmenter() from three threads after compaction does not return (30 s)", tag));
				out.flush();
				std::process::exit(0);
			}
		}
	}
	*stats.entry("serve:segmenter-from-3-threads".into()).or_insert(0) += 1;
	let mut missing = vec![];
	let mut above = 0;
	for id in path_to(kit, t_id) {
		if kit.blks[id].height > ah.height {
			above += 1;
			if c.get_block(&kit.blks[id].block.hash()).is_err() {
				missing.push(format!("b{}(height {})", id, kit.blks[id].height));
			}
		}
	}
	if !missing.is_empty() {
		out.raw(&format!(
			"{} after compaction (head {}, archive header {}) full blocks above the archive header are gone from the store: {} - a segmenter / txhashset_read that has to rewind from the head to the archive header cannot be built",
			tag, head.height, ah.height, missing.join(", ")
		));
	}
	*stats.entry(format!("serve:blocks-above-archive-header-stored={}", above - missing.len())).or_insert(0) += 1;
}

/// after the restart of the compacted node: `segmenter()` on an empty cache, segments validated,
/// blocks above the archive header stored; returns the stored-set over the kit's blocks
fn restart_checks(out: &mut Out, c: &Chain, kit: &Kit, tag: &str, stats: &mut BTreeMap<String, u64>) -> Vec<bool> {
	let r = std::panic::catch_unwind(AssertUnwindSafe(|| {
		let mut bad = vec![];
		match (c.txhashset_archive_header(), c.segmenter()) {
			(Ok(ah), Ok(sg)) => {
				if sg.header().hash() != ah.hash() {
					bad.push(format!("segmenter().header() height {} is not the archive header (height {})", sg.header().height, ah.height));
				}
				if let Err(e) = bitmap_segment_ok(&sg, &ah) {
					bad.push(format!("bitmap segment does not validate against the archive header (height {}): {}", ah.height, e));
				}
				for id in [SegmentIdentifier { height: 4, idx: 0 }, SegmentIdentifier { height: 3, idx: 1 }] {
					if let Err(e) = kernel_segment_ok(&sg, &ah, id) {
						bad.push(format!("kernel segment ({},{}) does not validate against the archive header: {}", id.height, id.idx, e));
					}
				}
				let head = c.head().unwrap();
				let mut h = c.get_block_header(&head.last_block_h);
				let mut n = 0;
				while let Ok(hd) = h {
					if hd.height <= ah.height {
						break;
					}
					if c.get_block(&hd.hash()).is_err() {
						bad.push(format!("full block at height {} (above the archive header {}) is not in the store", hd.height, ah.height));
					}
					n += 1;
					h = c.get_previous_header(&hd);
				}
				bad.push(format!("INFO blocks-above-archive={}", n));
			}
			(Err(e), _) => bad.push(format!("txhashset_archive_header() fails: {}", error_class(&e))),
			(_, Err(e)) => bad.push(format!("segmenter() on an empty cache fails (it rewinds from the head to the archive header): {}", error_class(&e))),
		}
		if let Err(e) = c.validate(true) {
			bad.push(format!("validate(fast) fails: {}", error_class(&e)));
		}
		bad
	}));
	match r {
		Ok(bad) => {
			for b in bad {
				if let Some(i) = b.strip_prefix("INFO ") {
					*stats.entry(format!("restart:{}", i)).or_insert(0) += 1;
				} else {
					out.raw(&format!("{} {}", tag, b));
				}
			}
		}
		Err(_) => out.raw(&format!("{} segmenter() / segment generation panicked", tag)),
	}
	*stats.entry("restart:segmenter-on-empty-cache".into()).or_insert(0) += 1;
	kit.blks.iter().map(|r| c.get_block(&r.block.hash()).is_ok()).collect()
}

#[derive(Default)]
struct XrResult {
	threads: usize,
	/// which of the kit's blocks are stored as full blocks after compaction, reorg and restart
	stored: Vec<bool>,
	obs_x: String,
	roots_x: String,
	proofs_x: Vec<String>,
	obs_y: String,
	roots_y: String,
}

fn chain_obs(c: &Chain, kit: &Kit) -> String {
	let head = c.head().unwrap();
	let hhead = c.header_head().unwrap();
	let mut u = vec![];
	for o in &kit.outs {
		if let Ok(Some(_)) = c.get_unspent(o.commit) {
			u.push(format!("o{}", o.id));
		}
	}
	format!("head={} hhead={} utxo=[{}]", kit.bid(&head.last_block_h), kit.bid(&hhead.last_block_h), u.join(","))
}

fn chain_roots(c: &Chain) -> String {
	let ts = c.txhashset();
	let ts = ts.read();
	match ts.roots() {
		Ok(r) => format!(
			"{}:{}:{}:{}",
			hex(&r.output_roots.pmmr_root.as_bytes()[..8]),
			hex(&r.output_roots.bitmap_root.as_bytes()[..8]),
			hex(&r.rproof_root.as_bytes()[..8]),
			hex(&r.kernel_root.as_bytes()[..8])
		),
		Err(e) => format!("err:{:?}", e),
	}
}

/// C17, final state after concurrent compaction.  The threads have joined; compaction has run
/// (concurrently, or - if no thread got to it - now) with head T, a block that spends outputs B
/// older than the horizon whose sibling leaves were spent long ago.  Two peer threads now deliver,
/// concurrently, a duplicate of T and the heavier competitor X at T's height that does not spend
/// the B's: a one-block reorg across the compaction head.  Afterwards: the B's are unspent again
/// with data and Merkle proof, validate(false) passes, the block Y spending them is accepted.  The
/// comparison with the twin that never compacted is made by the caller.  A panic in any thread is
/// an oracle failure.
#[allow(clippy::too_many_arguments)]
fn cross_compaction_reorg(
	out: &mut Out,
	shared: &Arc<Shared>,
	kit: &Kit,
	t_id: usize,
	x_id: usize,
	y_id: usize,
	bs: &[usize],
	run: usize,
	n: usize,
	stats: &mut BTreeMap<String, u64>,
) -> XrResult {
	let c = &shared.chain;
	let tag = format!("#ORACLE-FAIL C17 run={} seed={} threads={}: xreorg:", run, seed_from_env(), n);
	let mut res = XrResult { threads: n, ..Default::default() };
	let panic_msg = |e: Box<dyn std::any::Any + Send>| -> String {
		if let Some(s) = e.downcast_ref::<&str>() {
			s.to_string()
		} else if let Some(s) = e.downcast_ref::<String>() {
			s.clone()
		} else {
			"?".to_string()
		}
	};
	// --- compaction with T as head
	let head = c.head().unwrap();
	if kit.bid(&head.last_block_h) != format!("b{}", t_id) {
		out.raw(&format!("{} head before the reorg is {} not the steered block b{}", tag, kit.bid(&head.last_block_h), t_id));
	}
	if shared.compacted.load(Ordering::SeqCst) {
		*stats.entry("xreorg:compaction-ran-concurrently-with-head-T".into()).or_insert(0) += 1;
	} else {
		let tail_before = c.tail().map(|t| t.height).unwrap_or(0);
		match std::panic::catch_unwind(AssertUnwindSafe(|| c.compact())) {
			Ok(Ok(())) => {}
			Ok(Err(e)) => out.raw(&format!("{} compact() after the threads joined failed: {}", tag, error_class(&e))),
			Err(e) => out.raw(&format!("{} compact() after the threads joined panicked: {}", tag, panic_msg(e))),
		}
		let tail_after = c.tail().map(|t| t.height).unwrap_or(0);
		if tail_after > tail_before.max(1) {
			*stats.entry("xreorg:compaction-ran-after-join-with-head-T".into()).or_insert(0) += 1;
		}
	}
	let tail = c.tail().map(|t| t.height).unwrap_or(0);
	if std::env::var("VERIF_DEBUG").is_ok() {
		eprintln!("xreorg: head height {} tail {:?} compacted-flag {}", head.height, c.tail().map(|t| (t.height, t.last_block_h)), shared.compacted.load(Ordering::SeqCst));
	}
	if tail <= 1 {
		out.raw(&format!("{} compaction never pruned (tail still {} at head height {}): the scenario was not reached", tag, tail, head.height));
	}
	*stats.entry(format!("xreorg:tail-height-after-compaction={}", tail)).or_insert(0) += 1;
	serve_state_checks(out, shared, kit, t_id, &tag, stats);
	for o in bs {
		if let Ok(Some(_)) = c.get_unspent(kit.outs[*o].commit) {
			out.raw(&format!("{} output o{} is unspent although the head b{} spends it", tag, o, t_id));
		}
	}
	// --- two peers, concurrently: duplicate of the head, heavier competitor at the same height
	let gate = Arc::new(std::sync::Barrier::new(2));
	let (txc, rxc) = mpsc::channel::<(usize, Result<String, String>)>();
	for (i, id) in [t_id, x_id].iter().enumerate() {
		let sh = shared.clone();
		let gate = gate.clone();
		let txc = txc.clone();
		let blk = kit.blks[*id].block.clone();
		std::thread::spawn(move || {
			setup_globals();
			gate.wait();
			let r = std::panic::catch_unwind(AssertUnwindSafe(|| sh.chain.process_block(blk, Options::SKIP_POW)));
			let _ = txc.send((
				i,
				match r {
					Ok(Ok(Some(_))) => Ok("ok:head".to_string()),
					Ok(Ok(None)) => Ok("ok:fork".to_string()),
					Ok(Err(e)) => Ok(format!("err:{}", error_class(&e))),
					Err(e) => Err(if let Some(s) = e.downcast_ref::<&str>() {
						s.to_string()
					} else if let Some(s) = e.downcast_ref::<String>() {
						s.clone()
					} else {
						"?".to_string()
					}),
				},
			));
		});
	}
	drop(txc);
	let mut got = vec![String::new(), String::new()];
	for _ in 0..2 {
		match rxc.recv_timeout(Duration::from_secs(30)) {
			Ok((i, Ok(r))) => got[i] = r,
			Ok((i, Err(p))) => {
				got[i] = "panic".to_string();
				out.raw(&format!(
					"{} thread delivering {} panicked: {}",
					tag,
					if i == 0 { format!("the duplicate of the head b{}", t_id) } else { format!("the heavier competitor b{}", x_id) },
					p
				));
			}
			Err(_) => {
				out.raw(&format!("{} delivering the duplicate of b{} and the competitor b{} from two threads does not return (30 s)", tag, t_id, x_id));
				out.flush();
				std::process::exit(0);
			}
		}
	}
	*stats.entry(format!("xreorg:dup-head:{}", got[0])).or_insert(0) += 1;
	*stats.entry(format!("xreorg:competitor:{}", got[1])).or_insert(0) += 1;
	if !(got[0].starts_with("ok") || got[0] == "err:Unfit") {
		out.raw(&format!("{} the duplicate of the head b{} was answered {}", tag, t_id, got[0]));
	}
	if got[1] != "ok:head" {
		out.raw(&format!("{} the heavier competing block b{} at the height of the compaction head was answered {} (expected to become head)", tag, x_id, got[1]));
	}
	// --- the outputs T had spent are unspent again, with data and Merkle proof
	let checks = std::panic::catch_unwind(AssertUnwindSafe(|| {
		let mut bad: Vec<String> = vec![];
		let mut proofs = vec![];
		for o in bs {
			let commit = kit.outs[*o].commit;
			match c.get_unspent(commit) {
				Ok(Some((_, pos))) => match c.get_unspent_output_at(pos.pos - 1) {
					Ok(outp) => {
						if outp.commitment() != commit {
							bad.push(format!("o{}: get_unspent_output_at({}) returned another output", o, pos.pos - 1));
						}
					}
					Err(e) => bad.push(format!("o{}: unspent again but its data is gone: get_unspent_output_at({}) = {}", o, pos.pos - 1, error_class(&e))),
				},
				Ok(None) => bad.push(format!("o{}: still spent after the block that spent it was reorged out", o)),
				Err(e) => bad.push(format!("o{}: get_unspent = {}", o, error_class(&e))),
			}
			match c.get_merkle_proof_for_pos(commit) {
				Ok(p) => proofs.push(hex(&grin_core::ser::ser_vec(&p, grin_core::ser::ProtocolVersion(1)).unwrap_or_default())),
				Err(e) => {
					bad.push(format!("o{}: no Merkle proof: {}", o, error_class(&e)));
					proofs.push(format!("err:{}", error_class(&e)));
				}
			}
		}
		if let Err(e) = c.validate(false) {
			bad.push(format!("validate(false) fails: {}", error_class(&e)));
		}
		(bad, proofs)
	}));
	match checks {
		Ok((bad, proofs)) => {
			for b in bad {
				out.raw(&format!("{} after compaction at head b{} (tail {}) and the reorg to b{}: {}", tag, t_id, tail, x_id, b));
			}
			res.proofs_x = proofs;
		}
		Err(e) => out.raw(&format!("{} checking the restored outputs panicked: {}", tag, panic_msg(e))),
	}
	res.obs_x = chain_obs(c, kit);
	res.roots_x = chain_roots(c);
	// --- a block spending them is accepted
	match std::panic::catch_unwind(AssertUnwindSafe(|| c.process_block(kit.blks[y_id].block.clone(), Options::SKIP_POW))) {
		Ok(Ok(Some(_))) => {
			*stats.entry("xreorg:respend-accepted".into()).or_insert(0) += 1;
		}
		Ok(Ok(None)) => out.raw(&format!("{} block b{} spending the restored outputs did not become head", tag, y_id)),
		Ok(Err(e)) => out.raw(&format!("{} block b{} spending the restored outputs was rejected: {}", tag, y_id, error_class(&e))),
		Err(e) => out.raw(&format!("{} processing block b{} spending the restored outputs panicked: {}", tag, y_id, panic_msg(e))),
	}
	if let Err(e) = c.validate(false) {
		out.raw(&format!("{} validate(false) fails after b{}: {}", tag, y_id, error_class(&e)));
	}
	res.obs_y = chain_obs(c, kit);
	res.roots_y = chain_roots(c);
	*stats.entry(format!("xreorg:restored-outputs={}", bs.len())).or_insert(0) += 1;
	res
}

/// Tiny two-thread programs on the REAL lock objects of a Chain (the `Arc<RwLock<..>>` handed out
/// by `Chain::txhashset()` / `Chain::header_pmmr()`), to check that the lock semantics the Lean
/// model assumes are those of the implementation: an order inversion hangs, the ordered control
/// finishes, a read-after-read by one thread hangs when a writer arrives in between and finishes
/// when none does. A hang leaves the two threads blocked for ever (the process exits at the end).
fn selftest(out: &mut Out, work: &str) {
	let kit = Kit::new(&format!("{}/st_builder", work));
	for which in ["inversion", "ordered", "reread", "reread-nowriter"] {
		let dir = format!("{}/st_{}", work, which);
		let _ = std::fs::remove_dir_all(&dir);
		let chain = Arc::new(init_chain(&dir, kit.genesis.clone()).unwrap());
		let (txc, rxc) = mpsc::channel::<usize>();
		let flag = Arc::new(AtomicBool::new(false));
		for t in 0..2usize {
			let chain = chain.clone();
			let txc = txc.clone();
			let flag = flag.clone();
			let which = which.to_string();
			std::thread::spawn(move || {
				setup_globals();
				let ts = chain.txhashset();
				let hp = chain.header_pmmr();
				match (which.as_str(), t) {
					("inversion", 0) => {
						let _g1 = ts.write();
						std::thread::sleep(Duration::from_millis(150));
						let _g2 = hp.write();
					}
					("inversion", _) | ("ordered", _) => {
						let _g1 = hp.write();
						std::thread::sleep(Duration::from_millis(150));
						let _g2 = ts.write();
					}
					("reread", 0) | ("reread-nowriter", 0) => {
						let _g1 = ts.read();
						flag.store(true, Ordering::SeqCst);
						std::thread::sleep(Duration::from_millis(300));
						let _g2 = ts.read();
					}
					("reread", _) => {
						while !flag.load(Ordering::SeqCst) {
							std::thread::yield_now();
						}
						let _g = ts.write();
					}
					_ => {
						let _g = hp.write();
					}
				}
				let _ = txc.send(t);
			});
		}
		drop(txc);
		let t0 = Instant::now();
		let mut done = 0;
		while done < 2 {
			match rxc.recv_timeout(Duration::from_millis(2500).saturating_sub(t0.elapsed()).max(Duration::from_millis(1))) {
				Ok(_) => done += 1,
				Err(_) => break,
			}
		}
		out.line(&format!("conc selftest {}", which), if done == 2 { "finished" } else { "hang" });
		out.raw(&format!("#STAT selftest:{}={}", which, if done == 2 { "finished" } else { "hang(watchdog)" }));
	}
	out.flush();
	// threads of the hanging cases are blocked for ever
	std::process::exit(0);
}

/// Regression probe for a defect this harness found and /repo repaired (`fix:` commit
/// "get_header_for_kernel_index returns TxKernelNotFound instead of looping forever"):
/// `Chain::get_header_for_kernel_index(i, None, None)` with `i` beyond the kernel MMR of the head
/// (what `get_kernel_height` passes when a reorg to a chain with fewer kernels commits between
/// its `find_kernel` under `txhashset.read()` and the header search) used to loop for ever holding
/// `header_pmmr.read()`, blocking every writer and, behind the parked writer, every new reader.
/// The calls are made under a watchdog; not returning is an oracle failure.
fn probe(out: &mut Out, work: &str) {
	let mut kit = Kit::new(&format!("{}/pb_builder", work));
	let mut tip = 0;
	for _ in 0..4 {
		tip = kit.new_block(tip, 2, &[]).unwrap();
	}
	let extra = kit.new_block(tip, 2, &[]).unwrap();
	let dir = format!("{}/pb_subject", work);
	let _ = std::fs::remove_dir_all(&dir);
	let chain = Arc::new(init_chain(&dir, kit.genesis.clone()).unwrap());
	for id in path_to(&kit, tip) {
		chain.process_block(kit.blks[id].block.clone(), Options::SKIP_POW).unwrap();
	}
	let hh = chain.head_header().unwrap();
	let size = hh.kernel_mmr_size;
	// (index, min_height, max_height): inside, at the end, beyond by 1 / far beyond, with explicit bounds
	let cases: Vec<(u64, Option<u64>, Option<u64>)> = vec![
		(size, None, None),
		(1, None, None),
		(size + 1, None, None),
		(size + 1000, None, None),
		(u64::MAX, None, None),
		(size + 1, Some(1), Some(hh.height)),
		(size + 1, Some(hh.height), Some(hh.height)),
		(0, None, None),
		(1, Some(3), Some(4)),
	];
	let mut hung = false;
	for (idx, mn, mx) in cases {
		let (txc, rxc) = mpsc::channel::<String>();
		let c2 = chain.clone();
		std::thread::spawn(move || {
			setup_globals();
			let r = std::panic::catch_unwind(AssertUnwindSafe(|| c2.get_header_for_kernel_index(idx, mn, mx)));
			let _ = txc.send(match r {
				Ok(Ok(h)) => format!("ok:h{}", h.height),
				Ok(Err(e)) => format!("err:{}", error_class(&e)),
				Err(_) => "panic".to_string(),
			});
		});
		match rxc.recv_timeout(Duration::from_secs(5)) {
			Ok(r) => {
				if r == "panic" {
					out.raw(&format!("#ORACLE-FAIL C17 get_header_for_kernel_index({}, {:?}, {:?}) panicked (kernel MMR size {}, head height {})", idx, mn, mx, size, hh.height));
				}
				out.raw(&format!("#STAT probe:get_header_for_kernel_index({},{:?},{:?}) size={} -> {}", idx, mn, mx, size, r));
			}
			Err(_) => {
				hung = true;
				out.raw(&format!(
					"#ORACLE-FAIL C17 get_header_for_kernel_index({}, {:?}, {:?}) with kernel MMR size {} at head height {} never returns (5 s) and holds header_pmmr.read()",
					idx, mn, mx, size, hh.height
				));
				break;
			}
		}
	}
	// the chain must still accept a writer and a reader afterwards
	let (txc, rxc) = mpsc::channel::<&'static str>();
	{
		let c2 = chain.clone();
		let txc = txc.clone();
		let hdr = kit.blks[extra].block.header.clone();
		std::thread::spawn(move || {
			setup_globals();
			let _ = c2.process_block_header(&hdr, Options::SKIP_POW);
			let _ = c2.get_header_by_height(0);
			let _ = txc.send("after");
		});
	}
	drop(txc);
	if rxc.recv_timeout(Duration::from_secs(5)).is_err() {
		out.raw(&format!("#ORACLE-FAIL C17 after get_header_for_kernel_index probes (hung={}) a following process_block_header / get_header_by_height(0) does not return: chain wedged", hung));
	} else {
		out.raw("#STAT probe:writer-and-reader-after-probes=returned");
	}
	out.line("conc opclass get_header_for_kernel_index", "read-hp");
	out.flush();
	std::process::exit(0);
}


// ---------------------------------------------------------------------------------------------
// run `txcount`: the open-transaction accounting of store/src/lmdb.rs (`enter_tx`, `TxCounter`,
// `maybe_resize`) under truly simultaneous use.  Phase 1: N threads each doing K short read
// transactions (`exists`, `get_ser`, now and then nested under an open iterator of the same thread)
// at the same time as a small-batch writer; all joined.  Phase 2: a writer commits 32 KiB values
// until the map (test mode: 1 MiB chunks) has been enlarged at least twice, under a 20 s watchdog;
// then reads and a batch from fresh threads.  If a single increment/decrement of
// `open_txs_count` was lost in phase 1 the counter never returns to 0: the first resize that falls
// due in phase 2 waits for ever and `Store::batch()` (`enter_tx` spinning on `resizing`) never
// returns - the watchdog reports it.  Model: Model/TxCount.lean (`count_eq_open`,
// `lost_decrement_witness` in Props/C17.lean); this run is the tie of that model to the code.
// ---------------------------------------------------------------------------------------------

/// (map size, last page, txn id) of the newest LMDB meta page (see kv.rs::meta_info)
fn lmdb_meta(dir: &str) -> Option<(u64, u64, u64)> {
	use std::io::Read;
	let p = std::path::Path::new(dir).join("multi_lmdb").join("data.mdb");
	let mut f = std::fs::File::open(p).ok()?;
	let mut buf = vec![0u8; 2 * 4096];
	f.read_exact(&mut buf).ok()?;
	let rd = |o: usize| u64::from_le_bytes(buf[o..o + 8].try_into().unwrap());
	let mut best: Option<(u64, u64, u64)> = None;
	for pg in 0..2 {
		let b = pg * 4096 + 16;
		let magic = u32::from_le_bytes(buf[b..b + 4].try_into().unwrap());
		if magic != 0xBEEFC0DE {
			continue;
		}
		let m = (rd(b + 16), rd(b + 24 + 96), rd(b + 24 + 96 + 8));
		if best.map(|x| m.2 >= x.2).unwrap_or(true) {
			best = Some(m);
		}
	}
	best
}

fn txcount(out: &mut Out, work: &str, seed: u64, thorough: bool) {
	use grin_store::Store;
	const DB: Option<u8> = Some(b'A');
	const NKEYS: u64 = 64;
	let dir = format!("{}/txcount", work);
	let _ = std::fs::remove_dir_all(&dir);
	let store = Arc::new(Store::new(&dir, None, Some("txc"), vec![b'A'], None, None).expect("Store::new"));
	let nthreads: usize = if thorough { 12 } else { 8 };
	let reads: u64 = if thorough { 1_000_000 } else { 250_000 };
	let key = |i: u64| format!("k{:03}", i).into_bytes();
	{
		let mut b = store.batch().expect("batch");
		for i in 0..NKEYS {
			if i % 2 == 0 {
				b.put(DB, &key(i), &i.to_be_bytes()).expect("put");
			}
		}
		b.commit().expect("commit");
	}
	let map0 = lmdb_meta(&dir).map(|m| m.0).unwrap_or(0);

	// ---- phase 1: readers and a small-batch writer at the same time
	let t1 = Instant::now();
	let running = Arc::new(AtomicUsize::new(nthreads));
	let gate = Arc::new(std::sync::Barrier::new(nthreads + 1));
	let (txc, rxc) = mpsc::channel::<(usize, [u64; 6])>();
	let mut handles = vec![];
	for t in 0..nthreads {
		let store = store.clone();
		let txc = txc.clone();
		let gate = gate.clone();
		let running = running.clone();
		handles.push(std::thread::spawn(move || {
			setup_globals();
			let mut rng = Rng::new(seed ^ (0x7C0 + t as u64));
			// [exists true, exists false, get some, get none, nested, errors]
			let mut c = [0u64; 6];
			gate.wait();
			for n in 0..reads {
				let k = key(rng.below(NKEYS + 8));
				if n % 1000 == 999 {
					// nested: this thread holds an iterator (one counted transaction) and reads under it
					match store.iter(DB, |k, v| Ok((k.to_vec(), v.to_vec()))) {
						Ok(mut it) => {
							let _ = it.next();
							match store.exists(DB, &k) {
								Ok(_) => c[4] += 1,
								Err(_) => c[5] += 1,
							}
							drop(it);
						}
						Err(_) => c[5] += 1,
					}
				} else if n % 2 == 0 {
					match store.exists(DB, &k) {
						Ok(true) => c[0] += 1,
						Ok(false) => c[1] += 1,
						Err(_) => c[5] += 1,
					}
				} else {
					match store.get_ser::<Vec<u8>>(DB, &k, None) {
						Ok(Some(_)) => c[2] += 1,
						Ok(None) => c[3] += 1,
						Err(_) => c[5] += 1,
					}
				}
			}
			running.fetch_sub(1, Ordering::SeqCst);
			let _ = txc.send((t, c));
		}));
	}
	drop(txc);
	let (wtx, wrx) = mpsc::channel::<(u64, u64)>();
	let wh = {
		let store = store.clone();
		let gate = gate.clone();
		let running = running.clone();
		std::thread::spawn(move || {
			setup_globals();
			let mut rng = Rng::new(seed ^ 0x77);
			let (mut commits, mut errs) = (0u64, 0u64);
			gate.wait();
			while running.load(Ordering::SeqCst) > 0 {
				match store.batch() {
					Ok(mut b) => {
						for _ in 0..rng.range(1, 3) {
							let i = rng.below(NKEYS);
							let r = if rng.chance(1, 4) {
								b.delete(DB, &key(i))
							} else {
								let n = rng.range(1, 200) as usize;
								b.put(DB, &key(i), &rng.bytes(n))
							};
							if r.is_err() {
								errs += 1;
							}
						}
						if rng.chance(9, 10) {
							if b.commit().is_err() {
								errs += 1;
							}
							commits += 1;
						}
					}
					Err(_) => errs += 1,
				}
			}
			let _ = wtx.send((commits, errs));
		})
	};
	let mut per_thread = vec![[0u64; 6]; nthreads];
	let mut joined = 0usize;
	let limit1 = Duration::from_secs(if thorough { 240 } else { 60 });
	while joined < nthreads {
		match rxc.recv_timeout(limit1.saturating_sub(t1.elapsed()).max(Duration::from_millis(1))) {
			Ok((t, c)) => {
				per_thread[t] = c;
				joined += 1;
			}
			Err(_) => break,
		}
	}
	let mut verdict = "completed".to_string();
	if joined < nthreads {
		out.raw(&format!(
			"#ORACLE-FAIL C17 txcount: only {} of {} reader threads ({} short read transactions each, concurrent with a small-batch writer) finished within {} s: the store stalled",
			joined, nthreads, reads, limit1.as_secs()
		));
		verdict = "stalled:readers".to_string();
	}
	let wres = wrx.recv_timeout(Duration::from_secs(20));
	if verdict == "completed" {
		for h in handles {
			let _ = h.join();
		}
		if wres.is_ok() {
			let _ = wh.join();
		}
	}
	let (wcommits, werrs) = match wres {
		Ok(x) => x,
		Err(_) => {
			if verdict == "completed" {
				out.raw("#ORACLE-FAIL C17 txcount: the small-batch writer running next to the readers did not finish within 20 s after them: the store stalled");
				verdict = "stalled:writer".to_string();
			}
			(0, 0)
		}
	};
	let p1_ms = t1.elapsed().as_millis();
	let sum = |i: usize| per_thread.iter().map(|c| c[i]).sum::<u64>();
	let rerrs = sum(5);
	if rerrs + werrs > 0 {
		out.raw(&format!("#ORACLE-FAIL C17 txcount: {} read operations and {} writer operations failed in phase 1", rerrs, werrs));
	}
	out.raw(&format!(
		"#STAT txcount:phase1 threads={} reads/thread={} total-read-txs={} exists(true/false)={}/{} get_ser(some/none)={}/{} nested-under-own-iterator={} read-errors={} writer-commits-meanwhile={} writer-errors={} ms={}",
		nthreads, reads, nthreads as u64 * reads, sum(0), sum(1), sum(2), sum(3), sum(4), rerrs, wcommits, werrs, p1_ms
	));
	let mins = per_thread.iter().map(|c| c.iter().take(5).sum::<u64>()).min().unwrap_or(0);
	let maxs = per_thread.iter().map(|c| c.iter().take(5).sum::<u64>()).max().unwrap_or(0);
	out.raw(&format!("#STAT txcount:phase1 completed read txs per thread min={} max={}", mins, maxs));

	// manual self-test of the watchdog path (never set by the check): leak one counted transaction
	// through the public API (an iterator that is never dropped), which is exactly the state a lost
	// decrement leaves behind - phase 2 must then be reported as stalled
	if std::env::var("TXCOUNT_SELFTEST_LEAK").is_ok() {
		let store = store.clone();
		let _ = std::thread::spawn(move || {
			setup_globals();
			if let Ok(it) = store.iter(DB, |k, v| Ok((k.to_vec(), v.to_vec()))) {
				std::mem::forget(it);
			}
		})
		.join();
		out.raw("#STAT txcount:SELFTEST one counted transaction leaked on purpose");
	}

	// ---- phase 2: push the map across its resize threshold at least twice, 20 s watchdog
	let mut sizes = vec![map0];
	let mut p2_commits = 0u64;
	let mut max_batch_ms = 0u128;
	let t2 = Instant::now();
	if verdict == "completed" {
		let (ptx, prx) = mpsc::channel::<Result<(u64, u64, u128), String>>();
		{
			let store = store.clone();
			let dir = dir.clone();
			std::thread::spawn(move || {
				setup_globals();
				let mut last = map0;
				let mut grown = 0;
				for i in 0..600u64 {
					let t0 = Instant::now();
					let mut b = match store.batch() {
						Ok(b) => b,
						Err(e) => {
							let _ = ptx.send(Err(format!("Store::batch failed at commit {}: {:?}", i, e)));
							return;
						}
					};
					let ms = t0.elapsed().as_millis();
					let v = vec![(i % 251) as u8; 32 * 1024];
					if let Err(e) = b.put(DB, format!("big{:05}", i).as_bytes(), &v) {
						let _ = ptx.send(Err(format!("put of 32 KiB failed at commit {}: {:?}", i, e)));
						return;
					}
					if let Err(e) = b.commit() {
						let _ = ptx.send(Err(format!("commit {} failed: {:?}", i, e)));
						return;
					}
					let m = lmdb_meta(&dir).map(|m| m.0).unwrap_or(last);
					let _ = ptx.send(Ok((i + 1, m, ms)));
					if m != last {
						last = m;
						grown += 1;
						if grown >= 2 {
							return;
						}
					}
				}
			});
		}
		let limit2 = Duration::from_secs(20);
		loop {
			match prx.recv_timeout(limit2.saturating_sub(t2.elapsed()).max(Duration::from_millis(1))) {
				Ok(Ok((n, m, ms))) => {
					p2_commits = n;
					max_batch_ms = max_batch_ms.max(ms);
					if m != *sizes.last().unwrap() {
						sizes.push(m);
					}
				}
				Ok(Err(e)) => {
					out.raw(&format!("#ORACLE-FAIL C17 txcount: after {} threads x {} read transactions (all joined) the growing writer failed: {} (map sizes so far {:?})", nthreads, reads, e, sizes));
					verdict = "failed:grow".to_string();
					break;
				}
				Err(mpsc::RecvTimeoutError::Disconnected) => break,
				Err(mpsc::RecvTimeoutError::Timeout) => {
					out.raw(&format!(
						"#ORACLE-FAIL C17 txcount: after {} threads x {} short read transactions concurrent with a small-batch writer (all joined, no transaction open any more), a writer committing 32 KiB values stalled: {} commits done, map sizes {:?}, then Store::batch()/commit did not return within the 20 s watchdog (a resize was due: used {:?} of the map) - the open-transaction counter did not return to 0",
						nthreads, reads, p2_commits, sizes, lmdb_meta(&dir).map(|m| m.1 * 4096)
					));
					verdict = "stalled:resize".to_string();
					break;
				}
			}
		}
		if verdict == "completed" && sizes.len() < 3 {
			out.raw(&format!("#ORACLE-FAIL C17 txcount: 600 commits of 32 KiB values enlarged the map only {} times ({:?})", sizes.len() - 1, sizes));
			verdict = "failed:no-resize".to_string();
		}
	}
	let p2_ms = t2.elapsed().as_millis();

	// ---- afterwards: every later read / batch must complete (fresh threads, 5 s watchdog)
	let mut after = "skipped";
	if verdict == "completed" {
		let (atx, arx) = mpsc::channel::<String>();
		let store2 = store.clone();
		std::thread::spawn(move || {
			setup_globals();
			let mut bad = vec![];
			match store2.exists(DB, b"big00000") {
				Ok(true) => {}
				other => bad.push(format!("exists(big00000)={:?}", other)),
			}
			match store2.get_ser::<Vec<u8>>(DB, b"big00001", None) {
				Ok(Some(v)) if v.len() == 32 * 1024 => {}
				other => bad.push(format!("get_ser(big00001)={:?}", other.map(|o| o.map(|v| v.len())))),
			}
			match store2.batch() {
				Ok(mut b) => {
					if b.put(DB, b"after", b"1").is_err() || b.commit().is_err() {
						bad.push("batch after the resizes failed".to_string());
					}
				}
				Err(e) => bad.push(format!("batch()={:?}", e)),
			}
			match store2.get_ser::<Vec<u8>>(DB, b"after", None) {
				Ok(Some(v)) if v == b"1" => {}
				other => bad.push(format!("get_ser(after)={:?}", other)),
			}
			let _ = atx.send(bad.join("; "));
		});
		match arx.recv_timeout(Duration::from_secs(5)) {
			Ok(s) if s.is_empty() => after = "ok",
			Ok(s) => {
				out.raw(&format!("#ORACLE-FAIL C17 txcount: after the resizes: {}", s));
				verdict = "failed:after".to_string();
				after = "wrong";
			}
			Err(_) => {
				out.raw("#ORACLE-FAIL C17 txcount: after the resizes a read / batch from a fresh thread does not return within 5 s");
				verdict = "stalled:after".to_string();
				after = "stalled";
			}
		}
	}
	out.raw(&format!(
		"#STAT txcount:phase2 commits-of-32KiB={} map-sizes={:?} resizes={} max-ms-in-Store::batch()={} ms={} watchdog=20s; reads-and-batch-afterwards={}",
		p2_commits, sizes, sizes.len() - 1, max_batch_ms, p2_ms, after
	));
	out.line(&format!("conc txcount threads={} reads={} seed={}", nthreads, reads, seed), &verdict);
	out.flush();
	// a stalled store leaves threads blocked for ever
	std::process::exit(0);
}


// ---------------------------------------------------------------------------------------------
// run `segcache`: `Chain::segmenter()` keeps a cached Segmenter (`pibd_segmenter`) keyed by the
// archive header, which is derived from the head HEIGHT.  Main chain of 30 blocks (a transaction
// spending the genesis coinbase at height 7, random ones later), archive height 10; the cache is
// populated; a fork rooted at height 5 - below the archive header, a reorg deeper than the
// state-sync threshold 20 - with the same work per height and a heavier last block (it overtakes
// only with its last block, height 30: the archive HEIGHT stays 10, the archive HEADER changes) is
// delivered by one thread while a second one calls `segmenter()` in a loop and a third one checks
// the reader invariants.  After the joins: `segmenter().header()` == `get_header_by_height(10)` ==
// `txhashset_archive_header()` == the fork's block 10, and a fresh node is state-synced from the
// segments the (cached) segmenter serves, at small segment heights: every bitmap / output /
// rangeproof / kernel segment must be accepted by the receiving node's desegmenter, i.e. validate
// against the CURRENT archive header's roots, and the assembled state must have those roots.
// ---------------------------------------------------------------------------------------------
fn segcache(out: &mut Out, work: &str, seed: u64, thorough: bool) {
	use grin_chain::pibd_params::verif_hooks::set_segment_heights;
	use grin_chain::types::SyncState;
	use grin_core::core::pmmr::segment::SegmentType;
	use grin_util::StopState;
	let rounds = if thorough { 3 } else { 1 };
	let mut stats: BTreeMap<String, u64> = BTreeMap::new();
	let mut rng = Rng::new(seed ^ 0x5E6C);
	for round in 0..rounds {
		let tag = format!("#ORACLE-FAIL C17 segcache round={} seed={}:", round, seed);
		let kit = Kit::new(&format!("{}/sc_builder{}", work, round));
		let mut b = Builder { kit, states: BTreeMap::new(), stats: BTreeMap::new(), reserved: Default::default() };
		let mut s0 = BTreeMap::new();
		s0.insert(0usize, (0u64, true));
		b.states.insert(0, s0);
		let fork_h = 5u64;
		let top = 30u64;
		let diff = 3u64;
		// --- main chain
		let mut main = vec![0usize];
		let mut tip = 0usize;
		for h in 1..=top {
			let id = if h == 7 {
				// the early spend: the genesis coinbase (only on the main chain)
				let v = b.kit.outs[0].value;
				let specs = vec![TxSpec { inputs: vec![0], outputs: vec![(v / 3, None), (v - v / 3 - 2, None)], kernel: KSpec::Plain(2) }];
				match b.kit.new_block(tip, diff, &specs) {
					Ok(id) => {
						let st = state_after(&b.kit, &b.states[&tip], &b.kit.blks[id].block);
						b.states.insert(id, st);
						Some(id)
					}
					Err(_) => b.add(&mut rng, tip, diff, 0),
				}
			} else {
				b.add(&mut rng, tip, diff, if h > 7 { 1 } else { 0 })
			};
			match id {
				Some(id) => {
					tip = id;
					main.push(id);
				}
				None => panic!("segcache: cannot build the main chain"),
			}
		}
		// --- the fork: same work per height, heavier last block; other transactions
		let mut fork: Vec<usize> = vec![];
		let mut ftip = main[fork_h as usize];
		for h in (fork_h + 1)..=top {
			let d = if h == top { diff + rng.range(1, 3) } else { diff };
			match b.add(&mut rng, ftip, d, if h % 3 == 0 { 1 } else { 0 }) {
				Some(id) => {
					ftip = id;
					fork.push(id);
				}
				None => panic!("segcache: cannot build the fork"),
			}
		}
		let kit = &b.kit;
		let work_main = kit.blks[tip].work;
		for (i, id) in fork.iter().enumerate() {
			let overtakes = kit.blks[*id].work > work_main;
			if overtakes != (i + 1 == fork.len()) {
				out.raw(&format!("#STAT segcache:WARNING fork block {} of {} overtakes={} (scenario not as intended)", i + 1, fork.len(), overtakes));
			}
		}
		// --- describe the tree, feed the main chain
		out.raw("chain reset");
		for l in kit.out_lines(0) {
			out.raw(&l);
		}
		for id in 0..kit.blks.len() {
			out.raw(&kit.blk_line(id));
		}
		let name = format!("sg{}", round);
		let subj = Subject::new(&format!("{}/sc_subject{}", work, round), &kit.genesis);
		out.raw(&format!("chain new {}", name));
		for id in main[1..].iter() {
			let r = subj.deliver_block(&kit.blks[*id].block);
			out.line(&format!("chain deliver {} b{}", name, id), &r);
		}
		let archive_h = 10u64;
		let main10 = kit.blks[main[archive_h as usize]].block.header.clone();
		let fork10 = kit.blks[fork[(archive_h - fork_h - 1) as usize]].block.header.clone();
		assert!(fork10.height == archive_h && main10.hash() != fork10.hash());
		// --- populate the cache
		let mut pre_valid = false;
		match subj.c().segmenter() {
			Ok(sg) => {
				match bitmap_segment_ok(&sg, sg.header()) {
					Ok(()) => pre_valid = true,
					Err(e) => out.raw(&format!("{} before the reorg the bitmap segment served by segmenter() does not validate against its own header: {}", tag, e)),
				}
				if sg.header().hash() != main10.hash() {
					out.raw(&format!("{} before the reorg segmenter().header() is at height {} hash {} but the archive header is the main chain's block 10", tag, sg.header().height, sg.header().hash()));
				}
				let _ = sg.kernel_segment(SegmentIdentifier { height: 1, idx: 0 });
			}
			Err(e) => out.raw(&format!("{} segmenter() failed before the reorg: {}", tag, error_class(&e))),
		}
		// --- concurrent phase
		let subj = Arc::new(subj);
		let done = Arc::new(AtomicBool::new(false));
		let (txc, rxc) = mpsc::channel::<(usize, Vec<String>, Vec<String>)>();
		{
			// T0: the fork, in order
			let subj = subj.clone();
			let done = done.clone();
			let txc = txc.clone();
			let blocks: Vec<Block> = fork.iter().map(|i| kit.blks[*i].block.clone()).collect();
			std::thread::spawn(move || {
				setup_globals();
				let mut res = vec![];
				let mut bad = vec![];
				for blk in blocks {
					let r = std::panic::catch_unwind(AssertUnwindSafe(|| subj.deliver_block(&blk)));
					match r {
						Ok(s) => res.push(s),
						Err(_) => {
							bad.push(format!("process_block of fork block at height {} panicked", blk.header.height));
							res.push("panic".into());
						}
					}
					std::thread::yield_now();
				}
				done.store(true, Ordering::SeqCst);
				let _ = txc.send((0, res, bad));
			});
		}
		{
			// T1: segmenter() in a loop
			let subj = subj.clone();
			let done = done.clone();
			let txc = txc.clone();
			let (m10, f10) = (main10.hash(), fork10.hash());
			std::thread::spawn(move || {
				setup_globals();
				let mut seen: Vec<String> = vec![];
				let mut bad = vec![];
				let mut n = 0u64;
				loop {
					let fin = done.load(Ordering::SeqCst);
					let r = std::panic::catch_unwind(AssertUnwindSafe(|| {
						subj.c().segmenter().map(|sg| {
							let h = sg.header().hash();
							let k = sg.kernel_segment(SegmentIdentifier { height: 1, idx: 0 }).is_ok();
							let bm = sg.bitmap_segment(SegmentIdentifier { height: 0, idx: 0 }).is_ok();
							(h, sg.header().height, k, bm)
						})
					}));
					n += 1;
					match r {
						Ok(Ok((h, height, _k, _bm))) => {
							let who = if h == m10 {
								"main10"
							} else if h == f10 {
								"fork10"
							} else {
								bad.push(format!("segmenter().header() is neither chain's block 10: height {} hash {}", height, h));
								"other"
							};
							if seen.last().map(|s| s.as_str()) != Some(who) {
								seen.push(who.to_string());
							}
						}
						Ok(Err(e)) => bad.push(format!("segmenter() failed during the reorg: {}", error_class(&e))),
						Err(_) => bad.push("segmenter() panicked during the reorg".to_string()),
					}
					if fin {
						break;
					}
				}
				seen.push(format!("calls={}", n));
				let _ = txc.send((1, seen, bad));
			});
		}
		{
			// T2: reader invariants
			let subj = subj.clone();
			let done = done.clone();
			let txc = txc.clone();
			std::thread::spawn(move || {
				setup_globals();
				let mut bad = vec![];
				let mut last_work = 0u64;
				let mut n = 0u64;
				while !done.load(Ordering::SeqCst) {
					let r = std::panic::catch_unwind(AssertUnwindSafe(|| {
						let h = subj.c().head().unwrap();
						let stored = subj.c().get_block(&h.last_block_h).is_ok();
						let by_height = subj.c().get_header_by_height(h.height).map(|x| x.height).unwrap_or(u64::MAX);
						(h.total_difficulty.to_num(), h.height, stored, by_height)
					}));
					n += 1;
					match r {
						Ok((w, height, stored, _)) => {
							if !stored {
								bad.push(format!("head at height {} names a block that is not stored", height));
							}
							if w < last_work {
								bad.push(format!("head work decreased {} -> {}", last_work, w));
							}
							last_work = w;
						}
						Err(_) => bad.push("a reader panicked".to_string()),
					}
					std::thread::yield_now();
				}
				let _ = txc.send((2, vec![format!("reads={}", n)], bad));
			});
		}
		drop(txc);
		let mut fork_res: Vec<String> = vec![];
		for _ in 0..3 {
			match rxc.recv_timeout(Duration::from_secs(if thorough { 180 } else { 90 })) {
				Ok((i, res, bad)) => {
					for m in bad {
						out.raw(&format!("{} {}", tag, m));
					}
					match i {
						0 => fork_res = res,
						1 => {
							*stats.entry(format!("segcache:segmenter-headers-seen={}", res.join(">"))).or_insert(0) += 1;
						}
						_ => {
							*stats.entry(format!("segcache:reader:{}", res.join(","))).or_insert(0) += 1;
						}
					}
				}
				Err(_) => {
					out.raw(&format!("{} the threads (fork delivery / segmenter() loop / reader) do not finish", tag));
					out.flush();
					std::process::exit(0);
				}
			}
		}
		for (i, id) in fork.iter().enumerate() {
			out.line(&format!("chain deliver {} b{}", name, id), fork_res.get(i).map(|s| s.as_str()).unwrap_or("missing"));
		}
		let c = subj.c();
		out.line(&format!("chain obs {}", name), &subj.obs(kit));
		let head = c.head().unwrap();
		if kit.bid(&head.last_block_h) != format!("b{}", ftip) {
			out.raw(&format!("{} head after the deep reorg is {} not the fork tip b{}", tag, kit.bid(&head.last_block_h), ftip));
		}
		// --- the three views of the archive header
		let ah = c.txhashset_archive_header();
		let bh = c.get_header_by_height(archive_h);
		let sh = c.segmenter().map(|sg| sg.header().clone());
		match (&ah, &bh, &sh) {
			(Ok(a), Ok(bb), Ok(sg)) => {
				if a.hash() != fork10.hash() || bb.hash() != fork10.hash() || sg.hash() != fork10.hash() {
					let nm = |h: &BlockHeader| if h.hash() == fork10.hash() { "fork block 10".to_string() } else if h.hash() == main10.hash() { "MAIN chain block 10 (reorged out)".to_string() } else { format!("height {} {}", h.height, h.hash()) };
					out.raw(&format!(
						"{} after the reorg to the fork (archive height still {}): txhashset_archive_header() = {}, get_header_by_height({}) = {}, segmenter().header() = {}",
						tag, archive_h, nm(a), archive_h, nm(bb), nm(sg)
					));
				} else {
					*stats.entry("segcache:three-views-agree".into()).or_insert(0) += 1;
				}
			}
			_ => out.raw(&format!("{} archive header views failed: {:?} {:?} {:?}", tag, ah.as_ref().map(|h| h.height).map_err(error_class), bh.as_ref().map(|h| h.height).map_err(error_class), sh.as_ref().map(|h| h.height).map_err(error_class))),
		}
		// --- the known defect (see `segcache_probe`): a segmenter() call that fell between the header
		// step and the body step of the reorging block has cached a segmenter for the right header
		// with the wrong bitmap snapshot.  Recognised by: pre-reorg segmenter valid, header now the
		// right one, its bitmap segment invalid.  Reported as a probe of that finding; the state sync
		// from this cache is then pointless and skipped.
		let views_ok = matches!((&ah, &bh, &sh), (Ok(a), Ok(bb), Ok(sg)) if a.hash() == fork10.hash() && bb.hash() == fork10.hash() && sg.hash() == fork10.hash());
		if views_ok && pre_valid {
			if let Ok(sg) = c.segmenter() {
				if let Err(e) = bitmap_segment_ok(&sg, sg.header()) {
					out.raw(&format!(
						"#KNOWN-PROBE C17 segmenter-cache-poisoned-header-ahead: segcache round {} (by timing): a segmenter() call of the looping thread fell between the header step and the body step of the reorging fork block; the cached segmenter has the current archive header (fork block 10) but its bitmap segment does not validate against it: {}",
						round, e
					));
					*stats.entry("segcache:KNOWN-DEFECT cache poisoned by a call in the header-ahead window (state sync skipped)".into()).or_insert(0) += 1;
					out.flush();
					continue;
				}
			}
		}
		// --- state sync of a fresh node from the segments the segmenter serves
		let dest = Subject::new(&format!("{}/sc_dest{}", work, round), &kit.genesis);
		let mut path: Vec<usize> = main[1..=(fork_h as usize)].to_vec();
		path.extend(fork.iter().cloned());
		let headers: Vec<BlockHeader> = path.iter().map(|i| kit.blks[*i].block.header.clone()).collect();
		let r = dest.sync_headers(&headers);
		if r != "ok" {
			out.raw(&format!("{} harness: header sync of the receiving node failed: {}", tag, r));
			continue;
		}
		let ah2 = dest.c().txhashset_archive_header_header_only().unwrap();
		if ah2.hash() != fork10.hash() {
			out.raw(&format!("{} harness: the receiving node's archive header is not the fork's block 10", tag));
			continue;
		}
		set_segment_heights(Some((0, 2, 2, 1)));
		let deseg = dest.c().desegmenter(&ah2).unwrap();
		let mut complete = false;
		let mut served: BTreeMap<&'static str, u64> = BTreeMap::new();
		let mut rejected = 0u64;
		for _round in 0..80 {
			let wanted: Vec<(SegmentType, SegmentIdentifier)> = match deseg.write().as_mut() {
				Some(d) => d.next_desired_segments(12).iter().map(|x| (x.segment_type.clone(), x.identifier)).collect(),
				None => vec![],
			};
			for (t, id) in wanted {
				// always through Chain::segmenter(): the cache is what is under test
				let sg = match c.segmenter() {
					Ok(sg) => sg,
					Err(e) => {
						out.raw(&format!("{} segmenter() failed after the reorg: {}", tag, error_class(&e)));
						break;
					}
				};
				let mut guard = deseg.write();
				let d = match guard.as_mut() {
					Some(d) => d,
					None => break,
				};
				let (kind, res): (&'static str, Result<(), String>) = match t {
					SegmentType::Bitmap => ("bitmap", match sg.bitmap_segment(id) {
						Ok((seg, root)) => d.add_bitmap_segment(seg, root).map_err(|e| error_class(&e)),
						Err(e) => Err(format!("not served: {}", error_class(&e))),
					}),
					SegmentType::Output => ("output", match sg.output_segment(id) {
						Ok((seg, root)) => d.add_output_segment(seg, Some(root)).map_err(|e| error_class(&e)),
						Err(e) => Err(format!("not served: {}", error_class(&e))),
					}),
					SegmentType::RangeProof => ("rangeproof", match sg.rangeproof_segment(id) {
						Ok(seg) => d.add_rangeproof_segment(seg).map_err(|e| error_class(&e)),
						Err(e) => Err(format!("not served: {}", error_class(&e))),
					}),
					SegmentType::Kernel => ("kernel", match sg.kernel_segment(id) {
						Ok(seg) => d.add_kernel_segment(seg).map_err(|e| error_class(&e)),
						Err(e) => Err(format!("not served: {}", error_class(&e))),
					}),
				};
				*served.entry(kind).or_insert(0) += 1;
				if let Err(e) = res {
					rejected += 1;
					if rejected <= 4 {
						out.raw(&format!(
							"{} the {} segment ({},{}) served by Chain::segmenter() (its header: height {} {}) does not validate against the current archive header (height {} {}): {}",
							tag, kind, id.height, id.idx, sg.header().height, sg.header().hash(), ah2.height, ah2.hash(), e
						));
					}
				}
			}
			let mut guard = deseg.write();
			if let Some(d) = guard.as_mut() {
				match std::panic::catch_unwind(AssertUnwindSafe(|| d.apply_next_segments())) {
					Ok(_) => {}
					Err(_) => out.raw(&format!("{} apply_next_segments panicked", tag)),
				}
				complete = matches!(d.check_progress(Arc::new(SyncState::new())), Ok(true));
			}
			if complete || rejected > 0 {
				break;
			}
		}
		set_segment_heights(None);
		let sv: Vec<String> = served.iter().map(|(k, v)| format!("{}={}", k, v)).collect();
		*stats.entry(format!("segcache:segments-served {}", sv.join(" "))).or_insert(0) += 1;
		let mut verdict = "ok".to_string();
		if rejected > 0 {
			verdict = "stale-segments".to_string();
		} else if !complete {
			out.raw(&format!("{} the receiving node's desegmenter is not complete after 80 rounds (served {:?})", tag, served));
			verdict = "incomplete".to_string();
		} else {
			if let Some(d) = deseg.read().as_ref() {
				if let Err(e) = d.check_update_leaf_set_state() {
					out.raw(&format!("{} check_update_leaf_set_state failed: {}", tag, error_class(&e)));
				}
			}
			let fin = {
				let guard = deseg.read();
				let d = guard.as_ref().unwrap();
				std::panic::catch_unwind(AssertUnwindSafe(|| d.validate_complete_state(Arc::new(SyncState::new()), Arc::new(StopState::new()))))
			};
			match fin {
				Ok(Ok(())) => {}
				Ok(Err(e)) => {
					out.raw(&format!("{} the state assembled from the served segments does not validate: {}", tag, error_class(&e)));
					verdict = "invalid-state".to_string();
				}
				Err(_) => {
					out.raw(&format!("{} validate_complete_state panicked", tag));
					verdict = "panic".to_string();
				}
			}
			let roots_ok = dest.c().txhashset().read().roots().map(|r| r.validate(&ah2).is_ok()).unwrap_or(false);
			if !roots_ok {
				out.raw(&format!("{} the state assembled from the served segments has other roots than the current archive header", tag));
				verdict = "wrong-roots".to_string();
			}
		}
		if let Err(e) = c.validate(false) {
			out.raw(&format!("{} validate(false) of the serving node fails after the deep reorg: {}", tag, error_class(&e)));
		}
		out.line(&format!("conc segcache round={} archive_height={} fork_from={} top={}", round, archive_h, fork_h, top), &verdict);
		*stats.entry(format!("segcache:fork-deliveries fork={} head={}", fork_res.iter().filter(|r| *r == "ok:fork").count(), fork_res.iter().filter(|r| *r == "ok:head").count())).or_insert(0) += 1;
		out.flush();
	}
	for (k, v) in &stats {
		out.raw(&format!("#STAT {}={}", k, v));
	}
	out.flush();
}


/// validate a bitmap segment the way the desegmenter does, against `header`
fn bitmap_segment_ok(sg: &grin_chain::txhashset::Segmenter, header: &BlockHeader) -> Result<(), String> {
	let n_leaves = grin_core::core::pmmr::n_leaves(header.output_mmr_size);
	let n_chunks = (n_leaves + 1023) / 1024;
	let bitmap_mmr_size = 2 * n_chunks - (n_chunks.count_ones() as u64);
	match sg.bitmap_segment(SegmentIdentifier { height: 0, idx: 0 }) {
		Ok((seg, out_root)) => seg
			.validate_with(bitmap_mmr_size, None, header.output_root, header.output_mmr_size, out_root, true)
			.map_err(|e| format!("{:?}", e)),
		Err(e) => Err(format!("not served: {}", error_class(&e))),
	}
}

/// Deterministic, single-threaded reproduction of what the concurrent part of `segcache` hits by
/// timing: the HEADER chain is ahead of the body on another fork (header-first delivery of the last
/// fork block; the same state exists inside process_block between its header step and its body
/// step) when `segmenter()` is called.
fn segcache_probe(out: &mut Out, work: &str, seed: u64) {
	let mut rng = Rng::new(seed ^ 0x9B0B);
	let kit = Kit::new(&format!("{}/sp_builder", work));
	let mut b = Builder { kit, states: BTreeMap::new(), stats: BTreeMap::new(), reserved: Default::default() };
	let mut s0 = BTreeMap::new();
	s0.insert(0usize, (0u64, true));
	b.states.insert(0, s0);
	let (fork_h, top, diff) = (5u64, 30u64, 3u64);
	let mut main = vec![0usize];
	let mut tip = 0usize;
	for h in 1..=top {
		let id = if h == 7 {
			let v = b.kit.outs[0].value;
			let specs = vec![TxSpec { inputs: vec![0], outputs: vec![(v - 2, None)], kernel: KSpec::Plain(2) }];
			b.kit.new_block(tip, diff, &specs).ok().map(|id| {
				let st = state_after(&b.kit, &b.states[&tip], &b.kit.blks[id].block);
				b.states.insert(id, st);
				id
			})
		} else {
			b.add(&mut rng, tip, diff, 0)
		};
		tip = id.expect("probe main chain");
		main.push(tip);
	}
	let mut fork = vec![];
	let mut ftip = main[fork_h as usize];
	for h in (fork_h + 1)..=top {
		ftip = b.add(&mut rng, ftip, if h == top { diff + 1 } else { diff }, 0).expect("probe fork");
		fork.push(ftip);
	}
	let kit = &b.kit;
	let subj = Subject::new(&format!("{}/sp_subject", work), &kit.genesis);
	for id in main[1..].iter().chain(fork[..fork.len() - 1].iter()) {
		let _ = subj.deliver_block(&kit.blks[*id].block);
	}
	let c = subj.c();
	let main10 = kit.blks[main[10]].block.header.clone();
	let fork10 = kit.blks[fork[(10 - fork_h - 1) as usize]].block.header.clone();
	let last = &kit.blks[*fork.last().unwrap()].block;
	let nm = |h: &BlockHeader| {
		if h.hash() == fork10.hash() {
			"fork-block-10"
		} else if h.hash() == main10.hash() {
			"main-block-10"
		} else {
			"other"
		}
	};
	let s1 = c.segmenter().map(|sg| (nm(sg.header()), bitmap_segment_ok(&sg, sg.header())));
	// header first: the header chain moves to the fork, the body stays on the main chain
	let hr = subj.deliver_header(&last.header);
	let body_head = kit.bid(&c.head().unwrap().last_block_h);
	let ah = c.txhashset_archive_header().map(|h| nm(&h));
	let s2 = c.segmenter().map(|sg| (nm(sg.header()), bitmap_segment_ok(&sg, sg.header())));
	// the body follows
	let br = subj.deliver_block(last);
	let ah3 = c.txhashset_archive_header();
	let s3 = c.segmenter().map(|sg| (nm(sg.header()), bitmap_segment_ok(&sg, sg.header())));
	let show = |s: &Result<(&str, Result<(), String>), grin_chain::Error>| match s {
		Ok((h, v)) => format!("header={} bitmap-segment={}", h, match v { Ok(()) => "valid".to_string(), Err(e) => format!("INVALID({})", e) }),
		Err(e) => format!("err:{}", error_class(e)),
	};
	out.raw(&format!(
		"#STAT segcache:probe main chain 30 delivered, fork 6..29 delivered: segmenter() {}; header of fork block 30 alone ({}): body head {} txhashset_archive_header()={:?} segmenter() {}; then the block itself ({}): txhashset_archive_header()={} segmenter() {}",
		show(&s1), hr, body_head, ah.as_ref().map_err(error_class), show(&s2), br,
		ah3.as_ref().map(|h| nm(h)).unwrap_or("err"), show(&s3)
	));
	let poisoned = matches!(&s3, Ok((h, Err(_))) if *h == "fork-block-10");
	let mixed = matches!(&s2, Ok((_, Err(_))));
	let pre_ok = matches!(&s1, Ok((h, Ok(()))) if *h == "main-block-10");
	if !pre_ok {
		out.raw(&format!("#ORACLE-FAIL C17 segcache probe: before any header of a heavier fork is known segmenter() answers {}", show(&s1)));
	} else if !matches!(&s3, Ok((h, _)) if *h == "fork-block-10") {
		out.raw(&format!("#ORACLE-FAIL C17 segcache probe: after the reorg to the fork segmenter() answers {} (archive header: fork block 10)", show(&s3)));
	} else if poisoned || mixed {
		out.raw(&format!(
			"#KNOWN-PROBE C17 segmenter-cache-poisoned-header-ahead: segcache probe (single thread): main chain of 30 blocks (genesis coinbase spent at height 7), fork from height 5 delivered up to height 29 (no reorg), then ONLY THE HEADER of fork block 30 (more work: the header chain switches to the fork, the body head stays {}): txhashset_archive_header() answers {:?} (the header MMR's block 10, not an ancestor of the body head) and segmenter() builds and CACHES a segmenter for it from the main chain's txhashset ({}); after the block itself arrives ({}) segmenter() keeps serving that cached one: {} - a bitmap segment that does not validate against the archive header it is cached under",
			body_head, ah.as_ref().map_err(error_class), show(&s2), br, show(&s3)
		));
	}
}


// ---------------------------------------------------------------------------------------------
// run `nestread` (C17, deadlock clause): a thread that holds an OUTER open transaction on the store
// (an iterator, a batch, a child batch) performs 2..4 CONSECUTIVE nested reads (`get_ser`, `exists`,
// a complete nested iteration) while another thread's `batch()` has found the environment above its
// resize threshold and scheduled a resize - which waits for all open transactions and blocks new
// ones except on threads that already hold one.  Nested read #1 ends (its TxCounter is dropped)
// and read #2 starts with the outer transaction still open and the resize still pending: the
// thread must still count as inside a transaction.  Every history runs under a 10 s watchdog; one
// that does not complete is `#ORACLE-FAIL C17 deadlock …`.  The real chain has this shape
// (validate_tx on an NRD kernel -> extending_readonly -> head() then get_block_header()).
//   outer = iter : the resize request of the other thread falls before read #1 / between #1 and
//                  #2 / after #2;
//   outer = batch / child : the environment cannot pass the threshold while a batch is open, so the
//                  request necessarily precedes read #1: `before` = the other thread requests while
//                  this thread holds a helper iterator, then this thread's batch() (guard busy) and the
//                  helper is dropped; `between` / `after` = this thread's own batch() is the (deferred)
//                  request under the helper iterator, which is dropped before read #1 / between #1
//                  and #2, and the other thread's batch() arrives (guard busy) after read #1.
// ---------------------------------------------------------------------------------------------
fn nestread(out: &mut Out, work: &str, seed: u64, thorough: bool) {
	use grin_store::Store;
	const DB: Option<u8> = Some(b'A');
	let outers = ["iter", "batch", "child"];
	let nesteds = ["get", "exists", "iter"];
	let pendings = ["before", "between", "after"];
	let mut cases: Vec<(&str, &str, usize, &str)> = vec![];
	let mut k = 0usize;
	for o in outers {
		for nd in nesteds {
			for pd in pendings {
				if thorough {
					for n in 2..=4 {
						cases.push((o, nd, n, pd));
					}
				} else {
					cases.push((o, nd, 2 + (k + k / 3) % 3, pd));
					k += 1;
				}
			}
		}
	}
	let mut stats: BTreeMap<String, u64> = BTreeMap::new();
	let mut stalled = false;
	for (idx, (outer, nested, n, pending)) in cases.iter().enumerate() {
		let dir = format!("{}/nr{}", work, idx);
		let _ = std::fs::remove_dir_all(&dir);
		let store = Arc::new(Store::new(&dir, None, Some("nr"), vec![b'A'], None, None).expect("Store::new"));
		// fill above the threshold (two batches: a batch has to fit the free part of the map)
		for half in 0..2u8 {
			let mut b = store.batch().expect("batch");
			for i in 0..4u8 {
				b.put(DB, format!("f{}", half * 4 + i).as_bytes(), &vec![half * 4 + i; 117_000]).expect("fill put");
			}
			b.commit().expect("fill commit");
		}
		let mut extra = 0u8;
		loop {
			let m = lmdb_meta(&dir).unwrap_or((1, 0, 0));
			if m.1 * 4096 * 10 > 9 * m.0 || extra > 12 {
				break;
			}
			let mut b = store.batch().expect("batch");
			b.put(DB, format!("x{}", extra).as_bytes(), &vec![extra; 10_000]).expect("fill put");
			b.commit().expect("fill commit");
			extra += 1;
		}
		let before = lmdb_meta(&dir).unwrap_or((0, 0, 0));
		if !(before.1 * 4096 * 10 > 9 * before.0) {
			out.raw(&format!("#STAT nestread:WARNING case {} not above the threshold ({:?})", idx, before));
		}
		let (txc, rxc) = mpsc::channel::<Result<(Vec<String>, u128), String>>();
		{
			let store = store.clone();
			let (outer, nested, n, pending) = (outer.to_string(), nested.to_string(), *n, pending.to_string());
			std::thread::spawn(move || {
				setup_globals();
				let r = std::panic::catch_unwind(AssertUnwindSafe(|| -> Result<(Vec<String>, u128), String> {
					let mut seq: Vec<String> = vec![];
					let (t2tx, t2rx) = mpsc::channel::<Result<u128, String>>();
					// the other thread's batch(): blocks until this thread has closed everything
					let spawn_t2 = |store: Arc<Store>, t2tx: mpsc::Sender<Result<u128, String>>| {
						std::thread::spawn(move || {
							setup_globals();
							let t0 = Instant::now();
							let r = (|| -> Result<u128, String> {
								let mut b = store.batch().map_err(|e| format!("batch: {:?}", e))?;
								let ms = t0.elapsed().as_millis();
								b.put(DB, b"t2", &vec![0x77u8; 20_000]).map_err(|e| format!("put: {:?}", e))?;
								b.commit().map_err(|e| format!("commit: {:?}", e))?;
								Ok(ms)
							})();
							let _ = t2tx.send(r);
						});
						std::thread::sleep(Duration::from_millis(40));
					};
					let read = |seq: &mut Vec<String>, i: usize| -> Result<(), String> {
						let key = format!("f{}", (i * 3) % 8);
						match nested.as_str() {
							"get" => match store.get_ser::<Vec<u8>>(DB, key.as_bytes(), None) {
								Ok(Some(v)) if v.len() == 117_000 => {}
								other => return Err(format!("nested get_ser #{} = {:?}", i, other.map(|o| o.map(|v| v.len())))),
							},
							"exists" => match store.exists(DB, key.as_bytes()) {
								Ok(true) => {}
								other => return Err(format!("nested exists #{} = {:?}", i, other)),
							},
							_ => match store.iter(DB, |k, v| Ok((k.to_vec(), v.len()))) {
								Ok(it) => {
									let cnt = it.filter(|x| x.is_ok()).count();
									if cnt < 8 {
										return Err(format!("nested iteration #{} yields {} entries", i, cnt));
									}
								}
								Err(e) => return Err(format!("nested iter #{}: {:?}", i, e)),
							},
						}
						seq.push("e0".into());
						seq.push("l0".into());
						Ok(())
					};
					let mut t2_spawned = false;
					if outer == "iter" {
						let o = store.iter(DB, |k, v| Ok((k.to_vec(), v.len()))).map_err(|e| format!("outer iter: {:?}", e))?;
						seq.push("e0".into());
						if pending == "before" {
							spawn_t2(store.clone(), t2tx.clone());
							t2_spawned = true;
							seq.push("q".into());
						}
						for i in 1..=n {
							read(&mut seq, i)?;
							if (i == 1 && pending == "between") || (i == 2 && pending == "after") {
								spawn_t2(store.clone(), t2tx.clone());
								t2_spawned = true;
								seq.push("q".into());
							}
						}
						drop(o);
						seq.push("l0".into());
					} else {
						let h = store.iter(DB, |k, v| Ok((k.to_vec(), v.len()))).map_err(|e| format!("helper iter: {:?}", e))?;
						let mut h = Some(h);
						seq.push("e0".into());
						if pending == "before" {
							spawn_t2(store.clone(), t2tx.clone());
							t2_spawned = true;
							seq.push("q".into());
						}
						let mut b = store.batch().map_err(|e| format!("outer batch: {:?}", e))?;
						if pending != "before" {
							seq.push("q".into());
						}
						seq.push("e0".into());
						b.put(DB, b"own", &vec![0x11u8; 5_000]).map_err(|e| format!("put: {:?}", e))?;
						if pending != "after" {
							drop(h.take());
							seq.push("l0".into());
						}
						{
							let mut child = if outer == "child" { Some(b.child().map_err(|e| format!("child: {:?}", e))?) } else { None };
							if let Some(c) = child.as_mut() {
								c.put(DB, b"own-child", &vec![0x22u8; 3_000]).map_err(|e| format!("child put: {:?}", e))?;
							}
							for i in 1..=n {
								read(&mut seq, i)?;
								if i == 1 {
									if pending == "after" {
										drop(h.take());
										seq.push("l0".into());
									}
									if !t2_spawned {
										// arrives while the resize is pending: guard busy, it waits
										spawn_t2(store.clone(), t2tx.clone());
										t2_spawned = true;
									}
								}
							}
							if let Some(c) = child.take() {
								c.commit().map_err(|e| format!("child commit: {:?}", e))?;
							}
						}
						b.commit().map_err(|e| format!("outer commit: {:?}", e))?;
						seq.push("l0".into());
					}
					let _ = t2_spawned;
					drop(t2tx);
					seq.push("w".into());
					// the other thread's batch can run now
					let ms = match t2rx.recv_timeout(Duration::from_secs(8)) {
						Ok(Ok(ms)) => ms,
						Ok(Err(e)) => return Err(format!("the other thread's batch failed: {}", e)),
						Err(_) => return Err("STALL: the other thread's batch() does not return although every transaction is closed".to_string()),
					};
					seq.push("e1".into());
					seq.push("l1".into());
					Ok((seq, ms))
				}));
				let _ = txc.send(match r {
					Ok(x) => x,
					Err(_) => Err("panic".to_string()),
				});
			});
		}
		let label = format!("outer={} nested={} n={} pending={}", outer, nested, n, pending);
		match rxc.recv_timeout(Duration::from_secs(10)) {
			Ok(Ok((seq, ms))) => {
				let after = lmdb_meta(&dir).unwrap_or((0, 0, 0));
				if after.0 <= before.0 {
					out.raw(&format!("#ORACLE-FAIL C17 nestread {}: everything returned but the map was not enlarged ({} -> {}) although the other thread's batch() found it above the threshold", label, before.0, after.0));
				}
				if ms < 30 {
					out.raw(&format!("#ORACLE-FAIL C17 nestread {}: the other thread's batch() returned after {} ms, before this thread had closed its outer transaction (a resize was due)", label, ms));
				}
				*stats.entry(format!("nestread:completed outer={} pending={}", outer, pending)).or_insert(0) += 1;
				*stats.entry(format!("nestread:nested={} n={}", nested, n)).or_insert(0) += 1;
				out.line(&format!("conc nestread {} sched={}", label, seq.join(",")), "completed:resizes=1");
			}
			Ok(Err(e)) => {
				if e.starts_with("STALL") {
					stalled = true;
					out.raw(&format!("#ORACLE-FAIL C17 deadlock nestread {}: {}", label, e));
				} else {
					out.raw(&format!("#ORACLE-FAIL C17 nestread {}: {}", label, e));
				}
				out.line(&format!("conc nestread {} sched=e0", label), "failed");
			}
			Err(_) => {
				stalled = true;
				out.raw(&format!(
					"#ORACLE-FAIL C17 deadlock nestread {}: a thread holding an outer {} performs {} consecutive nested {} reads while another thread's batch() has scheduled a resize (request {} the first read): the history does not complete within 10 s - a nested read waits for the resize that waits for this thread's outer transaction",
					label, outer, n, nested, pending
				));
				out.line(&format!("conc nestread {} sched=e0", label), "stalled");
			}
		}
		out.flush();
	}
	for (k, v) in &stats {
		out.raw(&format!("#STAT {}={}", k, v));
	}
	out.raw(&format!("#STAT nestread:histories={} stalled={}", cases.len(), stalled));
	out.flush();
	// a stalled history leaves threads blocked for ever
	std::process::exit(0);
}

/// Run `pibd` (C17: the state-RECEIVING side under concurrency — desegmenter.rs, an anchor file).
/// A node whose headers are synced receives its state through `Chain::desegmenter()` exactly as
/// servers/src/common/adapters.rs (`receive_*_segment`: every call goes through
/// `chain.desegmenter(&archive_header)?.write()`) and servers/src/grin/sync/state_sync.rs
/// (`continue_pibd`: `try_write()` → `apply_next_segments`, `write()` → `check_progress`,
/// `next_desired_segments`) drive it — from several threads at once, while other threads use the
/// same Chain: a header-gossip thread (`process_block_header` of a less-work fork,
/// `sync_block_headers` duplicates, `process_block` of far-ahead blocks = orphans) and readers
/// (head / header view under `header_pmmr.read()` / `txhashset.read()` + roots / get_unspent /
/// get_header_by_height).  Peers: two threads that serve the wanted segments from a source node's
/// `segmenter()`, with duplicates (both may serve the same identifier) and a malformed stream
/// (a bitmap segment with a wrong output-root argument; segments of ANOTHER chain with the same
/// identifier) that must be refused.
/// Oracles: nothing panics, the threads finish (progress watchdog), every malformed segment is
/// refused and every genuine one accepted, the header view invariant holds throughout, the sync
/// completes, `check_update_leaf_set_state` + `validate_complete_state` pass, the roots are the
/// archive header's, the body head is the archive header; then the blocks above it are delivered
/// and (head, header head, unspent set) must equal the source node's.
fn pibd(out: &mut Out, work: &str, seed: u64, thorough: bool) {
	use grin_chain::pibd_params::verif_hooks::set_segment_heights;
	use grin_chain::types::SyncState;
	use grin_core::core::pmmr::segment::SegmentType;
	use grin_util::StopState;
	use std::collections::VecDeque;
	for (op, class) in [
		("desegmenter", "other"),
		("txhashset_archive_header_header_only", "read-hp"),
		("Desegmenter::add_bitmap_segment", "other"),
		("Desegmenter::add_output_segment", "other"),
		("Desegmenter::add_rangeproof_segment", "other"),
		("Desegmenter::add_kernel_segment", "other"),
		("Desegmenter::apply_next_segments", "write"),
		("Desegmenter::check_progress", "read-ts"),
		("Desegmenter::next_desired_segments", "read-ts"),
		("Desegmenter::check_update_leaf_set_state", "write"),
		("Desegmenter::validate_complete_state", "write"),
		("process_block_header", "write"),
		("sync_block_headers", "write"),
		("process_block", "write"),
		("get_unspent", "read-ts"),
		("get_header_by_height", "read-hp"),
	] {
		out.line(&format!("conc opclass {}", op), class);
	}
	out.line("conc tablecheck", "ok");
	let rounds = if thorough { 6 } else { 2 };
	let mut stats: BTreeMap<String, u64> = BTreeMap::new();
	let mut rng = Rng::new(seed ^ 0x91BD);
	for round in 0..rounds {
		let tag = format!("#ORACLE-FAIL C17 pibd round={} seed={}:", round, seed);
		let kit = Kit::new(&format!("{}/pb_builder{}", work, round));
		let mut b = Builder { kit, states: BTreeMap::new(), stats: BTreeMap::new(), reserved: Default::default() };
		let mut s0 = BTreeMap::new();
		s0.insert(0usize, (0u64, true));
		b.states.insert(0, s0);
		let top = 30 + rng.below(8);
		let fork_h = 5u64;
		let mut main = vec![0usize];
		let mut tip = 0usize;
		for h in 1..=top {
			match b.add(&mut rng, tip, 3, if h > 4 { 2 } else { 0 }) {
				Some(id) => {
					tip = id;
					main.push(id);
				}
				None => panic!("pibd: cannot build the main chain"),
			}
		}
		// the other chain: less work per height (its headers never become the header head)
		let mut fork: Vec<usize> = vec![];
		let mut ftip = main[fork_h as usize];
		for h in (fork_h + 1)..top {
			match b.add(&mut rng, ftip, 2, if h % 2 == 0 { 1 } else { 0 }) {
				Some(id) => {
					ftip = id;
					fork.push(id);
				}
				None => panic!("pibd: cannot build the fork"),
			}
		}
		let kit = &b.kit;
		// the tree and the source node's deliveries go through the chain model; the state of every
		// state-synced node is compared with the model's state of the source (`chain obs`)
		out.raw("chain reset");
		for l in kit.out_lines(0) {
			out.raw(&l);
		}
		for id in 0..kit.blks.len() {
			out.raw(&kit.blk_line(id));
		}
		let name = format!("pb{}", round);
		out.raw(&format!("chain new {}", name));
		let src = Subject::new(&format!("{}/pb_src{}", work, round), &kit.genesis);
		for id in main[1..].iter() {
			let r = src.deliver_block(&kit.blks[*id].block);
			out.line(&format!("chain deliver {} b{}", name, id), &r);
			if !r.starts_with("ok") {
				out.raw(&format!("{} harness: source node refused main block b{}: {}", tag, id, r));
			}
		}
		out.line(&format!("chain obs {}", name), &src.obs(kit));
		let src2 = Subject::new(&format!("{}/pb_src2_{}", work, round), &kit.genesis);
		for id in main[1..=(fork_h as usize)].iter().chain(fork.iter()) {
			let _ = src2.deliver_block(&kit.blks[*id].block);
		}
		let src = Arc::new(src);
		let src2 = Arc::new(src2);
		let episodes = if thorough { 12 } else { 4 };
		for ep in 0..episodes {
		let tag = format!("#ORACLE-FAIL C17 pibd round={} episode={} seed={}:", round, ep, seed);
		let dest = Subject::new(&format!("{}/pb_dest{}_{}", work, round, ep), &kit.genesis);
		let headers: Vec<BlockHeader> = main[1..].iter().map(|i| kit.blks[*i].block.header.clone()).collect();
		let r = dest.sync_headers(&headers);
		if r != "ok" {
			out.raw(&format!("{} harness: header sync of the receiving node failed: {}", tag, r));
			continue;
		}
		let ah = dest.c().txhashset_archive_header_header_only().unwrap();
		let src_ah = src.c().txhashset_archive_header().unwrap();
		if ah.hash() != src_ah.hash() {
			out.raw(&format!("{} harness: archive headers differ (receiver {} @ {}, source {} @ {})", tag, ah.hash(), ah.height, src_ah.hash(), src_ah.height));
			continue;
		}
		// (no height 0 for outputs / range proofs / kernels: a one-leaf segment 0 holds the genesis entry
		// only, which the receiver skips - its MMR never grows and it asks for segment 0 for ever; an
		// artefact of the lowered heights, production heights are 9..11)
		let heights = [(0u8, 2u8, 2u8, 1u8), (0, 1, 1, 1), (0, 3, 2, 2), (0, 1, 2, 1), (0, 2, 1, 2)][(ep + round) % 5];
		set_segment_heights(Some(heights));
		*stats.entry(format!("pibd:segment-heights={:?}", heights)).or_insert(0) += 1;
		// created here so that the segment heights are in force
		let _ = dest.c().desegmenter(&ah).unwrap();

		let dest = Arc::new(dest);
		let queue: Arc<Mutex<VecDeque<(u8, u8, u64)>>> = Arc::new(Mutex::new(VecDeque::new()));
		let done = Arc::new(AtomicBool::new(false));
		let progress = Arc::new(AtomicUsize::new(0));
		// (thread, op names run (capped), counters, failures)
		let (txc, rxc) = mpsc::channel::<(usize, Vec<&'static str>, BTreeMap<String, u64>, Vec<String>)>();
		let n_threads = 6usize;
		let t_start = Instant::now();
		let limit = Duration::from_secs(if thorough { 240 } else { 120 });

		// --- T0: the sync thread (state_sync.rs continue_pibd)
		{
			let (dest, queue, done, progress, txc) = (dest.clone(), queue.clone(), done.clone(), progress.clone(), txc.clone());
			std::thread::spawn(move || {
				setup_globals();
				let mut names: Vec<&'static str> = vec![];
				let mut cnt: BTreeMap<String, u64> = BTreeMap::new();
				let mut bad: Vec<String> = vec![];
				let status = Arc::new(SyncState::new());
				let mut complete = false;
				let t0 = Instant::now();
				let mut rounds = 0u64;
				while !complete && t0.elapsed() < limit {
					rounds += 1;
					let r = std::panic::catch_unwind(AssertUnwindSafe(|| -> Result<(bool, Vec<(u8, u8, u64)>), String> {
						let ah = dest.c().txhashset_archive_header_header_only().map_err(|e| error_class(&e))?;
						let deseg = dest.c().desegmenter(&ah).map_err(|e| error_class(&e))?;
						let mut applied = "busy";
						if let Some(mut de) = deseg.try_write() {
							if let Some(d) = de.as_mut() {
								d.apply_next_segments().map_err(|e| format!("apply_next_segments: {}", error_class(&e)))?;
								applied = "applied";
							}
						}
						let mut wanted = vec![];
						let mut fin = false;
						if let Some(d) = deseg.write().as_mut() {
							match d.check_progress(status.clone()) {
								Ok(true) => fin = true,
								Ok(false) => {}
								Err(e) => return Err(format!("check_progress: {}", error_class(&e))),
							}
							if !fin {
								for x in d.next_desired_segments(12) {
									let t = match x.segment_type {
										SegmentType::Bitmap => 0u8,
										SegmentType::Output => 1,
										SegmentType::RangeProof => 2,
										SegmentType::Kernel => 3,
									};
									wanted.push((t, x.identifier.height, x.identifier.idx));
								}
							}
						}
						let _ = applied;
						Ok((fin, wanted))
					}));
					if names.len() < 40 {
						names.extend_from_slice(&["txhashset_archive_header_header_only", "desegmenter", "Desegmenter::apply_next_segments", "Desegmenter::check_progress", "Desegmenter::next_desired_segments"]);
					}
					match r {
						Ok(Ok((fin, wanted))) => {
							complete = fin;
							*cnt.entry(format!("sync:wanted-per-round={}", wanted.len().min(12))).or_insert(0) += 1;
							let mut q = queue.lock().unwrap();
							for w in wanted {
								if !q.contains(&w) {
									q.push_back(w);
								}
							}
						}
						Ok(Err(e)) => {
							bad.push(format!("the sync thread's step failed: {}", e));
							break;
						}
						Err(_) => {
							bad.push("the sync thread's step (apply_next_segments / check_progress / next_desired_segments) panicked".to_string());
							break;
						}
					}
					progress.fetch_add(1, Ordering::SeqCst);
					if rounds % 3 == 0 {
						std::thread::sleep(Duration::from_micros(300));
					} else {
						std::thread::yield_now();
					}
				}
				*cnt.entry(format!("sync:complete={}", complete)).or_insert(0) += 1;
				*cnt.entry("sync:rounds".into()).or_insert(0) += rounds;
				if !complete && bad.is_empty() {
					bad.push(format!("the state sync did not complete within {:?} ({} rounds of apply / check_progress / next_desired_segments)", limit, rounds));
				}
				done.store(true, Ordering::SeqCst);
				let _ = txc.send((0, names, cnt, bad));
			});
		}
		// --- T1, T2: peers (adapters.rs receive_*_segment)
		for p in 1..=2usize {
			let (dest, src, src2, queue, done, progress, txc) = (dest.clone(), src.clone(), src2.clone(), queue.clone(), done.clone(), progress.clone(), txc.clone());
			let mut prng = Rng::new(rng.next() ^ (p as u64 * 0x51));
			std::thread::spawn(move || {
				setup_globals();
				let mut names: Vec<&'static str> = vec![];
				let mut cnt: BTreeMap<String, u64> = BTreeMap::new();
				let mut bad: Vec<String> = vec![];
				while !done.load(Ordering::SeqCst) {
					// the other peer may serve the same identifier: peek instead of pop now and then
					let item = {
						let mut q = queue.lock().unwrap();
						if prng.chance(1, 5) { q.front().cloned() } else { q.pop_front() }
					};
					let (t, h, idx) = match item {
						Some(x) => x,
						None => {
							std::thread::sleep(Duration::from_micros(200));
							continue;
						}
					};
					let id = SegmentIdentifier { height: h, idx };
					// which stream: genuine / wrong-root (bitmap) / other chain
					let kind = match prng.below(8) {
						0 => "other-chain",
						1 if t == 0 => "wrong-root",
						_ => "genuine",
					};
					let mut todo = vec![kind];
					if kind != "genuine" {
						todo.push("genuine"); // the genuine one follows, or the sync would never end
					}
					for kind in todo {
						let node = if kind == "other-chain" { &src2 } else { &src };
						let r = std::panic::catch_unwind(AssertUnwindSafe(|| -> Result<Result<(), String>, String> {
							let sg = node.c().segmenter().map_err(|e| format!("segmenter: {}", error_class(&e)))?;
							let ah = dest.c().txhashset_archive_header_header_only().map_err(|e| error_class(&e))?;
							let deseg = dest.c().desegmenter(&ah).map_err(|e| error_class(&e))?;
							let res = match t {
								0 => {
									let (seg, root) = sg.bitmap_segment(id).map_err(|e| format!("not-served: {}", error_class(&e)))?;
									let root = if kind == "wrong-root" { Hash::from_vec(&[0x5a; 32]) } else { root };
									let mut g = deseg.write();
									g.as_mut().map(|d| d.add_bitmap_segment(seg, root))
								}
								1 => {
									let (seg, root) = sg.output_segment(id).map_err(|e| format!("not-served: {}", error_class(&e)))?;
									let mut g = deseg.write();
									g.as_mut().map(|d| d.add_output_segment(seg, Some(root)))
								}
								2 => {
									let seg = sg.rangeproof_segment(id).map_err(|e| format!("not-served: {}", error_class(&e)))?;
									let mut g = deseg.write();
									g.as_mut().map(|d| d.add_rangeproof_segment(seg))
								}
								_ => {
									let seg = sg.kernel_segment(id).map_err(|e| format!("not-served: {}", error_class(&e)))?;
									let mut g = deseg.write();
									g.as_mut().map(|d| d.add_kernel_segment(seg))
								}
							};
							match res {
								Some(Ok(())) => Ok(Ok(())),
								Some(Err(e)) => Ok(Err(error_class(&e))),
								None => Err("no desegmenter".to_string()),
							}
						}));
						let tn = ["bitmap", "output", "rangeproof", "kernel"][t as usize];
						if names.len() < 40 {
							names.extend_from_slice(&["txhashset_archive_header_header_only", "desegmenter", ["Desegmenter::add_bitmap_segment", "Desegmenter::add_output_segment", "Desegmenter::add_rangeproof_segment", "Desegmenter::add_kernel_segment"][t as usize]]);
						}
						match r {
							Ok(Ok(Ok(()))) => {
								*cnt.entry(format!("peer:{}:{}:accepted", tn, kind)).or_insert(0) += 1;
								if kind != "genuine" {
									bad.push(format!("a malformed {} segment ({},{}) [{}] was ACCEPTED by the desegmenter", tn, h, idx, kind));
								}
							}
							Ok(Ok(Err(e))) => {
								*cnt.entry(format!("peer:{}:{}:refused", tn, kind)).or_insert(0) += 1;
								if kind == "genuine" {
									bad.push(format!("the genuine {} segment ({},{}) served by the source node's segmenter was refused: {}", tn, h, idx, e));
								}
							}
							Ok(Err(e)) => {
								*cnt.entry(format!("peer:{}:{}:{}", tn, kind, if e.starts_with("not-served") { "not-served" } else { "error" })).or_insert(0) += 1;
								if kind == "genuine" {
									bad.push(format!("peer step for the {} segment ({},{}) failed: {}", tn, h, idx, e));
								}
							}
							Err(_) => bad.push(format!("adding a {} segment ({},{}) [{}] panicked", tn, h, idx, kind)),
						}
						progress.fetch_add(1, Ordering::SeqCst);
						if bad.len() > 8 {
							break;
						}
					}
					if bad.len() > 8 {
						break;
					}
					match prng.below(4) {
						0 => std::thread::yield_now(),
						1 => std::thread::sleep(Duration::from_micros(prng.range(5, 300))),
						_ => {}
					}
				}
				let _ = txc.send((p, names, cnt, bad));
			});
		}
		// --- T3: header gossip / far-ahead blocks
		{
			let (dest, done, progress, txc) = (dest.clone(), done.clone(), progress.clone(), txc.clone());
			let fork_headers: Vec<BlockHeader> = fork.iter().map(|i| kit.blks[*i].block.header.clone()).collect();
			let main_headers = headers.clone();
			let far_blocks: Vec<Block> = main[(main.len() - 3)..].iter().map(|i| kit.blks[*i].block.clone()).collect();
			let mut prng = Rng::new(rng.next() ^ 0x4EAD);
			std::thread::spawn(move || {
				setup_globals();
				let mut names: Vec<&'static str> = vec![];
				let mut cnt: BTreeMap<String, u64> = BTreeMap::new();
				let mut bad: Vec<String> = vec![];
				let mut next_fork = 0usize;
				let mut n = 0u64;
				while !done.load(Ordering::SeqCst) && n < 4000 {
					n += 1;
					let r = std::panic::catch_unwind(AssertUnwindSafe(|| match prng.below(4) {
						0 | 1 => {
							let h = &fork_headers[next_fork.min(fork_headers.len() - 1)];
							("process_block_header", dest.deliver_header(h))
						}
						2 => {
							let a = prng.below(main_headers.len() as u64) as usize;
							let e = (a + 1 + prng.below(4) as usize).min(main_headers.len());
							("sync_block_headers", dest.sync_headers(&main_headers[a..e]))
						}
						_ => ("process_block", dest.deliver_block(prng.pick(&far_blocks))),
					}));
					match r {
						Ok((nm, res)) => {
							if nm == "process_block_header" && next_fork < fork_headers.len() {
								if res == "ok" {
									next_fork += 1;
								}
							}
							if names.len() < 40 {
								names.push(nm);
								if nm == "sync_block_headers" {
									names.push("header_head");
								}
							}
							*cnt.entry(format!("gossip:{}:{}", nm, res)).or_insert(0) += 1;
							if nm == "process_block" && res.starts_with("ok") {
								bad.push(format!("a block far above the body head was accepted ({}) while the state is being received", res));
							}
						}
						Err(_) => bad.push("a header / block delivery panicked during the state sync".to_string()),
					}
					progress.fetch_add(1, Ordering::SeqCst);
					std::thread::sleep(Duration::from_micros(prng.range(50, 600)));
				}
				let _ = txc.send((3, names, cnt, bad));
			});
		}
		// --- T4, T5: readers
		for p in 4..=5usize {
			let (dest, done, progress, txc) = (dest.clone(), done.clone(), progress.clone(), txc.clone());
			let commits: Vec<Commitment> = kit.outs.iter().map(|o| o.commit).collect();
			let genesis_hash = kit.genesis.hash();
			let max_h = top;
			let mut prng = Rng::new(rng.next() ^ (p as u64 * 0x77));
			std::thread::spawn(move || {
				setup_globals();
				let mut names: Vec<&'static str> = vec![];
				let mut cnt: BTreeMap<String, u64> = BTreeMap::new();
				let mut bad: Vec<String> = vec![];
				let mut n = 0u64;
				while !done.load(Ordering::SeqCst) && n < 20000 {
					n += 1;
					let c = dest.c();
					let r = std::panic::catch_unwind(AssertUnwindSafe(|| -> (&'static str, Option<String>) {
						match prng.below(5) {
							0 => {
								let h = c.head().unwrap();
								if h.last_block_h != genesis_hash && c.get_block(&h.last_block_h).is_err() && c.get_block_header(&h.last_block_h).is_err() {
									return ("head", Some(format!("head {} @ {} names nothing stored", h.last_block_h, h.height)));
								}
								("head", None)
							}
							1 => {
								let hp = c.header_pmmr();
								let g = hp.read();
								match (c.header_head(), g.head_hash()) {
									(Ok(hh), Ok(mh)) if mh == hh.last_block_h => ("header_pmmr", None),
									(Ok(hh), Ok(mh)) => ("header_pmmr", Some(format!("view under header_pmmr.read(): header MMR head {} is not the LMDB header head {} @ {}", mh, hh.last_block_h, hh.height))),
									_ => ("header_pmmr", Some("header view failed".to_string())),
								}
							}
							2 => {
								let ts = c.txhashset();
								let g = ts.read();
								let _ = g.roots();
								let _ = (g.output_mmr_size(), g.kernel_mmr_size(), g.rangeproof_mmr_size());
								("txhashset", None)
							}
							3 => {
								let _ = c.get_unspent(*prng.pick(&commits));
								("get_unspent", None)
							}
							_ => {
								let h = prng.below(max_h + 2);
								match c.get_header_by_height(h) {
									Ok(x) if x.height != h => ("get_header_by_height", Some(format!("get_header_by_height({}) answered height {}", h, x.height))),
									_ => ("get_header_by_height", None),
								}
							}
						}
					}));
					match r {
						Ok((nm, e)) => {
							if names.len() < 40 {
								names.push(nm);
								if nm == "header_pmmr" {
									names.push("header_head");
								}
							}
							*cnt.entry(format!("reader:{}", nm)).or_insert(0) += 1;
							if let Some(e) = e {
								if bad.len() < 4 {
									bad.push(e);
								}
							}
						}
						Err(_) => {
							if bad.len() < 4 {
								bad.push("a reader panicked during the state sync".to_string());
							}
						}
					}
					progress.fetch_add(1, Ordering::SeqCst);
					if n % 8 == 0 {
						std::thread::sleep(Duration::from_micros(prng.range(20, 200)));
					}
				}
				let _ = txc.send((p, names, cnt, bad));
			});
		}
		drop(txc);
		// --- watchdog on progress (no op completed anywhere for `stall`)
		let stall = Duration::from_secs(if thorough { 120 } else { 60 });
		let mut finished = 0usize;
		let mut last = (progress.load(Ordering::SeqCst), Instant::now());
		let mut progs: Vec<Vec<&'static str>> = vec![vec![]; n_threads];
		let mut any_bad = false;
		while finished < n_threads {
			match rxc.recv_timeout(Duration::from_millis(500)) {
				Ok((i, names, cnt, bad)) => {
					finished += 1;
					progs[i] = names;
					for (k, v) in cnt {
						*stats.entry(format!("pibd:{}", k)).or_insert(0) += v;
					}
					for m in bad {
						any_bad = true;
						out.raw(&format!("{} {}", tag, m));
					}
				}
				Err(_) => {
					let c = progress.load(Ordering::SeqCst);
					if c != last.0 {
						last = (c, Instant::now());
						continue;
					}
					if last.1.elapsed() < stall {
						continue;
					}
					out.raw(&format!(
						"#ORACLE-FAIL C17 deadlock pibd round={} episode={} seed={}: no step of any thread (sync thread / 2 peers adding segments through Chain::desegmenter().write() / header gossip / 2 readers) completed for {:?}; {} of {} threads had finished",
						round, ep, seed, stall, finished, n_threads
					));
					for (k, v) in &stats {
						out.raw(&format!("#STAT {}={}", k, v));
					}
					out.flush();
					std::process::exit(0);
				}
			}
		}
		set_segment_heights(None);
		*stats.entry("pibd:concurrent-phase-ms".into()).or_insert(0) += t_start.elapsed().as_millis() as u64;
		let progs_s: Vec<String> = progs.iter().map(|p| p.join("+")).collect();
		out.line(&format!("conc sim seed={} progs={}", rng.below(1 << 30), progs_s.join(",")), "finished");

		// --- the received state
		let mut verdict = "ok".to_string();
		if any_bad {
			verdict = "failed-concurrent-phase".to_string();
		} else {
			let c = dest.c();
			let deseg = c.desegmenter(&ah).unwrap();
			let fin = std::panic::catch_unwind(AssertUnwindSafe(|| {
				let g = deseg.write();
				let d = g.as_ref().unwrap();
				d.check_update_leaf_set_state().map_err(|e| format!("check_update_leaf_set_state: {}", error_class(&e)))?;
				d.validate_complete_state(Arc::new(SyncState::new()), Arc::new(StopState::new())).map_err(|e| format!("validate_complete_state: {}", error_class(&e)))
			}));
			match fin {
				Ok(Ok(())) => {}
				Ok(Err(e)) => {
					out.raw(&format!("{} the state received concurrently does not validate: {}", tag, e));
					verdict = "invalid-state".to_string();
				}
				Err(_) => {
					out.raw(&format!("{} check_update_leaf_set_state / validate_complete_state panicked", tag));
					verdict = "panic".to_string();
				}
			}
			if verdict == "ok" {
				let roots_ok = c.txhashset().read().roots().map(|r| r.validate(&ah).is_ok()).unwrap_or(false);
				if !roots_ok {
					out.raw(&format!("{} the received state has other roots than the archive header", tag));
					verdict = "wrong-roots".to_string();
				}
				let head = c.head().unwrap();
				if head.last_block_h != ah.hash() {
					out.raw(&format!("{} after validate_complete_state the body head is {} @ {}, not the archive header {} @ {}", tag, head.last_block_h, head.height, ah.hash(), ah.height));
					verdict = "wrong-head".to_string();
				}
			}
			if verdict == "ok" {
				// body sync of the rest, then the node must be where the source node is
				for id in main[(ah.height as usize + 1)..].iter() {
					let r = dest.deliver_block(&kit.blks[*id].block);
					// (the far-ahead blocks gossiped during the sync sit in the orphan pool and are adopted as
					// soon as their parent arrives: delivering them again is answered "already known")
					*stats.entry(format!("pibd:body-sync:{}", r)).or_insert(0) += 1;
					if !r.starts_with("ok") && r != "err:Unfit" {
						out.raw(&format!("{} after the state sync block b{} (height {}) is refused: {}", tag, id, kit.blks[*id].height, r));
						verdict = "block-refused".to_string();
						break;
					}
				}
			}
			if verdict == "ok" {
				let (a, bsrc) = (dest.obs(kit), src.obs(kit));
				out.line(&format!("chain obs {}", name), &a);
				if a != bsrc {
					out.raw(&format!("{} after state sync + body sync the node is at [{}], the source node at [{}]", tag, a, bsrc));
					verdict = "state-differs".to_string();
				}
				if let Err(e) = c.validate(true) {
					out.raw(&format!("{} validate(fast) fails on the state-synced node: {}", tag, error_class(&e)));
					verdict = "validate-fails".to_string();
				}
				*stats.entry(format!("pibd:orphans-left={}", c.orphans_len().min(9))).or_insert(0) += 1;
			}
		}
		out.line(&format!("conc pibd round={} episode={} archive_height={} top={} fork_headers={} heights={}/{}/{}/{}", round, ep, ah.height, top, fork.len(), heights.0, heights.1, heights.2, heights.3), &verdict);
		out.flush();
		}
	}
	for (k, v) in &stats {
		out.raw(&format!("#STAT {}={}", k, v));
	}
	out.flush();
}

/// Run `zipwin` (C17: installing a zipped state - `Chain::txhashset_write`, reachable from the p2p
/// TxHashSetArchive message - while readers use the same Chain).  Regression probe of finding
/// C17-txhashset-write-window, found by this run and repaired in /repo: the op committed the new head,
/// output_pos index and block sums to LMDB holding `header_pmmr.write()` only and took
/// `txhashset.write()` to swap the MMR files in afterwards (6 of 6 episodes showed a reader holding
/// `txhashset.read()` the installed head with the genesis MMR state).  Now
/// `txhashset_write_commits_under_ts_write` is decided on the regenerated table and a relapse is
/// reported as `#KNOWN-PROBE C17 txhashset-write-window` (= violation).  Here the op really runs: a source node zips its state at the
/// archive header (`txhashset_read`), a fresh node with the headers synced installs it
/// (`txhashset_write`) while three readers loop over ONE-VIEW reads: `txhashset.read()` held, then
/// `head_header()` and `roots()` (MMR state = state of the LMDB head header, the oracle of the `View`
/// op of the mixes), and under the same guard `get_unspent` of outputs that are unspent at the
/// archive header once `head()` is the archive header.
fn zipwin(out: &mut Out, work: &str, seed: u64, thorough: bool) {
	use grin_chain::types::SyncState;
	use std::io::Read;
	for (op, class) in [("txhashset_write", "write"), ("txhashset_read", "write"), ("txhashset", "lockfree"), ("head_header", "lockfree"), ("head", "lockfree")] {
		out.line(&format!("conc opclass {}", op), class);
	}
	let rounds = if thorough { 3 } else { 1 };
	let episodes = if thorough { 12 } else { 4 };
	let mut stats: BTreeMap<String, u64> = BTreeMap::new();
	let mut rng = Rng::new(seed ^ 0x21B);
	for round in 0..rounds {
		let kit = Kit::new(&format!("{}/zw_builder{}/chain", work, round));
		let mut b = Builder { kit, states: BTreeMap::new(), stats: BTreeMap::new(), reserved: Default::default() };
		let mut s0 = BTreeMap::new();
		s0.insert(0usize, (0u64, true));
		b.states.insert(0, s0);
		let top = 30 + rng.below(8);
		let mut main = vec![0usize];
		let mut tip = 0usize;
		for h in 1..=top {
			match b.add(&mut rng, tip, 3, if h > 4 { 2 } else { 0 }) {
				Some(id) => {
					tip = id;
					main.push(id);
				}
				None => panic!("zipwin: cannot build the main chain"),
			}
		}
		let kit = &b.kit;
		let src = Subject::new(&format!("{}/zw_src{}/chain", work, round), &kit.genesis);
		for id in main[1..].iter() {
			let _ = src.deliver_block(&kit.blks[*id].block);
		}
		let ah = src.c().txhashset_archive_header().unwrap();
		let bytes: Vec<u8> = match src.c().txhashset_read(ah.hash()) {
			Ok((_, _, mut f)) => {
				let mut v = vec![];
				f.read_to_end(&mut v).unwrap();
				v
			}
			Err(e) => {
				out.raw(&format!("#ORACLE-FAIL C17 zipwin round={} seed={}: txhashset_read of the archive header failed: {}", round, seed, error_class(&e)));
				continue;
			}
		};
		let unspent_at_archive: Vec<Commitment> = b.states[&main[ah.height as usize]].keys().map(|o| kit.outs[*o].commit).collect();
		let headers: Vec<BlockHeader> = main[1..].iter().map(|i| kit.blks[*i].block.header.clone()).collect();
		for ep in 0..episodes {
			let tag = format!("#ORACLE-FAIL C17 zipwin round={} episode={} seed={}:", round, ep, seed);
			let dir = format!("{}/zw_dest{}_{}/chain", work, round, ep);
			let _ = std::fs::create_dir_all(&dir);
			let dest = Subject::new(&dir, &kit.genesis);
			if dest.sync_headers(&headers) != "ok" {
				out.raw(&format!("{} harness: header sync failed", tag));
				continue;
			}
			let dest = Arc::new(dest);
			let done = Arc::new(AtomicBool::new(false));
			let (txc, rxc) = mpsc::channel::<(usize, u64, Vec<String>)>();
			for r in 0..3usize {
				let (dest, done, txc) = (dest.clone(), done.clone(), txc.clone());
				let commits = unspent_at_archive.clone();
				let ah_hash = ah.hash();
				let mut prng = Rng::new(rng.next() ^ (r as u64 * 0x33));
				std::thread::spawn(move || {
					setup_globals();
					let mut bad: Vec<String> = vec![];
					let mut n = 0u64;
					loop {
						let fin = done.load(Ordering::SeqCst);
						n += 1;
						let c = dest.c();
						let res = std::panic::catch_unwind(AssertUnwindSafe(|| -> Option<String> {
							let ts = c.txhashset();
							let g = ts.read();
							// the view is held for a moment (a reader doing some work under its guard)
							let spin = prng.range(0, 3000);
							let mut x = 0u64;
							for i in 0..spin {
								x = x.wrapping_add(i).rotate_left(3);
							}
							std::hint::black_box(x);
							if prng.chance(1, 2) {
								let hh = c.head_header().ok()?;
								let roots = g.roots().ok()?;
								if hh.height > 0 {
									let ok = roots.kernel_root == hh.kernel_root && roots.rproof_root == hh.range_proof_root && roots.output_root(&hh) == hh.output_root && g.kernel_mmr_size() == hh.kernel_mmr_size && g.output_mmr_size() == hh.output_mmr_size;
									if !ok {
										return Some(format!(
											"view under txhashset.read(): the LMDB head header is {} @ {} (kernel MMR size {}, output MMR size {}) but the MMR state under the guard has kernel size {}, output size {}",
											hh.hash(), hh.height, hh.kernel_mmr_size, hh.output_mmr_size, g.kernel_mmr_size(), g.output_mmr_size()
										));
									}
								}
							} else {
								let head = c.head().ok()?;
								if head.last_block_h == ah_hash {
									let cm = *prng.pick(&commits);
									match g.get_unspent(cm) {
										Ok(Some(_)) => {}
										other => {
											return Some(format!(
												"under one txhashset.read(): head() is the installed archive header @ {} but get_unspent of an output unspent in that state answers {}",
												head.height,
												match other { Ok(None) => "None (spent / unknown)".to_string(), Err(e) => format!("Err({})", error_class(&e)), _ => String::new() }
											))
										}
									}
								}
							}
							None
						}));
						match res {
							Ok(Some(m)) => {
								if bad.len() < 2 {
									bad.push(m);
								}
							}
							Ok(None) => {}
							Err(_) => {
								if bad.len() < 2 {
									bad.push("a reader panicked while the state was being installed".to_string());
								}
							}
						}
						if fin {
							break;
						}
					}
					let _ = txc.send((r, n, bad));
				});
			}
			drop(txc);
			// the writer, on this thread's child (watchdog below)
			let (txw, rxw) = mpsc::channel::<String>();
			{
				let dest = dest.clone();
				let bytes = bytes.clone();
				let path = format!("{}/zw_dest{}_{}/incoming.zip", work, round, ep);
				let h = ah.hash();
				std::thread::spawn(move || {
					setup_globals();
					std::thread::sleep(Duration::from_millis(3));
					std::fs::write(&path, &bytes).unwrap();
					let f = std::fs::File::open(&path).unwrap();
					let status = SyncState::new();
					let r = std::panic::catch_unwind(AssertUnwindSafe(|| dest.c().txhashset_write(h, f, &status)));
					let _ = txw.send(match r {
						Ok(Ok(false)) => "replaced".to_string(),
						Ok(Ok(true)) => "ban".to_string(),
						Ok(Err(e)) => format!("failed:{}", error_class(&e)),
						Err(_) => "panic".to_string(),
					});
				});
			}
			let wres = match rxw.recv_timeout(Duration::from_secs(if thorough { 240 } else { 120 })) {
				Ok(r) => r,
				Err(_) => {
					out.raw(&format!("#ORACLE-FAIL C17 deadlock zipwin round={} episode={} seed={}: txhashset_write did not return within the watchdog bound while three readers loop over txhashset.read() views", round, ep, seed));
					out.flush();
					std::process::exit(0);
				}
			};
			done.store(true, Ordering::SeqCst);
			let mut window_hits = 0u64;
			for _ in 0..3 {
				match rxc.recv_timeout(Duration::from_secs(60)) {
					Ok((_, n, bad)) => {
						*stats.entry("zipwin:reader-views".into()).or_insert(0) += n;
						for m in bad {
							window_hits += 1;
							if window_hits <= 2 {
								if m.contains("panicked") {
									out.raw(&format!("{} {}", tag, m));
								} else {
									// the repaired defect C17-txhashset-write-window is back (a relapse = violation)
									out.raw(&format!(
										"#KNOWN-PROBE C17 txhashset-write-window: zipwin round={} episode={} seed={}: {} - while Chain::txhashset_write installs the source node's archive (archive header height {}, source chain of {} blocks): the new head is visible in LMDB to a reader holding txhashset.read() before the MMR files are swapped in",
										round, ep, seed, m, ah.height, top
									));
								}
							}
						}
					}
					Err(_) => {
						out.raw(&format!("#ORACLE-FAIL C17 deadlock zipwin round={} episode={} seed={}: a reader does not finish after the install returned", round, ep, seed));
						out.flush();
						std::process::exit(0);
					}
				}
			}
			*stats.entry(format!("zipwin:install:{}", wres)).or_insert(0) += 1;
			*stats.entry(format!("zipwin:episodes-with-inconsistent-view={}", window_hits.min(1))).or_insert(0) += 1;
			let mut verdict = if wres == "replaced" { "ok".to_string() } else { wres.clone() };
			if wres != "replaced" {
				out.raw(&format!("{} txhashset_write of the source node's own archive answered {}", tag, wres));
			} else {
				let c = dest.c();
				let head = c.head().unwrap();
				if head.last_block_h != ah.hash() {
					out.raw(&format!("{} after the install the head is {} @ {}", tag, head.last_block_h, head.height));
					verdict = "wrong-head".into();
				}
				if let Err(e) = c.validate(true) {
					out.raw(&format!("{} validate(fast) fails after the install: {}", tag, error_class(&e)));
					verdict = "validate-fails".into();
				}
			}
			if window_hits > 0 && verdict == "ok" {
				verdict = "inconsistent-view".into();
			}
			out.line(&format!("conc zipwin round={} episode={} archive_height={} top={}", round, ep, ah.height, top), &verdict);
			out.flush();
		}
	}
	for (k, v) in &stats {
		out.raw(&format!("#STAT {}={}", k, v));
	}
	out.flush();
}

/// one view of the header MMR: under `header_pmmr.read()` the MMR's head is the LMDB header head and
/// EVERY height up to the header head's maps to the ancestor of the header head at that height
fn strong_header_view(c: &Chain, by_hash: &HashMap<Hash, usize>, parent: &[Option<usize>], heights: &[u64], hashes: &[Hash]) -> Option<String> {
	let hp = c.header_pmmr();
	let g = hp.read();
	let hh = match c.header_head() {
		Ok(x) => x,
		Err(e) => return Some(format!("header_head() failed: {}", error_class(&e))),
	};
	let name = |h: &Hash| by_hash.get(h).map(|i| format!("b{}", i)).unwrap_or_else(|| format!("{}", h));
	match g.head_hash() {
		Ok(mh) if mh == hh.last_block_h => {}
		Ok(mh) => return Some(format!("under header_pmmr.read(): the header MMR's head is {} but the header head in the db is {} @ {}", name(&mh), name(&hh.last_block_h), hh.height)),
		Err(e) => return Some(format!("under header_pmmr.read(): head_hash() failed: {}", error_class(&e))),
	}
	let mut x = by_hash.get(&hh.last_block_h).cloned();
	while let Some(i) = x {
		match g.get_header_hash_by_height(heights[i]) {
			Ok(v) if v == hashes[i] => {}
			Ok(v) => {
				return Some(format!(
					"under header_pmmr.read(): height {} maps to {} but the ancestor of the header head {} @ {} at that height is b{}",
					heights[i], name(&v), name(&hh.last_block_h), hh.height, i
				))
			}
			Err(e) => return Some(format!("under header_pmmr.read(): no entry at height {} ({}) although the header head is {} @ {}", heights[i], error_class(&e), name(&hh.last_block_h), hh.height)),
		}
		x = parent[i];
	}
	None
}

/// Run `tie` (C17, 'data read under one view is mutually consistent' for the HEADER chain): headers
/// and blocks with EXACTLY EQUAL total difficulty.  Tree: a trunk T_1..T_L (random difficulties,
/// 0-2 transactions per block) with a sibling S_h of every T_h below the tip on the same parent with
/// the same difficulty (equal total work, other transactions), and a tail: T' and T'' on T_L with
/// equal difficulty and a child C of T''.  A sequential twin gets, per height, header T_h, header
/// S_h (the tie: arrives when the header head has exactly its work), block T_h, block S_h, then
/// header T', header T'', block T'', block T', block C - every line also through the chain model
/// (`chain hdr` / `chain deliver` / `chain obs` / `chain reopen`), the strong header view checked
/// after every step.  The subject gets the same multiset from threads: D1 (trunk, header-first), D2
/// (siblings, header-first, each racing with D1's header of the same height), D3
/// (`sync_block_headers` chunks of both), readers (strong header view, head stored / work
/// monotone); after the join two peers deliver T' and T'' header-first AT THE SAME TIME while the
/// readers run, then C; then validate, close, REOPEN, header view, validate; state = twin = model.
fn tie(out: &mut Out, work: &str, seed: u64, thorough: bool) {
	for (op, class) in [
		("process_block_header", "write"),
		("process_block", "write"),
		("sync_block_headers", "write"),
		("header_pmmr", "lockfree"),
		("header_head", "lockfree"),
		("head", "lockfree"),
		("get_block", "lockfree"),
		("validate", "write"),
	] {
		out.line(&format!("conc opclass {}", op), class);
	}
	let rounds = if thorough { 12 } else { 4 };
	let mut stats: BTreeMap<String, u64> = BTreeMap::new();
	let mut rng = Rng::new(seed ^ 0x71E);
	for round in 0..rounds {
		let tag = format!("#ORACLE-FAIL C17 tie round={} seed={}:", round, seed);
		let kit = Kit::new(&format!("{}/tie_builder{}", work, round));
		let mut b = Builder { kit, states: BTreeMap::new(), stats: BTreeMap::new(), reserved: Default::default() };
		let mut s0 = BTreeMap::new();
		s0.insert(0usize, (0u64, true));
		b.states.insert(0, s0);
		let len = rng.range(5, 9);
		let mut trunk: Vec<usize> = vec![0];
		let mut sibs: Vec<Option<usize>> = vec![None];
		let mut ok = true;
		for h in 1..=len {
			let parent = *trunk.last().unwrap();
			let d = rng.range(1, 4);
			let t = match b.add(&mut rng, parent, d, if h > 3 { 2 } else { 0 }) {
				Some(t) => t,
				None => {
					ok = false;
					break;
				}
			};
			let s = if h < len { b.add(&mut rng, parent, d, if h > 3 { 1 } else { 0 }) } else { None };
			if let Some(s) = s {
				if b.kit.blks[s].work != b.kit.blks[t].work || b.kit.blks[s].block.hash() == b.kit.blks[t].block.hash() {
					ok = false;
					break;
				}
			}
			trunk.push(t);
			sibs.push(s);
		}
		let tl = *trunk.last().unwrap();
		let d = rng.range(1, 4);
		let (t1, t2) = match (b.add(&mut rng, tl, d, 1), b.add(&mut rng, tl, d, 0)) {
			(Some(a), Some(c)) if ok => (a, c),
			_ => {
				out.raw(&format!("#STAT tie:generator-failed-round={}", round));
				continue;
			}
		};
		let cc = match b.add(&mut rng, t2, 1, 1) {
			Some(c) => c,
			None => continue,
		};
		let kit = &b.kit;
		if kit.blks[t1].work != kit.blks[t2].work || kit.blks[t1].block.hash() == kit.blks[t2].block.hash() {
			out.raw(&format!("#STAT tie:generator-tail-not-a-tie-round={}", round));
			continue;
		}
		*stats.entry("tie:equal-work-pairs".into()).or_insert(0) += sibs.iter().filter(|s| s.is_some()).count() as u64 + 1;
		out.raw("chain reset");
		for l in kit.out_lines(0) {
			out.raw(&l);
		}
		for id in 0..kit.blks.len() {
			out.raw(&kit.blk_line(id));
		}
		let by_hash: Arc<HashMap<Hash, usize>> = Arc::new(kit.by_hash.clone());
		let parent: Arc<Vec<Option<usize>>> = Arc::new(kit.blks.iter().map(|r| r.parent).collect());
		let heights: Arc<Vec<u64>> = Arc::new(kit.blks.iter().map(|r| r.height).collect());
		let hashes: Arc<Vec<Hash>> = Arc::new(kit.blks.iter().map(|r| r.block.hash()).collect());
		let blocks: Arc<Vec<Block>> = Arc::new(kit.blks.iter().map(|r| r.block.clone()).collect());

		// --- the sequential twin, through the chain model; every step followed by the header view
		let name = format!("tw{}", round);
		let mut twin = Subject::new(&format!("{}/tie_twin{}", work, round), &kit.genesis);
		out.raw(&format!("chain new {}", name));
		let mut history: Vec<String> = vec![];
		let mut twin_bad = false;
		{
			let mut step = |twin: &Subject, out: &mut Out, kind: &str, id: usize, history: &mut Vec<String>, twin_bad: &mut bool| {
				let r = if kind == "hdr" { twin.deliver_header(&kit.blks[id].block.header) } else { twin.deliver_block(&kit.blks[id].block) };
				out.line(&format!("chain {} {} b{}", kind, name, id), &r);
				history.push(format!("{} b{} (height {}, total work {}) -> {}", if kind == "hdr" { "header" } else { "block" }, id, kit.blks[id].height, kit.blks[id].work, r));
				if let Some(m) = strong_header_view(twin.c(), &by_hash, &parent, &heights, &hashes) {
					if !*twin_bad {
						out.raw(&format!("{} single thread, delivery history [{}]: {}", tag, history.join("; "), m));
					}
					*twin_bad = true;
				}
			};
			for h in 1..=(len as usize) {
				step(&twin, out, "hdr", trunk[h], &mut history, &mut twin_bad);
				if let Some(s) = sibs[h] {
					step(&twin, out, "hdr", s, &mut history, &mut twin_bad);
				}
				step(&twin, out, "deliver", trunk[h], &mut history, &mut twin_bad);
				if let Some(s) = sibs[h] {
					step(&twin, out, "deliver", s, &mut history, &mut twin_bad);
				}
			}
			out.line(&format!("chain obs {}", name), &twin.obs(kit));
		}
		let twin_mid = twin.obs(kit);

		// --- the subject: the same multiset from threads
		let subj = Arc::new(Subject::new(&format!("{}/tie_subject{}", work, round), &kit.genesis));
		let trunk_done = Arc::new(AtomicUsize::new(0));
		let done = Arc::new(AtomicBool::new(false));
		let progress = Arc::new(AtomicUsize::new(0));
		let (txc, rxc) = mpsc::channel::<(usize, Vec<String>, Vec<String>)>();
		let trunk_a: Arc<Vec<usize>> = Arc::new(trunk.clone());
		let sibs_a: Arc<Vec<Option<usize>>> = Arc::new(sibs.clone());
		let n_writers = 3usize;
		let n_readers = 2usize;
		for w in 0..n_writers {
			let (subj, trunk_done, progress, txc, blocks, trunk_a, sibs_a) = (subj.clone(), trunk_done.clone(), progress.clone(), txc.clone(), blocks.clone(), trunk_a.clone(), sibs_a.clone());
			let mut prng = Rng::new(rng.next() ^ (w as u64 * 0x91));
			std::thread::spawn(move || {
				setup_globals();
				let mut log: Vec<String> = vec![];
				let mut bad: Vec<String> = vec![];
				let n = trunk_a.len() - 1;
				for h in 1..=n {
					// everybody starts height h once block T_{h-1} is in (the parent of both candidates)
					let t0 = Instant::now();
					while trunk_done.load(Ordering::SeqCst) + 1 < h && t0.elapsed() < Duration::from_secs(20) {
						std::thread::yield_now();
					}
					let r = std::panic::catch_unwind(AssertUnwindSafe(|| {
						let mut l = vec![];
						match w {
							0 => {
								l.push(format!("header b{} -> {}", trunk_a[h], subj.deliver_header(&blocks[trunk_a[h]].header)));
								if prng.chance(1, 2) {
									std::thread::yield_now();
								}
								l.push(format!("block b{} -> {}", trunk_a[h], subj.deliver_block(&blocks[trunk_a[h]])));
							}
							1 => {
								if let Some(s) = sibs_a[h] {
									l.push(format!("header b{} -> {}", s, subj.deliver_header(&blocks[s].header)));
									if prng.chance(1, 2) {
										std::thread::sleep(Duration::from_micros(prng.range(10, 400)));
									}
									l.push(format!("block b{} -> {}", s, subj.deliver_block(&blocks[s])));
								}
							}
							_ => {
								// header sync of both candidates of this height, in either order
								let mut hs: Vec<usize> = vec![trunk_a[h]];
								if let Some(s) = sibs_a[h] {
									if prng.chance(1, 2) { hs.push(s) } else { hs.insert(0, s) }
								}
								for i in hs {
									l.push(format!("sync_block_headers [b{}] -> {}", i, subj.sync_headers(&[blocks[i].header.clone()])));
								}
							}
						}
						l
					}));
					match r {
						Ok(l) => {
							for x in &l {
								let res = x.rsplit(" -> ").next().unwrap_or("");
								if !(res.starts_with("ok") || res == "err:Unfit") {
									bad.push(format!("a valid header / block was refused: {}", x));
								}
							}
							log.extend(l);
						}
						Err(_) => bad.push(format!("a delivery of height {} panicked (writer {})", h, w)),
					}
					if w == 0 {
						trunk_done.store(h, Ordering::SeqCst);
					}
					progress.fetch_add(1, Ordering::SeqCst);
				}
				let _ = txc.send((w, log, bad));
			});
		}
		let spawn_reader = |r: usize, subj: Arc<Subject>, done: Arc<AtomicBool>, progress: Arc<AtomicUsize>, txc: mpsc::Sender<(usize, Vec<String>, Vec<String>)>| {
			let (by_hash, parent, heights, hashes) = (by_hash.clone(), parent.clone(), heights.clone(), hashes.clone());
			std::thread::spawn(move || {
				setup_globals();
				let mut bad: Vec<String> = vec![];
				let mut n = 0u64;
				let mut last_work = 0u64;
				loop {
					let fin = done.load(Ordering::SeqCst);
					n += 1;
					let c = subj.c();
					let res = std::panic::catch_unwind(AssertUnwindSafe(|| -> Option<String> {
						if let Some(m) = strong_header_view(c, &by_hash, &parent, &heights, &hashes) {
							return Some(m);
						}
						let h = c.head().ok()?;
						if h.height > 0 && c.get_block(&h.last_block_h).is_err() {
							return Some(format!("head {} @ {} names a block that is not stored", h.last_block_h, h.height));
						}
						let w = h.total_difficulty.to_num();
						if w < last_work {
							return Some(format!("head work decreased {} -> {}", last_work, w));
						}
						last_work = w;
						None
					}));
					match res {
						Ok(Some(m)) => {
							if bad.len() < 2 {
								bad.push(m);
							}
						}
						Ok(None) => {}
						Err(_) => {
							if bad.len() < 2 {
								bad.push("a reader panicked".into());
							}
						}
					}
					progress.fetch_add(1, Ordering::SeqCst);
					if fin {
						break;
					}
					if n % 4 == 0 {
						std::thread::yield_now();
					}
				}
				let _ = txc.send((100 + r, vec![format!("views={}", n)], bad));
			})
		};
		for r in 0..n_readers {
			spawn_reader(r, subj.clone(), done.clone(), progress.clone(), txc.clone());
		}
		let mut logs: Vec<Vec<String>> = vec![vec![]; n_writers];
		let mut any_bad = false;
		let collect = |n_expect: usize, rxc: &mpsc::Receiver<(usize, Vec<String>, Vec<String>)>, logs: &mut Vec<Vec<String>>, any_bad: &mut bool, out: &mut Out, stats: &mut BTreeMap<String, u64>, phase: &str, done_after: Option<&AtomicBool>, writers: usize| {
			let stall = Duration::from_secs(if thorough { 120 } else { 60 });
			let mut finished = 0usize;
			let mut writers_left = writers;
			let mut last = (progress.load(Ordering::SeqCst), Instant::now());
			let mut pending_bad: Vec<(usize, Vec<String>)> = vec![];
			while finished < n_expect {
				match rxc.recv_timeout(Duration::from_millis(200)) {
					Ok((i, log, bad)) => {
						finished += 1;
						if i < 100 {
							if i < logs.len() {
								logs[i].extend(log);
							}
							writers_left = writers_left.saturating_sub(1);
							if writers_left == 0 {
								if let Some(d) = done_after {
									d.store(true, Ordering::SeqCst);
								}
							}
						} else {
							*stats.entry(format!("tie:reader-views:{}", phase)).or_insert(0) += log.get(0).and_then(|s| s.trim_start_matches("views=").parse::<u64>().ok()).unwrap_or(0);
						}
						if !bad.is_empty() {
							pending_bad.push((i, bad));
						}
					}
					Err(_) => {
						let c = progress.load(Ordering::SeqCst);
						if c != last.0 {
							last = (c, Instant::now());
							continue;
						}
						if last.1.elapsed() < stall {
							continue;
						}
						out.raw(&format!("#ORACLE-FAIL C17 deadlock tie round={} seed={} phase={}: no step of any thread completed for {:?}", round, seed, phase, stall));
						out.flush();
						std::process::exit(0);
					}
				}
			}
			for (i, bad) in pending_bad {
				*any_bad = true;
				for m in bad {
					let hist: Vec<String> = logs.iter().enumerate().map(|(t, l)| format!("thread {}: {}", t, l.join("; "))).collect();
					out.raw(&format!("{} phase {} ({}): {} | deliveries (concurrent, per thread): [{}]", tag, phase, if i >= 100 { "reader" } else { "writer" }, m, hist.join(" || ")));
				}
			}
		};
		collect(n_writers + n_readers, &rxc, &mut logs, &mut any_bad, out, &mut stats, "trunk+siblings", Some(&done), n_writers);
		let mid = subj.obs(kit);
		out.line(&format!("chain obs {}", name), &mid);
		if mid != twin_mid {
			out.raw(&format!("{} after the trunk and its equal-work siblings were delivered header-first from 3 threads the node is at [{}], the sequential twin at [{}]", tag, mid, twin_mid));
			any_bad = true;
		}
		if let Some(m) = strong_header_view(subj.c(), &by_hash, &parent, &heights, &hashes) {
			out.raw(&format!("{} after the join of phase 1: {}", tag, m));
			any_bad = true;
		}

		// --- the tail: twin sequentially (header T', header T'', block T'', block T', block C) ...
		{
			let mut step = |twin: &Subject, out: &mut Out, kind: &str, id: usize, history: &mut Vec<String>, twin_bad: &mut bool| {
				let r = if kind == "hdr" { twin.deliver_header(&kit.blks[id].block.header) } else { twin.deliver_block(&kit.blks[id].block) };
				out.line(&format!("chain {} {} b{}", kind, name, id), &r);
				history.push(format!("{} b{} (height {}, total work {}) -> {}", if kind == "hdr" { "header" } else { "block" }, id, kit.blks[id].height, kit.blks[id].work, r));
				if let Some(m) = strong_header_view(twin.c(), &by_hash, &parent, &heights, &hashes) {
					if !*twin_bad {
						out.raw(&format!("{} single thread, delivery history [{}]: {}", tag, history.join("; "), m));
					}
					*twin_bad = true;
				}
			};
			step(&twin, out, "hdr", t1, &mut history, &mut twin_bad);
			step(&twin, out, "hdr", t2, &mut history, &mut twin_bad);
			step(&twin, out, "deliver", t2, &mut history, &mut twin_bad);
			step(&twin, out, "deliver", t1, &mut history, &mut twin_bad);
			step(&twin, out, "deliver", cc, &mut history, &mut twin_bad);
		}
		let twin_end = twin.obs(kit);
		out.line(&format!("chain obs {}", name), &twin_end);
		let tv = twin.c().validate(false);
		let reopened = twin.reopen();
		out.line(&format!("chain reopen {}", name), &match &reopened { Ok(()) => "ok".to_string(), Err(e) => format!("err:{}", e) });
		match (&tv, &reopened) {
			(Ok(()), Ok(())) => {
				if let Some(m) = strong_header_view(twin.c(), &by_hash, &parent, &heights, &hashes) {
					out.raw(&format!("{} single thread, after the restart, delivery history [{}]: {}", tag, history.join("; "), m));
					twin_bad = true;
				}
				if let Err(e) = twin.c().validate(false) {
					out.raw(&format!("{} single thread: validate fails after the restart: {} - delivery history [{}]", tag, error_class(&e), history.join("; ")));
					twin_bad = true;
				}
				out.line(&format!("chain obs {}", name), &twin.obs(kit));
			}
			(v, r) => {
				out.raw(&format!("{} single thread: validate {:?} / restart {:?} after the delivery history [{}]", tag, v.as_ref().map_err(error_class), r, history.join("; ")));
				twin_bad = true;
			}
		}

		// --- ... the subject concurrently: two peers deliver T' and T'' header-first at the same time
		done.store(false, Ordering::SeqCst);
		let (txc2, rxc2) = mpsc::channel::<(usize, Vec<String>, Vec<String>)>();
		let gate = Arc::new(AtomicUsize::new(0));
		for (w, id) in [(0usize, t1), (1usize, t2)] {
			let (subj, progress, txc2, blocks, gate) = (subj.clone(), progress.clone(), txc2.clone(), blocks.clone(), gate.clone());
			std::thread::spawn(move || {
				setup_globals();
				let mut log = vec![];
				let mut bad = vec![];
				gate.fetch_add(1, Ordering::SeqCst);
				let t0 = Instant::now();
				while gate.load(Ordering::SeqCst) < 2 && t0.elapsed() < Duration::from_secs(5) {
					std::hint::spin_loop();
				}
				let r = std::panic::catch_unwind(AssertUnwindSafe(|| {
					let a = subj.deliver_header(&blocks[id].header);
					let b2 = subj.deliver_block(&blocks[id]);
					(a, b2)
				}));
				match r {
					Ok((a, b2)) => {
						if a != "ok" && a != "err:Unfit" {
							bad.push(format!("the header of b{} (equal work to its sibling) was refused: {}", id, a));
						}
						if !b2.starts_with("ok") && b2 != "err:Unfit" {
							bad.push(format!("block b{} (equal work to its sibling) was refused: {}", id, b2));
						}
						log.push(format!("header b{} -> {}", id, a));
						log.push(format!("block b{} -> {}", id, b2));
					}
					Err(_) => bad.push(format!("the delivery of b{} panicked", id)),
				}
				progress.fetch_add(1, Ordering::SeqCst);
				let _ = txc2.send((w, log, bad));
			});
		}
		for r in 0..n_readers {
			spawn_reader(r, subj.clone(), done.clone(), progress.clone(), txc2.clone());
		}
		let mut logs2: Vec<Vec<String>> = vec![vec![]; 2];
		collect(2 + n_readers, &rxc2, &mut logs2, &mut any_bad, out, &mut stats, "tip-tie", Some(&done), 2);
		let first = subj.c().head().map(|h| kit.bid(&h.last_block_h)).unwrap_or_default();
		*stats.entry(format!("tie:tip-winner={}", if first == format!("b{}", t1) { "first-built" } else if first == format!("b{}", t2) { "second-built" } else { "other" })).or_insert(0) += 1;
		if let Some(m) = strong_header_view(subj.c(), &by_hash, &parent, &heights, &hashes) {
			out.raw(&format!("{} after two peers delivered the equal-work tips b{} and b{} header-first at the same time [{} || {}]: {}", tag, t1, t2, logs2[0].join("; "), logs2[1].join("; "), m));
			any_bad = true;
		}
		let rc = subj.deliver_block(&kit.blks[cc].block);
		if !rc.starts_with("ok") {
			out.raw(&format!("{} the child b{} of the tip b{} is refused: {}", tag, cc, t2, rc));
			any_bad = true;
		}
		let end = subj.obs(kit);
		out.line(&format!("chain obs {}", name), &end);
		if end != twin_end {
			out.raw(&format!("{} after the equal-work tips and the deciding child the node is at [{}], the sequential twin at [{}]", tag, end, twin_end));
			any_bad = true;
		}
		if let Some(m) = strong_header_view(subj.c(), &by_hash, &parent, &heights, &hashes) {
			out.raw(&format!("{} after the deciding child b{}: {}", tag, cc, m));
			any_bad = true;
		}
		// --- validate, close, REOPEN, header view, validate
		let v1 = subj.c().validate(false);
		let mut verdict = "ok".to_string();
		match Arc::try_unwrap(subj) {
			Ok(mut s) => {
				let ro = s.reopen();
				match (&v1, &ro) {
					(Ok(()), Ok(())) => {
						if let Some(m) = strong_header_view(s.c(), &by_hash, &parent, &heights, &hashes) {
							out.raw(&format!("{} after the restart of the concurrently fed node: {}", tag, m));
							any_bad = true;
						}
						if let Err(e) = s.c().validate(false) {
							out.raw(&format!("{} validate fails after the restart of the concurrently fed node: {}", tag, error_class(&e)));
							any_bad = true;
						}
						let after = s.obs(kit);
						out.line(&format!("chain obs {}", name), &after);
						if after != twin_end {
							out.raw(&format!("{} after the restart the node is at [{}], before at [{}]", tag, after, twin_end));
							any_bad = true;
						}
					}
					(v, r) => {
						let hist: Vec<String> = logs.iter().chain(logs2.iter()).enumerate().map(|(t, l)| format!("thread {}: {}", t, l.join("; "))).collect();
						out.raw(&format!("{} validate {:?} / restart {:?} of the concurrently fed node; deliveries [{}]", tag, v.as_ref().map_err(error_class), r, hist.join(" || ")));
						verdict = "restart-fails".into();
					}
				}
			}
			Err(_) => out.raw(&format!("{} harness: the subject is still shared", tag)),
		}
		if twin_bad {
			verdict = "twin-failed".into();
		} else if any_bad && verdict == "ok" {
			verdict = "failed".into();
		}
		out.line(&format!("conc tie round={} trunk={} pairs={}", round, len, sibs.iter().filter(|s| s.is_some()).count() + 1), &verdict);
		out.flush();
	}
	for (k, v) in &stats {
		out.raw(&format!("#STAT {}={}", k, v));
	}
	out.flush();
}

/// Run `resets` (C17: the ops that move the chain head BACKWARDS or wipe state - `reset_chain_head`
/// (owner api), and the PIBD-failure sequence of state_sync.rs: `reset_pibd_head`,
/// `reset_chain_head_to_genesis`, `reset_prune_lists` - under one-view readers).
/// Phase 1: a node holding a chain of 12-16 blocks with transactions; a writer thread loops:
/// `reset_chain_head(block k, rewind_headers)` for a random k and flag, then delivers the blocks above
/// k again; a second writer calls `validate(fast)` / `compact()` / `get_merkle_proof`; two readers loop over
/// the `View` oracle (under `txhashset.read()`: MMR roots and sizes = those of the LMDB head header),
/// the strong header view (under `header_pmmr.read()`), and head-names-a-stored-block.  After the join
/// everything is delivered again: state = what it was, validate, close, REOPEN, validate.
/// Phase 2: the progress marker is set (`save_pibd_head(block k)`, as `Desegmenter::check_progress`
/// does), then the PIBD-failure sequence runs while the readers loop; afterwards: head = genesis, the
/// views hold, `store().pibd_head()` must be the genesis tip (what `reset_pibd_head` is for: otherwise
/// Chain::init of the next start takes the "PIBD in progress" branch of setup_head and skips the rewind
/// and root validation of the head); the blocks are delivered again: state = twin.
fn resets(out: &mut Out, work: &str, seed: u64, thorough: bool) {
	for (op, class) in [
		("reset_chain_head", "write"),
		("reset_chain_head_to_genesis", "write"),
		("reset_prune_lists", "write"),
		("reset_pibd_head", "other"),
		("validate", "write"),
		("compact", "write"),
		("get_merkle_proof", "write"),
		("process_block", "write"),
		("txhashset", "lockfree"),
		("header_pmmr", "lockfree"),
	] {
		out.line(&format!("conc opclass {}", op), class);
	}
	let rounds = if thorough { 6 } else { 2 };
	let mut stats: BTreeMap<String, u64> = BTreeMap::new();
	let mut rng = Rng::new(seed ^ 0x4E5E7);
	for round in 0..rounds {
		let tag = format!("#ORACLE-FAIL C17 resets round={} seed={}:", round, seed);
		let kit = Kit::new(&format!("{}/rs_builder{}", work, round));
		let mut b = Builder { kit, states: BTreeMap::new(), stats: BTreeMap::new(), reserved: Default::default() };
		let mut s0 = BTreeMap::new();
		s0.insert(0usize, (0u64, true));
		b.states.insert(0, s0);
		let top = rng.range(12, 17);
		let mut main = vec![0usize];
		let mut tip = 0usize;
		for h in 1..=top {
			let d = rng.range(1, 4);
			// even rounds: the block at height 4 spends the genesis coinbase output; odd rounds: nobody does
			if round % 2 == 1 {
				b.reserved.insert(0);
			}
			let forced = if round % 2 == 0 && h == 4 {
				let v = b.kit.outs[0].value;
				let specs = vec![TxSpec { inputs: vec![0], outputs: vec![(v / 3, None), (v - v / 3 - 2, None)], kernel: KSpec::Plain(2) }];
				match b.kit.new_block(tip, d, &specs) {
					Ok(id) => {
						let st = state_after(&b.kit, &b.states[&tip], &b.kit.blks[id].block);
						b.states.insert(id, st);
						Some(id)
					}
					Err(_) => None,
				}
			} else {
				None
			};
			match forced.or_else(|| b.add(&mut rng, tip, d, if h > 4 { 2 } else { 0 })) {
				Some(id) => {
					tip = id;
					main.push(id);
				}
				None => panic!("resets: cannot build the chain"),
			}
		}
		let kit = &b.kit;
		out.raw("chain reset");
		for l in kit.out_lines(0) {
			out.raw(&l);
		}
		for id in 0..kit.blks.len() {
			out.raw(&kit.blk_line(id));
		}
		let name = format!("rs{}", round);
		out.raw(&format!("chain new {}", name));
		let subj = Subject::new(&format!("{}/rs_subject{}", work, round), &kit.genesis);
		for id in main[1..].iter() {
			let r = subj.deliver_block(&kit.blks[*id].block);
			out.line(&format!("chain deliver {} b{}", name, id), &r);
		}
		let full_obs = subj.obs(kit);
		out.line(&format!("chain obs {}", name), &full_obs);
		let by_hash: Arc<HashMap<Hash, usize>> = Arc::new(kit.by_hash.clone());
		let parent: Arc<Vec<Option<usize>>> = Arc::new(kit.blks.iter().map(|r| r.parent).collect());
		let heights: Arc<Vec<u64>> = Arc::new(kit.blks.iter().map(|r| r.height).collect());
		let hashes: Arc<Vec<Hash>> = Arc::new(kit.blks.iter().map(|r| r.block.hash()).collect());
		let blocks: Arc<Vec<Block>> = Arc::new(main.iter().map(|i| kit.blks[*i].block.clone()).collect());
		let out_ids: Arc<Vec<grin_core::core::OutputIdentifier>> = Arc::new(
			kit.outs.iter().map(|o| grin_core::core::OutputIdentifier::new(if o.coinbase { grin_core::core::OutputFeatures::Coinbase } else { grin_core::core::OutputFeatures::Plain }, &o.commit)).collect(),
		);
		let subj = Arc::new(subj);
		let mut stuck = false;

		for phase in 1..=2u32 {
			let done = Arc::new(AtomicBool::new(false));
			let progress = Arc::new(AtomicUsize::new(0));
			let (txc, rxc) = mpsc::channel::<(usize, BTreeMap<String, u64>, Vec<String>)>();
			let n_threads;
			if phase == 1 {
				n_threads = 4;
				// W1: reset + redeliver
				{
					let (subj, blocks, progress, txc, done) = (subj.clone(), blocks.clone(), progress.clone(), txc.clone(), done.clone());
					let mut prng = Rng::new(rng.next() ^ 0x11);
					let iters = if thorough { 30 } else { 12 };
					std::thread::spawn(move || {
						setup_globals();
						let mut cnt: BTreeMap<String, u64> = BTreeMap::new();
						let mut bad: Vec<String> = vec![];
						let top = blocks.len() - 1;
						for _ in 0..iters {
							let k = prng.range(1, top as u64 - 1) as usize;
							let rh = prng.chance(1, 2);
							let r = std::panic::catch_unwind(AssertUnwindSafe(|| {
								let r = subj.c().reset_chain_head(grin_chain::Tip::from_header(&blocks[k].header), rh);
								let mut res = vec![];
								for i in (k + 1)..=top {
									res.push(subj.deliver_block(&blocks[i]));
								}
								(r, res)
							}));
							match r {
								Ok((r, res)) => {
									*cnt.entry(format!("reset_chain_head(rewind_headers={}):{}", rh, cls(&r))).or_insert(0) += 1;
									if let Err(e) = &r {
										bad.push(format!("reset_chain_head(block at height {}, rewind_headers={}) failed: {}", k, rh, error_class(e)));
									}
									for (j, x) in res.iter().enumerate() {
										*cnt.entry(format!("redeliver:{}", x)).or_insert(0) += 1;
										if !x.starts_with("ok") && x != "err:Unfit" {
											bad.push(format!("after reset_chain_head to height {} (rewind_headers={}) the block at height {} is refused: {}", k, rh, k + 1 + j, x));
										}
									}
								}
								Err(_) => bad.push(format!("reset_chain_head(height {}, rewind_headers={}) or the re-delivery panicked", k, rh)),
							}
							progress.fetch_add(1, Ordering::SeqCst);
							if bad.len() > 4 {
								break;
							}
						}
						done.store(true, Ordering::SeqCst);
						let _ = txc.send((0, cnt, bad));
					});
				}
				// W2: other write-lock ops
				{
					let (subj, blocks, progress, txc, done, out_ids) = (subj.clone(), blocks.clone(), progress.clone(), txc.clone(), done.clone(), out_ids.clone());
					let mut prng = Rng::new(rng.next() ^ 0x22);
					std::thread::spawn(move || {
						setup_globals();
						let mut cnt: BTreeMap<String, u64> = BTreeMap::new();
						let mut bad: Vec<String> = vec![];
						let mut n = 0;
						while !done.load(Ordering::SeqCst) && n < 3000 {
							n += 1;
							let r = std::panic::catch_unwind(AssertUnwindSafe(|| match prng.below(3) {
								0 => ("validate", cls(&subj.c().validate(true))),
								1 => ("compact", cls(&subj.c().compact())),
								_ => ("get_merkle_proof", cls(&subj.c().get_merkle_proof(out_ids[prng.below(out_ids.len() as u64) as usize], &prng.pick(&blocks[1..]).header))),
							}));
							match r {
								Ok((nm, k)) => {
									*cnt.entry(format!("{}:{}", nm, k)).or_insert(0) += 1;
									if nm != "get_merkle_proof" && k != "ok" {
										bad.push(format!("{} failed while another thread resets the head: {}", nm, k));
									}
								}
								Err(_) => bad.push("validate / compact / get_merkle_proof panicked".to_string()),
							}
							progress.fetch_add(1, Ordering::SeqCst);
							std::thread::sleep(Duration::from_micros(prng.range(50, 800)));
							if bad.len() > 4 {
								break;
							}
						}
						let _ = txc.send((1, cnt, bad));
					});
				}
			} else {
				n_threads = 3;
				// the PIBD-failure sequence of state_sync.rs
				let (subj, blocks, progress, txc, done) = (subj.clone(), blocks.clone(), progress.clone(), txc.clone(), done.clone());
				let k = rng.range(2, top - 1) as usize;
				std::thread::spawn(move || {
					setup_globals();
					let mut cnt: BTreeMap<String, u64> = BTreeMap::new();
					let mut bad: Vec<String> = vec![];
					let r = std::panic::catch_unwind(AssertUnwindSafe(|| -> Result<(), String> {
						let c = subj.c();
						// the progress marker, as Desegmenter::check_progress saves it
						{
							let store = c.store();
							let mut batch = store.batch().map_err(|e| format!("batch: {:?}", e))?;
							batch.save_pibd_head(&grin_chain::Tip::from_header(&blocks[k].header)).map_err(|e| format!("save_pibd_head: {:?}", e))?;
							batch.commit().map_err(|e| format!("commit: {:?}", e))?;
						}
						std::thread::sleep(Duration::from_millis(2));
						c.reset_pibd_head().map_err(|e| format!("reset_pibd_head: {}", error_class(&e)))?;
						c.reset_chain_head_to_genesis().map_err(|e| format!("reset_chain_head_to_genesis: {}", error_class(&e)))?;
						c.reset_prune_lists().map_err(|e| format!("reset_prune_lists: {}", error_class(&e)))?;
						std::thread::sleep(Duration::from_millis(2));
						Ok(())
					}));
					match r {
						Ok(Ok(())) => *cnt.entry("pibd-failure-sequence:ok".into()).or_insert(0) += 1,
						Ok(Err(e)) => bad.push(format!("the PIBD-failure sequence (marker at height {}) failed: {}", k, e)),
						Err(_) => bad.push("the PIBD-failure sequence panicked".to_string()),
					}
					progress.fetch_add(1, Ordering::SeqCst);
					done.store(true, Ordering::SeqCst);
					let _ = txc.send((0, cnt, bad));
				});
			}
			// readers
			for r in 0..2usize {
				let (subj, done, progress, txc) = (subj.clone(), done.clone(), progress.clone(), txc.clone());
				let (by_hash, parent, heights, hashes) = (by_hash.clone(), parent.clone(), heights.clone(), hashes.clone());
				std::thread::spawn(move || {
					setup_globals();
					let mut cnt: BTreeMap<String, u64> = BTreeMap::new();
					let mut bad: Vec<String> = vec![];
					let mut n = 0u64;
					loop {
						let fin = done.load(Ordering::SeqCst);
						n += 1;
						let c = subj.c();
						let res = std::panic::catch_unwind(AssertUnwindSafe(|| -> Option<String> {
							{
								let ts = c.txhashset();
								let g = ts.read();
								let hh = c.head_header().ok()?;
								let roots = g.roots().ok()?;
								// (the genesis header does not carry the roots of the genesis MMRs: sizes only at height 0)
								let ok = (hh.height == 0 || (roots.kernel_root == hh.kernel_root && roots.rproof_root == hh.range_proof_root && roots.output_root(&hh) == hh.output_root))
									&& g.kernel_mmr_size() == hh.kernel_mmr_size
									&& g.output_mmr_size() == hh.output_mmr_size;
								if !ok {
									return Some(format!(
										"view under txhashset.read(): the LMDB head header is {} @ {} (kernel MMR size {}, output MMR size {}) but the MMR state under the guard has kernel size {}, output size {}",
										hh.hash(), hh.height, hh.kernel_mmr_size, hh.output_mmr_size, g.kernel_mmr_size(), g.output_mmr_size()
									));
								}
							}
							if let Some(m) = strong_header_view(c, &by_hash, &parent, &heights, &hashes) {
								return Some(m);
							}
							let h = c.head().ok()?;
							if h.height > 0 && c.get_block(&h.last_block_h).is_err() {
								return Some(format!("head {} @ {} names a block that is not stored", h.last_block_h, h.height));
							}
							None
						}));
						match res {
							Ok(Some(m)) => {
								if bad.len() < 2 {
									bad.push(m);
								}
							}
							Ok(None) => {}
							Err(_) => {
								if bad.len() < 2 {
									bad.push("a reader panicked".into());
								}
							}
						}
						progress.fetch_add(1, Ordering::SeqCst);
						if fin {
							break;
						}
						if n % 4 == 0 {
							std::thread::yield_now();
						}
					}
					cnt.insert(format!("reader-views:phase{}", phase), n);
					let _ = txc.send((10 + r, cnt, bad));
				});
			}
			drop(txc);
			let stall = Duration::from_secs(if thorough { 120 } else { 60 });
			let mut finished = 0usize;
			let mut last = (progress.load(Ordering::SeqCst), Instant::now());
			while finished < n_threads {
				match rxc.recv_timeout(Duration::from_millis(300)) {
					Ok((i, cnt, bad)) => {
						finished += 1;
						for (k, v) in cnt {
							*stats.entry(format!("resets:{}", k)).or_insert(0) += v;
						}
						for m in bad {
							out.raw(&format!("{} phase {} ({}): {}", tag, phase, if i >= 10 { "reader" } else { "writer" }, m));
						}
					}
					Err(_) => {
						let c = progress.load(Ordering::SeqCst);
						if c != last.0 {
							last = (c, Instant::now());
							continue;
						}
						if last.1.elapsed() < stall {
							continue;
						}
						out.raw(&format!("#ORACLE-FAIL C17 deadlock resets round={} phase={} seed={}: no step of any thread completed for {:?}", round, phase, seed, stall));
						out.flush();
						std::process::exit(0);
					}
				}
			}
			let c = subj.c();
			let mut verdict = "ok".to_string();
			if phase == 2 {
				let h = c.head().unwrap();
				if h.height != 0 {
					out.raw(&format!("{} after reset_chain_head_to_genesis the head is at height {}", tag, h.height));
					verdict = "head-not-genesis".into();
				}
				match c.store().pibd_head() {
					Ok(t) if t.height == 0 => {}
					Ok(t) => {
						// behaviour of the code as it is (not a clause of C17; reported for a maintainer's eye):
						// reset_pibd_head opens a batch, saves the genesis tip into it and returns without commit
						let _ = &t;
						*stats.entry("resets:pibd-head-not-committed rounds (save_pibd_head(block k) committed, reset_pibd_head() Ok, store().pibd_head() still block k)".into()).or_insert(0) += 1;
					}
					Err(e) => out.raw(&format!("{} pibd_head() failed: {:?}", tag, e)),
				}
			}
			// deliver everything again: the node must be where it was
			let genesis_commit = kit.outs[0].commit;
			let mut genesis_probe = false;
			for i in 1..blocks.len() {
				let r = subj.deliver_block(&blocks[i]);
				if !r.starts_with("ok") && r != "err:Unfit" {
					let ins: Vec<grin_core::core::CommitWrapper> = blocks[i].inputs().into();
					if phase == 2 && r == "err:AlreadySpent" && ins.iter().any(|x| x.commitment() == genesis_commit) {
						// behaviour of the code as it is (not a clause of C17; reported for a maintainer's eye):
						// reset_chain_head_to_genesis saves head = genesis BEFORE re-initialising, so the rewind
						// walks no block back and the genesis output keeps its 'spent' state
						genesis_probe = true;
						*stats.entry(format!("resets:genesis-output-left-spent rounds (block at height {} spends the genesis coinbase; after reset_chain_head_to_genesis + reset_prune_lists the re-delivery stops there with AlreadySpent, validate = {})", i, cls(&c.validate(false)))).or_insert(0) += 1;
					} else {
						out.raw(&format!("{} phase {}: after the resets the block at height {} is refused: {}", tag, phase, i, r));
					}
					if !genesis_probe {
						verdict = "block-refused".into();
					}
					break;
				}
			}
			let now = subj.obs(kit);
			if !genesis_probe {
				out.line(&format!("chain obs {}", name), &now);
				if now != full_obs {
					out.raw(&format!("{} phase {}: after the resets and the re-delivery the node is at [{}], it was at [{}]", tag, phase, now, full_obs));
					verdict = "state-differs".into();
				}
				if let Err(e) = c.validate(false) {
					out.raw(&format!("{} phase {}: validate fails after the resets and the re-delivery: {}", tag, phase, error_class(&e)));
					verdict = "validate-fails".into();
				}
			} else {
				stuck = true;
			}
			out.line(&format!("conc resets round={} phase={} top={}", round, phase, top), &verdict);
			out.flush();
		}
		// close, REOPEN, validate
		if stuck {
			continue;
		}
		match Arc::try_unwrap(subj) {
			Ok(mut s) => match s.reopen() {
				Ok(()) => {
					if let Some(m) = strong_header_view(s.c(), &by_hash, &parent, &heights, &hashes) {
						out.raw(&format!("{} after the restart: {}", tag, m));
					}
					if let Err(e) = s.c().validate(false) {
						out.raw(&format!("{} validate fails after the restart: {}", tag, error_class(&e)));
					}
					out.line(&format!("chain obs {}", name), &s.obs(kit));
				}
				Err(e) => out.raw(&format!("{} the node does not restart after the resets: {}", tag, e)),
			},
			Err(_) => out.raw(&format!("{} harness: the subject is still shared", tag)),
		}
	}
	for (k, v) in &stats {
		out.raw(&format!("#STAT {}={}", k, v));
	}
	out.flush();
}

/// everything the ops of the pairwise matrix need
struct MatrixCtx {
	chain: Chain,
	trunk: Vec<Block>,
	fork: Vec<Block>,
	txs: Vec<Transaction>,
	commits: Vec<Commitment>,
	out_ids: Vec<grin_core::core::OutputIdentifier>,
	kernels: Vec<Commitment>,
	template: Block,
}

/// the public ops of the regenerated table that can be called any number of times on a live node and
/// leave it where it was (names = table names; a composite entry calls `segmenter()` / `desegmenter()`
/// first and is listed with those)
const MATRIX_OPS: &[&str] = &[
	"invalidate_header", "reset_chain_head", "reset_prune_lists", "reset_pibd_head", "process_block", "is_known",
	"process_block_header", "sync_block_headers", "is_orphan", "orphans_evicted_len", "get_unspent",
	"get_unspent_output_at", "validate_tx", "validate_inputs", "verify_coinbase_maturity", "verify_tx_lock_height",
	"validate", "set_prev_root_only", "set_txhashset_roots", "get_merkle_proof", "get_merkle_proof_for_pos",
	"txhashset_read", "segmenter", "desegmenter", "txhashset_archive_header", "txhashset_archive_header_header_only",
	"fork_point", "check_txhashset_needed", "compact", "get_last_n_output", "get_last_n_rangeproof", "get_last_n_kernel",
	"get_output_pos", "unspent_outputs_by_pmmr_index", "block_height_range_to_pmmr_indices", "orphans_len", "head",
	"tail", "header_head", "head_header", "get_block", "get_tail", "get_block_header", "get_previous_header",
	"get_block_sums", "get_header_by_height", "get_header_for_output", "get_kernel_height",
	"get_header_for_kernel_index", "get_locator_hashes", "difficulty_iter", "block_exists",
	"Segmenter::kernel_segment", "Segmenter::bitmap_segment", "Segmenter::output_segment",
	"Segmenter::rangeproof_segment", "Desegmenter::next_desired_segments", "Desegmenter::check_progress",
];

/// table names run by one call of matrix op `i` (for the model replay)
fn matrix_table_ops(name: &str) -> Vec<&str> {
	if name.starts_with("Segmenter::") {
		vec!["segmenter", name]
	} else if name.starts_with("Desegmenter::") {
		vec!["txhashset_archive_header_header_only", "desegmenter", name]
	} else if name == "sync_block_headers" {
		vec!["header_head", "sync_block_headers"]
	} else if name == "reset_chain_head" || name == "get_locator_hashes" {
		vec!["head_header", name]
	} else if name == "check_txhashset_needed" {
		vec!["fork_point", name]
	} else {
		vec![name]
	}
}

fn matrix_call(m: &MatrixCtx, name: &str, k: u64) -> String {
	use grin_chain::types::SyncState;
	let c = &m.chain;
	let pick = |n: usize| (k as usize * 7 + 3) % n.max(1);
	let ok = |r: bool| if r { "ok".to_string() } else { "err".to_string() };
	match name {
		"invalidate_header" => cls(&c.invalidate_header(Hash::from_vec(&[(k % 251) as u8 + 1; 32]))),
		"reset_chain_head" => match c.head_header() {
			Ok(h) => cls(&c.reset_chain_head(grin_chain::Tip::from_header(&h), k % 2 == 0)),
			Err(e) => format!("err:{}", error_class(&e)),
		},
		"reset_prune_lists" => cls(&c.reset_prune_lists()),
		"reset_pibd_head" => cls(&c.reset_pibd_head()),
		"process_block" => {
			let b = if k % 2 == 0 { &m.fork[pick(m.fork.len())] } else { &m.trunk[1 + pick(m.trunk.len() - 1)] };
			match c.process_block(b.clone(), Options::SKIP_POW) {
				Ok(_) => "ok".into(),
				Err(e) => format!("err:{}", error_class(&e)),
			}
		}
		"is_known" => cls(&c.is_known(&m.trunk[1 + pick(m.trunk.len() - 1)].header)),
		"process_block_header" => cls(&c.process_block_header(&m.fork[pick(m.fork.len())].header, Options::SKIP_POW)),
		"sync_block_headers" => match c.header_head() {
			Ok(hh) => {
				let a = 1 + pick(m.trunk.len() - 1);
				let e = (a + 3).min(m.trunk.len());
				let hs: Vec<BlockHeader> = m.trunk[a..e].iter().map(|b| b.header.clone()).collect();
				cls(&c.sync_block_headers(&hs, hh, Options::SKIP_POW))
			}
			Err(e) => format!("err:{}", error_class(&e)),
		},
		"is_orphan" => ok(c.is_orphan(&m.fork[0].hash()) || true),
		"orphans_evicted_len" => ok(c.orphans_evicted_len() < usize::MAX),
		"get_unspent" => cls(&c.get_unspent(m.commits[pick(m.commits.len())])),
		"get_unspent_output_at" => cls(&c.get_unspent_output_at(pick(20) as u64)),
		"validate_tx" => cls(&c.validate_tx(&m.txs[pick(m.txs.len())])),
		"validate_inputs" => cls(&c.validate_inputs(&m.txs[pick(m.txs.len())].inputs())),
		"verify_coinbase_maturity" => cls(&c.verify_coinbase_maturity(&m.txs[pick(m.txs.len())].inputs())),
		"verify_tx_lock_height" => cls(&c.verify_tx_lock_height(&m.txs[pick(m.txs.len())])),
		"validate" => cls(&c.validate(true)),
		"set_prev_root_only" => {
			let mut h = m.template.header.clone();
			cls(&c.set_prev_root_only(&mut h))
		}
		"set_txhashset_roots" => {
			let mut b = m.template.clone();
			cls(&c.set_txhashset_roots(&mut b))
		}
		"get_merkle_proof" => cls(&c.get_merkle_proof(m.out_ids[pick(m.out_ids.len())], &m.trunk[1 + pick(m.trunk.len() - 1)].header)),
		"get_merkle_proof_for_pos" => cls(&c.get_merkle_proof_for_pos(m.commits[pick(m.commits.len())])),
		"txhashset_read" => cls(&c.txhashset_read(m.trunk[1 + pick(m.trunk.len() - 1)].hash())),
		"segmenter" => cls(&c.segmenter()),
		"desegmenter" => match c.txhashset_archive_header_header_only() {
			Ok(h) => cls(&c.desegmenter(&h)),
			Err(e) => format!("err:{}", error_class(&e)),
		},
		"txhashset_archive_header" => cls(&c.txhashset_archive_header()),
		"txhashset_archive_header_header_only" => cls(&c.txhashset_archive_header_header_only()),
		"fork_point" => cls(&c.fork_point()),
		"check_txhashset_needed" => match c.fork_point() {
			Ok(fp) => cls(&c.check_txhashset_needed(&fp)),
			Err(e) => format!("err:{}", error_class(&e)),
		},
		"compact" => cls(&c.compact()),
		"get_last_n_output" => ok(c.get_last_n_output(3).len() <= 3),
		"get_last_n_rangeproof" => ok(c.get_last_n_rangeproof(3).len() <= 3),
		"get_last_n_kernel" => ok(c.get_last_n_kernel(3).len() <= 3),
		"get_output_pos" => cls(&c.get_output_pos(&m.commits[pick(m.commits.len())])),
		"unspent_outputs_by_pmmr_index" => cls(&c.unspent_outputs_by_pmmr_index(1, 30, None)),
		"block_height_range_to_pmmr_indices" => cls(&c.block_height_range_to_pmmr_indices(pick(5) as u64, None)),
		"orphans_len" => ok(c.orphans_len() <= grin_chain::MAX_ORPHAN_SIZE + 1),
		"head" => cls(&c.head()),
		"tail" => cls(&c.tail()),
		"header_head" => cls(&c.header_head()),
		"head_header" => cls(&c.head_header()),
		"get_block" => cls(&c.get_block(&m.trunk[1 + pick(m.trunk.len() - 1)].hash())),
		"get_tail" => cls(&c.get_tail()),
		"get_block_header" => cls(&c.get_block_header(&m.trunk[1 + pick(m.trunk.len() - 1)].hash())),
		"get_previous_header" => cls(&c.get_previous_header(&m.trunk[1 + pick(m.trunk.len() - 1)].header)),
		"get_block_sums" => cls(&c.get_block_sums(&m.trunk[1 + pick(m.trunk.len() - 1)].hash())),
		"get_header_by_height" => cls(&c.get_header_by_height(pick(m.trunk.len() + 1) as u64)),
		"get_header_for_output" => cls(&c.get_header_for_output(m.commits[pick(m.commits.len())])),
		"get_kernel_height" => cls(&c.get_kernel_height(&m.kernels[pick(m.kernels.len())], None, None)),
		"get_header_for_kernel_index" => cls(&c.get_header_for_kernel_index(1 + pick(12) as u64, None, None)),
		"get_locator_hashes" => match c.head_header() {
			Ok(h) => cls(&c.get_locator_hashes(grin_chain::Tip::from_header(&h), &[h.height, h.height / 2, 0])),
			Err(e) => format!("err:{}", error_class(&e)),
		},
		"difficulty_iter" => match c.difficulty_iter() {
			Ok(it) => ok(it.take(5).count() <= 5),
			Err(e) => format!("err:{}", error_class(&e)),
		},
		"block_exists" => cls(&c.block_exists(m.trunk[1 + pick(m.trunk.len() - 1)].hash())),
		"Segmenter::kernel_segment" | "Segmenter::bitmap_segment" | "Segmenter::output_segment" | "Segmenter::rangeproof_segment" => match c.segmenter() {
			Ok(sg) => {
				let id = SegmentIdentifier { height: if name.ends_with("bitmap_segment") { 0 } else { 2 }, idx: 0 };
				match name {
					"Segmenter::kernel_segment" => sg.kernel_segment(id).map(|_| ()).map_err(|e| error_class(&e)),
					"Segmenter::bitmap_segment" => sg.bitmap_segment(id).map(|_| ()).map_err(|e| error_class(&e)),
					"Segmenter::output_segment" => sg.output_segment(id).map(|_| ()).map_err(|e| error_class(&e)),
					_ => sg.rangeproof_segment(id).map(|_| ()).map_err(|e| error_class(&e)),
				}
				.map(|_| "ok".to_string())
				.unwrap_or_else(|e| format!("err:{}", e))
			}
			Err(e) => format!("err:{}", error_class(&e)),
		},
		"Desegmenter::next_desired_segments" | "Desegmenter::check_progress" => match c.txhashset_archive_header_header_only().and_then(|h| c.desegmenter(&h)) {
			Ok(d) => {
				let mut g = d.write();
				match g.as_mut() {
					Some(d) => {
						if name.ends_with("check_progress") {
							cls(&d.check_progress(Arc::new(SyncState::new())))
						} else {
							ok(d.next_desired_segments(6).len() <= 6)
						}
					}
					None => "err:none".into(),
				}
			}
			Err(e) => format!("err:{}", error_class(&e)),
		},
		_ => "unknown-op".into(),
	}
}

/// Run `matrix` (C17, the 'no call deadlocks' clause op against op): every unordered PAIR (A, B) of
/// the public ops of the regenerated table that can be called repeatedly on a live node (58 of the 86
/// entries; not: the one-shot / destructive ones - txhashset_write, reset_chain_head_to_genesis,
/// the Desegmenter install steps - which have runs of their own), A on one thread and B on another,
/// released together by a spin gate, each called twice, on ONE long-lived Chain holding a trunk of 26
/// blocks with transactions, a 3-block fork, with orphans, a cached segmenter and a desegmenter.
/// Both tiers run ALL 1711 pairs (thorough: three passes with other arguments).  Oracles: both threads return within
/// a generous bound (120 s, the pair in flight is named: `#ORACLE-FAIL C17 deadlock matrix …`),
/// nothing panics, and at the end the node is where it was and validates.  One line per pair for the
/// driver, which replays the two lock programs on the model's transition system (`conc pair`).
fn matrix(out: &mut Out, work: &str, seed: u64, thorough: bool) {
	let mut rng = Rng::new(seed ^ 0x3A7);
	let kit = Kit::new(&format!("{}/mx_builder", work));
	let mut b = Builder { kit, states: BTreeMap::new(), stats: BTreeMap::new(), reserved: Default::default() };
	let mut s0 = BTreeMap::new();
	s0.insert(0usize, (0u64, true));
	b.states.insert(0, s0);
	let mut main = vec![0usize];
	let mut tip = 0usize;
	for h in 1..=26u64 {
		match b.add(&mut rng, tip, 3, if h > 3 { 2 } else { 0 }) {
			Some(id) => {
				tip = id;
				main.push(id);
			}
			None => panic!("matrix: cannot build the trunk"),
		}
	}
	let mut fork = vec![];
	let mut ft = main[22];
	for _ in 0..3 {
		match b.add(&mut rng, ft, 1, 1) {
			Some(id) => {
				ft = id;
				fork.push(id);
			}
			None => panic!("matrix: cannot build the fork"),
		}
	}
	// transactions against the tip state: valid spends and already-spent ones
	let kit = &b.kit;
	let st = b.states[&tip].clone();
	let mut txs = vec![];
	for (o, (c, cb)) in st.iter().take(6) {
		let rec = &kit.outs[*o];
		if rec.value < 20 || (*cb && 27 < *c + MATURITY) {
			continue;
		}
		let key = grin_keychain::ExtKeychainPath::new(4, 900 + *o as u32, 0, 0, 0).to_identifier();
		if let Ok(tx) = make_tx(&kit.kc, &[(rec.value, rec.key_id.clone(), rec.coinbase)], &[(rec.value - 2, key)], KernelFeatures::Plain { fee: 2u32.into() }) {
			txs.push(tx);
		}
	}
	if txs.is_empty() {
		out.raw("#ORACLE-FAIL C17 matrix harness: no transaction could be built");
		return;
	}
	let prev = kit.blks[tip].block.header.clone();
	let key_id = grin_keychain::ExtKeychainPath::new(4, 7777, 0, 0, 0).to_identifier();
	let rw = grin_core::libtx::reward::output(&kit.kc, &grin_core::libtx::ProofBuilder::new(&kit.kc), &key_id, 0, false).unwrap();
	let mut template = Block::new(&prev, &[], grin_core::pow::Difficulty::from_num(1), rw).unwrap();
	template.header.timestamp = prev.timestamp + chrono::Duration::seconds(60);
	template.header.pow.total_difficulty = prev.total_difficulty() + grin_core::pow::Difficulty::from_num(1);

	let dir = format!("{}/mx_subject", work);
	let _ = std::fs::remove_dir_all(&dir);
	let chain = init_chain(&dir, kit.genesis.clone()).unwrap();
	for id in main[1..].iter() {
		chain.process_block(kit.blks[*id].block.clone(), Options::SKIP_POW).unwrap();
	}
	let mut kernels = vec![];
	for r in &kit.blks {
		for k in r.block.kernels() {
			kernels.push(k.excess);
		}
	}
	let m = Arc::new(MatrixCtx {
		chain,
		trunk: main.iter().map(|i| kit.blks[*i].block.clone()).collect(),
		fork: fork.iter().map(|i| kit.blks[*i].block.clone()).collect(),
		txs,
		commits: kit.outs.iter().map(|o| o.commit).collect(),
		out_ids: kit.outs.iter().map(|o| grin_core::core::OutputIdentifier::new(if o.coinbase { grin_core::core::OutputFeatures::Coinbase } else { grin_core::core::OutputFeatures::Plain }, &o.commit)).collect(),
		kernels,
		template,
	});
	let obs0 = {
		let (h, hh) = (m.chain.head().unwrap(), m.chain.header_head().unwrap());
		format!("head={} hhead={} roots={}", kit.bid(&h.last_block_h), kit.bid(&hh.last_block_h), chain_roots(&m.chain))
	};
	// --- every op once, alone (results as statistics; an unknown name is a harness error)
	let mut stats: BTreeMap<String, u64> = BTreeMap::new();
	for (i, name) in MATRIX_OPS.iter().enumerate() {
		let r = matrix_call(&m, name, i as u64);
		*stats.entry(format!("matrix:solo:{}:{}", name, r)).or_insert(0) += 1;
	}
	// --- the pairs
	let n = MATRIX_OPS.len();
	let mut pairs: Vec<(usize, usize)> = vec![];
	for i in 0..n {
		for j in i..n {
			pairs.push((i, j));
		}
	}
	if std::env::var("VERIF_MATRIX_SAMPLE").is_ok() {
		// (debugging aid) a sample: all pairs of two write-class ops, and at least 6 pairs per op
		let writers: Vec<usize> = (0..n)
			.filter(|i| {
				matches!(
					MATRIX_OPS[*i],
					"reset_chain_head" | "reset_prune_lists" | "process_block" | "process_block_header" | "sync_block_headers" | "validate_tx" | "verify_coinbase_maturity" | "validate" | "set_prev_root_only"
						| "set_txhashset_roots" | "get_merkle_proof" | "get_merkle_proof_for_pos" | "txhashset_read" | "segmenter" | "compact" | "get_locator_hashes" | "Desegmenter::check_progress"
				)
			})
			.collect();
		let mut chosen: std::collections::BTreeSet<(usize, usize)> = Default::default();
		for a in &writers {
			for b2 in &writers {
				if a <= b2 {
					chosen.insert((*a, *b2));
				}
			}
		}
		for i in 0..n {
			for _ in 0..6 {
				let j = rng.below(n as u64) as usize;
				chosen.insert((i.min(j), i.max(j)));
			}
		}
		pairs = chosen.into_iter().collect();
	}
	let bound = Duration::from_secs(if thorough { 240 } else { 120 });
	let t0 = Instant::now();
	let mut k = 0u64;
	let passes = if thorough { 3 } else { 1 };
	let all_pairs: Vec<(usize, usize)> = (0..passes).flat_map(|_| pairs.iter().cloned()).collect();
	for (i, j) in all_pairs.iter() {
		let (a, b2) = (MATRIX_OPS[*i], MATRIX_OPS[*j]);
		let gate = Arc::new(AtomicUsize::new(0));
		let (txc, rxc) = mpsc::channel::<(usize, Vec<String>, bool)>();
		for (side, name) in [(0usize, a), (1usize, b2)] {
			let (m, gate, txc) = (m.clone(), gate.clone(), txc.clone());
			let kk = k;
			std::thread::spawn(move || {
				setup_globals();
				gate.fetch_add(1, Ordering::SeqCst);
				let t0 = Instant::now();
				while gate.load(Ordering::SeqCst) < 2 && t0.elapsed() < Duration::from_millis(200) {
					std::hint::spin_loop();
				}
				let mut res = vec![];
				let mut panicked = false;
				for it in 0..2u64 {
					match std::panic::catch_unwind(AssertUnwindSafe(|| matrix_call(&m, name, kk * 2 + it + side as u64))) {
						Ok(r) => res.push(r),
						Err(_) => {
							panicked = true;
							res.push("panic".into());
						}
					}
				}
				let _ = txc.send((side, res, panicked));
			});
		}
		drop(txc);
		k += 1;
		let mut got = 0;
		while got < 2 {
			match rxc.recv_timeout(bound) {
				Ok((side, res, panicked)) => {
					got += 1;
					let name = if side == 0 { a } else { b2 };
					if panicked {
						out.raw(&format!("#ORACLE-FAIL C17 matrix seed={}: {} panicked while {} ran on another thread (results {:?})", seed, name, if side == 0 { b2 } else { a }, res));
					}
					for r in res {
						let class = if r == "ok" { "ok" } else if r == "panic" { "panic" } else { "err" };
						*stats.entry(format!("matrix:pair-calls:{}", class)).or_insert(0) += 1;
					}
				}
				Err(_) => {
					out.raw(&format!(
						"#ORACLE-FAIL C17 deadlock matrix seed={}: the pair ({} on one thread, {} on another, two calls each, released together) did not return within {:?} ({} of its 2 threads returned); {} pairs had completed before",
						seed, a, b2, bound, got, k - 1
					));
					for (kx, v) in &stats {
						out.raw(&format!("#STAT {}={}", kx, v));
					}
					out.flush();
					std::process::exit(0);
				}
			}
		}
		let pa: Vec<&str> = matrix_table_ops(a).into_iter().chain(matrix_table_ops(a)).collect();
		let pb: Vec<&str> = matrix_table_ops(b2).into_iter().chain(matrix_table_ops(b2)).collect();
		out.line(&format!("conc pair seed={} progs={},{}", k, pa.join("+"), pb.join("+")), "finished");
	}
	*stats.entry("matrix:pairs".into()).or_insert(0) += all_pairs.len() as u64;
	*stats.entry("matrix:ops".into()).or_insert(0) += n as u64;
	*stats.entry("matrix:wall_ms".into()).or_insert(0) += t0.elapsed().as_millis() as u64;
	// --- the node is where it was
	let obs1 = {
		let (h, hh) = (m.chain.head().unwrap(), m.chain.header_head().unwrap());
		format!("head={} hhead={} roots={}", kit.bid(&h.last_block_h), kit.bid(&hh.last_block_h), chain_roots(&m.chain))
	};
	let mut verdict = "ok".to_string();
	if obs0 != obs1 {
		out.raw(&format!("#ORACLE-FAIL C17 matrix seed={}: after the pairs the node is at [{}], it was at [{}]", seed, obs1, obs0));
		verdict = "state-differs".into();
	}
	if let Err(e) = m.chain.validate(false) {
		out.raw(&format!("#ORACLE-FAIL C17 matrix seed={}: validate fails after the pairs: {}", seed, error_class(&e)));
		verdict = "validate-fails".into();
	}
	out.line(&format!("conc matrix ops={} pairs={}", n, all_pairs.len()), &verdict);
	for (kx, v) in &stats {
		out.raw(&format!("#STAT {}={}", kx, v));
	}
	out.flush();
}

/// Run `orphans` (C17: the orphan pool - `OrphanBlockPool { orphans, height_idx, evicted }`, two
/// locks and a counter - beyond MAX_ORPHAN_SIZE under concurrent deliveries).  A chain of 215-230
/// blocks; the node has all headers but NOT block 1; three peers deliver blocks 2..N in a shuffled
/// order, partitioned, at the same time (every answer must be Orphan) while a reader polls
/// `orphans_len` / `is_orphan` / `head`.  Oracles: the pool never exceeds MAX_ORPHAN_SIZE (+1 while an
/// add is in flight); conservation: pooled + evicted = number of distinct orphans delivered (nothing
/// lost, nothing counted twice); `is_orphan` agrees with the count.  Then block 1 arrives: the cascade
/// must adopt exactly the consecutive heights that are pooled (head = the height below the first gap)
/// and leave exactly the pooled blocks above the gap.  Then the missing blocks are delivered again by
/// the three peers concurrently until the head is the tip: pool empty, validate, state = a node fed in
/// order = chain model.
fn orphans(out: &mut Out, work: &str, seed: u64, thorough: bool) {
	for (op, class) in [("process_block", "write"), ("sync_block_headers", "write"), ("is_orphan", "other"), ("orphans_len", "other"), ("orphans_evicted_len", "lockfree"), ("head", "lockfree")] {
		out.line(&format!("conc opclass {}", op), class);
	}
	let rounds = if thorough { 4 } else { 1 };
	let mut stats: BTreeMap<String, u64> = BTreeMap::new();
	let mut rng = Rng::new(seed ^ 0x0A9);
	for round in 0..rounds {
		let tag = format!("#ORACLE-FAIL C17 orphans round={} seed={}:", round, seed);
		let mut kit = Kit::new(&format!("{}/or_builder{}", work, round));
		let n = 215 + rng.below(16) as usize;
		let mut ids = vec![0usize];
		let mut tip = 0usize;
		for _ in 1..=n {
			match kit.new_block(tip, 1, &[]) {
				Ok(id) => {
					tip = id;
					ids.push(id);
				}
				Err(e) => panic!("orphans: cannot build the chain: {}", e),
			}
		}
		let kit = &kit;
		out.raw("chain reset");
		for l in kit.out_lines(0) {
			out.raw(&l);
		}
		for id in 0..kit.blks.len() {
			out.raw(&kit.blk_line(id));
		}
		let name = format!("or{}", round);
		out.raw(&format!("chain new {}", name));
		let twin = Subject::new(&format!("{}/or_twin{}", work, round), &kit.genesis);
		for id in ids[1..].iter() {
			let r = twin.deliver_block(&kit.blks[*id].block);
			out.line(&format!("chain deliver {} b{}", name, id), &r);
		}
		let twin_obs = twin.obs(kit);
		out.line(&format!("chain obs {}", name), &twin_obs);
		drop(twin);

		let subj = Subject::new(&format!("{}/or_subject{}", work, round), &kit.genesis);
		let headers: Vec<BlockHeader> = ids[1..].iter().map(|i| kit.blks[*i].block.header.clone()).collect();
		let r = subj.sync_headers(&headers);
		if r != "ok" {
			out.raw(&format!("{} harness: header sync failed: {}", tag, r));
			continue;
		}
		let subj = Arc::new(subj);
		let blocks: Arc<Vec<Block>> = Arc::new(ids.iter().map(|i| kit.blks[*i].block.clone()).collect());
		let max = grin_chain::MAX_ORPHAN_SIZE;
		// --- phase A: everything but block 1, shuffled, from three peers
		let mut order: Vec<usize> = (2..=n).collect();
		for i in (1..order.len()).rev() {
			let j = rng.below(i as u64 + 1) as usize;
			order.swap(i, j);
		}
		let done = Arc::new(AtomicBool::new(false));
		let (txc, rxc) = mpsc::channel::<(usize, Vec<String>)>();
		for p in 0..3usize {
			let (subj, blocks, txc) = (subj.clone(), blocks.clone(), txc.clone());
			let mine: Vec<usize> = order.iter().cloned().skip(p).step_by(3).collect();
			std::thread::spawn(move || {
				setup_globals();
				let mut bad = vec![];
				for h in mine {
					match std::panic::catch_unwind(AssertUnwindSafe(|| subj.deliver_block(&blocks[h]))) {
						Ok(r) => {
							if r != "err:Orphan" && bad.len() < 3 {
								bad.push(format!("the block at height {} (parent body unknown, header known) was answered {} instead of Orphan", h, r));
							}
						}
						Err(_) => bad.push(format!("process_block of the orphan at height {} panicked", h)),
					}
				}
				let _ = txc.send((p, bad));
			});
		}
		{
			let (subj, done, txc) = (subj.clone(), done.clone(), txc.clone());
			let probe: Vec<Hash> = blocks.iter().map(|b| b.hash()).collect();
			std::thread::spawn(move || {
				setup_globals();
				let mut bad = vec![];
				let mut i = 0usize;
				let mut peak = 0usize;
				while !done.load(Ordering::SeqCst) {
					i += 1;
					let r = std::panic::catch_unwind(AssertUnwindSafe(|| {
						let l = subj.c().orphans_len();
						let _ = subj.c().is_orphan(&probe[2 + i % (probe.len() - 2)]);
						let h = subj.c().head().map(|t| t.height).unwrap_or(u64::MAX);
						(l, h)
					}));
					match r {
						Ok((l, h)) => {
							peak = peak.max(l);
							if l > max + 1 && bad.len() < 2 {
								bad.push(format!("orphans_len() = {} while MAX_ORPHAN_SIZE = {}", l, max));
							}
							if h != 0 && bad.len() < 2 {
								bad.push(format!("the head moved to height {} although block 1 was never delivered", h));
							}
						}
						Err(_) => bad.push("a reader of the orphan pool panicked".to_string()),
					}
					std::thread::yield_now();
				}
				bad.push(format!("peak={}", peak));
				let _ = txc.send((9, bad));
			});
		}
		drop(txc);
		let mut failed = false;
		let mut got = 0;
		while got < 4 {
			match rxc.recv_timeout(Duration::from_secs(if thorough { 240 } else { 120 })) {
				Ok((p, bad)) => {
					got += 1;
					if got == 3 {
						done.store(true, Ordering::SeqCst);
					}
					for m in bad {
						if p == 9 && m.starts_with("peak=") {
							*stats.entry(format!("orphans:reader-peak-pool-size<={}", ((m[5..].parse::<usize>().unwrap_or(0) + 49) / 50) * 50)).or_insert(0) += 1;
						} else {
							failed = true;
							out.raw(&format!("{} phase A: {}", tag, m));
						}
					}
				}
				Err(_) => {
					out.raw(&format!("#ORACLE-FAIL C17 deadlock orphans round={} seed={}: three peers delivering {} orphans and a pool reader do not finish", round, seed, n - 1));
					out.flush();
					std::process::exit(0);
				}
			}
		}
		let c = subj.c();
		let pooled: Vec<usize> = (2..=n).filter(|h| c.is_orphan(&blocks[*h].hash())).collect();
		let (l, e) = (c.orphans_len(), c.orphans_evicted_len());
		*stats.entry(format!("orphans:after-phase-A pooled={} evicted={} delivered={}", l, e, n - 1)).or_insert(0) += 1;
		if l > max {
			out.raw(&format!("{} after {} distinct orphans the pool holds {} > MAX_ORPHAN_SIZE {}", tag, n - 1, l, max));
			failed = true;
		}
		if l + e != n - 1 {
			out.raw(&format!("{} conservation: {} distinct orphans were delivered (each once, all answered Orphan) but pooled {} + evicted {} = {}", tag, n - 1, l, e, l + e));
			failed = true;
		}
		if pooled.len() != l {
			out.raw(&format!("{} is_orphan() is true for {} of the delivered blocks but orphans_len() = {}", tag, pooled.len(), l));
			failed = true;
		}
		// --- block 1: the cascade
		let gap = (2..=n + 1).find(|h| !pooled.contains(h)).unwrap();
		let r1 = subj.deliver_block(&blocks[1]);
		let head = c.head().unwrap();
		let left: Vec<usize> = pooled.iter().cloned().filter(|h| *h > gap).collect();
		*stats.entry(format!("orphans:cascade adopted={} left={}", gap - 2, left.len())).or_insert(0) += 1;
		if !r1.starts_with("ok") || head.height != gap as u64 - 1 {
			out.raw(&format!(
				"{} block 1 delivered ({}) with the heights 2..{} pooled (first gap at {}): the head is at height {} instead of {}",
				tag, r1, gap - 1, gap, head.height, gap - 1
			));
			failed = true;
		}
		let l2 = c.orphans_len();
		let still: Vec<usize> = (2..=n).filter(|h| c.is_orphan(&blocks[*h].hash())).collect();
		if l2 != left.len() || still != left {
			out.raw(&format!("{} after the cascade the pool holds {} blocks (is_orphan true for {:?}…), expected the {} pooled blocks above the gap at {}", tag, l2, &still[..still.len().min(8)], left.len(), gap));
			failed = true;
		}
		// --- phase B: the rest, concurrently, until the head is the tip
		let (txc, rxc) = mpsc::channel::<(usize, Vec<String>)>();
		for p in 0..3usize {
			let (subj, blocks, txc) = (subj.clone(), blocks.clone(), txc.clone());
			let mut prng = Rng::new(rng.next() ^ (p as u64 * 0x17));
			std::thread::spawn(move || {
				setup_globals();
				let mut bad = vec![];
				let n = blocks.len() - 1;
				for _pass in 0..60 {
					let head = subj.c().head().map(|t| t.height as usize).unwrap_or(0);
					if head >= n {
						break;
					}
					// a window above the head, in a random order
					let mut hs: Vec<usize> = ((head + 1)..=(head + 40).min(n)).collect();
					for i in (1..hs.len()).rev() {
						let j = prng.below(i as u64 + 1) as usize;
						hs.swap(i, j);
					}
					for h in hs {
						match std::panic::catch_unwind(AssertUnwindSafe(|| subj.deliver_block(&blocks[h]))) {
							Ok(r) => {
								if !(r.starts_with("ok") || r == "err:Orphan" || r == "err:Unfit") && bad.len() < 3 {
									bad.push(format!("the block at height {} was answered {}", h, r));
								}
							}
							Err(_) => bad.push(format!("process_block of height {} panicked", h)),
						}
					}
				}
				let _ = txc.send((p, bad));
			});
		}
		drop(txc);
		for _ in 0..3 {
			match rxc.recv_timeout(Duration::from_secs(if thorough { 240 } else { 120 })) {
				Ok((_, bad)) => {
					for m in bad {
						failed = true;
						out.raw(&format!("{} phase B: {}", tag, m));
					}
				}
				Err(_) => {
					out.raw(&format!("#ORACLE-FAIL C17 deadlock orphans round={} seed={}: three peers delivering the remaining blocks out of order do not finish", round, seed));
					out.flush();
					std::process::exit(0);
				}
			}
		}
		let now = subj.obs(kit);
		out.line(&format!("chain obs {}", name), &now);
		if now != twin_obs {
			out.raw(&format!("{} after all blocks were delivered out of order through the orphan pool the node is at [{}], a node fed in order at [{}]", tag, &now[..now.len().min(60)], &twin_obs[..twin_obs.len().min(60)]));
			failed = true;
		}
		if c.orphans_len() != 0 {
			out.raw(&format!("{} the head is the tip but the orphan pool still holds {} blocks", tag, c.orphans_len()));
			failed = true;
		}
		if let Err(e) = c.validate(true) {
			out.raw(&format!("{} validate(fast) fails: {}", tag, error_class(&e)));
			failed = true;
		}
		out.line(&format!("conc orphans round={} blocks={} max={}", round, n, max), if failed { "failed" } else { "ok" });
		out.flush();
	}
	for (k, v) in &stats {
		out.raw(&format!("#STAT {}={}", k, v));
	}
	out.flush();
}

fn main() {
	quiet_panics();
	setup_globals();
	let args: Vec<String> = std::env::args().collect();
	let mode = args.get(1).map(|s| s.as_str()).unwrap_or("mix");
	let work = std::env::var("VERIF_WORK").unwrap_or_else(|_| "work/conc.d".to_string());
	let _ = std::fs::create_dir_all(&work);
	let mut out = Out::stdout();
	let mut rng = Rng::new(seed_from_env() ^ 0xC17);
	let mut stats: BTreeMap<String, u64> = BTreeMap::new();
	if mode == "selftest" {
		selftest(&mut out, &work);
		return;
	}
	if mode == "probe" {
		probe(&mut out, &work);
		return;
	}
	if mode == "nestread" {
		nestread(&mut out, &work, seed_from_env(), tier_thorough());
		return;
	}
	if mode == "segcache" {
		segcache(&mut out, &work, seed_from_env(), tier_thorough());
		segcache_probe(&mut out, &work, seed_from_env());
		out.flush();
		return;
	}
	if mode == "txcount" {
		txcount(&mut out, &work, seed_from_env(), tier_thorough());
		return;
	}
	if mode == "orphans" {
		orphans(&mut out, &work, seed_from_env(), tier_thorough());
		return;
	}
	if mode == "matrix" {
		matrix(&mut out, &work, seed_from_env(), tier_thorough());
		return;
	}
	if mode == "resets" {
		resets(&mut out, &work, seed_from_env(), tier_thorough());
		return;
	}
	if mode == "tie" {
		tie(&mut out, &work, seed_from_env(), tier_thorough());
		return;
	}
	if mode == "zipwin" {
		zipwin(&mut out, &work, seed_from_env(), tier_thorough());
		return;
	}
	if mode == "pibd" {
		pibd(&mut out, &work, seed_from_env(), tier_thorough());
		return;
	}

	// what the harness assumes about the locking of the ops it drives (checked against the
	// regenerated lock table by the driver)
	for (op, class) in [
		("process_block", "write"),
		("process_block_header", "write"),
		("sync_block_headers", "write"),
		("validate_tx", "write"),
		("set_txhashset_roots", "write"),
		("segmenter", "write"),
		("compact", "write"),
		("validate", "write"),
		("get_unspent", "read-ts"),
		("get_header_for_output", "read-ts"),
		("get_kernel_height", "read-ts"),
		("get_last_n_kernel", "read-ts"),
		("Segmenter::kernel_segment", "read-ts"),
		("Segmenter::output_segment", "read-ts"),
		("get_header_by_height", "read-hp"),
		("head", "lockfree"),
		("head_header", "lockfree"),
		("header_head", "lockfree"),
		("get_block", "lockfree"),
		("txhashset", "lockfree"),
		("header_pmmr", "lockfree"),
		("get_merkle_proof", "write"),
		("get_locator_hashes", "write"),
		("verify_coinbase_maturity", "write"),
		("validate_inputs", "read-ts"),
		("unspent_outputs_by_pmmr_index", "read-ts"),
		("get_last_n_output", "read-ts"),
		("get_last_n_rangeproof", "read-ts"),
		("get_output_pos", "read-ts"),
		("get_unspent_output_at", "read-ts"),
		("block_height_range_to_pmmr_indices", "read-hp"),
		("fork_point", "read-hp"),
		("is_orphan", "other"),
		("orphans_len", "other"),
	] {
		out.line(&format!("conc opclass {}", op), class);
	}

	out.line("conc tablecheck", "ok");

	// how many separate views of the chain state each reader combines (checked against `views` over the
	// regenerated table): the one-view oracles of `exec` (PmmrIndex, Locator, View/HeaderView through the
	// Arcs) are applied to single-view ops only; the multi-view readers are classified, their results
	// are only checked for what holds across views
	for (op, n) in [
		("get_unspent", 1),
		("get_unspent_output_at", 1),
		("validate_inputs", 1),
		("get_merkle_proof", 1),
		("get_locator_hashes", 1),
		("get_last_n_output", 1),
		("get_last_n_rangeproof", 1),
		("get_last_n_kernel", 1),
		("get_output_pos", 1),
		("unspent_outputs_by_pmmr_index", 1),
		("get_header_for_output", 1),
		("set_txhashset_roots", 1),
		("head", 1),
		("head_header", 1),
		("header_head", 1),
		("get_block", 1),
		("get_header_by_height", 2),
		("validate_tx", 2),
		("verify_coinbase_maturity", 4),
		("fork_point", 4),
		("block_height_range_to_pmmr_indices", 5),
		("get_kernel_height", 8),
	] {
		out.line(&format!("conc views {}", op), &n.to_string());
	}

	let thorough = tier_thorough();
	let mut cfgs = vec![];
	match mode {
		"race" => {
			// readers biased towards get_kernel_height racing with reorgs (regression hunt for the
			// fixed get_header_for_kernel_index spin); any hang is an #ORACLE-FAIL
			let k = if thorough { 6 } else { 2 };
			for i in 0..k {
				cfgs.push(RunCfg { run: 200 + i, threads: vec![8, 6, 8, 7, 8, 5, 8, 8], long: false, kernel_height: true });
			}
		}
		"long" => {
			// a trunk long enough for compaction to prune while the other threads run
			let k = if thorough { 3 } else { 1 };
			for i in 0..k {
				cfgs.push(RunCfg { run: 100 + i, threads: if thorough { vec![3, 5, 8] } else { vec![4, 7] }, long: true, kernel_height: false });
			}
		}
		_ => {
			let k = if thorough { 12 } else { 2 };
			for i in 0..k {
				let threads = if thorough {
					vec![2, 3, 4, 5, 6, 7, 8, 8, 4, 2]
				} else if i == 0 {
					vec![2, 3, 4, 5, 6, 7, 8, 8]
				} else {
					vec![8, 7, 6, 5, 4, 3, 2, 8]
				};
				cfgs.push(RunCfg { run: i, threads, long: false, kernel_height: false });
			}
		}
	}
	for cfg in &cfgs {
		run(&mut out, &mut rng, &work, cfg, &mut stats);
	}
	for (k, v) in &stats {
		out.raw(&format!("#STAT {}={}", k, v));
	}
	out.flush();
}
